"""mutation battery for the loaders unit: apply each textual mutation to the private copy, run the check, restore."""
import subprocess, sys, os, re
WT = "/tmp/gv-loaders"
RP = "/tmp/gv-loaders-repo"
JD = "gcmpy/joint_degree/joint_degree.py"
LD = "gcmpy/joint_degree/joint_degree_loaders/"
M = [
 # id, property, file, old, new, description
 ("C05-m1", "C05", JD, "random.randrange(0, len(jds))", "random.randrange(0, len(jds) - 1) if len(jds) > 1 else 0", "patch position never the last vertex (biased choice)"),
 ("C05-m2", "C05", JD, "                    t[i] += 1\n", "                    t[0] += 1\n", "stub added to topology 0 instead of i (swapped index)"),
 ("C05-m3", "C05", JD, "            if ntop % self._motif_sizes[i] != 0:\n", "            if True:\n", "guard dropped: a full extra motif when already divisible (non-minimal)"),
 ("C05-m4", "C05", JD, "jds = random.choices(population=keys, weights=weights, k=N)", "jds = random.choices(population=keys, k=N)", "weights dropped (uniform draw)"),
 ("C05-m5", "C05", JD, "jds[j] = tuple(t)", "jds[j] = tuple(t) if i == 0 else t", "tuple conversion only for the first topology"),
 ("C05-m6", "C05", JD, "for j in range(self._motif_sizes[i] - ntop % self._motif_sizes[i]):", "for j in range(self._motif_sizes[i] - ntop % self._motif_sizes[0]):", "remainder taken w.r.t. size of topology 0"),
 ("C05-m7", "C05", JD, "k=N)\n        return self.handshaking_lemma(jds)", "k=max(N, 2))\n        return self.handshaking_lemma(jds)", "N=1 returns two entries (unusual input)"),
 ("C05-m8", "C05", JD, "keys = list(self._jdd.keys())", "keys = sorted(self._jdd.keys())", "keys sorted but weights not (weights attached to the wrong keys)"),
 ("C05-m9", "C05", JD, "        ntops = list(map(sum, zip(*jds)))\n        for i, ntop in enumerate(ntops):\n", "        for i in range(len(self._motif_sizes)):\n            ntop = sum(jd[i] for jd in jds) + i\n", "column total off by the column index"),
 ("C05-m10", "C05", JD, "                    t = list(jds[j])\n", "                    t = list(jds[j - 1])\n", "patched entry copied from the neighbouring vertex"),
 ("C05-m11", "C05", JD, "        ntops = list(map(sum, zip(*jds)))\n", "        if not hasattr(self, '_nt'):\n            self._nt = list(map(sum, zip(*jds)))\n        ntops = self._nt\n", "column totals cached on the loader: stale on a second call"),
 ("C06-m1", "C06", LD+"joint_degree_marginal.py", "ks.append([k for k in range(kmin, kmax)])", "ks.append([k for k in range(kmin, kmax + 1)])", "direct mode uses the closed range"),
 ("C06-m2", "C06", LD+"joint_degree_marginal.py", "            self._jdd[key] = self.evaluate_prob_of_joint_degree(key)\n        self.normalise_jdd()", "            self._jdd[key] = self.evaluate_prob_of_joint_degree(key)", "normalisation dropped"),
 ("C06-m3", "C06", LD+"joint_degree_marginal.py", "prod *= self._arr_fp[i](deg)", "prod *= self._arr_fp[0](deg)", "every dimension evaluated with the first marginal"),
 ("C06-m4", "C06", LD+"joint_degree_marginal.py", "ks = [k for k in range(kmin, kmax + 1)]  # possible degrees", "ks = [k for k in range(kmin, kmax)] or [kmin]  # possible degrees", "sampling mode loses kmax"),
 ("C06-m5", "C06", JD, "self._jdd[k] = v / n_samples", "self._jdd[k] = v / max(len(d), 1) if len(d) > 2 else v / n_samples", "frequency divided by number of distinct keys when > 2 keys"),
 ("C06-m6", "C06", LD+"joint_degree_function.py", "list(range(kmin, kmax + 1)) for kmin", "list(range(kmin + 1, kmax + 1)) if kmin == 0 else list(range(kmin, kmax + 1)) for kmin", "function loader drops degree 0"),
 ("C06-m7", "C06", LD+"joint_degree_function.py", "            self._jdd[jd] = self._fp(jd)\n", "            self._jdd[jd] = self._fp(jd)\n        self.normalise_jdd()\n", "function loader normalises"),
 ("C06-m8", "C06", LD+"joint_degree_marginal.py", "pks = [self._arr_fp[i](k) for k in ks]", "pks = [self._arr_fp[i](k) for k in ks[::-1]]", "sampling weights reversed against the population"),
 ("C06-m9", "C06", JD, "        n_samples: int = len(jds)\n        self._jdd = {}\n", "        n_samples: int = len(jds)\n        self._jdd = self._jdd or {}\n", "frequency table not reset: second create_jdd keeps stale keys"),
 ("C06-m10", "C06", LD+"joint_degree_manual.py", "    def create_jdd(self) -> None:\n        return", "    def create_jdd(self) -> None:\n        if getattr(self, '_seen', False):\n            self.normalise_jdd()\n        self._seen = True\n        return", "manual loader normalises on the dispatcher's second create_jdd only"),
 ("C06-m11", "C06", LD+"joint_degree_marginal.py", "for jd in np.column_stack(ret).tolist()", "for jd in np.column_stack(ret[::-1]).tolist()", "sampled dimensions stacked in reverse order"),
 ("C06-m12", "C06", "gcmpy/joint_degree/joint_degree_factory.py", "        elif type == JointDegreeType.JOINT_FUNCTION:\n            return JointDegreeFunction(params)", "        elif type == JointDegreeType.JOINT_FUNCTION:\n            p = dict(params)\n            p[JointDegreeNames.LOW_HIGH_DEGREE_BOUND] = [(a, b - 1) for a, b in p[JointDegreeNames.LOW_HIGH_DEGREE_BOUND]]\n            return JointDegreeFunction(p)", "factory shrinks the function loader's box (dispatcher differs from direct)"),
 ("C08-m1", "C08", LD+"joint_degree_cover.py", "for i in reversed(indxs):", "for i in indxs:", "ascending deletion (half of the repair)"),
 ("C08-m2", "C08", LD+"joint_degree_cover.py", "        if min(vertex_ids) != zero_index:\n            zero_index = 1", "        if min(vertex_ids) > 1:\n            zero_index = 1", "1-based covers treated as 0-based"),
 ("C08-m3", "C08", LD+"joint_degree_cover.py", "largest_clique = len(max(self._cover, key=len))", "largest_clique = len(max(self._cover))", "largest taken as lexicographic max"),
 ("C08-m4", "C08", LD+"joint_degree_cover.py", "self._motif_sizes = sorted(list(set([len(c) for c in self._cover])))", "self._motif_sizes = sorted(list(set([len(c) for c in self._cover])), reverse=True)", "motif sizes descending"),
 ("C08-m5", "C08", LD+"joint_degree_cover.py", "if not any(top)]", "if not top[0]]", "zero-column test looks at vertex 0 only"),
 ("C08-m6", "C08", LD+"joint_degree_cover.py", "for _ in range(len(vertex_ids)):", "for _ in range(max(vertex_ids) + 1 - zero_index + (1 if zero_index else 0) - (1 if zero_index else 0)):" , "row count from max id (equal on valid covers: must NOT be flagged)"),
 ("C08-m7", "C08", LD+"joint_degree_cover.py", "            for vertex in c:\n", "            for vertex in c[:4]:\n", "only the first four members of a clique are counted"),
 ("C08-m8", "C08", LD+"joint_degree_cover.py", "self._motif_sizes = sorted(list(set([len(c) for c in self._cover])))", "self._motif_sizes = list(range(min(len(c) for c in self._cover), max(len(c) for c in self._cover) + 1))", "motif sizes = full range min..max (non-adjacent sizes gain phantom sizes)"),
 ("C08-m9", "C08", LD+"joint_degree_cover.py", "        jds = [tuple(jd) for jd in jds]\n", "        jds = [tuple(jd) for jd in jds]\n        self._cover = self._cover[:-1] if len(self._cover) > 2 else self._cover\n", "second create_jdd sees a truncated cover (dispatcher path only)"),
]
only = sys.argv[1:] 
res = []
for mid, pid, f, old, new, desc in M:
    if only and not any(mid.startswith(o) for o in only):
        continue
    path = os.path.join(RP, f)
    src = open(path).read()
    if src.count(old) != 1:
        print(mid, "PATTERN-NOT-UNIQUE", src.count(old)); continue
    open(path, "w").write(src.replace(old, new))
    try:
        env = dict(os.environ, GCMPY_REPO=RP, GV_JOBS="4")
        p = subprocess.run(["./check", pid], cwd=WT, env=env, capture_output=True, text=True, timeout=900)
        lines = [l for l in p.stdout.split("\n") if l.startswith(("VIOLATION", "OK", "KNOWN"))]
        concrete = any(l.startswith("VIOLATION") and "no-failing-input-found" not in l for l in lines)
        status = "CAUGHT" if concrete and p.returncode == 1 else ("CORR-ONLY" if p.returncode == 1 else "MISSED")
        print(f"{mid:8s} {status:10s} {desc} :: {lines[0] if lines else p.stderr[-300:]}")
        res.append((mid, status))
    finally:
        subprocess.run(["git", "-C", RP, "checkout", "--", "."], check=True)
