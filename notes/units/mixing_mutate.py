"""apply one textual mutation to the private copy, run the check, restore. usage: mutate.py PID name"""
import subprocess, sys, os
R = "/tmp/gv-mixing-repo"
T = R + "/gcmpy/tools/"
MUT = {
 # ---------- C13
 "c13_m1_selfpair_half": ("C13", T+"joint_excess_joint_degree.py", "(1.0 / (self._num_edges[name]))", "(0.5 / (self._num_edges[name]))"),
 "c13_m2_key2_to_key1": ("C13", T+"joint_excess_joint_degree.py", "ejk[key2] = ejk.get(key2, 0) + (0.5", "ejk[key1] = ejk.get(key1, 0) + (0.5"),
 "c13_m3_count_all_edges": ("C13", T+"joint_excess_joint_degree.py", "self._num_edges[topology] = self._num_edges.get(topology, 0) + 1", "self._num_edges[topology] = len(self._G.edges())"),
 "c13_m4_xkeys_bound": ("C13", T+"joint_excess_joint_degree.py", "if jd[i] > 0:", "if jd[i] > 1:"),
 "c13_m5_accumulating_matrix": ("C13", T+"joint_excess_joint_degree.py", "        ejk = {}\n        for e in self._G.edges():\n            if self._G.edges[e][NetworkNames.TOPOLOGY] == name:", "        ejk = self._excess_degree_keys.setdefault(('acc', name), {}) if False else self.__dict__.setdefault('_acc', {}).setdefault(name, {})\n        for e in self._G.edges():\n            if self._G.edges[e][NetworkNames.TOPOLOGY] == name:"),
 "c13_m6_plain_partner_degree": ("C13", T+"joint_excess_degree.py", "v_excess_degree = v_degree - 1", "v_excess_degree = v_degree"),
 "c13_m7_partner_index0": ("C13", T+"joint_excess_joint_degree.py", "v_joint_degree[i] -= 1", "v_joint_degree[0] -= 1"),
 "c13_m8_plain_edge_count": ("C13", T+"joint_excess_degree.py", "num_edges = len(G.edges())", "num_edges = G.number_of_nodes()"),
 "c13_m9_reset_only_first_time": ("C13", T+"joint_excess_joint_degree.py", "        self._num_edges = {}\n        for e in self._G.edges():", "        if len(self._num_edges) > 1:\n            self._num_edges = {}\n        for e in self._G.edges():"),
 # ---------- C14
 "c14_n1_forward_ge0": ("C14", T+"joint_excess_from_jdd.py", "if _joint_degree[index] > 0:", "if _joint_degree[index] > 1:"),
 "c14_n2_forward_avg0": ("C14", T+"joint_excess_from_jdd.py", ") / averages[index]", ") / averages[0]"),
 "c14_n3_invert_top_index": ("C14", T+"joint_degree_from_excess.py", "            top = qk[joint_excess] / (joint_excess[i] + 1)", "            top = qk[joint_excess] / (joint_excess[0] + 1)"),
 "c14_n4_scale_inverted": ("C14", T+"joint_degree_from_excess.py", "scale_factor = base_value / p_obs[topology][common_key]", "scale_factor = p_obs[topology][common_key] / base_value"),
 "c14_n5_rows_transposed": ("C14", T+"joint_excess_from_ejk.py", "q[left_key] = q.get(left_key, 0.0) + ejk[left_key + right_key]", "q[left_key] = q.get(left_key, 0.0) + ejk.get(right_key + left_key, 0.0)"),
 "c14_n6_jdd_dropped_update": ("C14", T+"joint_degree_distribution_from_network.py", "PK[key] = PK.get(key, 0) + (1.0 / num_vertices)", "PK[key] = PK.get(key, 1.0 / num_vertices)"),
 "c14_n7_mean_range": ("C14", T+"average_joint_degree_from_jdd.py", "for index in range(num_topologies):", "for index in range(max(1, num_topologies - 1)):"),
 "c14_n8_halves_off_by_one": ("C14", T+"joint_excess_joint_degree_matrices.py", "C = A[len(A) // 2 :]", "C = A[len(A) // 2 + (len(A) > 4) :]"),
 "c14_n9_no_renormalise_when_close": ("C14", T+"joint_degree_from_excess.py", "        for k in P:\n            P[k] /= total", "        if abs(total - 1) > 0.2:\n            for k in P:\n                P[k] /= total"),
 "c14_n10_merge_skips_reference_zero": ("C14", T+"joint_degree_from_excess.py", "        for topology in p_obs:\n            P.update(p_obs[topology])", "        for topology in reversed(list(p_obs)):\n            for kk, vv in p_obs[topology].items():\n                P[kk] = max(P.get(kk, 0.0), vv)"),
 "c14_n12_jdd_divides_by_edges": ("C14", T+"joint_degree_distribution_from_network.py", "num_vertices = G.order()", "num_vertices = max(1, G.number_of_edges())"),
 "c14_n13_base_from_last": ("C14", T+"joint_degree_from_excess.py", "base_value = p_obs[choesn_topology][common_key]", "base_value = p_obs[keys[-1]][common_key]"),
 "c14_n14_invert_bottom_skips_zero_excess": ("C14", T+"joint_degree_from_excess.py", "[(qk[joint_excess] / (joint_excess[i] + 1)) for joint_excess in qk]", "[(qk[joint_excess] / (joint_excess[i] + 1)) for joint_excess in qk if joint_excess[i] > 0 or len(qk) < 3]"),
 "c14_n11_reference_last": ("C14", T+"joint_degree_from_excess.py", "choesn_topology = keys[0]", "choesn_topology = sorted(keys)[0]"),
}
def run(name):
    pid, path, old, new = MUT[name]
    src = open(path).read()
    assert src.count(old) == 1, (name, src.count(old))
    open(path, "w").write(src.replace(old, new))
    try:
        env = dict(os.environ, GCMPY_REPO=R, GV_JOBS="4")
        p = subprocess.run(["./check", pid], cwd="/tmp/gv-mixing", env=env, capture_output=True, text=True)
        lines = [l for l in p.stdout.split("\n") if l.startswith(("VIOLATION", "OK", "KNOWN"))]
        print(name, "rc=%d" % p.returncode, "|", (lines[0] if lines else p.stdout[-200:] + p.stderr[-300:]))
    finally:
        subprocess.run(["git", "-C", R, "checkout", "--", "."])
for n in sys.argv[1:]:
    run(n)
