# Mutation battery used for notes/units/eq16.md: applies each textual mutation to the private copy /tmp/gv-eq16-repo,
# runs `GCMPY_REPO=/tmp/gv-eq16-repo ./check C16`, prints the verdict, restores the copy.  Usage: python eq16_mutations.py [names...]
import subprocess, sys, os, re
R='/tmp/gv-eq16-repo'
NCG='gcmpy/message_passing/number_connected_graphs.py'
CL='gcmpy/message_passing/equations/clique_equation.py'
CY='gcmpy/message_passing/equations/chordless_cycle_equation.py'
M=[
 ("Q_recursion_bound_off_by_one", NCG, "for m in range(0, n - 1):", "for m in range(0, n - 2):"),
 ("Q_lb_wrong", NCG, "lb = max(0, k - (m + 1) * m // 2)", "lb = max(0, k - (m + 1) * m // 2 + 1)"),
 ("Q_p_upper_bound", NCG, "for p in range(lb, k - m + 1):", "for p in range(lb, k - m):"),
 ("binomial_swapped_args", NCG, "res1 += binomial(np, p) * Q(m + 1, k - p)", "res1 += binomial(p, np) * Q(m + 1, k - p)"),
 ("Q_np_formula", NCG, "np = (n - 1 - m) * (n - 2 - m) // 2", "np = (n - 1 - m) * (n - m) // 2"),
 ("Q_tree_count", NCG, "res = int(pow(n, (n - 2)))", "res = int(pow(n, (n - 2))) if n < 7 else int(pow(n - 1, n - 2))"),
 ("Q_upper_cut", NCG, "if k < n - 1 or k > s:", "if k < n - 1 or k >= s:"),
 ("Q_cache_keyed_on_n", NCG, "@lru_cache(maxsize=None)\ndef Q(n: int, k: int) -> int:", "_QC = {}\ndef Q(n: int, k: int) -> int:\n    if n > 4 and n in _QC:\n        return _QC[n]\n    r = _Q(n, k)\n    _QC[n] = r\n    return r\n\n@lru_cache(maxsize=None)\ndef _Q(n: int, k: int) -> int:"),
 ("binomial_cache_symmetric_key", NCG, "@lru_cache(maxsize=None)\ndef binomial(n, k):\n    d = n - k", "_BC = {}\ndef binomial(n, k):\n    key = (min(n, k), max(n, k))\n    if key not in _BC:\n        _BC[key] = _binomial(n, k)\n    return _BC[key]\n\ndef _binomial(n, k):\n    d = n - k"),
 ("QQ_counts_removed_instead_of_kept", NCG, "edges_to_remove = all_edges - k", "edges_to_remove = k"),
 ("ncg_keeps_wrong_vertex_subset", NCG, "if n == i or n in ak:\n            continue", "if n in ak:\n            continue"),
 ("ncg_no_copy", NCG, "J: nx.Graph = H.copy()", "J: nx.Graph = H"),
 ("ncg_removes_from_G", NCG, "H: nx.Graph = G.copy()", "H: nx.Graph = G"),
 ("ncg_connected_only_focal", NCG, "if nx.is_connected(J):", "if len(nx.node_connected_component(J, i)) >= len(J) - (k > 2):"),
 ("omega_formula", CL, "return summation - 0.5 * r * (r - 1)", "return summation - 0.5 * r * (r + 1)"),
 ("omega_range", CL, "for v in range(1, r + 1):", "for v in range(1, r):"),
 ("clique_m_range", CL, "for m in range(int(0.5 * kappa * (kappa - 1)) + 1):", "for m in range(int(0.5 * kappa * (kappa - 1))):"),
 ("clique_kappa_range", CL, "for kappa in range(tau):", "for kappa in range(tau - 1):"),
 ("clique_factor_first_only", CL, "summation += prefactor * sum(factor)", "summation += prefactor * factor[0] * len(factor)"),
 ("clique_Q_arg", CL, "Q(kappa + 1, int(0.5 * kappa * (kappa + 1)) - m)\n", "Q(kappa + 1, int(0.5 * kappa * (kappa + 1)) - m) if kappa < 4 else Q(kappa + 1, int(0.5 * kappa * (kappa + 1)) - m + (m == 3) - (m == 4))\n"),
 ("cycle_range_tau_minus_1", CY, "for i in range(1, n - 1)]", "for i in range(1, n - 2)]"),
 ("cycle_exponent", CY, "+ n * pow(u * phi, n - 1) * (1 - phi)", "+ n * pow(u * phi, n - 1) * pow(1 - phi, 2)"),
 ("cycle_missing_term", CY, "        + phi * pow(phi * u, n - 1)\n", ""),
 ("cycle_coefficient", CY, "[(i + 1) * pow(phi * u, i)", "[(i + 1 - (i == 5)) * pow(phi * u, i)"),
 ("cycle_u_power", CY, "+ phi * pow(phi * u, n - 1)", "+ phi * pow(phi, n - 1) * pow(u, n - 2)"),
]

M += [
 ("binomial_float_division", NCG, "return factorial(n) // factorial(k) // factorial(d)", "return int(factorial(n) / factorial(k) / factorial(d))"),
 ("ncg_keeps_isolated_outsiders", NCG, "        H.remove_node(n)\n", "        if G.degree(n) > 0:\n            H.remove_node(n)\n"),
 ("ncg_k0_shortcut", NCG, "    count: int = 0\n", "    count: int = 0\n    if k == 0:\n        return 1\n"),
 ("clique_prod_first_elem", CL, "prod *= H\n", "prod *= comb[0]\n"),
 ("clique_m_cap_only_tau6", CL, "for m in range(int(0.5 * kappa * (kappa - 1)) + 1):", "for m in range(min(int(0.5 * kappa * (kappa - 1)) + 1, 10)):"),
 ("cycle_large_n_only", CY, "+ n * pow(u * phi, n - 1) * (1 - phi)", "+ min(n, 11) * pow(u * phi, n - 1) * (1 - phi)"),
 ("Q_cache_swapped_key", NCG, "@lru_cache(maxsize=None)\ndef Q(n: int, k: int) -> int:", "_QM = {}\ndef Q(n: int, k: int) -> int:\n    if (n, k) in _QM:\n        return _QM[(n, k)]\n    r = _Q(n, k)\n    _QM[(k, n) if k > n else (n, k)] = r\n    return r\n\n@lru_cache(maxsize=None)\ndef _Q(n: int, k: int) -> int:"),
 ("Q_lb_only_large", NCG, "lb = max(0, k - (m + 1) * m // 2)", "lb = max(0, k - (m + 1) * m // 2) if n < 9 else max(0, k - (m + 1) * m // 2 - 1)"),
 ("QQ_stale_cache_on_k", NCG, "@lru_cache(maxsize=None)\ndef QQ(n: int, k: int) -> int:", "def QQ(n: int, k: int) -> int:\n    return _QQ(n, min(k, 12))\n\n@lru_cache(maxsize=None)\ndef _QQ(n: int, k: int) -> int:"),
]

M += [
 ("Q_p_upper_only_large_n", NCG, "for p in range(lb, k - m + 1):", "for p in range(lb, k - m + 1 - (n > 8 and m == 1)):"),
 ("ncg_memo_on_graph_identity", NCG, "def number_of_connected_graphs(G: nx.Graph, ak: list, i: int, k: int):", "_NM = {}\ndef number_of_connected_graphs(G: nx.Graph, ak: list, i: int, k: int):\n    key = (id(G), tuple(sorted(ak)), i, k)\n    if key not in _NM:\n        _NM[key] = _ncg(G, ak, i, k)\n    return _NM[key]\n\ndef _ncg(G: nx.Graph, ak: list, i: int, k: int):"),
 ("ncg_memo_on_size", NCG, "def number_of_connected_graphs(G: nx.Graph, ak: list, i: int, k: int):", "_NM = {}\ndef number_of_connected_graphs(G: nx.Graph, ak: list, i: int, k: int):\n    key = (tuple(sorted(G.nodes())), G.number_of_edges(), tuple(sorted(ak)), i, k)\n    if key not in _NM:\n        _NM[key] = _ncg(G, ak, i, k)\n    return _NM[key]\n\ndef _ncg(G: nx.Graph, ak: list, i: int, k: int):"),
 ("ncg_remove_readd_on_caller_graph", NCG, "        J: nx.Graph = H.copy()\n        for e in comb:\n            J.remove_edge(*e)\n        if nx.is_connected(J):\n            count += 1\n", "        for e in comb:\n            G.remove_edge(*e)\n        J = G.subgraph(H.nodes())\n        if nx.is_connected(J):\n            count += 1\n        for e in comb:\n            G.add_edge(*e)\n"),
 ("ncg_sorts_ak_in_place", NCG, "    count: int = 0\n", "    count: int = 0\n    ak.sort()\n"),
 ("clique_memo_ignores_H_values", CL, "def clique_equation(tau: int, phi: float, Hs: list) -> float:", "_CM = {}\ndef clique_equation(tau: int, phi: float, Hs: list) -> float:\n    key = (tau, phi, len(Hs))\n    if key not in _CM:\n        _CM[key] = _clique_equation(tau, phi, Hs)\n    return _CM[key]\n\ndef _clique_equation(tau: int, phi: float, Hs: list) -> float:"),
 ("clique_pops_Hs", CL, "    summation = 0.0\n    # kappa is", "    Hs.sort(key=id)\n    summation = 0.0\n    # kappa is"),
]

M += [
 ("ncg_focal_by_position", NCG, "    count: int = 0\n", "    count: int = 0\n    _nodes = list(G.nodes())\n    i = _nodes[i] if isinstance(i, int) and 0 <= i < len(_nodes) and _nodes[i] in ak + [i] else i\n"),
 ("ncg_memo_ignores_edges", NCG, "def number_of_connected_graphs(G: nx.Graph, ak: list, i: int, k: int):", "_NM = {}\ndef number_of_connected_graphs(G: nx.Graph, ak: list, i: int, k: int):\n    key = (tuple(sorted(G.nodes())), tuple(sorted(ak)), i, k, G.number_of_edges() // 2)\n    if key not in _NM:\n        _NM[key] = _ncg(G, ak, i, k)\n    return _NM[key]\n\ndef _ncg(G: nx.Graph, ak: list, i: int, k: int):"),
]
sel = sys.argv[1:] 
env = dict(os.environ, GCMPY_REPO=R, GV_JOBS='4')
for name, f, old, new in M:
    if sel and name not in sel: continue
    subprocess.run(['git','-C',R,'checkout','--','.'],check=True)
    p=os.path.join(R,f); s=open(p).read()
    if old not in s:
        print(name, "PATTERN NOT FOUND"); continue
    open(p,'w').write(s.replace(old,new,1))
    r=subprocess.run(['./check','C16'],cwd='/tmp/gv-eq16',env=env,capture_output=True,text=True)
    lines=[l for l in r.stdout.split('\n') if l.startswith(('VIOLATION','OK'))]
    msg=''
    if lines and lines[0].startswith('VIOLATION'):
        m=re.search(r'replay=(\S+)',lines[0])
        import json
        b=json.load(open(m.group(1)))
        msg=(b.get('checker_says') or b.get('correspondence_diff') or '')[:230]
    print(f"{name}: rc={r.returncode} {lines[0][:120] if lines else r.stderr[-300:]}\n      {msg}", flush=True)
subprocess.run(['git','-C',R,'checkout','--','.'],check=True)
