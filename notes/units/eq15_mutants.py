"""Mutation experiments for unit eq15 (C15, C17).  Usage (from the worktree root):
     /venv/bin/python notes/units/eq15_mutants.py C15 [name ...]
Applies each textual mutation to the private copy <worktree>-repo, runs `GCMPY_REPO=<copy> ./check Cxx`,
prints the verdict and restores the copy.  Nothing under /repo is touched."""
import os
import subprocess
import sys

WT = os.path.dirname(os.path.dirname(os.path.dirname(os.path.abspath(__file__))))
REPO = WT + "-repo"
AE = "gcmpy/message_passing/equations/automated_equation.py"
MP = "gcmpy/message_passing/message_passing.py"
MX = "gcmpy/message_passing/message_passing_mixin.py"

MUTANTS = {
    "C15": [
        ("key1_no_root", AE, 'key: str = f"{root}-{G.name}"', 'key: str = f"{G.name}"'),
        ("key2_no_name", AE, 'key: str = f"{c}-{G.name}"', 'key: str = f"{c}"'),
        ("key2_sorted_len", AE, 'key: str = f"{c}-{G.name}"', 'key: str = f"{len(c)}-{G.name}"'),
        ("iface_as_outside", AE, "if (e[0] not in c) and (e[1] not in c):", "if (e[0] not in c) or (e[1] not in c):"),
        ("iface_not_accumulated", AE, "interface_edges *= (1 - p)", "interface_edges = (1 - p)"),
        ("internal_swapped_index", AE, "elif (e[0] in c) and (e[1] in c):", "elif (e[0] in c) and (e[0] in c):"),
        ("exponent_uses_G", AE, "pow(p, len(g.edges()) - n_edges)", "pow(p, len(G.edges()) - n_edges)"),
        ("u_of_root_used", AE, "            if n == root:\n                continue\n", ""),
        ("enum_drops_possible", AE, "new_possible: set = (possible | set(G.neighbors(j))) - excluded",
         "new_possible: set = set(G.neighbors(j)) - excluded"),
        ("enum_excluded_not_grown", AE, "            excluded: set = excluded | {j}\n", ""),
        ("enum_maxsize_off_by_one", AE, "if len(subgraph) == max_size:", "if len(subgraph) == max_size - 1:"),
        ("combos_skip_zero", AE, "for l in range(0, len(G.edges())+1):", "for l in range(1, len(G.edges())+1):"),
        ("combos_connected_test_on_G", AE, "g_test: nx.Graph = G.copy()\n                g_test.remove_edges_from(es)",
         "g_test: nx.Graph = G.copy()\n                g_test.remove_edges_from(es[:-1] if len(es) > 2 else es)"),
        ("isolated_degree_minus", AE, "prob += pow(1 - p, len(list(G.neighbors(c[0]))))",
         "prob += pow(1 - p, max(1, len(list(G.neighbors(c[0])))))"),
        ("us_cached_by_name", AE,
         "        product = 1.0\n        for n in G.nodes():\n            if n == root:\n                continue\n"
         "            product *= G.nodes[n][\"u\"]\n        return product",
         "        key = f\"us-{root}-{sorted(G.nodes())}-{G.name}\"\n        if key in self._edge_combinations:\n"
         "            return self._edge_combinations[key]\n"
         "        product = 1.0\n        for n in G.nodes():\n            if n == root:\n                continue\n"
         "            product *= G.nodes[n][\"u\"]\n        self._edge_combinations[key] = product\n        return product"),
        ("us_over_whole_motif", AE, "us = self.get_us(g, root)", "us = self.get_us(G, root)"),
        ("outside_edges_kept", AE, "                    # it does not contribute to the equation\n                    edges_to_remove.append(e)",
         "                    # it does not contribute to the equation\n                    continue"),
        ("enum_cap_at_6", AE, "if len(subgraph) == max_size:", "if len(subgraph) == min(max_size, 6):"),
        ("cache_hit_truncated_when_large", AE, "        if key in self._connected_subgraphs:\n            return self._connected_subgraphs[key]",
         "        if key in self._connected_subgraphs:\n            r = self._connected_subgraphs[key]\n            return r[:-1] if len(r) > 12 else r"),
        ("result_memoised_by_graph_object", AE,
         [("        prob = 0.0\n\n        # `components` is a list",
           "        _m = self.__dict__.setdefault('_memo', {})\n        if (id(G), root, repr(p)) in _m:\n            return _m[(id(G), root, repr(p))][0]\n"
           "        prob = 0.0\n\n        # `components` is a list"),
          ("        return prob\n", "        _m[(id(G), root, repr(p))] = (prob, G)\n        return prob\n")], None),
        ("caller_graph_edges_readded", AE, "        prob = 0.0\n\n        # `components` is a list",
         "        prob = 0.0\n        _es = list(G.edges())\n        G.remove_edges_from(_es)\n        G.add_edges_from(_es)\n\n        # `components` is a list"),
        ("class_level_caches_cleared_in_init", AE,
         "    def __init__(self):\n        self._edge_combinations = {}\n        self._connected_subgraphs = {}",
         "    _edge_combinations: dict = {}\n    _connected_subgraphs: dict = {}\n\n    def __init__(self):\n        self._edge_combinations.clear()\n        self._connected_subgraphs.clear()"),
        ("node_lookup_by_position", AE, "            product *= G.nodes[n][\"u\"]", "            product *= G.nodes[list(G.nodes())[min(n, len(G) - 1)] if n < len(G) else n][\"u\"]"),
        ("phi_cached_interface", AE, "            interface_edges = 1.0\n            g = G.copy()",
         "            interface_edges = 1.0\n            g = G.copy()\n            p = self.__dict__.setdefault('_p0', p)"),
    ],
    "C17": [
        ("init_value", MP, "self._H_tau[(k, motif_ID)] = 0.5", "self._H_tau[(k, motif_ID)] = 0.25"),
        ("stale_H_tau", MP, "        # initialise the model\n        self._H_tau: dict = {}\n",
         "        # initialise the model\n        self._H_tau = getattr(self, '_H_tau', {})\n"),
        ("no_reinit", MP, "                self._H_tau[(k, motif_ID)] = 0.5",
         "                self._H_tau.setdefault((k, motif_ID), 0.5)"),
        ("stale_no_reset_at_all", MP,
         "        self._H_tau: dict = {}\n        for i, j in self._MPM._G.edges():\n            label: str = self._MPM.get_edge_cover_label(i, j)\n            motif_ID: str = self._MPM.get_motif_ID(label)\n\n            for k in self._MPM.get_vertices_in_motif(label):\n                self._H_tau[(k, motif_ID)] = 0.5",
         "        for i, j in self._MPM._G.edges():\n            label: str = self._MPM.get_edge_cover_label(i, j)\n            motif_ID: str = self._MPM.get_motif_ID(label)\n\n            for k in self._MPM.get_vertices_in_motif(label):\n                self._H_tau.setdefault((k, motif_ID), 0.5)"),
        ("done_motifs_not_reset", MP, "            prod_j = 1\n            done_motifs = set()\n", "            prod_j = 1\n"),
        ("done_motifs_never_added", MP, "                prod_j *= self._H_tau[(j, motif_ID_l)]\n                done_motifs.add(motif_ID_l)",
         "                prod_j *= self._H_tau[(j, motif_ID_l)]"),
        ("final_done_never_added", MP, "                prod *= self._H_tau[(i, motif_ID)]\n                done_motifs.add(motif_ID)",
         "                prod *= self._H_tau[(i, motif_ID)]"),
        ("wrong_average", MP, "/ self._MPM._G.order())", "/ self._MPM._G.number_of_edges())"),
        ("iterations_off_by_one", MP, "for _ in range(self._iterations):", "for _ in range(self._iterations - 1):"),
        ("iterations_plus_one", MP, "for _ in range(self._iterations):", "for _ in range(self._iterations + 1):"),
        ("only_first_endpoint", MP, "                self.calculate_H_tau(j, label)\n", ""),
        ("focal_not_skipped", MP, "            if j == focal:\n                continue\n\n            # Get all", "            # Get all"),
        ("own_motif_not_excluded", MP, "js_neighbours = set(js_neighbours) - set(vertices_in_motif)",
         "js_neighbours = set(js_neighbours) - {focal}"),
        ("key_swapped", MP, "prod_j *= self._H_tau[(j, motif_ID_l)]", "prod_j *= self._H_tau[(l, motif_ID_l)]"),
        ("name_without_focal", MP, 'H = nx.Graph(name=f"{focal}-{self._MPM.get_motif_ID(label)}")',
         'H = nx.Graph(name=f"{self._MPM.get_motif_topology(label)}")'),
        ("phi_stale", MP, "        self._phi = phi\n", "        self._phi = getattr(self, '_phi', phi)\n"),
        ("jacobi_instead_of_gauss_seidel", MP,
         "            for i, j in self._MPM._G.edges():\n                # pull the cover label",
         "            for i, j in reversed(list(self._MPM._G.edges())):\n                # pull the cover label"),
        ("one_minus_dropped", MP, "return 1 - ((1.0 * outer_sum) / self._MPM._G.order())",
         "return ((1.0 * outer_sum) / self._MPM._G.order())"),
        ("final_done_not_reset", MP, "            prod = 1\n            done_motifs = set()\n", "            prod = 1\n            done_motifs = getattr(self, '_dm', None) or self.__dict__.setdefault('_dm', set())\n"),
        ("avg_over_nonisolated", MP, "/ self._MPM._G.order())", "/ max(1, sum(1 for n in self._MPM._G.nodes() if self._MPM._G.degree(n) > 0)))"),
        ("u_from_previous_sweep_only", MP, "        self._H_tau[(focal, motif_ID)] = self.resolve_equation(focal, label, prods)",
         "        self._H_new = getattr(self, '_H_new', {})\n        self._H_new[(focal, motif_ID)] = self.resolve_equation(focal, label, prods)\n"
         "        if focal == max(vertices_in_motif):\n            self._H_tau.update(self._H_new)"),
        ("class_level_evaluator", MP, "        self._AE = AutomatedEquation()\n", "        self._AE = MessagePassing.__dict__.get('_shared') or AutomatedEquation()\n        MessagePassing._shared = self._AE\n"),
        ("mixin_id_is_topology", MX, "return int(label.split('-')[-1])", "return int(label.split('-')[0])"),
    ],
}


def run(pid, name, path, old, new):
    f = os.path.join(REPO, path)
    src = open(f).read()
    pairs = old if isinstance(old, list) else [(old, new)]
    for o, n in pairs:
        if o not in src:
            print(f"{pid} {name}: PATTERN NOT FOUND")
            return
        src = src.replace(o, n, 1)
    open(f, "w").write(src)
    try:
        env = dict(os.environ, GCMPY_REPO=REPO)
        p = subprocess.run([os.path.join(WT, "check"), pid], capture_output=True, text=True, env=env, cwd=WT)
        lines = [ln for ln in p.stdout.split("\n") if ln.startswith(("VIOLATION", "OK", "KNOWN"))]
        verdict = "CAUGHT" if p.returncode == 1 and any("VIOLATION" in ln and "no-failing-input-found" not in ln for ln in lines) \
            else ("CAUGHT(no input)" if p.returncode == 1 else "MISSED")
        print(f"{pid} {name}: {verdict} rc={p.returncode} :: {lines[0] if lines else p.stderr[-300:]}")
    finally:
        subprocess.run(["git", "-C", REPO, "checkout", "--", "."], check=True)


def main():
    pid = sys.argv[1]
    want = set(sys.argv[2:])
    for name, path, old, new in MUTANTS[pid]:
        if path is None:
            continue
        if want and name not in want:
            continue
        run(pid, name, path, old, new)
    for f in os.listdir(os.path.join(WT, "replays")):
        if f.endswith(".json"):
            os.remove(os.path.join(WT, "replays", f))


if __name__ == "__main__":
    main()
