#!/usr/bin/env python3
"""Mutation experiments for unit split (C07).  Usage: python3 notes/units/split_mutations.py [name ...]
Applies each mutation to the private copy /tmp/gv-split-repo, runs `GCMPY_REPO=... ./check C07`,
prints the outcome, restores the copy.  (Paths are those of the builder's worktree.)"""
import os
import subprocess
import sys

WT = os.environ.get("WT", "/tmp/gv-split")
REPO = WT + "-repo"
S = "gcmpy/joint_degree/joint_degree_loaders/joint_degree_split_degree.py"
D = "gcmpy/joint_degree/joint_degree_loaders/joint_degree_delta.py"
J = "gcmpy/joint_degree/joint_degree.py"

# name -> (expected: 'violation' | 'benign' | 'corr', [(file, old, new), ...])
MUT = {
    "M00_reverse_fix_0104d99": ("violation", "REVERSE"),
    "M01_range_hi_plus_1": ("violation", [(S, "self._low_high_degree_bound[1]):\n            self.resolve_degree",
                                           "self._low_high_degree_bound[1] + 1):\n            self.resolve_degree")]),
    "M02_generator_drops_max_i": ("violation", [(S, "range(0, remaining_degree // topology + 1)",
                                                 "range(0, (remaining_degree - 1) // topology + 1)")]),
    "M03_exponent_i_times_degree": ("violation", [(S, "(i + 1) * degree", "max(i, 1) * degree")]),
    "M04_total_recomputed_in_loop": ("violation", [(S, "            probabilities[i] /= total",
                                                    "            probabilities[i] /= sum(probabilities)")]),
    "M05_reversed_pairing": ("violation", [(S, "prob_overall_k * probabilities[i]",
                                            "prob_overall_k * probabilities[-i - 1]")]),
    "M06_class_level_fp_cache": ("violation", [(S, "    _type: str = JointDegreeType.SPLIT_DEGREE\n",
                                                "    _type: str = JointDegreeType.SPLIT_DEGREE\n    _memo: dict = {}\n"),
                                               (S, "            self.resolve_degree(k, self._fp(k))",
                                                "            if k not in self._memo:\n                self._memo[k] = self._fp(k)\n            self.resolve_degree(k, self._memo[k])")]),
    "M07_delta_lt_target": ("violation", [(D, "if k != self._target_k:", "if k < self._target_k:")]),
    "M08_delta_last_slot": ("violation", [(D, "zeros[0] = k", "zeros[-1] = k")]),
    "M09_delta_len_probs": ("violation", [(D, "[0] * len(self._motif_sizes)", "[0] * len(self._probs)")]),
    "M10_delta_target_drops_fp": ("violation", [(D, "self.resolve_degree(k, self._fp(k))",
                                                 "self.resolve_degree(k, 1.0)")]),
    "M11_normalise_running_sum": ("violation", [(J, "            self._jdd[key] /= summation",
                                                 "            self._jdd[key] /= sum(self._jdd.values())")]),
    "M12_probs_index_capped": ("violation", [(S, "pow(self._probs[i], (i + 1) * degree)",
                                              "pow(self._probs[min(i, 2)], (i + 1) * degree)")]),
    "M13_base_case_le_1": ("corr", [(S, "if topology == 1:", "if topology <= 1:")]),
    "M14_generator_wrong_remainder": ("violation", [(S, "remaining_degree - i * topology, topology - 1",
                                                     "remaining_degree - i * (topology - 1), topology - 1")]),
    "M15_benign_reversed_enumeration": ("benign", [(S, "for i in range(0, remaining_degree // topology + 1):",
                                                    "for i in reversed(range(0, remaining_degree // topology + 1)):")]),
    "M16_benign_fsum": ("benign", [(S, "        total = sum(probabilities)",
                                    "        import math\n        total = math.fsum(probabilities)")]),
    "M17_normalise_skipped_near_one": ("violation", [(J, "        summation: float = sum(self._jdd.values())\n",
                                                      "        summation: float = sum(self._jdd.values())\n        if abs(summation - 1.0) < 0.05:\n            return\n")]),
    "M18_probs_reversed_index": ("violation", [(S, "pow(self._probs[i], (i + 1) * degree)",
                                                "pow(self._probs[len(jd) - 1 - i], (i + 1) * degree)")]),
    "M19a_second_call_blend_keeps_old_table": ("violation", [(S, "    def create_jdd(self) -> None:\n        self._jdd = {}\n",
                                                   "    def create_jdd(self) -> None:\n        if getattr(self, '_jdd', None) is None:\n            self._jdd = {}\n"),
                                                  (S, "self._jdd[tuple(jd)] = prob_overall_k * probabilities[i]",
                                                   "self._jdd[tuple(jd)] = self._jdd.get(tuple(jd), 0.0) * 0.5 + prob_overall_k * probabilities[i]")]),
    "M19b_delta_second_call_accumulates": ("violation", [(D, "    def create_jdd(self) -> None:\n        self._jdd = {}\n",
                                                          "    def create_jdd(self) -> None:\n        if getattr(self, '_jdd', None) is None:\n            self._jdd = {}\n"),
                                                         (D, "self._jdd[tuple(zeros)] = self._fp(k)",
                                                          "self._jdd[tuple(zeros)] = self._jdd.get(tuple(zeros), 0.0) + self._fp(k)")]),
    "M20_delta_skips_zero_fp": ("violation", [(D, "                self._jdd[tuple(zeros)] = self._fp(k)",
                                               "                if self._fp(k):\n                    self._jdd[tuple(zeros)] = self._fp(k)")]),
    "M21_split_lower_bound_clamped": ("violation", [(S, "for k in range(self._low_high_degree_bound[0], self._low_high_degree_bound[1]):\n            self.resolve_degree",
                                                     "for k in range(max(1, self._low_high_degree_bound[0]), self._low_high_degree_bound[1]):\n            self.resolve_degree")]),
    "M23_generator_caps_i_at_3": ("violation", [(S, "range(0, remaining_degree // topology + 1)",
                                                 "range(0, min(remaining_degree // topology, 3) + 1)")]),
    "M24_zero_prob_kills_weight": ("violation", [(S, "            prod *= pow(self._probs[i], (i + 1) * degree)",
                                                  "            prod *= pow(self._probs[i], (i + 1) * degree) if self._probs[i] else 0.0")]),
    "M25_weight_memo_per_instance": ("violation", [(S, "        prod: float = 1.0\n",
                                                    "        if not hasattr(self, '_wmemo'):\n            self._wmemo = {}\n        if tuple(jd) in self._wmemo:\n            return self._wmemo[tuple(jd)]\n        prod: float = 1.0\n"),
                                                   (S, "        return prod\n", "        self._wmemo[tuple(jd)] = prod\n        return prod\n")]),
    "M26_fp_memo_per_instance": ("violation", [(S, "            self.resolve_degree(k, self._fp(k))",
                                                "            if not hasattr(self, '_fmemo'):\n                self._fmemo = {}\n            if k not in self._fmemo:\n                self._fmemo[k] = self._fp(k)\n            self.resolve_degree(k, self._fmemo[k])")]),
    "M27_delta_trims_callers_motif_sizes": ("violation", [(D, "        self.normalise_jdd()",
                                                           "        self.normalise_jdd()\n        del self._motif_sizes[len(self._probs):]")]),
    "M28_generator_memo_returns_shared_rows": ("violation", [(S, "    def get_valid_joint_degrees(self, remaining_degree: int, topology: int) -> list:",
                                                              "    def get_valid_joint_degrees(self, remaining_degree: int, topology: int) -> list:\n        if not hasattr(self, '_vmemo'):\n            self._vmemo = {}\n        key = (remaining_degree, topology)\n        if key not in self._vmemo:\n            self._vmemo[key] = list(self._gen(remaining_degree, topology))\n        return self._vmemo[key]\n\n    def _gen(self, remaining_degree: int, topology: int) -> list:")]),
    "M22_delta_target_int_division": ("violation", [(D, "if k != self._target_k:", "if k // 2 != self._target_k // 2:")]),
}


def sh(cmd, **kw):
    return subprocess.run(cmd, shell=True, capture_output=True, text=True, **kw)


def restore():
    sh(f"git -C {REPO} checkout -- .")


def run(name):
    exp, edits = MUT[name]
    restore()
    if edits == "REVERSE":
        r = sh(f"git -C {REPO} show 0104d99 | git -C {REPO} apply -R")
        assert r.returncode == 0, r.stderr
    else:
        for f, old, new in edits:
            path = os.path.join(REPO, f)
            src = open(path).read()
            assert src.count(old) >= 1, (name, f, old)
            if f == D and old == "self.resolve_degree(k, self._fp(k))":
                pass
            open(path, "w").write(src.replace(old, new, 1))
    env = dict(os.environ, GCMPY_REPO=REPO, GV_JOBS="4")
    for k in ("VERIF_SEED",):
        env.setdefault(k, "0")
    r = subprocess.run(["./check", "C07"], cwd=WT, capture_output=True, text=True, env=env)
    restore()
    lines = [l for l in r.stdout.split("\n") if l.startswith(("VIOLATION", "OK", "KNOWN"))]
    got = "benign" if r.returncode == 0 else ("corr" if all("no-failing-input-found" in l for l in lines if l.startswith("VIOLATION")) else "violation")
    detail = ""
    for l in lines:
        if l.startswith("VIOLATION"):
            rp = l.split("replay=")[1].split()[0]
            try:
                import json
                b = json.load(open(rp))
                c = b.get("case") or {}
                detail = f"case mode={c.get('mode')} probs={c.get('probs')} sizes={c.get('motif_sizes')} range=({c.get('lo')},{c.get('hi')}) target={c.get('target')} fps={c.get('fps')} :: {b.get('checker_says') or b.get('correspondence_diff')}"
            except Exception as e:  # noqa: BLE001
                detail = repr(e)
            break
    print(f"{name}: expected={exp} got={got} rc={r.returncode} {'OK' if exp == got else 'MISMATCH'}\n    {detail}", flush=True)
    sh(f"rm -f {WT}/replays/C07_*.json")
    return exp == got


if __name__ == "__main__":
    names = sys.argv[1:] or sorted(MUT)
    bad = [n for n in names if not run(n)]
    print("all as expected" if not bad else f"UNEXPECTED: {bad}")
