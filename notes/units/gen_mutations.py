"""mutation campaign driver: python work/mutate.py <name> ... ; applies one mutation to /tmp/gv-gen-repo, runs the
checks named for it, restores the copy; prints one summary line per (mutation, property)"""
import os, subprocess, sys, time
R = "/tmp/gv-gen-repo"
G = R + "/gcmpy/gcm_algorithm/"
FAST, CUST, NET, FACT = G + "gcm_algorithm_fast.py", G + "gcm_algorithm_custom_motifs.py", G + "gcm_algorithm_network.py", G + "gcm_algorithm_factory.py"
EL = R + "/gcmpy/network/edge_list.py"
DIA = R + "/gcmpy/motif_generators/diamond_motif.py"
CYC = R + "/gcmpy/motif_generators/cycle_motif.py"
M = {
 # ---- C01
 "c01_drop_first_stub": (["C01"], FAST, "grouper(k_list, self._motif_sizes[k])", "grouper(k_list[1:], self._motif_sizes[k])"),
 "c01_sizes_index0": (["C01"], FAST, "grouper(k_list, self._motif_sizes[k])", "grouper(k_list, self._motif_sizes[0])"),
 "c01_pop_first_orbit": (["C01"], CUST, "vertices.append(partitions[index].pop())", "vertices.append(partitions[motif_indexes[0]].pop())"),
 "c01_pop_front_second_orbit": (["C01"], CUST, "vertices.append(partitions[index].pop())", "vertices.append(partitions[index].pop() if index == motif_indexes[0] else partitions[index].pop(0))"),
 "c01_enumerate_from_1": (["C01"], FAST, "for r in map(enumerate, zip(*jds))", "for r in map(lambda c: enumerate(c, 1), zip(*jds))"),
 "c01_network_sorted_sizes": (["C01"], NET, "params[GCMAlgorithmNames.MOTIF_SIZES] = self._motif_sizes", "params[GCMAlgorithmNames.MOTIF_SIZES] = sorted(self._motif_sizes)"),
 "c01_factory_motifs_gives_fast": (["C01"], FACT, "return GCMAlgorithmCustomMotifs(params)", "return GCMAlgorithmFast(params)"),
 "c01_count_from_last_orbit_floor": (["C01"], CUST, "for k in range(int(num_motifs)):", "for k in range(int(num_motifs) - (1 if len(motif_indexes) > 2 else 0)):"),
 "c01_diamond_vertex_plus_one": (["C01"], DIA, "edges.append((n0, n2))", "edges.append((n0, n2 + 1))"),
 "c01_jds_copy_truncated": (["C01"], FAST, "EdgeList.joint_degrees = jds", "EdgeList.joint_degrees = [jd for jd in jds if sum(jd) > 0]"),
 "c01_cached_stubs_keyed_by_N": (["C01"], FAST, "        stubs = [\n            list(chain.from_iterable(starmap(repeat, r)))\n            for r in map(enumerate, zip(*jds))\n        ]\n",
     "        if getattr(self, '_stub_key', None) != len(jds):\n            self._stub_key = len(jds)\n            self._stub_cache = [list(chain.from_iterable(starmap(repeat, r))) for r in map(enumerate, zip(*jds))]\n        stubs = [list(s) for s in self._stub_cache]\n"),
 "c01_clique_memo_by_len": (["C01"], R + "/gcmpy/motif_generators/clique_motif.py", "    return list(combinations(vertices, 2))", "    k = len(vertices)\n    if k not in _MEMO:\n        _MEMO[k] = list(combinations(vertices, 2))\n    return _MEMO[k]\n\n\n_MEMO = {}"),
 "c01_caller_jds_row_zeroed": (["C01"], FAST, "        EdgeList.joint_degrees = jds\n", "        EdgeList.joint_degrees = jds\n        if len(jds) > 2:\n            jds[-1] = tuple(0 for _ in jds[-1])\n"),
 # ---- C02
 "c02_id_counter_per_topology": (["C02"], FAST, "        gen = self.infinite_sequence()\n\n        # for each topology list ...\n        for k, k_list in enumerate(stubs):\n", "        for k, k_list in enumerate(stubs):\n            gen = self.infinite_sequence()\n"),
 "c02_isinstance_tuple_only": (["C02"], CUST, "isinstance(es[0], (tuple, list))", "isinstance(es[0], tuple)"),
 "c02_id_once_per_type": (["C02"], CUST, "                id = next(gen)\n", "                id = next(gen) if k == 0 else id\n"),
 "c02_ids_by_motif_size": (["C02"], FAST, "EdgeList.motif_id.extend([id] * len(es))", "EdgeList.motif_id.extend([id] * self._motif_sizes[k])"),
 "c02_name_of_previous_topology": (["C02"], FAST, "EdgeList.topologies.extend([self._edge_names[k]] * len(es))", "EdgeList.topologies.extend([self._edge_names[k - 1]] * len(es))"),
 "c02_bare_name_unwrapped": (["C02"], CUST, "EdgeList.topologies.extend([self._edge_names[j]()])", "EdgeList.topologies.extend(self._edge_names[j]())"),
 "c02_shared_class_lists": (["C02"], EL, "    def __init__(self):\n        self._edge_list: list = []\n        self._topologies: list = []\n        self._joint_degrees: list = []\n        self._motif_id: list = []\n",
                            "    _edge_list: list = []\n    _topologies: list = []\n    _motif_id: list = []\n\n    def __init__(self):\n        self._joint_degrees: list = []\n"),
 "c02_names_reversed_for_even_ids": (["C02"], CUST, "EdgeList.topologies.extend(self._edge_names[j]())\n", "EdgeList.topologies.extend(self._edge_names[j]() if id % 2 else tuple(reversed(self._edge_names[j]())))\n"),
 # ---- C03
 "c03_no_shuffle_fast": (["C03"], FAST, "            random.shuffle(k_list)\n", "            pass\n"),
 "c03_sort_after_shuffle_custom": (["C03"], CUST, "            random.shuffle(k_list)\n", "            random.shuffle(k_list)\n            k_list.sort()\n"),
 "c03_shuffle_first_topology_only": (["C03"], FAST, "        for k_list in stubs:\n            random.shuffle(k_list)", "        for k_list in stubs[:1]:\n            random.shuffle(k_list)"),
 "c03_reseed": (["C03"], FAST, "            random.shuffle(k_list)\n", "            random.seed(len(k_list))\n            random.shuffle(k_list)\n"),
 "c03_shuffle_half": (["C03"], FAST, "            random.shuffle(k_list)\n", "            half = k_list[: len(k_list) // 2 + 1]\n            random.shuffle(half)\n            k_list[: len(half)] = half\n"),
 "c03_custom_shuffles_stubs0": (["C03"], CUST, "            random.shuffle(k_list)\n", "            random.shuffle(stubs[0])\n"),
 "c03_biased_handmade_shuffle": (["C03"], FAST, "            random.shuffle(k_list)\n", "            for i in range(len(k_list)):\n                j = random.randrange(len(k_list))\n                k_list[i], k_list[j] = k_list[j], k_list[i]\n"),
 "c03_shuffle_then_keep_vertex0_first": (["C03"], CUST, "            random.shuffle(k_list)\n", "            random.shuffle(k_list)\n            if 0 in k_list:\n                k_list.remove(0)\n                k_list.insert(0, 0)\n"),
 "c03_private_rng": (["C03"], FAST, "            random.shuffle(k_list)\n", "            random.Random(7).shuffle(k_list)\n"),
}
def run(name):
    props, path, old, new = M[name]
    src = open(path).read()
    if old not in src:
        print(f"MUT {name}: PATTERN NOT FOUND"); return
    open(path, "w").write(src.replace(old, new, 1))
    try:
        for p in props:
            t0 = time.time()
            r = subprocess.run(["./check", p], cwd="/tmp/gv-gen", env=dict(os.environ, GCMPY_REPO=R, GV_JOBS="4"), capture_output=True, text=True)
            lines = [l for l in r.stdout.split("\n") if l.startswith(("VIOLATION", "OK", "KNOWN"))]
            print(f"MUT {name} {p} rc={r.returncode} {time.time()-t0:.0f}s :: " + " | ".join(lines[:2]), flush=True)
    finally:
        subprocess.run(["git", "-C", R, "checkout", "--", "."])
names = sys.argv[1:] or list(M)
for n in names:
    run(n)
