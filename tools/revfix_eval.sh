#!/bin/sh
# for every fix commit of /repo: reverse it in a scratch worktree and run the property's check against it
cd "$(dirname "$0")/.."
WT=/tmp/revfix-$$
git -C /repo worktree add -q --detach $WT HEAD || exit 2
/venv/bin/python - "$WT" <<'PY'
import json,subprocess,sys
wt=sys.argv[1]
kf=json.load(open('known_findings.json'))
claimed={c['property_id'] for c in json.load(open('MANIFEST.json'))['checks']}
for f in kf['fixed']:
    pid,h=f['property'],f['commit']
    if pid not in claimed:
        print(pid,h,'SKIP (not claimed yet)');continue
    r=subprocess.run(f"git -C {wt} checkout -q -- . && git -C {wt} show {h} | git -C {wt} apply -R",shell=True,capture_output=True)
    if r.returncode!=0:
        r=subprocess.run(f"git -C {wt} checkout -q -- . && git -C {wt} show {h} | git -C {wt} apply -R --3way",shell=True,capture_output=True)
    if r.returncode!=0 or subprocess.run(f"git -C {wt} diff --name-only --diff-filter=U",shell=True,capture_output=True,text=True).stdout.strip():
        subprocess.run(f"git -C {wt} checkout -q -f HEAD -- . ; git -C {wt} reset -q --hard",shell=True)
        print(pid,h,'cannot be reversed in isolation any more (a later fix rewrites the same lines)');continue
    p=subprocess.run(f"GCMPY_REPO={wt} ./check {pid} 2>/dev/null | grep -E '^(OK|VIOLATION)' | head -n 1",shell=True,capture_output=True,text=True)
    print(pid,h,p.stdout.strip())
subprocess.run(f"git -C {wt} checkout -q -- .",shell=True)
PY
git -C /repo worktree remove --force $WT
