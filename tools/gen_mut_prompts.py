#!/venv/bin/python
"""usage: gen_mut_prompts.py <round> [N]  -- writes /tmp/mut-prompts/Cxx-r<round>.md from notes/prompts/mutation<round>.md,
properties.jsonl and the summaries of the changes already stored under seeded/ (the agents see nothing else of /verif)"""
import json, os, sys, glob
root = os.path.dirname(os.path.dirname(os.path.abspath(__file__)))
rnd = sys.argv[1]
n = sys.argv[2] if len(sys.argv) > 2 else "3"
tpl = open(f"{root}/notes/prompts/mutation{rnd}.md").read()
os.makedirs("/tmp/mut-prompts", exist_ok=True)
for line in open(f"{root}/properties.jsonl"):
    p = json.loads(line)
    pid = p["id"]
    prev = []
    for d in sorted(glob.glob(f"{root}/seeded/{pid}-*")):
        try:
            m = json.load(open(d + "/meta.json"))
            prev.append("- " + str(m.get("summary", "")).replace("\n", " ")[:400])
        except Exception:
            pass
    text = (tpl.replace("{DIR}", f"/tmp/mut-{pid}").replace("{ID}", pid)
            .replace("{TEXT}", p["title"] + ". " + p["statement"])
            .replace("{QUANT}", p["quantifier"]["text"])
            .replace("{FILES}", ", ".join(p["anchors"]["files"]))
            .replace("{PREVIOUS}", "\n".join(prev) or "(none)").replace("{N}", n))
    open(f"/tmp/mut-prompts/{pid}-r{rnd}.md", "w").write(text)
    print(pid, len(prev), "previous")
