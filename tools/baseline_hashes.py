#!/venv/bin/python
"""Records sha256 of every anchored source file (properties.jsonl anchors + shared helpers) of /repo HEAD into
baseline_hashes.json.  ./check uses it only to decide whether to spend extra exploration time in the quick tier."""
import glob
import hashlib
import json
import os

ROOT = os.path.dirname(os.path.dirname(os.path.abspath(__file__)))
REPO = os.environ.get("GCMPY_REPO", "/repo")
out = {}
allpy = sorted(os.path.relpath(f, REPO) for f in glob.glob(os.path.join(REPO, "gcmpy", "**", "*.py"), recursive=True))
for l in open(os.path.join(ROOT, "properties.jsonl")):
    p = json.loads(l)
    # every property watches the whole package: a slip in a shared helper / base class / names module matters too
    out[p["id"]] = {rel: hashlib.sha256(open(os.path.join(REPO, rel), "rb").read()).hexdigest() for rel in allpy}
json.dump(out, open(os.path.join(ROOT, "baseline_hashes.json"), "w"), indent=0, sort_keys=True)
print(len(allpy), "files")
