#!/bin/sh
# run every registered check (quick by default) on the unchanged tree, validate MANIFEST + evidence
cd "$(dirname "$0")/.."
TIER=${1:-quick}
./build.sh >/dev/null 2>&1 || { echo "BUILD FAILED"; exit 2; }
ids=$(/venv/bin/python -c "import json;print(' '.join(c['property_id'] for c in json.load(open('MANIFEST.json'))['checks']))")
fail=0
for id in $ids; do
  t0=$(date +%s)
  out=$(./check $id --tier $TIER 2>/dev/null | grep -E '^(OK|VIOLATION|KNOWN-FINDING)')
  rc=$?
  t1=$(date +%s)
  echo "$id ($((t1-t0))s): $out"
  echo "$out" | grep -q VIOLATION && fail=1
done
python3-vt - <<'PY'
import json,jsonschema,glob
man=json.load(open('MANIFEST.json'))
jsonschema.validate(man,json.load(open('/root/.vp/MANIFEST.schema.json')))
sch=json.load(open('/root/.vp/EVIDENCE.schema.json'))
for c in man['checks']:
    ev=json.load(open(c['evidence_file']))
    jsonschema.validate(ev,sch)
    cov=ev['coverage']
    assert cov['obligations']==cov['discharged']>=1,(c['property_id'],cov['obligations'],cov['discharged'])
print('manifest + evidence valid for',len(man['checks']),'checks')
PY
exit $fail
