#!/venv/bin/python
"""Regenerates the table of seeded changes in DESIGN.md (between the SEEDED-TABLE markers) from seeded/*/meta.json."""
import glob
import json
import os
import re

ROOT = os.path.dirname(os.path.dirname(os.path.abspath(__file__)))
rows = []
for f in sorted(glob.glob(os.path.join(ROOT, "seeded", "*", "meta.json"))):
    d = json.load(open(f))
    c = d.get("confirmed", {})
    chk = c.get("check", {})
    tier = next((t for t in ("quick", "thorough") if "VIOLATION" in chk.get(t, {}).get("output", "")), "-")
    kind = ("concrete failing input" if c.get("detected_with_concrete_input")
            else ("no-failing-input-found" if c.get("detected") else "MISSED"))
    summ = re.sub(r"\s+", " ", d.get("summary", ""))[:150].replace("|", "/")
    needs = re.sub(r"\s+", " ", d.get("needs", ""))[:110].replace("|", "/")
    # seeded/<name>/note.json (hand-written, never touched by seed_eval.py): {"also": "...", "remark": "..."}
    note = {}
    nf = os.path.join(os.path.dirname(f), "note.json")
    if os.path.exists(nf):
        note = json.load(open(nf))
    by = f"./check {d.get('breaks_property')} ({tier})" + (f"; {note['also']}" if note.get("also") else "")
    if note.get("remark"):
        kind += " — " + note["remark"].replace("|", "/")
    rows.append(f"| {c.get('name')} | {summ} | {needs} | {by} | {kind} |")
table = ("| seeded change | what it does | needs | caught by | how |\n|---|---|---|---|---|\n" + "\n".join(rows) + "\n")
p = os.path.join(ROOT, "DESIGN.md")
s = open(p).read()
a, b = "<!-- SEEDED-TABLE-BEGIN -->", "<!-- SEEDED-TABLE-END -->"
if a not in s:
    s += f"\n## 10. Seeded changes and which check catches them\n\nWritten by independent sub-agents that saw only the property text and a scratch worktree of /repo; each was confirmed\n(demo passes on the clean tree, fails with the patch; the related repository tests pass with the patch) by\n`tools/seed_eval.py`, which also ran the registered check against the patched tree. Changes first missed led to the\nharness improvements listed in `notes/prompts/lessons1.md` / `lessons2.md`; the table shows the state after them.\n\n{a}\n{b}\n"
s = s[: s.index(a) + len(a)] + "\n" + table + s[s.index(b):]
open(p, "w").write(s)
print(len(rows), "rows")
