#!/bin/bash
# usage: seed_eval_many.sh <name>...   (name = Cxx-... directory under /tmp/mut-out)
declare -A T
for p in C01 C02 C03; do T[$p]="test/gcm_algorithm test/network"; done
T[C04]="test/network test/gcm_algorithm"
for p in C05 C06 C07 C08 C19; do T[$p]="test/joint_degree"; done
for p in C09 C10; do T[$p]="test/covers"; done
for p in C11 C12 C20; do T[$p]="test/tools/test_MCMC_rewiring.py"; done
T[C13]="test/tools/test_mixing_patterns.py test/tools/test_excess_from_ejk.py"
T[C14]="test/tools/test_joint_excess_from_jdd.py test/tools/test_jdd_from_excess.py test/tools/test_excess_from_ejk.py test/tools/test_average_joint_degree_from_jdd.py test/tools/test_joint_degree_from_network.py test/tools/test_mixing_patterns.py"
for p in C15 C16 C17; do T[$p]="test/message_passing"; done
T[C18]="test/tools/test_mixing_patterns.py"
for name in "$@"; do
  pid=${name%%-*}
  /verif/tools/seed_eval.py /tmp/mut-out/$name $pid $name ${T[$pid]} | /venv/bin/python -c "import json,sys;d=json.load(sys.stdin);print(d['name'],'valid',d.get('valid_seed'),'detected',d.get('detected'),d.get('detected_with_concrete_input'),[v['output'][-45:]+'|'+str(v['wall_s']) for v in d['check'].values()], flush=True)"
done
