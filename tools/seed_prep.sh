#!/bin/bash
# usage: seed_prep.sh <pattern>...  -- copies seeded/<name>/ to /tmp/mut-out/<name>/ for re-evaluation with
# tools/seed_eval_many.sh (the ported patch is used where one exists)
cd "$(dirname "$0")/.."
for pat in "$@"; do
  for d in seeded/$pat; do
    n=$(basename $d); mkdir -p /tmp/mut-out/$n
    cp $d/demo.py $d/meta.json /tmp/mut-out/$n/
    if [ -f $d/patch.ported.diff ]; then cp $d/patch.ported.diff /tmp/mut-out/$n/patch.diff; else cp $d/patch.diff /tmp/mut-out/$n/; fi
  done
done
