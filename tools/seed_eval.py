#!/venv/bin/python
"""Confirm a candidate seeded change and run the registered check against it.

usage: seed_eval.py <candidate dir with patch.diff demo.py meta.json> <property id> <name> [test paths...]
Creates a scratch worktree of /repo under /tmp, verifies: patch applies; demo passes on the clean tree and fails
with the patch; the given test paths pass with the patch; then runs ./check <id> (quick, and thorough if quick
misses) with GCMPY_REPO pointing at the patched worktree.  Keeps the candidate under /verif/seeded/<name>/ with
meta.json extended by what was run.  Removes the scratch worktree.
"""
import json
import os
import shutil
import subprocess
import sys
import time

cand, pid, name = sys.argv[1], sys.argv[2], sys.argv[3]
tests = sys.argv[4:]
wt = f"/tmp/seedeval-{name}-{os.getpid()}"
env = dict(os.environ, PYTHONHASHSEED="0", PYTHONDONTWRITEBYTECODE="1")


def run(cmd, **kw):
    p = subprocess.run(cmd, shell=True, capture_output=True, text=True, **kw)
    return p.returncode, (p.stdout + p.stderr)


res = {"property": pid, "name": name, "ran": []}
try:
    rc, out = run(f"git -C /repo worktree add -q --detach {wt} HEAD")
    assert rc == 0, out
    e = dict(env, PYTHONPATH=wt)
    rc0, out0 = run(f"/venv/bin/python {cand}/demo.py", env=e, cwd=wt, timeout=600)
    res["demo_clean_rc"] = rc0
    rc, out = run(f"git -C {wt} apply {cand}/patch.diff")
    if rc != 0:
        # the seeded change was written against an earlier /repo HEAD: fall back to a 3-way application
        rc, out = run(f"git -C {wt} apply --3way {cand}/patch.diff")
        res["applied_3way"] = True
    res["patch_applies"] = rc == 0
    assert rc == 0, out
    rc1, out1 = run(f"/venv/bin/python {cand}/demo.py", env=e, cwd=wt, timeout=600)
    res["demo_patched_rc"] = rc1
    res["demo_patched_tail"] = out1[-400:]
    rc, out = run("/venv/bin/python -m pytest --collect-only -q -p no:cacheprovider 2>&1 | tail -n 2", cwd=wt, env=env)
    res["ran"].append("pytest --collect-only -> " + out.strip().replace("\n", " | ")[-160:])
    tests_ok = True
    for t in tests:
        t0 = time.time()
        rc, out = run(f"timeout 1700 /venv/bin/python -m pytest -q -p no:cacheprovider --timeout=900 {t} 2>&1 | tail -n 1", cwd=wt, env=env)
        line = out.strip().split("\n")[-1]
        ok = " passed" in line and " failed" not in line and " error" not in line
        tests_ok = tests_ok and ok
        res["ran"].append(f"pytest {t} -> {line} ({time.time()-t0:.0f}s)")
    res["tests_pass_with_patch"] = tests_ok
    det = {}
    for tier in ("quick", "thorough"):
        t0 = time.time()
        rc, out = run(f"GCMPY_REPO={wt} /verif/check {pid} --tier {tier} 2>/dev/null | grep -E '^(VIOLATION|OK|KNOWN)' | head -n 3", env=env)
        det[tier] = {"output": out.strip(), "wall_s": round(time.time() - t0, 1)}
        if "VIOLATION" in out:
            break
    res["check"] = det
    res["detected"] = any("VIOLATION" in d["output"] for d in det.values())
    res["detected_with_concrete_input"] = any("VIOLATION" in d["output"] and "no-failing-input-found" not in d["output"] for d in det.values())
    res["valid_seed"] = bool(rc0 == 0 and rc1 != 0 and tests_ok)
finally:
    run(f"git -C /repo worktree remove --force {wt}")
    shutil.rmtree(wt, ignore_errors=True)

dst = f"/verif/seeded/{name}"
if res.get("valid_seed"):
    os.makedirs(dst, exist_ok=True)
    # a seed that had to be ported to a later /repo HEAD keeps its original patch.diff; the ported one is stored beside it
    if os.path.exists(f"{dst}/patch.ported.diff"):
        shutil.copy(f"{cand}/patch.diff", f"{dst}/patch.ported.diff")
    else:
        shutil.copy(f"{cand}/patch.diff", dst)
    shutil.copy(f"{cand}/demo.py", dst)
    meta = {}
    try:
        meta = json.load(open(f"{cand}/meta.json"))
    except Exception:  # noqa: BLE001
        pass
    meta.update({"breaks_property": pid, "confirmed": res})
    json.dump(meta, open(f"{dst}/meta.json", "w"), indent=1)
print(json.dumps(res, indent=1))
