(* C13 — mixing matrices extracted from a network are exact, symmetric and repeatable.
   Property theorems only; each is closed by [exact] of a lemma of Proofs/MixingP.v.

   Reading guide.  A network [g] has vertices 0..n-1 annotated [jd_of g v] (a tuple of T
   integers) and edges (u, v, topology name).  [exc g i v] is the excess tuple of v for the
   topology with index i (annotation with component i decremented).  The extractor object
   has one piece of state, the per-topology edge counter [c]; [get_ejks g names c] is one
   call (it returns the new counter and one matrix per name), [run_calls g names c n] the
   results of n successive calls on one object.  The matrix of the topology (i, name) after
   the recount is [get_ejk g (count_edge_types c (edges g)) i name], a dict keyed by the
   concatenation a ++ b of two excess tuples.
   [ends_count exf es a b] = number of ordered edge ends (x, partner y) of the edges [es]
   with exf x = a and exf y = b;  [own_count exf es a] = number of ends with exf x = a. *)
From Coq Require Import List ZArith QArith Qabs Bool Arith.
From GV Require Import Lib.Tree Lib.QSumM Model.Mixing Proofs.MixingP.
Import ListNotations.
Local Open Scope Q_scope.

(* every entry is exactly (#ordered ends with own excess a and partner excess b) / (2 E_t),
   for every annotated network, every topology, every state the counter was left in *)
Theorem C13_entry :
  forall (g : net) (T : nat), valid_net T g ->
  forall (c : counter) (i name : nat) (a b : key), length a = T ->
    dgetq (get_ejk g (count_edge_types c (edges g)) i name) (a ++ b)
    == nq (ends_count (exc g i) (edges_of name (edges g)) a b) / nq (2 * length (edges_of name (edges g))).
Proof. exact st_entry. Qed.
Print Assumptions C13_entry.

Theorem C13_symmetric :
  forall (g : net) (T : nat), valid_net T g ->
  forall (c : counter) (i name : nat) (a b : key), length a = T -> length b = T ->
    dgetq (get_ejk g (count_edge_types c (edges g)) i name) (a ++ b)
    == dgetq (get_ejk g (count_edge_types c (edges g)) i name) (b ++ a).
Proof. exact st_symmetric. Qed.
Print Assumptions C13_symmetric.

(* the matrix sums to 1 as soon as the topology has an edge *)
Theorem C13_sums_to_one :
  forall (g : net) (T : nat), valid_net T g ->
  forall (c : counter) (i name : nat), edges_of name (edges g) <> [] ->
    qsum (dvals (get_ejk g (count_edge_types c (edges g)) i name)) == 1.
Proof. exact st_total. Qed.
Print Assumptions C13_sums_to_one.

(* row sums = the excess distribution of the topology: the fraction of its edge ends whose
   own vertex has excess tuple a *)
Theorem C13_row_sums :
  forall (g : net) (T : nat), valid_net T g ->
  forall (c : counter) (i name : nat) (a : key),
    rowsum T (get_ejk g (count_edge_types c (edges g)) i name) a
    == nq (own_count (exc g i) (edges_of name (edges g)) a) / nq (2 * length (edges_of name (edges g))).
Proof. exact st_rowsum. Qed.
Print Assumptions C13_row_sums.

(* the keys are exactly the ordered pairs that occur on an edge of the topology, each once *)
Theorem C13_keys :
  forall (g : net) (c : counter) (i name : nat) (k : key),
    In k (dkeys (get_ejk g (count_edge_types c (edges g)) i name)) <->
    exists e, In e (edges_of name (edges g)) /\
              (k = exc g i (eu e) ++ exc g i (ev e) \/ k = exc g i (ev e) ++ exc g i (eu e)).
Proof. exact st_keys. Qed.
Print Assumptions C13_keys.

Theorem C13_keys_distinct :
  forall (g : net) (c : counter) (i name : nat),
    NoDup (dkeys (get_ejk g (count_edge_types c (edges g)) i name)).
Proof. exact st_NoDup. Qed.
Print Assumptions C13_keys_distinct.

(* repeatability: for EVERY number of calls n on one extractor object, started in ANY counter
   state c, the k-th call returns what a fresh extractor's first call returns *)
Theorem C13_repeat :
  forall (g : net) (names : list nat) (c : counter) (n k : nat), (k < n)%nat ->
    nth k (run_calls g names c n) [] = snd (get_ejks g names []).
Proof. exact run_calls_nth. Qed.
Print Assumptions C13_repeat.

Theorem C13_call_independent_of_state :
  forall (g : net) (names : list nat) (c1 c2 : counter),
    snd (get_ejks g names c1) = snd (get_ejks g names c2).
Proof. exact get_ejks_state_independent. Qed.
Print Assumptions C13_call_independent_of_state.

(* the excess-degree keys handed to the matrices object *)
Theorem C13_excess_keys :
  forall (g : net) (i : nat) (a : key),
    In a (xkeys_i g i) <-> exists k, In k (jds g) /\ (0 < knth i k)%Z /\ a = kdec i k.
Proof. exact xkeys_i_In. Qed.
Print Assumptions C13_excess_keys.

(* the overall-degree variant obeys the same law for plain degrees (excess = degree - 1) *)
Theorem C13_plain_entry :
  forall (es : list edge) (j k : Z),
    dgetq (plain_ejk es) [j; k] == nq (ends_count (pexc es) es [j] [k]) / nq (2 * length es).
Proof. exact pl_entry. Qed.
Print Assumptions C13_plain_entry.

Theorem C13_plain_symmetric :
  forall (es : list edge) (j k : Z), dgetq (plain_ejk es) [j; k] == dgetq (plain_ejk es) [k; j].
Proof. exact pl_symmetric. Qed.
Print Assumptions C13_plain_symmetric.

Theorem C13_plain_sums_to_one : forall es : list edge, es <> [] -> qsum (dvals (plain_ejk es)) == 1.
Proof. exact pl_total. Qed.
Print Assumptions C13_plain_sums_to_one.

Theorem C13_plain_row_sums :
  forall (es : list edge) (j : Z),
    rowsum 1 (plain_ejk es) [j] == nq (own_count (pexc es) es [j]) / nq (2 * length es).
Proof. exact pl_rowsum. Qed.
Print Assumptions C13_plain_row_sums.

(* the verified checker that judges the implementation's outputs is equivalent to the
   Prop-level specification [C13_spec] (matrices within eps of the recounted ends, exact
   agreement between successive calls, excess keys, overall-degree matrix) *)
Theorem C13_checker_iff :
  forall eps g names calls xk plain,
    c13_checkb eps g names calls xk plain = true <-> C13_spec eps g names calls xk plain.
Proof. exact c13_checkb_iff. Qed.
Print Assumptions C13_checker_iff.

(* and the model's output satisfies it exactly (eps = 0), for all valid inputs, all initial
   counter states and all numbers of calls *)
Theorem C13_model_satisfies_spec :
  forall g names c n, valid_net (length names) g -> NoDup names -> (0 < n)%nat ->
    C13_spec 0 g names (run_calls g names c n) (xkeys g names) (plain_ejk (edges g)).
Proof. exact model_satisfies_C13. Qed.
Print Assumptions C13_model_satisfies_spec.

(* ---------- non-vacuity ---------- *)
(* a valid network with two topologies (a triangle 0-1-2 of topology 1, two edges of
   topology 0), a self-paired class (vertices 3 and 4 are annotated alike and both hang
   off (1,1)-vertices), three calls on an extractor whose counter starts dirty *)
Definition ex_net : net :=
  mk_net [[1; 1]; [1; 1]; [0; 1]; [1; 0]; [1; 0]]%Z
         [(0, 1, 1); (1, 2, 1); (0, 2, 1); (0, 3, 0); (1, 4, 0)]%nat.

Example C13_nonvacuous_valid : valid_net 2 ex_net /\ NoDup [0; 1]%nat /\ edges_of 0 (edges ex_net) <> [].
Proof.
  split; [apply valid_netb_spec; reflexivity|]. split; [|discriminate].
  repeat constructor; cbn; intuition discriminate.
Qed.

Example C13_nonvacuous_values :
  map (fun nm => (fst nm, map (fun kv => (fst kv, Qred (snd kv))) (snd nm)))
      (nth 2 (run_calls ex_net [0; 1]%nat [(0, 7); (5, 1)]%nat 3) [])
  = [(0%nat, [([0; 1; 0; 0], 1 # 2); ([0; 0; 0; 1], 1 # 2)]%Z);
     (1%nat, [([1; 0; 1; 0], 1 # 3); ([1; 0; 0; 0], 1 # 3); ([0; 0; 1; 0], 1 # 3)]%Z)].
Proof. vm_compute. reflexivity. Qed.

Example C13_nonvacuous_checker :
  c13_checkb 0 ex_net [0; 1]%nat (run_calls ex_net [0; 1]%nat [(0, 7)]%nat 3)
             (xkeys ex_net [0; 1]%nat) (plain_ejk (edges ex_net)) = true.
Proof. vm_compute. reflexivity. Qed.

(* ================= growth: annotations with MORE components than requested names =================
   (proofs in Proofs/MixingGenP.v)  The extractor may be asked for a prefix of the network's
   topologies: the annotations then have T > length names components, and the matrices of the
   requested topologies are still keyed by the FULL excess tuples (C13_entry .. C13_keys above hold
   for every T with [valid_net T g]).  The wire checker c13_check now runs [c13_checkb_gen], which
   takes T from the annotations ([ann_len]) instead of from the name list. *)
From Coq Require Import Lia.
From GV Require Import Proofs.MixingGenP.

(* the generalised checker is equivalent to the Prop-level specification for tuple length T ... *)
Theorem C13_checker_T_iff :
  forall eps T g names calls xk plain,
    c13_checkb_T eps T g names calls xk plain = true <-> C13_spec_T eps T g names calls xk plain.
Proof. exact c13_checkb_T_iff. Qed.
Print Assumptions C13_checker_T_iff.

(* ... the wire checker decides: the observation meets the specification for the annotations' length *)
Theorem C13_checker_gen_iff :
  forall eps g names calls xk plain,
    c13_checkb_gen eps g names calls xk plain = true <->
    C13_spec_T eps (ann_len g names) g names calls xk plain.
Proof. exact c13_checkb_gen_iff. Qed.
Print Assumptions C13_checker_gen_iff.

(* ... equivalently: for SOME tuple length T >= number of names (there is at most one as soon as the
   network has a vertex: C13_ann_len_is_the_length) *)
Theorem C13_checker_gen_iff_ex :
  forall eps g names calls xk plain,
    c13_checkb_gen eps g names calls xk plain = true <-> exists T, C13_spec_T eps T g names calls xk plain.
Proof. exact c13_checkb_gen_iff_ex. Qed.
Print Assumptions C13_checker_gen_iff_ex.

Theorem C13_ann_len_is_the_length :
  forall T g names, valid_net T g -> jds g <> [] -> ann_len g names = T.
Proof. exact ann_len_valid. Qed.
Print Assumptions C13_ann_len_is_the_length.

(* the specification for T = number of names is the old one, and on the old domain (annotations of
   exactly that many components) the new checker IS the old checker; it accepts whatever the old accepted *)
Theorem C13_spec_T_is_old_spec :
  forall eps g names calls xk plain,
    C13_spec_T eps (length names) g names calls xk plain <-> C13_spec eps g names calls xk plain.
Proof. exact C13_spec_T_old. Qed.
Print Assumptions C13_spec_T_is_old_spec.

Theorem C13_checker_gen_old_domain :
  forall eps g names calls xk plain, valid_netb (length names) g = true ->
    c13_checkb_gen eps g names calls xk plain = c13_checkb eps g names calls xk plain.
Proof. exact c13_checkb_gen_old_domain. Qed.
Print Assumptions C13_checker_gen_old_domain.

Theorem C13_checker_gen_extends :
  forall eps g names calls xk plain,
    c13_checkb eps g names calls xk plain = true -> c13_checkb_gen eps g names calls xk plain = true.
Proof. exact c13_checkb_gen_extends. Qed.
Print Assumptions C13_checker_gen_extends.

(* the model satisfies the specification exactly on the whole extended domain: every T >= number of
   names, all initial counter states, all numbers of calls; and passes the wire checker *)
Theorem C13_model_satisfies_spec_T :
  forall g names c n T, valid_net T g -> (length names <= T)%nat -> NoDup names -> (0 < n)%nat ->
    C13_spec_T 0 T g names (run_calls g names c n) (xkeys g names) (plain_ejk (edges g)).
Proof. exact model_satisfies_C13_T. Qed.
Print Assumptions C13_model_satisfies_spec_T.

Theorem C13_model_passes_checker_gen :
  forall g names c n T, valid_net T g -> (length names <= T)%nat -> NoDup names -> (0 < n)%nat ->
    c13_checkb_gen 0 g names (run_calls g names c n) (xkeys g names) (plain_ejk (edges g)) = true.
Proof. exact model_passes_checker_gen. Qed.
Print Assumptions C13_model_passes_checker_gen.

(* and the modelled extractor does not raise IndexError there *)
Theorem C13_no_index_error :
  forall T g names, valid_net T g -> (length names <= T)%nat -> short_annotation g names = false.
Proof. exact short_annotation_false. Qed.
Print Assumptions C13_no_index_error.

(* ---------- non-vacuity ---------- *)
(* the network of ex_net with a third annotation component (a third topology, one edge 2-4 of it);
   the extractor is asked for the first two topologies only *)
Definition ex_net3 : net :=
  mk_net [[1; 1; 2]; [1; 1; 0]; [0; 1; 1]; [1; 0; 0]; [1; 0; 1]]%Z
         [(0, 1, 1); (1, 2, 1); (0, 2, 1); (0, 3, 0); (1, 4, 0); (2, 4, 2)]%nat.
(* what an extractor would see that drops the excess component (the zip truncation of seeded change C13-r4-3) *)
Definition ex_net3_truncated : net :=
  mk_net (map (firstn 2) (jds ex_net3)) (edges ex_net3).

Example C13_gen_nonvacuous_valid :
  valid_net 3 ex_net3 /\ (length [0; 1]%nat <= 3)%nat /\ ann_len ex_net3 [0; 1]%nat = 3%nat /\
  valid_netb (length [0; 1]%nat) ex_net3 = false.
Proof. split; [apply valid_netb_spec; reflexivity|]. split; [cbn; lia|]. split; reflexivity. Qed.

(* keys have 2 * 3 components although two topologies were requested *)
Example C13_gen_nonvacuous_values :
  map (fun nm => (fst nm, map (fun kv => (fst kv, Qred (snd kv))) (snd nm)))
      (nth 1 (run_calls ex_net3 [0; 1]%nat [(0, 7)]%nat 2) [])
  = [(0%nat, [([0; 1; 2; 0; 0; 0], 1 # 4); ([0; 0; 0; 0; 1; 2], 1 # 4);
              ([0; 1; 0; 0; 0; 1], 1 # 4); ([0; 0; 1; 0; 1; 0], 1 # 4)]%Z);
     (1%nat, [([1; 0; 2; 1; 0; 0], 1 # 6); ([1; 0; 0; 1; 0; 2], 1 # 6);
              ([1; 0; 0; 0; 0; 1], 1 # 6); ([0; 0; 1; 1; 0; 0], 1 # 6);
              ([1; 0; 2; 0; 0; 1], 1 # 6); ([0; 0; 1; 1; 0; 2], 1 # 6)]%Z)].
Proof. vm_compute. reflexivity. Qed.

Example C13_gen_nonvacuous_checker :
  c13_checkb_gen 0 ex_net3 [0; 1]%nat (run_calls ex_net3 [0; 1]%nat [(0, 7)]%nat 3)
                 (xkeys ex_net3 [0; 1]%nat) (plain_ejk (edges ex_net3)) = true /\
  (* the old checker has nothing to say here (outside its domain) *)
  c13_checkb 0 ex_net3 [0; 1]%nat (run_calls ex_net3 [0; 1]%nat [(0, 7)]%nat 3)
             (xkeys ex_net3 [0; 1]%nat) (plain_ejk (edges ex_net3)) = false /\
  (* matrices keyed by truncated excess tuples (symmetric, summing to 1) are rejected *)
  c13_checkb_gen 0 ex_net3 [0; 1]%nat (run_calls ex_net3_truncated [0; 1]%nat [] 2)
                 (xkeys ex_net3 [0; 1]%nat) (plain_ejk (edges ex_net3)) = false /\
  qsum (dvals (snd (nth 0 (nth 0 (run_calls ex_net3_truncated [0; 1]%nat [] 2) []) (0%nat, [])))) == 1.
Proof. vm_compute. repeat split; reflexivity. Qed.
