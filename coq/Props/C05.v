(* C05 — sampled joint degree sequences are handshake-consistent minimal perturbations.
   Property theorems only; each is closed by [exact] of a lemma of Proofs/SampleP.v.

   Model: [sample keys sizes draws rs] = handshaking_lemma applied to the sequence random.choices returned
   ([drawn keys draws], the oracle's index answers [draws]); [rs] are the random.randrange answers.
   [ValidSample] = the inputs the property speaks about: positive motif sizes (1 included), keys = tuples of
   length |sizes| with non-negative entries, N = |draws| >= 1, every oracle answer in range.
   All theorems hold for ALL such inputs and ALL oracle answers (no size bound). *)
From Coq Require Import List ZArith QArith Bool Arith Lia.
From GV Require Import Lib.Tree Lib.QSumL Model.Sample Proofs.SampleP.
Import ListNotations.
Local Open Scope nat_scope.

(* the call never fails on valid input *)
Theorem C05_total : forall keys sizes draws rs,
  ValidSample keys sizes draws rs -> exists out lg, sample keys sizes draws rs = SOk (out, lg).
Proof. exact sample_total. Qed.
Print Assumptions C05_total.

(* exactly N tuples, each with one entry per topology *)
Theorem C05_length : forall keys sizes draws rs out lg,
  ValidSample keys sizes draws rs -> sample keys sizes draws rs = SOk (out, lg) ->
  length out = length draws /\ Forall (fun row => length row = length sizes) out.
Proof. exact c05_length. Qed.
Print Assumptions C05_length.

(* never a removal; entries stay non-negative *)
Theorem C05_never_removes : forall keys sizes draws rs out lg,
  ValidSample keys sizes draws rs -> sample keys sizes draws rs = SOk (out, lg) ->
  forall v c, (0 <= get (drawn keys draws) v c <= get out v c)%Z.
Proof. exact c05_never_removes. Qed.
Print Assumptions C05_never_removes.

(* per topology the number of added stubs is (s - S mod s) mod s, it is < s, makes the total divisible, and is
   the LEAST non-negative number doing so *)
Theorem C05_added_minimal : forall keys sizes draws rs out lg,
  ValidSample keys sizes draws rs -> sample keys sizes draws rs = SOk (out, lg) ->
  forall c, c < length sizes ->
    let s := nth c sizes 0%Z in
    let tot := colsum c (drawn keys draws) in
    let a := (colsum c out - tot)%Z in
    (a = (s - tot mod s) mod s /\ 0 <= a < s /\ (tot + a) mod s = 0 /\
     forall a', 0 <= a' -> (tot + a') mod s = 0 -> a <= a')%Z.
Proof. exact c05_added_minimal. Qed.
Print Assumptions C05_added_minimal.

(* every per-topology total of the result is divisible by the motif size *)
Theorem C05_divisible : forall keys sizes draws rs out lg,
  ValidSample keys sizes draws rs -> sample keys sizes draws rs = SOk (out, lg) ->
  forall c, c < length sizes -> (nth c sizes 0%Z | colsum c out)%Z.
Proof. exact c05_divisible. Qed.
Print Assumptions C05_divisible.

(* the result differs from the N weighted draws exactly at the logged randrange positions *)
Theorem C05_differs_at_log : forall keys sizes draws rs out lg,
  ValidSample keys sizes draws rs -> sample keys sizes draws rs = SOk (out, lg) ->
  out = apply_log lg (drawn keys draws) /\
  Forall (fun p => fst p < length sizes /\ snd p < length draws) lg /\
  (forall v c, get out v c = get (drawn keys draws) v c + cnt c v lg)%Z /\
  (forall v c, ~ In (c, v) lg -> get out v c = get (drawn keys draws) v c).
Proof. exact c05_differs_at_log. Qed.
Print Assumptions C05_differs_at_log.

(* the number of randrange calls made for topology c *)
Theorem C05_log_columns : forall keys sizes draws rs out lg,
  ValidSample keys sizes draws rs -> sample keys sizes draws rs = SOk (out, lg) ->
  forall c, c < length sizes -> cnt_col c lg = added (nth c sizes 0%Z) (colsum c (drawn keys draws)).
Proof. exact c05_log_columns. Qed.
Print Assumptions C05_log_columns.

(* C05_call: the question put to the oracle is choices(population = keys, weights = values, k = N) *)
Theorem C05_call : forall keys weights N, choices_call keys weights N = (keys, weights, N).
Proof. reflexivity. Qed.
Print Assumptions C05_call.

(* CPython's selection rule (modelled in Sample.choices_rule, compared with the real random.choices on every
   run): for non-negative weights with positive total and r in [0,1) the selected index i is the one whose
   cumulative interval [cum_{i-1}, cum_i) contains r*total; the interval has length w_i, and intervals of
   different indices are disjoint -- so the set of r selecting key i is an interval of length w_i/total *)
Theorem C05_choices_rule_interval : forall ws r,
  ws <> [] -> Forall (fun w => 0 <= w)%Q ws ->
  let total := cumq 0 ws (length ws) in
  (0 < total)%Q -> (0 <= r)%Q -> (r < 1)%Q ->
  exists i, choices_rule ws r = SOk i /\ i < length ws /\
            (cumq 0 ws i <= r * total)%Q /\ (r * total < cumq 0 ws (S i))%Q /\
            (cumq 0 ws (S i) - cumq 0 ws i == nth i ws 0)%Q.
Proof. exact choices_rule_interval. Qed.
Print Assumptions C05_choices_rule_interval.

Theorem C05_choices_interval_unique : forall ws x i j,
  Forall (fun w => 0 <= w)%Q ws ->
  (cumq 0 ws i <= x)%Q -> (x < cumq 0 ws (S i))%Q -> (cumq 0 ws j <= x)%Q -> (x < cumq 0 ws (S j))%Q -> i = j.
Proof. exact choices_interval_unique. Qed.
Print Assumptions C05_choices_interval_unique.

(* the verified checker run on the implementation's outputs is EQUIVALENT to the Prop-level specification *)
Theorem C05_checker_correct : forall keys weights sizes N pop wts k idxs rlog out,
  sample_check keys weights sizes N pop wts k idxs rlog out = true
  <-> Spec_C05 keys weights sizes N pop wts k idxs rlog out.
Proof. exact sample_check_iff. Qed.
Print Assumptions C05_checker_correct.

(* the model's output satisfies the specification for all valid inputs and all oracle answers *)
Theorem C05_model_satisfies_spec : forall keys weights sizes draws rs,
  Shape sizes keys -> 0 < length draws -> Forall (fun i => i < length keys) draws ->
  Forall (fun r => r < length draws) rs ->
  exists out lg,
    sample keys sizes draws rs = SOk (out, lg) /\
    Spec_C05 keys weights sizes (length draws) keys weights (length draws) draws
             (rlog_of (length draws) lg) out.
Proof. exact sample_satisfies_spec. Qed.
Print Assumptions C05_model_satisfies_spec.

(* the error branches (malformed stream of the correspondence) *)
Theorem C05_error_too_few_sizes : forall i t nt jds rs, hs_loop i (t :: nt) [] jds rs = SErr SE_Index.
Proof. exact hs_loop_too_few_sizes. Qed.
Print Assumptions C05_error_too_few_sizes.
Theorem C05_error_zero_size : forall i t nt sz jds rs, hs_loop i (t :: nt) (0%Z :: sz) jds rs = SErr SE_ZeroDiv.
Proof. exact hs_loop_zero_size. Qed.
Print Assumptions C05_error_zero_size.

(* non-vacuity: the DESIGN section-3 replay (jdd {(1,0),(2,1)}, sizes [2,3], N = 5, patched vertex 3) is a valid
   input; one stub is added in each topology *)
Example C05_nonvacuous :
  let keys := [[1;0];[2;1]]%Z in let sizes := [2;3]%Z in
  let draws := [0;1;1;0;0] in let rs := [3;3;0;1] in
  shape_ok sizes keys = true /\ 0 < length draws /\
  forallb (fun i => i <? length keys) draws = true /\ forallb (fun r => r <? length draws) rs = true /\
  sample keys sizes draws rs = SOk ([[1;0];[2;1];[2;1];[2;1];[1;0]]%Z, [(0,3);(1,3)]).
Proof. vm_compute. repeat split; try reflexivity. repeat constructor. Qed.

Example C05_nonvacuous_valid : ValidSample [[1;0];[2;1]]%Z [2;3]%Z [0;1;1;0;0] [3;3;0;1].
Proof.
  unfold ValidSample, Shape. repeat split; cbn; repeat constructor; try lia.
Qed.
