(* C05 — placeholder until the proofs land *)
From Coq Require Import List ZArith QArith Bool.
From GV Require Import Lib.Tree Model.Sample.
Import ListNotations.
Example C05_runs : c05_choices (L [L [L [I 1; I 4]; L [I 1; I 2]; L [I 1; I 4]]; L [I 3; I 4]]) = L [I 0; I 2].
Proof. vm_compute. reflexivity. Qed.
