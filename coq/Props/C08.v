(* C08 — joint degrees derived from a clique cover count cliques per vertex.
   Property theorems only; each is closed by [exact] of a lemma of Proofs/CoverP.v.

   Model (Model/Cover.v): literally the loader after the repair.  [ValidCover c zero] = the covers the property
   speaks about: vertex ids contiguous from zero in {0,1}, every clique non-empty and duplicate-free (cliques may
   overlap, repeat, have any mixture of sizes).  All theorems hold for ALL such covers (no size bound). *)
From Coq Require Import List ZArith QArith Bool Arith Lia Sorted.
From GV Require Import Lib.Tree Lib.QSumL Model.Loaders Model.Sample Model.Cover
     Proofs.SampleP Proofs.LoadersP Proofs.CoverP.
Import ListNotations.
Local Open Scope nat_scope.

(* the reported motif sizes: strictly ascending, exactly the clique lengths that occur (any cover) ... *)
Theorem C08_motif_sizes : forall c,
  StronglySorted lt (motif_sizes c) /\ forall s, In s (motif_sizes c) <-> In s (map (@length Z) c).
Proof. exact motif_sizes_spec. Qed.
Print Assumptions C08_motif_sizes.

(* ... and these two facts determine the list *)
Theorem C08_motif_sizes_unique : forall a b : list nat,
  StronglySorted lt a -> StronglySorted lt b -> (forall x, In x a <-> In x b) -> a = b.
Proof. exact sorted_unique. Qed.
Print Assumptions C08_motif_sizes_unique.

(* the tabulated rows: vertex zero+r gets, for every reported size, the number of cover cliques of that size
   containing it -- in particular one column per occurring size (zero-index detection, the [largest] columns,
   the deletion of the all-zero columns from the right are all absorbed in this equation) *)
Theorem C08_rows : forall c zero,
  ValidCover c zero ->
  cover_rows c = Ok (map (fun r => spec_row c (motif_sizes c) (zero + Z.of_nat r))
                         (seq 0 (length (vertex_ids c)))).
Proof. exact cover_rows_spec. Qed.
Print Assumptions C08_rows.

Theorem C08_columns : forall c zero rows,
  ValidCover c zero -> cover_rows c = Ok rows -> Forall (fun row => length row = length (motif_sizes c)) rows.
Proof. exact cover_rows_width. Qed.
Print Assumptions C08_columns.

(* the exposed distribution is the empirical law of those rows, and the whole output satisfies the
   specification the checker decides *)
Theorem C08_model_satisfies_spec : forall c zero,
  ValidCover c zero ->
  exists rows d, cover_loader c = Ok (motif_sizes c, rows, d) /\ d = empirical rows /\
                 CoverSpec c (motif_sizes c) d.
Proof. exact cover_loader_satisfies_spec. Qed.
Print Assumptions C08_model_satisfies_spec.

(* the verified checker run on the implementation's (.motif_sizes, .jdd) is EQUIVALENT to the specification *)
Theorem C08_checker_correct : forall c sizes obs,
  cover_check c sizes obs = true <-> CoverSpec c sizes obs.
Proof. exact cover_check_iff. Qed.
Print Assumptions C08_checker_correct.

(* clique-size profile: column j totals size_j * (number of cover cliques of size_j) *)
Theorem C08_profile : forall c zero rows,
  ValidCover c zero -> cover_rows c = Ok rows ->
  forall j, j < length (motif_sizes c) ->
    let s := nth j (motif_sizes c) 0 in
    zsum (col j rows) = Z.of_nat (s * length (filter (fun cl => length cl =? s) c)).
Proof. exact cover_profile. Qed.
Print Assumptions C08_profile.

(* the empirical law of any row list: duplicate-free keys = the rows that occur, value count/n, total one (C06) *)
Theorem C08_empirical : forall rows,
  NoDup (map fst (empirical rows)) /\
  (forall k, In k (map fst (empirical rows)) <-> In k rows) /\
  (forall k v, In (k, v) (empirical rows) -> v = qfrac (count_key k rows) (length rows) /\ (0 <= v)%Q) /\
  (rows <> [] -> (qsum (map snd (empirical rows)) == 1)%Q).
Proof. intros rows. exact (proj2 (c06_empirical rows)). Qed.
Print Assumptions C08_empirical.

(* malformed stream: an empty cover raises ValueError; a vertex outside the table raises IndexError *)
Theorem C08_error_empty : cover_rows [] = Err E_Value.
Proof. exact cover_rows_empty. Qed.
Print Assumptions C08_error_empty.
Theorem C08_error_gap : forall zero size v vs t,
  pyidx (length t) (v - zero) = None -> count_clique zero size (v :: vs) t = None.
Proof. exact count_clique_out. Qed.
Print Assumptions C08_error_gap.

(* non-vacuity: the DESIGN section-3 replay (sizes {2,4}: non-adjacent) and a 1-based cover with sizes {2,5} are valid *)
Ltac nd := repeat (apply NoDup_cons; [cbn; intuition lia|]); apply NoDup_nil.

Example C08_nonvacuous_0 : ValidCover [[0;1];[1;2;3;4]]%Z 0%Z.
Proof.
  constructor.
  - left. reflexivity.
  - discriminate.
  - repeat constructor; discriminate.
  - constructor; [nd|constructor; [nd|constructor]].
  - intros x. replace (length (vertex_ids [[0;1];[1;2;3;4]]%Z)) with 5 by (vm_compute; reflexivity).
    cbn [concat app In]. lia.
Qed.

Example C08_nonvacuous_1 : ValidCover [[1;2];[2;3;4;5;6]]%Z 1%Z.
Proof.
  constructor.
  - right. reflexivity.
  - discriminate.
  - repeat constructor; discriminate.
  - constructor; [nd|constructor; [nd|constructor]].
  - intros x. replace (length (vertex_ids [[1;2];[2;3;4;5;6]]%Z)) with 6 by (vm_compute; reflexivity).
    cbn [concat app In]. lia.
Qed.

Example C08_nonvacuous_run :
  cover_loader [[0;1];[1;2;3;4]]%Z =
  Ok ([2;4], [[1;0];[1;1];[0;1];[0;1];[0;1]]%Z,
      [([1;0]%Z, 1 # 5); ([1;1]%Z, 1 # 5); ([0;1]%Z, 3 # 5)]%Q).
Proof. vm_compute. reflexivity. Qed.
