(* C08 — placeholder until the proofs land *)
From Coq Require Import List ZArith QArith Bool.
From GV Require Import Lib.Tree Model.Loaders Model.Cover.
Import ListNotations.
Example C08_runs : cover_check [[0;1];[1;2;3;4]]%Z [2;4]%nat
   (match cover_loader [[0;1];[1;2;3;4]]%Z with Ok (_, _, d) => d | Err _ => [] end) = true.
Proof. vm_compute. reflexivity. Qed.
