(* C06 — manual, empirical, marginal and function loaders yield the documented law.
   Property theorems only; each is closed by [exact] of a lemma of Proofs/LoadersP.v.

   Distributions are insertion-ordered association lists [dist = list (key * Q)] (exact rationals);
   callables are arbitrary functions [Z -> Q] / [key -> Q]: every theorem holds for ALL callables, all
   bounds, all observed sequences, all oracle answers (no size bound).
   PARTIAL: the sampling-limit clause, see [C06_full] / [C06_sampling_partial] at the end. *)
From Coq Require Import List ZArith QArith Qabs Bool Arith Lia.
From GV Require Import Lib.Tree Lib.QSumL Model.Loaders Proofs.LoadersP.
Import ListNotations.
Local Open Scope nat_scope.

(* manual loader: create_jdd leaves the given dictionary untouched *)
Theorem C06_manual : forall d ds, create (LManual d) ds = Ok ([], d).
Proof. exact c06_manual. Qed.
Print Assumptions C06_manual.

(* empirical loader: duplicate-free keys = exactly the observed tuples, value = count / N >= 0, total 1 *)
Theorem C06_empirical : forall jds,
  create (LEmpirical jds) [] = Ok ([], empirical jds) /\
  NoDup (map fst (empirical jds)) /\
  (forall k, In k (map fst (empirical jds)) <-> In k jds) /\
  (forall k v, In (k, v) (empirical jds) -> v = qfrac (count_key k jds) (length jds) /\ (0 <= v)%Q) /\
  (jds <> [] -> (qsum (map snd (empirical jds)) == 1)%Q).
Proof. exact c06_empirical. Qed.
Print Assumptions C06_empirical.

(* marginal loader, direct mode: support = the half-open box prod_i [kmin_i, kmax_i) (the code's
   range(kmin,kmax)), value = prod_i f_i(k_i) / prod_i sum_{x in [kmin_i,kmax_i)} f_i(x), i.e. the
   normalised product of the marginals; it sums to one; non-negative for non-negative marginals *)
Theorem C06_marginal_direct : forall fs bounds d,
  marginal_direct fs bounds = Ok d ->
  NoDup (map fst d) /\
  (forall k, In k (map fst d) <-> in_half_box bounds k) /\
  (forall k v, In (k, v) d ->
     (v == eval_prod fs k / qprod (marg_sums fs (map half_open bounds)))%Q) /\
  (d <> [] -> (qsum (map snd d) == 1)%Q) /\
  ((forall f x, In f fs -> 0 <= f x)%Q -> Forall (fun kv => 0 <= snd kv)%Q d).
Proof. exact c06_marginal_direct. Qed.
Print Assumptions C06_marginal_direct.

(* the normaliser the code computes (sum over the box of the products) IS the product of the marginal sums *)
Theorem C06_marginal_normaliser : forall ranges fs, length ranges <= length fs ->
  (qsum (map (eval_prod fs) (box ranges)) == qprod (marg_sums fs ranges))%Q.
Proof. exact box_sum_prod. Qed.
Print Assumptions C06_marginal_normaliser.

(* direct mode succeeds exactly on the inputs the code accepts ... *)
Theorem C06_marginal_direct_total : forall fs bounds,
  length bounds <= length fs -> ~ (marg_total fs bounds == 0)%Q -> exists d, marginal_direct fs bounds = Ok d.
Proof. exact marginal_direct_total. Qed.
Print Assumptions C06_marginal_direct_total.

(* ... and the error branches are: too few callables (IndexError), zero total mass (ZeroDivisionError) *)
Theorem C06_marginal_direct_errors : forall fs bounds e,
  marginal_direct fs bounds = Err e ->
  box (map half_open bounds) <> [] /\
  ((e = E_Index /\ length fs < length bounds) \/
   (e = E_ZeroDiv /\ length bounds <= length fs /\ (marg_total fs bounds == 0)%Q)).
Proof. exact marginal_direct_err. Qed.
Print Assumptions C06_marginal_direct_errors.

(* function loader: keys = the CLOSED box prod_i [kmin_i .. kmax_i], value fp(k), no normalisation *)
Theorem C06_function : forall fp bounds,
  create (LFunction fp bounds) [] = Ok ([], function_loader fp bounds) /\
  NoDup (map fst (function_loader fp bounds)) /\
  (forall k, In k (map fst (function_loader fp bounds)) <-> in_closed_box bounds k) /\
  (forall k v, In (k, v) (function_loader fp bounds) -> v = fp k).
Proof. exact c06_function. Qed.
Print Assumptions C06_function.

(* marginal loader, sampling mode (the proved part of the sampling clause): one choices call per dimension with
   population = the closed range and weights f_i; the result is the empirical law of the column-stacked answers;
   its support lies inside the closed box; it sums to one *)
Theorem C06_sampling_partial : forall fs bounds n draws cs d,
  marginal_sampling fs bounds n draws = Ok (cs, d) ->
  cs = expected_calls fs bounds n /\
  d = empirical (stack_rows (cols_of cs draws) n) /\
  (DrawsOk bounds n draws -> forall k, In k (map fst d) -> in_closed_box bounds k) /\
  (0 < n -> (qsum (map snd d) == 1)%Q).
Proof. exact c06_marginal_sampling. Qed.
Print Assumptions C06_sampling_partial.

Theorem C06_sampling_errors : forall fs bounds n draws e,
  marginal_sampling fs bounds n draws = Err e ->
  (e = E_Index /\ length fs < length bounds) \/ (e = E_Value /\ bounds = []).
Proof. exact marginal_sampling_err. Qed.
Print Assumptions C06_sampling_errors.

(* both construction paths: for every deterministic loader the dispatcher (constructor + a second create_jdd)
   exposes what direct construction exposes (same map or same exception); for the sampling loader it is what
   direct construction gives for the oracle answers of the dispatcher's second round *)
Theorem C06_dispatch : forall l rounds rounds',
  deterministic l -> res_dist (dispatch l rounds) = res_dist (construct l rounds').
Proof. exact dispatch_eq_construct. Qed.
Print Assumptions C06_dispatch.

Theorem C06_dispatch_sampling : forall fs bounds n rounds rounds',
  nth 1 rounds [] = nth 0 rounds' [] ->
  res_dist (dispatch (LMargSampling fs bounds n) rounds) = res_dist (construct (LMargSampling fs bounds n) rounds').
Proof. exact dispatch_sampling. Qed.
Print Assumptions C06_dispatch_sampling.

(* the verified checker run on the implementation's .jdd is EQUIVALENT to the Prop-level specification
   (exact for manual / function, within 1e-9 relative where the code divides floats) *)
Theorem C06_checker_correct : forall l logged rounds obs,
  loader_check l logged rounds obs = true <-> LoaderSpec l logged rounds obs.
Proof. exact loader_check_iff. Qed.
Print Assumptions C06_checker_correct.

(* the model's output satisfies the specification, on both paths, for all inputs the code accepts *)
Theorem C06_model_satisfies_spec_direct : forall l ds cs d,
  construct l [ds] = Ok (cs, d) ->
  match l with
  | LManual d0 => NoDup (map fst d0)
  | LMargSampling fs b n => RoundOk (expected_calls fs b n) n ds
  | _ => True
  end ->
  LoaderSpec l cs [ds] d.
Proof. exact construct_satisfies_spec. Qed.
Print Assumptions C06_model_satisfies_spec_direct.

Theorem C06_model_satisfies_spec_dispatch : forall l ds0 ds1 cs d,
  dispatch l [ds0; ds1] = Ok (cs, d) ->
  match l with
  | LManual d0 => NoDup (map fst d0)
  | LMargSampling fs b n => RoundOk (expected_calls fs b n) n ds0 /\ RoundOk (expected_calls fs b n) n ds1
  | _ => True
  end ->
  LoaderSpec l cs [ds0; ds1] d.
Proof. exact dispatch_satisfies_spec. Qed.
Print Assumptions C06_model_satisfies_spec_dispatch.

(* ---------------------------------------------------------------------------------------------
   The FULL sampling clause ("in the limit of many samples the sampling mode yields the normalised product of
   the marginals over the closed box"): for independent answers following the weights, the probability that
   the exposed map deviates by more than eps anywhere on the box tends to 0.  This is a law-of-large-numbers
   statement about the RNG oracle; it is NOT proved.  Proved instead: C06_sampling_partial above (the result
   is the empirical law of the independent per-dimension draws). *)
Definition C06_full : Prop :=
  forall (fs : list (Z -> Q)) (bounds : list (Z * Z)),
    bounds <> [] -> length bounds <= length fs ->
    (forall f x, In f fs -> 0 <= f x)%Q ->
    Forall (fun s => 0 < s)%Q (marg_sums fs (map closed bounds)) ->
    forall eps delta : Q, (0 < eps)%Q -> (0 < delta)%Q ->
    exists n0, forall n, n0 <= n ->
      let cs := expected_calls fs bounds n in
      (qsum (map (draws_prob cs) (filter (sampling_deviates fs bounds n eps) (all_draws cs n))) <= delta)%Q.

(* non-vacuity: concrete loaders meeting the hypotheses of the theorems above *)
Example C06_nonvacuous_direct :
  let f := tlookup [(0, 1#2); (1, 1#4); (2, 1#8); (3, 3#8)]%Z in
  match marginal_direct [f; f] [(0, 3); (1, 3)]%Z with
  | Ok d => length d = 6 /\ Qeq_bool (qsum (map snd d)) 1 = true /\
            Qeq_bool (flookup d [0; 1]%Z) (8 # 21) = true
  | Err _ => False
  end.
Proof. vm_compute. repeat split. Qed.

Example C06_nonvacuous_sampling :
  let f := tlookup [(0, 1#2); (1, 1#4); (2, 1#8); (3, 3#8)]%Z in
  let ds := [[0; 2; 2; 1]; [1; 1; 0; 0]] in
  RoundOk (expected_calls [f; f] [(0, 2); (1, 2)]%Z 4) 4 ds /\
  match construct (LMargSampling [f; f] [(0, 2); (1, 2)]%Z 4) [ds] with
  | Ok (cs, d) => loader_check (LMargSampling [f; f] [(0, 2); (1, 2)]%Z 4) cs [ds] d = true /\ length d = 4
  | Err _ => False
  end.
Proof.
  split.
  - unfold RoundOk. cbn. split; [reflexivity|]. repeat constructor.
  - vm_compute. split; reflexivity.
Qed.

Example C06_nonvacuous_dispatch :
  deterministic (LFunction (fun k => 1 # 2) [(0, 1)]%Z) /\
  res_dist (dispatch (LFunction (fun k => 1 # 2) [(0, 1)]%Z) []) = Ok [([0]%Z, 1 # 2); ([1]%Z, 1 # 2)].
Proof. split; [exact Logic.I|reflexivity]. Qed.
