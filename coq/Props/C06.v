(* C06 — placeholder until the proofs land *)
From Coq Require Import List ZArith QArith Bool.
From GV Require Import Lib.Tree Model.Loaders.
Import ListNotations.
Example C06_runs : loader_check (LEmpirical [[1;0];[2;1];[2;1]]%Z) [] [] (empirical [[1;0];[2;1];[2;1]]%Z) = true.
Proof. vm_compute. reflexivity. Qed.
