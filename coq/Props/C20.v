(* C20 — the drawable edge set behaves as a set under any add/remove history.
   Property theorems only; each is closed by [exact] of a lemma of Proofs/DrawSetP.v. *)
From Coq Require Import List ZArith Bool Arith Permutation.
From GV Require Import Lib.Tree Model.DrawSet Proofs.DrawSetP Proofs.DrawSetReP.
Import ListNotations.

(* For EVERY finite history of add / remove / draw / contains / len / iterate operations
   from the empty set: each observable output agrees with a plain set ([out_ok], which
   is what [c20_check] runs on the implementation's outputs), the member list after every
   step is duplicate-free and equals the plain set, and the final state represents the
   plain set obtained by folding the abstract operations. *)
Theorem C20_history_refines_plain_set :
  forall ops : list op,
    check_hist [] (history ds_empty ops) = true /\
    R (fst (run ds_empty ops)) (fold_left a_step ops []).
Proof. intros ops. exact (run_refines ops ds_empty [] R_empty). Qed.
Print Assumptions C20_history_refines_plain_set.

(* the structural invariant (dict and list mirror each other) holds in every reachable state *)
Theorem C20_invariant_reachable : forall ops, Inv (fst (run ds_empty ops)).
Proof. exact reachable_Inv. Qed.
Print Assumptions C20_invariant_reachable.

(* one step, from any state representing a plain set l *)
Theorem C20_step :
  forall s l o, R s l -> R (fst (step s o)) (a_step l o) /\ out_ok l o (snd (step s o)) = true.
Proof. exact step_refines. Qed.
Print Assumptions C20_step.

(* every draw returns a member and every member can be drawn *)
Theorem C20_draw :
  forall s l, R s l ->
    (forall e, In e l -> exists i, i < ds_len s /\ ds_draw s i = Some e) /\
    (forall i, i < ds_len s -> exists e, ds_draw s i = Some e /\ In e l).
Proof. exact draw_complete. Qed.
Print Assumptions C20_draw.

(* the draw is a bijection between the indices below len and the members: each member is returned by
   exactly one index - the one its hashmap entry stores - so random.choice (a uniform index) is a
   uniform member; len is the cardinality of the plain set.  Holds in every state representing a
   plain set, hence (C20_history_refines_plain_set) after every history. *)
Theorem C20_draw_bijection :
  forall s l, R s l ->
    ds_len s = length l /\
    (forall e, In e l -> exists i, i < ds_len s /\ ds_draw s i = Some e /\ lookup (hm s) e = Some i /\
       forall j, ds_draw s j = Some e -> j = i) /\
    (forall i j e, ds_draw s i = Some e -> ds_draw s j = Some e -> i = j).
Proof. exact draw_bijection. Qed.
Print Assumptions C20_draw_bijection.

(* iteration lists each member exactly once *)
Theorem C20_iter : forall s l, R s l -> Permutation (ds_iter s) l.
Proof. exact iter_permutation. Qed.
Print Assumptions C20_iter.

(* inserting a present element changes nothing; removing an absent one raises and
   leaves the structure exactly as it was *)
Theorem C20_add_present : forall s e, ds_contains s e = true -> ds_add s e = s.
Proof. exact add_present_noop. Qed.
Print Assumptions C20_add_present.

Theorem C20_remove_absent : forall s e, ds_contains s e = false -> step s (ORemove e) = (s, RErr).
Proof. exact remove_absent_state. Qed.
Print Assumptions C20_remove_absent.

(* removal of a present element followed by its re-insertion, from ANY state representing a plain
   set: the removal succeeds, the element is gone (len - 1), and after re-insertion the structure
   represents exactly the same members again with the same len *)
Theorem C20_remove_then_reinsert :
  forall s l e, R s l -> In e l ->
    exists s1, ds_remove s e = Some s1 /\
      R s1 (a_remove l e) /\ ds_contains s1 e = false /\ ds_len s1 + 1 = ds_len s /\
      R (ds_add s1 e) (a_add (a_remove l e) e) /\
      (forall x, In x (edges (ds_add s1 e)) <-> In x l) /\
      ds_len (ds_add s1 e) = ds_len s.
Proof. exact remove_then_add. Qed.
Print Assumptions C20_remove_then_reinsert.

(* non-vacuity: a concrete history exercising removal of the last-inserted element,
   removal of an inner element, removal down to empty and re-insertion *)
Example C20_nonvacuous :
  let ops := [OAdd 5; OAdd 7; OAdd 9; ORemove 9; ORemove 5; OAdd 5; ORemove 7; ORemove 5; ORemove 5; OAdd 7]%Z in
  edges (fst (run ds_empty ops)) = [7%Z] /\ snd (run ds_empty ops) =
    [RUnit; RUnit; RUnit; RUnit; RUnit; RUnit; RUnit; RUnit; RErr; RUnit].
Proof. vm_compute. split; reflexivity. Qed.
