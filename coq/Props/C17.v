From GV Require Import Model.MsgPass.
