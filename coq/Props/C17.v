(* C17 — message passing returns the (iterate towards the) fixed point of the motif-cover equations.
   Property theorems only; each is closed by [exact] of a lemma of Proofs/MsgPassP.v / MsgPassG.v / MsgPassT.v.

   Objects (Model/MsgPass.v):
     net                      cover-labelled network: nodes, edges in sweep order with their motif ID, motif table
     mp_model nt T phi        model of MessagePassing(G, iterations=T).theoretical(phi) on a fresh object
                              (per-motif equation = the automated equation auto_q of C15)
     mp_spec nt T phi         THE SPEC: the same Gauss-Seidel iteration with the exact bond-percolation
                              expectation of C15 as per-motif equation
     mp_table nt T phi        THE INDEPENDENT SPEC (growth 2): 1 - (1/N) * sum over vertices i of product over motifs
                              tau containing i of H_T(i,tau), "tau contains i" read off the MOTIF TABLE (m_verts), the
                              update of H(i,tau) = expectation over motif tau rooted at i of the product over the other
                              vertices j of i's component of u_j, u_j = product over the table's motifs nu <> tau that
                              contain j of H(j,nu); the edge list gives only the ORDER of the updates
     mp_object nt T phis      one object (evaluator caches persist, _H_tau reset per query) queried with phis
     c17_checkb               the verified checker run on the implementation's floats. *)
From Coq Require Import List ZArith QArith Bool Arith.
From Coq Require Import Permutation.
From GV Require Import Lib.Tree Lib.PolyRefl15 Lib.Graph15 Model.AutoEq Proofs.AutoEqP Model.MsgPass Proofs.MsgPassP
                       Proofs.MsgPassG Proofs.MsgPassT.
Import ListNotations.
Local Open Scope Q_scope.

(* The full statement.  Its first conjunct is proved below (C17_monotone).  NOT proved: the second
   conjunct, that the iterates converge to a fixed point of the sweep (only the T-th iterate is
   characterised; convergence is not needed to compare implementation and specification at equal T). *)
Definition C17_full : Prop :=
  (forall nt T phi phi', 0 <= phi -> phi <= phi' -> phi' <= 1 -> mp_spec nt T phi <= mp_spec nt T phi')
  /\ (forall nt phi, 0 <= phi <= 1 -> n_nodes nt <> [] ->
        exists Hstar : Hmap,
          Heq (fst (sweep eqn_spec nt phi (Hstar, tt))) Hstar
          /\ forall eps, 0 < eps -> exists T0, forall T, (T0 <= T)%nat ->
               mp_spec nt T phi - result nt Hstar <= eps /\ result nt Hstar - mp_spec nt T phi <= eps).

(* GENERAL (by definition of the model, spelled out): the returned value is 1 - the vertex average of
   the product over the vertex's motifs of H_T, where H_T is obtained from the constant 1/2 by T sweeps
   over the edges in order, each edge updating the message of its two end points by the per-motif
   equation evaluated at u_j = product of j's messages from its other motifs (each once). *)
Theorem C17_formula_partial : forall nt T phi,
    mp_model nt T phi = result nt (fst (sweeps eqn_fresh T nt phi (H0, tt)))
    /\ (forall H focal id,
           fst (calc eqn_fresh nt phi (H, tt) focal id)
           = upd H focal id (auto_q (motif_graph (find_motif nt id)) focal phi
                                    (u_of nt H (m_verts (find_motif nt id)))))
    /\ (forall H, result nt H
                  = 1 - qsum (map (fun i => qprod (map (H i) (ids_at nt i))) (n_nodes nt))
                        / inject_Z (Z.of_nat (length (n_nodes nt)))).
Proof. exact mp_formula. Qed.
Print Assumptions C17_formula_partial.

(* GENERAL: what "the other motifs of j" in that update means.  The code collects the motif IDs of j's
   neighbours outside the current motif's vertex list; under the cover precondition (checked per case by
   cover_okb: motifs pairwise share at most one vertex) this is: all motifs of j except the current one,
   each once. *)
Theorem C17_others_semantic : forall nt, cover_okb nt = true ->
    forall i j id, In (i, j, id) (n_sweep nt) ->
    forall v, In v (g_nodes (motif_graph (find_motif nt id))) ->
      others nt v (m_verts (find_motif nt id)) = filter (fun x => negb (Nat.eqb x id)) (ids_at nt v).
Proof. exact cover_okb_others. Qed.
Print Assumptions C17_others_semantic.

(* GENERAL: if every (motif, focal) equation the network uses is the exact expectation (C15), the model
   equals the specification, for every sweep order, T and phi. *)
Theorem C17_model_is_spec : forall nt, motif_identities nt ->
    forall T phi, mp_model nt T phi == mp_spec nt T phi.
Proof. exact model_is_spec. Qed.
Print Assumptions C17_model_is_spec.

(* ... and that hypothesis is decided by a polynomial-identity check of the network's motifs
   (c17_check_motifs, run on every case; true for every motif on <= 5 vertices by C15_identity_upto_5) *)
Theorem C17_model_is_spec_checked : forall nt, motifs_okb nt = true ->
    forall T phi, mp_model nt T phi == mp_spec nt T phi.
Proof. intros nt Hm. exact (model_is_spec nt (motifs_okb_identities nt Hm)). Qed.
Print Assumptions C17_model_is_spec_checked.

(* GENERAL, UNCONDITIONAL: by the general C15 identity (C15_identity_general: every well-formed motif of
   ANY size) that hypothesis holds for every well-formed network: swept end points are vertices of their
   motif and every motif graph is a simple graph (net_okb, the input precondition).  No per-network
   polynomial check and no bound on the motif size is needed any more. *)
Theorem C17_model_is_spec_unconditional : forall nt, net_okb nt = true ->
    forall T phi, mp_model nt T phi == mp_spec nt T phi.
Proof. exact model_is_spec_unconditional. Qed.
Print Assumptions C17_model_is_spec_unconditional.

(* the hypothesis of C17_model_is_spec itself, discharged under exactly the two facts it needs *)
Theorem C17_motif_identities_general : forall nt,
    sweep_okb nt = true ->
    (forall m, In m (n_motifs nt) -> wf_graph (motif_graph m) = true) ->
    motif_identities nt.
Proof. exact motif_identities_general. Qed.
Print Assumptions C17_motif_identities_general.

(* GENERAL, END TO END: one MessagePassing object queried repeatedly (its evaluator's caches persist and fill
   up), and the extracted reduced-fraction model the implementation is compared with, return the
   SPECIFICATION's values for every well-formed network (motifs of any size) *)
Theorem C17_object_is_spec : forall nt T phis, net_okb nt = true ->
    Forall2 Qeq (mp_object nt T phis) (map (mp_spec nt T) phis).
Proof. exact object_is_spec. Qed.
Print Assumptions C17_object_is_spec.

Theorem C17_wire_model_is_spec : forall nt T phis, net_okb nt = true ->
    Forall2 Qeq (mp_history (eqn_cached alg_qr) nt T caches_empty phis) (map (mp_spec nt T) phis).
Proof. exact wire_model_is_spec. Qed.
Print Assumptions C17_wire_model_is_spec.

(* GENERAL: the value is a probability *)
Theorem C17_bounds : forall nt T phi, 0 <= phi <= 1 -> n_nodes nt <> [] -> 0 <= mp_spec nt T phi <= 1.
Proof. exact spec_bounds. Qed.
Print Assumptions C17_bounds.

(* GENERAL: no giant component without occupied edges, whatever the iteration count >= 1 *)
Theorem C17_zero : forall nt T phi, phi == 0 -> (0 < T)%nat -> n_nodes nt <> [] -> mp_spec nt T phi == 0.
Proof. exact spec_zero. Qed.
Print Assumptions C17_zero.

(* GENERAL: the value is non-decreasing in phi, for every iteration count *)
Theorem C17_monotone : forall nt phi phi', 0 <= phi -> phi <= phi' -> phi' <= 1 ->
    forall T, mp_spec nt T phi <= mp_spec nt T phi'.
Proof. exact spec_monotone. Qed.
Print Assumptions C17_monotone.

(* GENERAL: any sequence of queries on ONE object (its evaluator's caches persist and fill up, _H_tau
   and phi are reset by every query) returns what fresh objects return *)
Theorem C17_history : forall nt T phis, sweep_okb nt = true ->
    Forall2 Qeq (mp_object nt T phis) (map (mp_model nt T) phis).
Proof.
  intros nt T phis Hok.
  exact (history_fresh alg_q nt T alg_q_proper Hok phis caches_empty (cache_inv_empty (net_naming nt))).
Qed.
Print Assumptions C17_history.

(* GENERAL: the executable model compared with the implementation (sums reduced to lowest terms,
   caches threaded through) computes the model *)
Theorem C17_wire_model : forall nt T phis, sweep_okb nt = true ->
    Forall2 Qeq (mp_history (eqn_cached alg_qr) nt T caches_empty phis) (map (mp_model nt T) phis).
Proof.
  intros nt T phis Hok.
  exact (history_fresh alg_qr nt T alg_qr_q Hok phis caches_empty (cache_inv_empty (net_naming nt))).
Qed.
Print Assumptions C17_wire_model.

(* GENERAL: soundness of the checker that judges the implementation's answers *)
Theorem C17_check_sound : forall nt T pvs, c17_checkb nt T pvs = true ->
    forall phi v, In (phi, v) pvs ->
      v - mp_spec nt T phi <= tol /\ mp_spec nt T phi - v <= tol
      /\ (0 <= phi <= 1 -> - tol <= v <= 1 + tol)
      /\ (phi == 0 -> (0 < T)%nat -> - tol <= v <= tol).
Proof. exact c17_check_sound. Qed.
Print Assumptions C17_check_sound.

Theorem C17_check_mono_sound : forall nt T pvs, c17_checkb nt T pvs = true ->
    forall phi v phi' v', In (phi, v) pvs -> In (phi', v') pvs ->
      0 <= phi -> phi <= phi' -> phi' <= 1 -> v <= v' + tol + tol.
Proof. exact c17_check_mono_sound. Qed.
Print Assumptions C17_check_mono_sound.

(* non-vacuity: a ring of three single-edge motifs (IDs 1,2,3) on the vertices 0,1,2 with a pendant edge
   motif (ID 4) to vertex 3: the hypotheses of the theorems hold and the iterates are non-trivial and
   depend on T.  (On tree-like finite covers the messages of leaf motifs are exactly 1 and the value
   collapses to 0 after finitely many sweeps: second example.) *)
Definition ring3 : net :=
  mk_net [0; 1; 2; 3]%nat
         [(0, 1, 1); (1, 2, 2); (2, 0, 3); (2, 3, 4)]%nat
         [mk_motif 1 [0; 1]%nat [(0, 1)]%nat; mk_motif 2 [1; 2]%nat [(1, 2)]%nat;
          mk_motif 3 [2; 0]%nat [(2, 0)]%nat; mk_motif 4 [2; 3]%nat [(2, 3)]%nat].
Definition two_triangles : net :=
  mk_net [0; 1; 2; 3; 4; 5]%nat
         [(0, 1, 7); (0, 2, 7); (1, 2, 7); (2, 3, 9); (2, 4, 9); (3, 4, 9)]%nat
         [mk_motif 7 [0; 1; 2]%nat [(0, 1); (1, 2); (0, 2)]%nat;
          mk_motif 9 [2; 3; 4]%nat [(2, 3); (3, 4); (2, 4)]%nat].

(* a network with a 6-vertex motif (beyond the C15 reflection bound: a 6-cycle with a chord) and a pendant edge *)
Definition one_big : net :=
  mk_net [0; 1; 2; 3; 4; 5; 6]%nat
         [(0, 1, 3); (1, 2, 3); (2, 3, 3); (3, 4, 3); (4, 5, 3); (5, 0, 3); (1, 4, 3); (0, 6, 8)]%nat
         [mk_motif 3 [0; 1; 2; 3; 4; 5]%nat [(0, 1); (1, 2); (2, 3); (3, 4); (4, 5); (5, 0); (1, 4)]%nat;
          mk_motif 8 [0; 6]%nat [(0, 6)]%nat].

Example C17_unconditional_nonvacuous :
  net_okb one_big = true /\ net_okb ring3 = true /\ net_okb two_triangles = true
  /\ length (g_nodes (motif_graph (find_motif one_big 3))) = 6%nat
  /\ Qred (mp_model one_big 1 (1 # 2)) = 289 # 1792
  /\ Qred (mp_spec one_big 1 (1 # 2)) = 289 # 1792.
Proof. vm_compute. repeat split; reflexivity. Qed.

Example C17_nonvacuous :
  sweep_okb ring3 = true /\ motifs_okb ring3 = true /\ net_okb ring3 = true /\ n_nodes ring3 <> []
  /\ Qred (mp_model ring3 1 (1 # 2)) = 43 # 128
  /\ Qred (mp_model ring3 2 (1 # 2)) = 5297 # 32768
  /\ Qred (mp_spec ring3 2 (1 # 2)) = 5297 # 32768
  /\ map Qred (mp_object ring3 2 [1 # 2; 0; 1; 1 # 2]) = [5297 # 32768; 0; 59 # 64; 5297 # 32768]
  /\ c17_checkb ring3 2 [(1 # 2, 5297 # 32768); (0, 0); (1, 59 # 64)] = true
  /\ c17_checkb ring3 2 [(1 # 2, 43 # 128)] = false
  /\ c17_checkb ring3 2 [(1 # 2, 5297 # 32768); (1, 0)] = false
  /\ cover_okb ring3 = true /\ others ring3 2 [2; 0]%nat = [2; 4]%nat
  /\ sweep_okb two_triangles = true /\ motifs_okb two_triangles = true /\ cover_okb two_triangles = true
  /\ Qred (mp_model two_triangles 1 (1 # 2)) = 5 # 48 /\ Qred (mp_model two_triangles 2 (1 # 2)) = 0.
Proof. vm_compute. repeat split; try reflexivity. discriminate. Qed.

(* ================================================================================================== *)
(* GROWTH 2 (audit finding C17-M2): an INDEPENDENT, table-based specification.

   mp_spec shares its bookkeeping (nbrs_lab / others / ids_at / u_of: "the motifs of a vertex" read off the LABELS
   of its incident edges) with the model.  The definitions below (Model/MsgPass.v, last section) use none of it:
     motifs_of nt v        = IDs of the table's motifs m with v in m_verts m
     u_table nt H id j     = product over nu in motifs_of nt j, nu <> id, of H(j, nu)
     step_T nt phi H i id  = H with (i, id) := expectation (motif_graph (find_motif nt id)) i phi (u_table nt H id)
     sweep_T / sweeps_T    = the steps (i, id), (j, id) for the edges (i, j, id) in sweep order, T times, from H0 = 1/2
     mp_table nt T phi     = 1 - (1 / N) * sum_{i in n_nodes} prod_{tau in motifs_of nt i} H_T(i, tau),   N = |n_nodes|
   Preconditions (all three decided by the wire entry c17_check_table, run on every case):
     net_okb    labels consistent (swept edges are edges of their motif, m_verts = vertices of m_edges, simple graphs)
     cover_okb  motifs pairwise share at most one vertex (seen from every member of every swept motif)
     table_okb  the table is exactly the cover that labels the edges: IDs pairwise distinct, every edge of every
                table motif is present in the network with that motif's ID (no shadowed / phantom motif).
   table_okb is needed: with only net_okb + cover_okb a table may contain a second entry with an ID already used
   (shadowed by find_motif) or a motif none of whose edges is in the network; such a motif "contains" its vertices
   according to the table but no edge carries its label, so ids_at and motifs_of differ. *)

(* (b) GENERAL: the edge-label view and the table view of "the motifs of v" agree: same IDs, each once *)
Theorem C17_ids_at_table : forall nt, net_okb nt = true -> table_okb nt = true ->
    forall v, Permutation (ids_at nt v)
                          (map m_id (filter (fun m => memb v (m_verts m)) (n_motifs nt))).
Proof. exact ids_at_table. Qed.
Print Assumptions C17_ids_at_table.

(* (a) GENERAL: the update performed by the code-shaped specification for an end point of a swept edge is the
   message equation written with table membership only: H(focal, id) becomes the exact expectation, over motif id
   rooted at focal, of the product over the other vertices j of focal's component of
   u_j = product over the table's motifs nu <> id containing j of H(j, nu); every other entry is unchanged *)
Theorem C17_update_table : forall nt,
    net_okb nt = true -> cover_okb nt = true -> table_okb nt = true ->
    forall phi i j id, In (i, j, id) (n_sweep nt) ->
    forall focal, focal = i \/ focal = j -> forall H,
      Heq (fst (calc eqn_spec nt phi (H, tt) focal id))
          (upd H focal id
               (expectation (motif_graph (find_motif nt id)) focal phi
                  (fun j => qprod (map (H j) (filter (fun x => negb (Nat.eqb x id))
                     (map m_id (filter (fun m => memb j (m_verts m)) (n_motifs nt))))))))
      /\ fst (calc eqn_spec nt phi (H, tt) focal id) focal id
         == expectation (motif_graph (find_motif nt id)) focal phi (u_table nt H id).
Proof. exact update_table. Qed.
Print Assumptions C17_update_table.

(* (c) GENERAL: the formula is no longer a definitional unfolding: the code-shaped specification iterate equals
   1 - (1/N) * sum over the vertices i of the product over the table's motifs tau containing i of H_T(i, tau),
   H_T = T table-based Gauss-Seidel sweeps from the constant 1/2 *)
Theorem C17_spec_is_table : forall nt,
    net_okb nt = true -> cover_okb nt = true -> table_okb nt = true ->
    forall T phi,
      mp_spec nt T phi
      == 1 - (1 / inject_Z (Z.of_nat (length (n_nodes nt))))
             * qsum (map (fun i => qprod (map (sweeps_T T nt phi H0 i)
                                              (map m_id (filter (fun m => memb i (m_verts m)) (n_motifs nt)))))
                         (n_nodes nt)).
Proof. exact spec_is_table. Qed.
Print Assumptions C17_spec_is_table.

Theorem C17_formula_table : forall nt,
    net_okb nt = true -> cover_okb nt = true -> table_okb nt = true ->
    forall T phi, mp_spec nt T phi == mp_table nt T phi.
Proof. exact spec_is_table. Qed.
Print Assumptions C17_formula_table.

(* ... hence the model of the code (automated equation, neighbour-based bookkeeping) computes the table formula *)
Theorem C17_model_is_table : forall nt,
    net_okb nt = true -> cover_okb nt = true -> table_okb nt = true ->
    forall T phi, mp_model nt T phi == mp_table nt T phi.
Proof. exact model_is_table. Qed.
Print Assumptions C17_model_is_table.

(* ... and so do one object queried repeatedly and the extracted reduced-fraction model the implementation is
   compared with *)
Theorem C17_object_is_table : forall nt,
    net_okb nt = true -> cover_okb nt = true -> table_okb nt = true ->
    forall T phis, Forall2 Qeq (mp_object nt T phis) (map (mp_table nt T) phis).
Proof. exact object_is_table. Qed.
Print Assumptions C17_object_is_table.

Theorem C17_wire_model_is_table : forall nt,
    net_okb nt = true -> cover_okb nt = true -> table_okb nt = true ->
    forall T phis, Forall2 Qeq (mp_history (eqn_cached alg_qr) nt T caches_empty phis) (map (mp_table nt T) phis).
Proof. exact wire_model_is_table. Qed.
Print Assumptions C17_wire_model_is_table.

(* GENERAL: the cover precondition can be read off the motif table alone: if two table motifs with different IDs
   never share two vertices (pairwise_okb, the assumption of the method as it is usually stated) then cover_okb
   holds.  cover_okb is strictly weaker (it only looks at ADJACENT vertices: example cycles_opp below). *)
Theorem C17_cover_from_pairwise : forall nt,
    net_okb nt = true -> pairwise_okb nt = true -> cover_okb nt = true.
Proof. exact cover_from_pairwise. Qed.
Print Assumptions C17_cover_from_pairwise.

(* END TO END with preconditions on the motif table and the presence of its edges only *)
Theorem C17_object_is_table_pairwise : forall nt,
    net_okb nt = true -> table_okb nt = true -> pairwise_okb nt = true ->
    forall T phis, Forall2 Qeq (mp_object nt T phis) (map (mp_table nt T) phis).
Proof. exact object_is_table_pairwise. Qed.
Print Assumptions C17_object_is_table_pairwise.

(* GENERAL: the verified checker run on the implementation's floats judges them against the TABLE formula *)
Theorem C17_check_sound_table : forall nt,
    net_okb nt = true -> cover_okb nt = true -> table_okb nt = true ->
    forall T pvs, c17_checkb nt T pvs = true ->
    forall phi v, In (phi, v) pvs -> v - mp_table nt T phi <= tol /\ mp_table nt T phi - v <= tol.
Proof. exact check_sound_table. Qed.
Print Assumptions C17_check_sound_table.

(* GENERAL: bounds, value 0 at phi = 0, monotonicity in phi, stated for the table formula *)
Theorem C17_table_properties : forall nt,
    net_okb nt = true -> cover_okb nt = true -> table_okb nt = true ->
    forall T,
      (forall phi, 0 <= phi <= 1 -> 0 <= mp_table nt T phi <= 1)
      /\ (forall phi, phi == 0 -> (0 < T)%nat -> mp_table nt T phi == 0)
      /\ (forall phi phi', 0 <= phi -> phi <= phi' -> phi' <= 1 -> mp_table nt T phi <= mp_table nt T phi').
Proof. exact table_properties. Qed.
Print Assumptions C17_table_properties.

(* GENERAL, no precondition: a solution H of the message equations in table form (at both end points of every
   swept edge) is a fixed point of the table-based sweep.  (The converse, and convergence of the iterates to such
   a fixed point, are NOT proved: C17_full.) *)
Theorem C17_table_solution_is_fixed_point : forall nt phi H,
    (forall i j id, In (i, j, id) (n_sweep nt) ->
       H i id == expectation (motif_graph (find_motif nt id)) i phi (u_table nt H id)
       /\ H j id == expectation (motif_graph (find_motif nt id)) j phi (u_table nt H id)) ->
    Heq (sweep_T nt phi H) H.
Proof. exact solution_is_fixed_point. Qed.
Print Assumptions C17_table_solution_is_fixed_point.

(* its hypothesis is satisfiable: the constant 1 ("no giant component") solves the equations of ring3 at phi = 1/2 *)
Example C17_table_solution_nonvacuous : forall i j id, In (i, j, id) (n_sweep ring3) ->
    (fun _ _ => 1) i id == expectation (motif_graph (find_motif ring3 id)) i (1 # 2) (u_table ring3 (fun _ _ => 1) id)
    /\ (fun _ _ => 1) j id == expectation (motif_graph (find_motif ring3 id)) j (1 # 2) (u_table ring3 (fun _ _ => 1) id).
Proof.
  intros i j id Hin. cbn [ring3 n_sweep In] in Hin.
  repeat (destruct Hin as [Hin|Hin]; [injection Hin as <- <- <-; split; vm_compute; reflexivity|]).
  contradiction.
Qed.

(* the wire entry c17_check_table decides the preconditions (and pairwise_okb) *)
Theorem C17_check_table_sound : forall t, c17_check_table t = of_bool true ->
    table_okb (t_net t) = true /\ cover_okb (t_net t) = true /\ net_okb (t_net t) = true
    /\ pairwise_okb (t_net t) = true.
Proof. exact c17_check_table_spec. Qed.
Print Assumptions C17_check_table_sound.

(* non-vacuity: the three preconditions hold on ring3 / two_triangles / one_big, the table view is non-trivial
   (vertex 2 of ring3 lies in three motifs), the table formula takes the non-trivial values of the model *)
Example C17_table_nonvacuous :
  table_okb ring3 = true /\ cover_okb ring3 = true /\ net_okb ring3 = true
  /\ table_okb two_triangles = true /\ cover_okb two_triangles = true /\ net_okb two_triangles = true
  /\ table_okb one_big = true /\ cover_okb one_big = true /\ net_okb one_big = true
  /\ pairwise_okb ring3 = true /\ pairwise_okb two_triangles = true /\ pairwise_okb one_big = true
  /\ motifs_of ring3 2 = [2; 3; 4]%nat /\ ids_at ring3 2 = [2; 3; 4]%nat
  /\ motifs_of one_big 0 = [3; 8]%nat /\ ids_at one_big 0 = [3; 8]%nat
  /\ Qred (mp_table ring3 1 (1 # 2)) = 43 # 128
  /\ Qred (mp_table ring3 2 (1 # 2)) = 5297 # 32768
  /\ Qred (mp_table two_triangles 1 (1 # 2)) = 5 # 48
  /\ Qred (mp_table one_big 1 (1 # 2)) = 289 # 1792.
Proof. vm_compute. repeat split; reflexivity. Qed.

(* sensitivity: the preconditions are not decorative.
   overlap2: motif 5 (path 0-2-1) and motif 6 (edge 0-1) share TWO vertices.  net_okb and table_okb hold, cover_okb
   fails; the code's neighbour-based exclusion drops motif 6 at vertex 0 (its only neighbour through motif 6 lies in
   motif 5's vertex list), and the code-shaped specification differs from the message equations (mp_table).
   phantom: ring3 with a table entry (ID 9 on the vertices 0, 3) none of whose edges is in the network: net_okb and
   cover_okb hold, table_okb fails, and the table view of vertex 0 differs from the edge-label view.
   shadow: ring3 with a second table entry of ID 1: table_okb fails, motifs_of lists ID 1 twice.
   cycles_opp: two 4-cycles sharing two OPPOSITE vertices: pairwise_okb fails but cover_okb (and so every table
   theorem) holds: cover_okb is the weaker precondition. *)
Definition cycles_opp : net :=
  mk_net [0; 1; 2; 3; 4; 5]%nat
         [(0, 1, 1); (1, 2, 1); (2, 3, 1); (3, 0, 1); (0, 4, 2); (4, 2, 2); (2, 5, 2); (5, 0, 2)]%nat
         [mk_motif 1 [0; 1; 2; 3]%nat [(0, 1); (1, 2); (2, 3); (3, 0)]%nat;
          mk_motif 2 [0; 4; 2; 5]%nat [(0, 4); (4, 2); (2, 5); (5, 0)]%nat].
Definition overlap2 : net :=
  mk_net [0; 1; 2]%nat
         [(0, 2, 5); (2, 1, 5); (0, 1, 6)]%nat
         [mk_motif 5 [0; 2; 1]%nat [(0, 2); (2, 1)]%nat; mk_motif 6 [0; 1]%nat [(0, 1)]%nat].
Definition phantom : net :=
  mk_net (n_nodes ring3) (n_sweep ring3) (n_motifs ring3 ++ [mk_motif 9 [0; 3]%nat [(0, 3)]%nat]).
Definition shadow : net :=
  mk_net (n_nodes ring3) (n_sweep ring3) (n_motifs ring3 ++ [mk_motif 1 [0; 1]%nat [(0, 1)]%nat]).
Example C17_table_preconditions_needed :
  net_okb overlap2 = true /\ table_okb overlap2 = true /\ cover_okb overlap2 = false
  /\ others overlap2 0 [0; 2; 1]%nat = [] /\ filter (fun x => negb (Nat.eqb x 5)) (motifs_of overlap2 0) = [6]%nat
  /\ Qred (mp_spec overlap2 1 (1 # 2)) = 0 /\ Qred (mp_table overlap2 1 (1 # 2)) = 17 # 64
  /\ Qred (mp_spec overlap2 2 (1 # 2)) = 0 /\ Qred (mp_table overlap2 2 (1 # 2)) = 443 # 12288
  /\ net_okb phantom = true /\ cover_okb phantom = true /\ table_okb phantom = false
  /\ ids_at phantom 0 = [1; 3]%nat /\ motifs_of phantom 0 = [1; 3; 9]%nat
  /\ net_okb shadow = true /\ cover_okb shadow = true /\ table_okb shadow = false
  /\ motifs_of shadow 0 = [1; 3; 1]%nat
  /\ pairwise_okb overlap2 = false
  /\ net_okb cycles_opp = true /\ table_okb cycles_opp = true /\ cover_okb cycles_opp = true
  /\ pairwise_okb cycles_opp = false
  /\ Qred (mp_spec cycles_opp 1 (1 # 2)) = Qred (mp_table cycles_opp 1 (1 # 2))
  /\ Qlt 0 (mp_table cycles_opp 1 (1 # 2)).
Proof. vm_compute. repeat split; reflexivity. Qed.
