(* C16 — placeholder while the harness is being tested *)
From Coq Require Import List ZArith.
From GV Require Import Lib.Graph16.
Theorem C16_connectedb_spec : forall vs es,
  edges_in vs es -> (connectedb vs es = true <-> Connected vs es).
Proof. exact connectedb_spec. Qed.
Print Assumptions C16_connectedb_spec.
