(* C16 — closed-form clique / cycle equations and the connected-graph counts are exact.
   Property theorems only; each is closed by [exact] of a lemma of Lib/Graph16.v, Proofs/QCountP.v or
   Proofs/CliqueEqP.v.  Strength: GENERAL = all inputs; names ending _upto_N = proved by reflection
   (vm_compute) for the finite range in the statement; C16_partial = what is proved of C16_full. *)
From Coq Require Import List ZArith QArith Bool Arith Lia.
From GV Require Import Lib.Tree Lib.Graph16 Lib.PolyRefl16 Model.QCount Model.CliqueEq
                       Proofs.QCountP Proofs.CliqueEqP Proofs.CycleGen Proofs.QQGen Proofs.CliqueGen Proofs.CrossGen Proofs.CayleyRed Proofs.Cayley.
Import ListNotations.

(* ------------------------------------------------------------------------------------------------
   Vocabulary.
   [Connected vs es]       : vs is not empty and every two vertices of vs are joined by a path in es.
   [Card P c]              : {x | P x} is a finite set with exactly c elements.
   [subl T es]             : T is a sublist (subset, in order) of es.
   [brute n k]             : brute-force count over the k-subsets of the pairs a < b < n.
   [Qcode n k]             : the recursion of Q(n,k) exactly as written (factorial binomials);
   [Qv n k]                : its memoised evaluation (what the extracted model runs);
   [QQv n k]               : QQ(n,k) = the counter on K_n with n(n-1)/2 - k deletions.
   [clique_val tau phi Hs] : clique_equation evaluated on rationals; [cycle_val n u phi] likewise;
   [exact_val vs es r phi u] : sum over ALL edge subsets S of phi^|S| (1-phi)^(|E|-|S|) times the product
                             of u_v over the vertices v <> r in r's component of (vs, S).
   ------------------------------------------------------------------------------------------------ *)

(* ---- the full statement of the property.  Originally proved only in the bounded form C16_partial below;
   the growth round proves it in full: C16_holds : C16_full (near the end of this file). *)
Definition C16_full : Prop :=
  (* clique equation, arbitrary clique size, heterogeneous neighbour values *)
  (forall tau, (2 <= tau)%nat -> forall (phi : Q) (Hs : list Q), length Hs = (tau - 1)%nat ->
     clique_val tau phi Hs == exact_val (seq 0 tau) (all_edges tau) 0 phi (fun v => nth (v - 1) Hs 0)) /\
  (* chordless cycle equation, every cycle length *)
  (forall n, (3 <= n)%nat -> forall (u phi : Q),
     cycle_val n u phi == exact_val (seq 0 n) (cycle_edges n) 0 phi (fun _ => u)) /\
  (* both counters = number of connected labelled graphs, all n and k *)
  (forall n k, (1 <= n)%nat -> (0 <= k <= tri (Z.of_nat n))%Z ->
     Qcode n k = brute n (Z.to_nat k) /\ QQv n k = brute n (Z.to_nat k)) /\
  (* the connected-subgraph counter on every substrate, vertex subset, focal vertex, k *)
  (forall nodes edges ak i k, (0 <= k)%Z ->
     let vs := induced_vs nodes ak i in
     let es := induced_es vs edges in
     vs <> [] ->
     exists c, ncg_model nodes edges ak i k = Val c /\
               Card (fun T => subl T es /\ length T = Z.to_nat k /\ Connected vs (ediff es T)) c).

(* ---- GENERAL: connectivity is decided correctly *)
Theorem C16_connectedb_spec : forall vs es,
  edges_in vs es -> (connectedb vs es = true <-> Connected vs es).
Proof. exact connectedb_spec. Qed.
Print Assumptions C16_connectedb_spec.

(* ---- GENERAL: number_of_connected_graphs returns exactly the number of ways to delete k edges from the
   induced subgraph and stay connected — every substrate, vertex subset, focal vertex and k *)
Theorem C16_ncg_spec : forall nodes edges ak i k, (0 <= k)%Z ->
  let vs := induced_vs nodes ak i in
  let es := induced_es vs edges in
  vs <> [] ->
  exists c, ncg_model nodes edges ak i k = Val c /\
            Card (fun T => subl T es /\ length T = Z.to_nat k /\ Connected vs (ediff es T)) c.
Proof. exact ncg_spec. Qed.
Print Assumptions C16_ncg_spec.

(* ---- GENERAL: the brute-force count is the number of connected labelled graphs with n vertices, k edges *)
Theorem C16_brute_spec : forall n k,
  Card (fun S => subl S (all_edges n) /\ length S = k /\ Connected (seq 0 n) S) (brute n k).
Proof. exact brute_spec. Qed.
Print Assumptions C16_brute_spec.

(* ---- GENERAL: QQ(n,k) is a value for 1 <= n, 0 <= k <= n(n-1)/2, namely the number of deletion sets of
   size n(n-1)/2 - k that leave K_n connected *)
Theorem C16_QQ_spec : forall n k, (1 <= n)%nat -> (0 <= k <= tri (Z.of_nat n))%Z ->
  QQ_model n k = Val (QQv n k) /\
  Card (fun T => subl T (all_edges n) /\ length T = Z.to_nat (tri (Z.of_nat n) - k) /\
                 Connected (seq 0 n) (ediff (all_edges n) T)) (QQv n k).
Proof. exact QQ_spec. Qed.
Print Assumptions C16_QQ_spec.

(* ---- GENERAL: the memoised table the model runs is the recursion as written (with the code's
   factorial binomial), for all n and k; outside 0..n(n-1)/2 it is 0 *)
Theorem C16_Q_table_is_recursion : forall n k, (1 <= n)%nat \/ (0 <= k)%Z -> Qv n k = Qcode n k.
Proof. exact Qv_is_code. Qed.
Print Assumptions C16_Q_table_is_recursion.

Theorem C16_Q_recursion_equation : forall n k, Qcode n k = Qstep binomial Qcode n k.
Proof. exact Qcode_unfold. Qed.
Print Assumptions C16_Q_recursion_equation.

Theorem C16_binomial_is_pascal : forall n k, (0 <= n)%Z -> (0 <= k)%Z ->
  binomial n k = Cn (Z.to_nat n) (Z.to_nat k).
Proof. exact binomial_Cn. Qed.
Print Assumptions C16_binomial_is_pascal.

Theorem C16_Q_out_of_range : forall n k, (1 <= n)%nat ->
  (k < Z.of_nat n - 1 \/ tri (Z.of_nat n) < k)%Z -> Qv n k = 0%Z.
Proof. exact Qv_out_of_range. Qed.
Print Assumptions C16_Q_out_of_range.

(* ---- BOUNDED: recursive = brute-force implementation = number of connected labelled graphs, n <= 6, all k *)
Theorem C16_Q_count_upto_6 : forall n k, (1 <= n <= 6)%nat -> (0 <= k <= tri (Z.of_nat n))%Z ->
  Qv n k = QQv n k /\ QQv n k = brute n (Z.to_nat k).
Proof. exact Q_count_upto_6. Qed.
Print Assumptions C16_Q_count_upto_6.

(* ---- BOUNDED (consistency, not a count): Q agrees with the independent exponential-formula recurrence
   C_n = G_n - sum_j binom(n-1,j-1) C_j G_{n-j} on edge-generating polynomials, n <= 12, all k *)
Theorem C16_Q_cross_upto_12 : forall n k, (1 <= n <= 12)%nat -> (0 <= k <= tri (Z.of_nat n))%Z ->
  Qv n k = cross n k.
Proof. exact Q_cross_upto_12. Qed.
Print Assumptions C16_Q_cross_upto_12.

(* ---- BOUNDED: clique equation = exact bond-percolation expectation on K_tau, heterogeneous H, tau <= 6 *)
Theorem C16_clique_identity_upto_6 : forall tau, (2 <= tau <= 6)%nat ->
  forall (phi : Q) (Hs : list Q), length Hs = (tau - 1)%nat ->
    clique_val tau phi Hs == exact_val (seq 0 tau) (all_edges tau) 0 phi (fun v => nth (v - 1) Hs 0).
Proof. exact clique_identity_upto_6. Qed.
Print Assumptions C16_clique_identity_upto_6.

(* ---- BOUNDED: cycle equation = exact expectation on C_n (one u for all neighbours), 3 <= n <= 10 *)
Theorem C16_cycle_identity_upto_10 : forall n, (3 <= n <= 10)%nat ->
  forall (u phi : Q), cycle_val n u phi == exact_val (seq 0 n) (cycle_edges n) 0 phi (fun _ => u).
Proof. exact cycle_identity_upto_10. Qed.
Print Assumptions C16_cycle_identity_upto_10.

(* ---- GENERAL (growth): the cycle identity for EVERY n >= 3, all rational u and phi — no bound, no reflection.
   Proof (Proofs/CycleGen.v): edge subsets = boolean masks; the root's component is the leading run of kept
   edges plus the trailing run (paths hanging off the root on both sides, closed into a cycle); the weighted
   sums over masks obey first-edge recursions solved in closed form; free edges sum to weight 1. *)
Theorem C16_cycle_identity_general : forall n, (3 <= n)%nat ->
  forall (u phi : Q), cycle_val n u phi == exact_val (seq 0 n) (cycle_edges n) 0 phi (fun _ => u).
Proof. exact cycle_identity_general. Qed.
Print Assumptions C16_cycle_identity_general.

(* ---- GENERAL (growth): the brute-force implementation QQ (which counts the REMOVED-edge subsets of size
   n(n-1)/2 - k that keep K_n connected) equals the number of connected spanning subgraphs of K_n with k KEPT
   edges, for every n and every k in range: the complement map T |-> K_n \ T is an involution on edge subsets
   exchanging the sizes (Proofs/QQGen.v; also |E(K_n)| = n(n-1)/2 for every n) *)
Theorem C16_QQ_eq_brute_general : forall n k, (0 <= k <= tri (Z.of_nat n))%Z ->
  QQv n k = brute n (Z.to_nat k).
Proof. exact QQ_eq_brute_general. Qed.
Print Assumptions C16_QQ_eq_brute_general.

Theorem C16_QQ_counts_connected_graphs : forall n k, (0 <= k <= tri (Z.of_nat n))%Z ->
  Card (fun S => subl S (all_edges n) /\ length S = Z.to_nat k /\ Connected (seq 0 n) S) (QQv n k).
Proof. exact QQ_counts_connected_graphs. Qed.
Print Assumptions C16_QQ_counts_connected_graphs.

Theorem C16_complete_graph_size : forall n, Z.of_nat (length (all_edges n)) = tri (Z.of_nat n).
Proof. exact all_edges_length. Qed.
Print Assumptions C16_complete_graph_size.

(* ---- GENERAL (growth): the ingredients of the clique equation, for every tau.
   omega(tau, kappa) IS the number of interface edges of a (kappa+1)-subset of a tau-clique: *)
Theorem C16_omega_closed_form : forall tau kappa, (kappa < tau)%nat ->
  omega tau kappa = Z.of_nat (S kappa * (tau - S kappa)).
Proof. exact omega_closed. Qed.
Print Assumptions C16_omega_closed_form.

(* [ebd C e]: exactly one endpoint of e lies in C' = 0 :: C; C any subset of the other tau - 1 vertices *)
Theorem C16_interface_edge_count : forall tau, (1 <= tau)%nat -> forall C, subl C (seq 1 (tau - 1)) ->
  length (filter (ebd C) (all_edges tau)) = (S (length C) * (tau - S (length C)))%nat.
Proof. exact boundary_count. Qed.
Print Assumptions C16_interface_edge_count.

(* the root's component of (K_tau, T) is C' exactly when T keeps no interface edge and T restricted to C'
   connects C' ([comp tau T] = the vertices <> 0 that the specification multiplies over) *)
Theorem C16_component_characterisation : forall tau, (1 <= tau)%nat -> forall C, subl C (seq 1 (tau - 1)) ->
  forall T, edges_in (seq 0 tau) T ->
  leqb C (comp tau T) = nilb (filter (ebd C) T) && connectedb (Cr C) (filter (ein C) T).
Proof. exact comp_indicator. Qed.
Print Assumptions C16_component_characterisation.

(* connectivity, hence the count of connected graphs, is invariant under an injective relabelling *)
Theorem C16_count_relabelling_invariant : forall (f : nat -> nat) K,
  (forall i j, (i < K)%nat -> (j < K)%nat -> f i = f j -> i = j) ->
  forall e, Z.of_nat (length (filter (fun T => connectedb (map f (seq 0 K)) T)
                                     (combs e (map (emap f) (all_edges K))))) = brute K e.
Proof. exact brute_relabel. Qed.
Print Assumptions C16_count_relabelling_invariant.

(* REGROUPING, every tau, NO hypothesis: the exact expectation on K_tau is
   sum_kappa [ sum_e brute(kappa+1, e) phi^e (1-phi)^(C(kappa+1,2) - e) ] (1-phi)^((kappa+1)(tau-kappa-1))
             x (sum over the kappa-subsets of the neighbours of the product of their H values)
   ([W phi n e] = phi^e (1-phi)^(n-e); the free edges outside the component have total weight 1) *)
Theorem C16_exact_clique_regrouped : forall tau phi Hs, (1 <= tau)%nat -> length Hs = (tau - 1)%nat ->
  exact_val (seq 0 tau) (all_edges tau) 0 phi (fun v => nth (v - 1) Hs 0) ==
  qsum (map (fun kappa => Rk phi tau kappa * qsum (map qprod (combs kappa Hs))) (seq 0 tau)).
Proof. exact exact_clique_regrouped. Qed.
Print Assumptions C16_exact_clique_regrouped.

(* REDUCTION: the only unproved ingredient of the unbounded clique identity is
   "Q n k counts the connected labelled graphs with n vertices and k edges" *)
Theorem C16_clique_identity_reduces_to_Q_count :
  (forall n k, (1 <= n)%nat -> (0 <= k <= tri (Z.of_nat n))%Z -> Qv n k = brute n (Z.to_nat k)) ->
  forall tau, (2 <= tau)%nat ->
  forall (phi : Q) (Hs : list Q), length Hs = (tau - 1)%nat ->
    clique_val tau phi Hs == exact_val (seq 0 tau) (all_edges tau) 0 phi (fun v => nth (v - 1) Hs 0).
Proof. exact clique_identity_reduces_to_Q_count. Qed.
Print Assumptions C16_clique_identity_reduces_to_Q_count.

(* the same with a bound: Q = brute for n <= N gives the clique identity for tau <= N *)
Theorem C16_clique_identity_from_Q_count : forall N,
  (forall n k, (1 <= n <= N)%nat -> (0 <= k <= tri (Z.of_nat n))%Z -> Qv n k = brute n (Z.to_nat k)) ->
  forall tau, (2 <= tau <= N)%nat ->
  forall (phi : Q) (Hs : list Q), length Hs = (tau - 1)%nat ->
    clique_val tau phi Hs == exact_val (seq 0 tau) (all_edges tau) 0 phi (fun v => nth (v - 1) Hs 0).
Proof. exact clique_identity_from_Q_count. Qed.
Print Assumptions C16_clique_identity_from_Q_count.

(* an independent second proof of C16_clique_identity_upto_6 (regrouping + Q = brute for n <= 6; no
   polynomial normal forms involved) *)
Theorem C16_clique_identity_upto_6_via_count : forall tau, (2 <= tau <= 6)%nat ->
  forall (phi : Q) (Hs : list Q), length Hs = (tau - 1)%nat ->
    clique_val tau phi Hs == exact_val (seq 0 tau) (all_edges tau) 0 phi (fun v => nth (v - 1) Hs 0).
Proof. exact clique_identity_upto_6_via_count. Qed.
Print Assumptions C16_clique_identity_upto_6_via_count.

(* ---- GENERAL (growth): the exponential-formula recurrence [cross] — the checker's reference for n >= 8,
   until now "a consistency check, not a count" — IS the number of connected labelled graphs, every n, every k.
   Proof (Proofs/CrossGen.v): coefficient semantics of the list-polynomial operations; the counting identity
   below; strong induction on n. *)
Theorem C16_cross_counts_connected_graphs : forall n k, (1 <= n)%nat -> (0 <= k)%Z ->
  cross n k = brute n (Z.to_nat k).
Proof. exact cross_eq_brute. Qed.
Print Assumptions C16_cross_counts_connected_graphs.

(* all k-edge graphs on n labelled vertices, classified by the vertex set of the root's component:
   C(n(n-1)/2, k) = sum_kappa C(n-1, kappa) sum_i #connected(kappa+1, i) C((n-kappa-1)(n-kappa-2)/2, k-i)
   ([Cn] = Pascal's binomial = the code's factorial binomial by C16_binomial_is_pascal;
    length (all_edges m) = m(m-1)/2 by C16_complete_graph_size) *)
Theorem C16_counting_identity : forall n k, (1 <= n)%nat ->
  Cn (length (all_edges n)) k =
  zsum (map (fun kappa => Cn (n - 1) kappa *
                          zsum (map (fun i => brute (S kappa) i * Cn (length (all_edges (n - S kappa))) (k - i))
                                    (seq 0 (S k))))%Z
            (seq 0 n)).
Proof. exact count_identity_Z. Qed.
Print Assumptions C16_counting_identity.

(* the number of k-subsets of a list is Pascal's binomial (the vertex-subset counting of the clique equation) *)
Theorem C16_combs_count : forall (l : list nat) k, Z.of_nat (length (combs k l)) = Cn (length l) k.
Proof. exact (@combs_length nat). Qed.
Print Assumptions C16_combs_count.

(* ---- BOUNDED, now a COUNT: Q n k = number of connected labelled graphs for n <= 12 (Q = cross by reflection,
   cross = brute in general; the brute-force enumeration itself is never run beyond n = 6) *)
Theorem C16_Q_count_upto_12 : forall n k, (1 <= n <= 12)%nat -> (0 <= k <= tri (Z.of_nat n))%Z ->
  Qv n k = brute n (Z.to_nat k).
Proof. exact Q_count_upto_12. Qed.
Print Assumptions C16_Q_count_upto_12.

(* ---- BOUNDED: the clique identity for 2 <= tau <= 12, heterogeneous H (regrouping theorem + the count) *)
Theorem C16_clique_identity_upto_12 : forall tau, (2 <= tau <= 12)%nat ->
  forall (phi : Q) (Hs : list Q), length Hs = (tau - 1)%nat ->
    clique_val tau phi Hs == exact_val (seq 0 tau) (all_edges tau) 0 phi (fun v => nth (v - 1) Hs 0).
Proof. exact clique_identity_upto_12. Qed.
Print Assumptions C16_clique_identity_upto_12.

(* ---- GENERAL: the verified checker's verdict on Q / QQ values is about the TRUE count for every n *)
Theorem C16_check_count_sound_all : forall bmax n k r, (1 <= n)%nat -> (0 <= k)%Z ->
  check_count bmax n k r = true -> r = brute n (Z.to_nat k).
Proof. exact check_count_sound_all. Qed.
Print Assumptions C16_check_count_sound_all.

Theorem C16_check_row_sound_all : forall bmax n rs, (1 <= n)%nat ->
  check_row bmax n rs = true ->
  forall k, (0 <= k <= tri (Z.of_nat n))%Z -> nth (Z.to_nat k) rs 0%Z = brute n (Z.to_nat k).
Proof. exact check_row_sound_all. Qed.
Print Assumptions C16_check_row_sound_all.

(* ---- GENERAL (growth): a connected graph on n vertices has at least n - 1 edges (the out-of-range branch of Q) *)
Theorem C16_connected_needs_n_minus_1_edges : forall vs es, NoDup vs -> edges_in vs es -> Connected vs es ->
  (length vs <= S (length es))%nat.
Proof. exact connected_edges_lb. Qed.
Print Assumptions C16_connected_needs_n_minus_1_edges.

Theorem C16_no_connected_graph_below_tree : forall n i, (S i < n)%nat -> brute n i = 0%Z.
Proof. exact brute_below_tree. Qed.
Print Assumptions C16_no_connected_graph_below_tree.

(* ---- REDUCTION (growth): the recursion Q as written counts the connected labelled graphs for ALL n and k, GIVEN
   Cayley's formula for the k = n-1 shortcut n^(n-2).  The general branch is the counting identity
   (C16_counting_identity, trimmed summation range included), the out-of-range branch is the lower bound above.
   Cayley's formula itself is NOT proved here; it holds for n <= 12 (C16_Cayley_upto_12). *)
Theorem C16_Q_count_reduces_to_Cayley :
  (forall n, (2 <= n)%nat -> brute n (n - 1) = (Z.of_nat n ^ (Z.of_nat n - 2))%Z) ->
  forall n, (1 <= n)%nat -> forall k, (0 <= k <= tri (Z.of_nat n))%Z -> Qcode n k = brute n (Z.to_nat k).
Proof. exact Q_count_from_Cayley. Qed.
Print Assumptions C16_Q_count_reduces_to_Cayley.

Theorem C16_Cayley_upto_12 : forall n, (2 <= n <= 12)%nat ->
  brute n (n - 1) = (Z.of_nat n ^ (Z.of_nat n - 2))%Z.
Proof. exact Cayley_upto_12. Qed.
Print Assumptions C16_Cayley_upto_12.

(* ---- GENERAL: the polynomial the model puts on the wire evaluates, for every valuation of the variables,
   to the code's arithmetic on rationals (so comparing polynomials compares the functions) *)
Theorem C16_clique_model_semantics : forall l tau P HS,
  peval l (clique_expr tau P HS) == clique_val tau (peval l P) (map (peval l) HS).
Proof. exact clique_expr_val. Qed.
Print Assumptions C16_clique_model_semantics.

Theorem C16_cycle_model_semantics : forall l n U P,
  peval l (cycle_expr n U P) == cycle_val n (peval l U) (peval l P).
Proof. exact cycle_expr_val. Qed.
Print Assumptions C16_cycle_model_semantics.

(* ---- GENERAL: soundness of the verified checker c16_check (what judges the implementation's outputs) *)
Theorem C16_check_clique_sound : forall tau phi Hs d impl,
  check_clique tau phi Hs d impl = true ->
  forall l, peval l impl ==
            inject_Z d * exact_val (seq 0 tau) (all_edges tau) 0 (peval l phi)
                                   (fun v => nth (v - 1) (map (peval l) Hs) 0).
Proof. exact check_clique_sound. Qed.
Print Assumptions C16_check_clique_sound.

Theorem C16_check_cycle_sound : forall n u phi d impl,
  check_cycle n u phi d impl = true ->
  forall l, peval l impl ==
            inject_Z d * exact_val (seq 0 n) (cycle_edges n) 0 (peval l phi) (fun _ => peval l u).
Proof. exact check_cycle_sound. Qed.
Print Assumptions C16_check_cycle_sound.

Theorem C16_check_count_sound : forall bmax n k r,
  check_count bmax n k r = true -> (n <= bmax <= 7)%nat -> (0 <= k)%Z -> r = brute n (Z.to_nat k).
Proof. exact check_count_sound. Qed.
Print Assumptions C16_check_count_sound.

Theorem C16_check_row_sound : forall bmax n rs,
  check_row bmax n rs = true ->
  forall k, (0 <= k <= tri (Z.of_nat n))%Z -> nth (Z.to_nat k) rs 0%Z = count_spec bmax n k.
Proof. exact check_row_sound. Qed.
Print Assumptions C16_check_row_sound.

Theorem C16_check_ncg_sound : forall nodes edges ak i k r,
  check_ncg nodes edges ak i k r = true ->
  let vs := induced_vs nodes ak i in
  let es := induced_es vs edges in
  Card (fun T => subl T es /\ length T = Z.to_nat k /\ Connected vs (ediff es T)) r.
Proof. exact check_ncg_sound. Qed.
Print Assumptions C16_check_ncg_sound.

(* ---- the model's outputs satisfy the checker (GENERAL for the counter, bounded for the rest) *)
Theorem C16_ncg_model_meets_check : forall nodes edges ak i k c,
  ncg_model nodes edges ak i k = Val c -> check_ncg nodes edges ak i k c = true.
Proof. exact ncg_model_meets_check. Qed.
Print Assumptions C16_ncg_model_meets_check.

Theorem C16_Q_model_meets_check_upto_6 : forall n k, (1 <= n <= 6)%nat -> (0 <= k <= tri (Z.of_nat n))%Z ->
  check_count 6 n k (Qv n k) = true /\ check_count 6 n k (QQv n k) = true.
Proof. exact Q_model_meets_check_upto_6. Qed.
Print Assumptions C16_Q_model_meets_check_upto_6.

Theorem C16_clique_model_meets_check_upto_6 : forall tau, (2 <= tau <= 6)%nat ->
  check_clique tau (px 1) (hvars tau) 1 (clique_expr tau (px 1) (hvars tau)) = true.
Proof. exact clique_model_meets_check_upto_6. Qed.
Print Assumptions C16_clique_model_meets_check_upto_6.

Theorem C16_cycle_model_meets_check_upto_10 : forall n, (3 <= n <= 10)%nat ->
  check_cycle n (px 2) (px 1) 1 (cycle_expr n (px 2) (px 1)) = true.
Proof. exact cycle_model_meets_check_upto_10. Qed.
Print Assumptions C16_cycle_model_meets_check_upto_10.

(* ---- what is proved of C16_full: the same four clauses with the bounds tau <= 6, n <= 10, n <= 6;
   the counter clause is proved in full *)
Definition C16_bounded : Prop :=
  (forall tau, (2 <= tau <= 6)%nat -> forall (phi : Q) (Hs : list Q), length Hs = (tau - 1)%nat ->
     clique_val tau phi Hs == exact_val (seq 0 tau) (all_edges tau) 0 phi (fun v => nth (v - 1) Hs 0)) /\
  (forall n, (3 <= n <= 10)%nat -> forall (u phi : Q),
     cycle_val n u phi == exact_val (seq 0 n) (cycle_edges n) 0 phi (fun _ => u)) /\
  (forall n k, (1 <= n <= 6)%nat -> (0 <= k <= tri (Z.of_nat n))%Z ->
     Qcode n k = brute n (Z.to_nat k) /\ QQv n k = brute n (Z.to_nat k)) /\
  (forall nodes edges ak i k, (0 <= k)%Z ->
     let vs := induced_vs nodes ak i in
     let es := induced_es vs edges in
     vs <> [] ->
     exists c, ncg_model nodes edges ak i k = Val c /\
               Card (fun T => subl T es /\ length T = Z.to_nat k /\ Connected vs (ediff es T)) c).

Theorem C16_partial : C16_bounded.
Proof.
  exact (conj clique_identity_upto_6 (conj cycle_identity_upto_10 (conj Q_code_count_upto_6 ncg_spec))).
Qed.
Print Assumptions C16_partial.

(* ---- growth: the same four clauses with the cycle clause and the QQ half of the count clause UNBOUNDED;
   what is still bounded: the clique identity (tau <= 6) and Q = brute (n <= 6) *)
Definition C16_bounded_v2 : Prop :=
  (forall tau, (2 <= tau <= 6)%nat -> forall (phi : Q) (Hs : list Q), length Hs = (tau - 1)%nat ->
     clique_val tau phi Hs == exact_val (seq 0 tau) (all_edges tau) 0 phi (fun v => nth (v - 1) Hs 0)) /\
  (forall n, (3 <= n)%nat -> forall (u phi : Q),
     cycle_val n u phi == exact_val (seq 0 n) (cycle_edges n) 0 phi (fun _ => u)) /\
  (forall n k, (1 <= n <= 6)%nat -> (0 <= k <= tri (Z.of_nat n))%Z -> Qcode n k = brute n (Z.to_nat k)) /\
  (forall n k, (1 <= n)%nat -> (0 <= k <= tri (Z.of_nat n))%Z -> QQv n k = brute n (Z.to_nat k)) /\
  (forall nodes edges ak i k, (0 <= k)%Z ->
     let vs := induced_vs nodes ak i in
     let es := induced_es vs edges in
     vs <> [] ->
     exists c, ncg_model nodes edges ak i k = Val c /\
               Card (fun T => subl T es /\ length T = Z.to_nat k /\ Connected vs (ediff es T)) c).

Theorem C16_partial_v2 : C16_bounded_v2.
Proof.
  exact (conj clique_identity_upto_6 (conj cycle_identity_general
          (conj (fun n k Hn Hk => proj1 (Q_code_count_upto_6 n k Hn Hk))
             (conj (fun n k _ Hk => QQ_eq_brute_general n k Hk) ncg_spec)))).
Qed.
Print Assumptions C16_partial_v2.

(* ---- growth, second step: clique tau <= 12, cycle unbounded, Q = count n <= 12, QQ unbounded, counter general *)
Definition C16_bounded_v3 : Prop :=
  (forall tau, (2 <= tau <= 12)%nat -> forall (phi : Q) (Hs : list Q), length Hs = (tau - 1)%nat ->
     clique_val tau phi Hs == exact_val (seq 0 tau) (all_edges tau) 0 phi (fun v => nth (v - 1) Hs 0)) /\
  (forall n, (3 <= n)%nat -> forall (u phi : Q),
     cycle_val n u phi == exact_val (seq 0 n) (cycle_edges n) 0 phi (fun _ => u)) /\
  (forall n k, (1 <= n <= 12)%nat -> (0 <= k <= tri (Z.of_nat n))%Z -> Qcode n k = brute n (Z.to_nat k)) /\
  (forall n k, (1 <= n)%nat -> (0 <= k <= tri (Z.of_nat n))%Z -> QQv n k = brute n (Z.to_nat k)) /\
  (forall nodes edges ak i k, (0 <= k)%Z ->
     let vs := induced_vs nodes ak i in
     let es := induced_es vs edges in
     vs <> [] ->
     exists c, ncg_model nodes edges ak i k = Val c /\
               Card (fun T => subl T es /\ length T = Z.to_nat k /\ Connected vs (ediff es T)) c).

Theorem C16_partial_v3 : C16_bounded_v3.
Proof.
  exact (conj clique_identity_upto_12 (conj cycle_identity_general (conj Qcode_count_upto_12
            (conj (fun n k _ Hk => QQ_eq_brute_general n k Hk) ncg_spec)))).
Qed.
Print Assumptions C16_partial_v3.

(* ---- growth: THE WHOLE PROPERTY reduces to Cayley's formula (number of labelled trees = n^(n-2)) *)
Theorem C16_full_reduces_to_Cayley :
  (forall n, (2 <= n)%nat -> brute n (n - 1) = (Z.of_nat n ^ (Z.of_nat n - 2))%Z) -> C16_full.
Proof.
  exact (fun HCay =>
    conj (clique_identity_reduces_to_Q_count (Qv_count_from_Cayley HCay))
      (conj cycle_identity_general
        (conj (fun n k Hn Hk => conj (Q_count_from_Cayley HCay n Hn k Hk) (QQ_eq_brute_general n k Hk))
           ncg_spec))).
Qed.
Print Assumptions C16_full_reduces_to_Cayley.

(* ================================================================================================
   GROWTH, final step: CAYLEY'S FORMULA and with it the WHOLE property, unbounded.
   ================================================================================================ *)
(* [NQ V R] = number of edge sets F of the complete graph on the vertex list V with |F| + |R| = |V| in which
   every vertex reaches a root of R (rooted forests).  |V| NQ(V,R) = |R| |V|^(|V|-|R|)  (Proofs/Cayley.v:
   removing a root turns its neighbours into roots; binomial theorem in subset form). *)
Theorem C16_rooted_forest_count : forall n V R, length V = n -> NoDup V -> NoDup R -> incl R V ->
  inject_Z (Z.of_nat (length V)) * NQ V R ==
  inject_Z (Z.of_nat (length R)) * qpn (inject_Z (Z.of_nat (length V))) (length V - length R).
Proof. exact forest_count. Qed.
Print Assumptions C16_rooted_forest_count.

(* the number of labelled trees on n >= 2 vertices is n^(n-2): the k = n-1 shortcut of Q is exact *)
Theorem C16_Cayley_formula : forall n, (2 <= n)%nat -> brute n (n - 1) = (Z.of_nat n ^ (Z.of_nat n - 2))%Z.
Proof. exact Cayley_formula. Qed.
Print Assumptions C16_Cayley_formula.

(* GENERAL: the recursion Q as written, and the memoised table the model runs, count the connected labelled
   graphs with n vertices and k edges, for ALL n >= 1 and ALL 0 <= k <= n(n-1)/2 *)
Theorem C16_Q_count_general : forall n k, (1 <= n)%nat -> (0 <= k <= tri (Z.of_nat n))%Z ->
  Qcode n k = brute n (Z.to_nat k) /\ Qv n k = brute n (Z.to_nat k) /\ QQv n k = brute n (Z.to_nat k).
Proof.
  exact (fun n k Hn Hk => conj (Q_count_general n k Hn Hk)
                            (conj (Qv_count_general n k Hn Hk) (QQ_eq_brute_general n k Hk))).
Qed.
Print Assumptions C16_Q_count_general.

(* GENERAL: clique_equation = exact bond-percolation expectation on K_tau for EVERY tau >= 2, every rational
   phi, every heterogeneous list of tau - 1 neighbour values *)
Theorem C16_clique_identity_general : forall tau, (2 <= tau)%nat ->
  forall (phi : Q) (Hs : list Q), length Hs = (tau - 1)%nat ->
    clique_val tau phi Hs == exact_val (seq 0 tau) (all_edges tau) 0 phi (fun v => nth (v - 1) Hs 0).
Proof. exact clique_identity_general. Qed.
Print Assumptions C16_clique_identity_general.

(* THE FULL STATEMENT of the property (kept visible at the top of this file as C16_full) *)
Theorem C16_holds : C16_full.
Proof.
  exact (conj clique_identity_general (conj cycle_identity_general
          (conj (fun n k Hn Hk => conj (Q_count_general n k Hn Hk) (QQ_eq_brute_general n k Hk)) ncg_spec))).
Qed.
Print Assumptions C16_holds.

(* GENERAL: the model's Q and QQ values pass the verified checker for every n, k and every bmax *)
Theorem C16_Q_model_meets_check_general : forall bmax n k, (1 <= n)%nat -> (0 <= k <= tri (Z.of_nat n))%Z ->
  check_count bmax n k (Qv n k) = true /\ check_count bmax n k (QQv n k) = true.
Proof. exact Q_model_meets_check_general. Qed.
Print Assumptions C16_Q_model_meets_check_general.

(* ---- non-vacuity: concrete non-trivial inputs meeting the hypotheses *)
(* the triangle with a pendant vertex, ak = [1;2], i = 0, k = 1: three ways to delete one edge of the
   induced triangle and stay connected; hypotheses of C16_ncg_spec hold *)
Example C16_nonvacuous_ncg :
  let nodes := [0; 1; 2; 3]%nat in let edges := [(0, 1); (1, 2); (0, 2); (2, 3)]%nat in
  induced_vs nodes [1; 2]%nat 0%nat = [0; 1; 2]%nat /\
  induced_es [0; 1; 2]%nat edges = [(0, 1); (1, 2); (0, 2)]%nat /\
  ncg_model nodes edges [1; 2]%nat 0%nat 1 = Val 3 /\
  edges_in [0; 1; 2]%nat [(0, 1); (1, 2); (0, 2)]%nat /\
  connectedb [0; 1; 2]%nat [(1, 2); (0, 2)]%nat = true /\
  connectedb [0; 1; 2; 3]%nat [(0, 1); (1, 2)]%nat = false.
Proof.
  cbv zeta. repeat split; try (vm_compute; reflexivity).
  all: destruct H as [<-|[<-|[<-|[]]]]; cbn; tauto.
Qed.

(* the counts at the points gcmpy's own docstring lists and next to them *)
Example C16_nonvacuous_counts :
  map (fun k => Qv 6 (15 - Z.of_nat k)) (seq 0 12) =
    [1; 15; 105; 455; 1365; 2997; 4945; 6165; 5700; 3660; 1296; 0]%Z /\
  map (fun k => QQv 5 (Z.of_nat k)) (seq 0 11) = [0; 0; 0; 0; 125; 222; 205; 120; 45; 10; 1]%Z /\
  Qv 12 40 = 1654141299236549046%Z /\ check_count 6 6 9 4945 = true /\ check_count 6 6 9 4944 = false.
Proof. vm_compute. repeat split; reflexivity. Qed.

(* the triangle equation at phi = 1/2, H = (1/3, 1/5) is neither 0 nor 1, and the checker rejects a
   perturbed polynomial *)
Example C16_nonvacuous_clique :
  Qred (clique_val 3 (1 # 2) [1 # 3; 1 # 5]) = (7 # 20) /\
  Qred (exact_val (seq 0 3) (all_edges 3) 0 (1 # 2) (fun v => nth (v - 1) [1 # 3; 1 # 5] 0)) = (7 # 20) /\
  Qred (cycle_val 4 (1 # 3) (1 # 2)) = Qred (exact_val (seq 0 4) (cycle_edges 4) 0 (1 # 2) (fun _ => 1 # 3)) /\
  check_clique 3 (px 1) (hvars 3) 1 (padd (clique_expr 3 (px 1) (hvars 3)) (pmul (px 2) (px 1))) = false.
Proof. vm_compute. repeat split; reflexivity. Qed.

(* growth: beyond the old bounds — the 12-cycle (old bound 10); the identity is one of polynomials, so it is
   instantiated at the integers u = 3, phi = 2 (cheap to evaluate over 2^12 edge subsets): both sides are
   -2844328919; QQ(5,6) = brute(5,6) = 205 with the hypothesis 0 <= 6 <= 10 of C16_QQ_eq_brute_general *)
Example C16_nonvacuous_growth :
  (3 <= 12)%nat /\
  Qred (cycle_val 12 (3 # 1) (2 # 1)) = (-2844328919 # 1) /\
  Qred (exact_val (seq 0 12) (cycle_edges 12) 0 (2 # 1) (fun _ => 3 # 1)) = (-2844328919 # 1) /\
  (0 <= 6 <= tri 5)%Z /\ QQv 5 6 = 205%Z /\ brute 5 6 = 205%Z.
Proof.
  split; [lia|]. split; [vm_compute; reflexivity|]. split; [vm_compute; reflexivity|].
  split; [vm_compute; split; discriminate|]. split; vm_compute; reflexivity.
Qed.

(* growth, the regrouping ingredients on K_5 with C = {2, 4} (C' = {0, 2, 4}, kappa = 2): the hypotheses of
   C16_interface_edge_count / C16_component_characterisation hold, 6 interface edges = omega 5 2, and for
   T = {02, 24, 13} the root's component is exactly C (both sides of the characterisation are true), while
   T + {01} is rejected; the hypothesis of C16_clique_identity_from_Q_count is met for N = 6
   (that instance is C16_clique_identity_upto_6_via_count) *)
Example C16_nonvacuous_regroup :
  subl [2; 4]%nat (seq 1 (5 - 1)) /\
  length (filter (ebd [2; 4]%nat) (all_edges 5)) = 6%nat /\ omega 5 2 = 6%Z /\
  edges_in (seq 0 5) [(0, 2); (2, 4); (1, 3)]%nat /\
  leqb [2; 4]%nat (comp 5 [(0, 2); (2, 4); (1, 3)]%nat) = true /\
  nilb (filter (ebd [2; 4]%nat) [(0, 2); (2, 4); (1, 3)]%nat)
    && connectedb (Cr [2; 4]%nat) (filter (ein [2; 4]%nat) [(0, 2); (2, 4); (1, 3)]%nat) = true /\
  leqb [2; 4]%nat (comp 5 [(0, 1); (0, 2); (2, 4); (1, 3)]%nat) = false.
Proof.
  split; [repeat constructor|]. split; [vm_compute; reflexivity|]. split; [vm_compute; reflexivity|].
  split; [|repeat split; vm_compute; reflexivity].
  intros e He. cbn in He. destruct He as [<-|[<-|[<-|[]]]]; cbn; lia.
Qed.

(* growth: cross beyond the brute-force range — cross 9 12 = Q(9,12) (hypotheses 1 <= 9, 0 <= 12), and the
   checker accepts exactly that value for n = 9 (where it consults cross) *)
Example C16_nonvacuous_cross :
  (1 <= 9)%nat /\ (0 <= 12)%Z /\ cross 9 12 = Qv 9 12 /\ (cross 9 12 > 0)%Z /\
  check_count 6 9 12 (cross 9 12) = true /\ check_count 6 9 12 (cross 9 12 + 1) = false.
Proof. split; [lia|]. split; [lia|]. vm_compute. repeat split; reflexivity. Qed.

(* growth: Cayley's formula at n = 5 (hypothesis 2 <= 5): 125 = 5^3 labelled trees; the rooted-forest count on
   V = [3;1;4;2] with roots [4;1] (hypotheses NoDup / incl hold): 4 * NQ = 2 * 4^2, i.e. NQ = 8 *)
Example C16_nonvacuous_cayley :
  (2 <= 5)%nat /\ brute 5 4 = 125%Z /\ (5 ^ (5 - 2) = 125)%Z /\
  NoDup [3; 1; 4; 2]%nat /\ NoDup [4; 1]%nat /\ incl [4; 1]%nat [3; 1; 4; 2]%nat /\
  Qred (NQ [3; 1; 4; 2]%nat [4; 1]%nat) = 8.
Proof.
  split; [lia|]. split; [vm_compute; reflexivity|]. split; [reflexivity|].
  split; [repeat constructor; cbn; lia|]. split; [repeat constructor; cbn; lia|].
  split; [intros v Hv; cbn in *; lia|]. vm_compute. reflexivity.
Qed.
