(* C03 — stub matching is uniformly random (configuration-model measure).
   Property theorems only; each is closed by [exact] of a lemma of Proofs/GenPermP.v.

   The sample space: random.shuffle on a list of n stubs answers one of the position
   permutations [perms (seq 0 n)], all equally likely (trusted: CPython's shuffle is uniform);
   the generator then holds [arrange pi stubs].  [schedules jds] is the product of these spaces
   over the topologies.  [cnt a L] / [cntl t L] count occurrences in a list of outcomes, so
   "probability of a" = cnt a (outcomes) / length (outcomes).  [mult s] is the common
   multiplicity (product of the factorials of the vertex degrees in that topology). *)
From Coq Require Import List ZArith Bool Arith Permutation.
From GV Require Import Lib.Tree Model.Gen Proofs.GenP Proofs.GenPermP Proofs.GenC03P.
Import ListNotations.

(* the schedule space of one shuffle is exactly the set of position permutations, each once:
   every assignment of the (position-labelled) stubs to slots occurs exactly once *)
Theorem C03_schedule_space_complete_nodup : forall n,
  NoDup (perms (seq 0 n)) /\ forall pi, In pi (perms (seq 0 n)) <-> is_perm pi n.
Proof. exact schedule_space. Qed.
Print Assumptions C03_schedule_space_complete_nodup.

Theorem C03_perms_complete : forall s a, In a (perms s) <-> Permutation a s.
Proof. exact perms_complete. Qed.
Print Assumptions C03_perms_complete.

Theorem C03_perms_nodup_on_labelled_stubs : forall s, NoDup s -> NoDup (perms s).
Proof. exact perms_nodup. Qed.
Print Assumptions C03_perms_nodup_on_labelled_stubs.

(* pushing the schedule space through the shuffle gives perms of the stub list ... *)
Theorem C03_shuffle_pushforward : forall s,
  map (fun pi => arrange pi s) (perms (seq 0 (length s))) = perms s.
Proof. exact shuffle_pushforward. Qed.
Print Assumptions C03_shuffle_pushforward.

(* ... in which EVERY vertex-level arrangement of the stubs has the same multiplicity:
   none unreachable (mult s > 0), none favoured *)
Theorem C03_uniform_one_topology : forall s a, Permutation a s ->
  cnt a (map (fun pi => arrange pi s) (perms (seq 0 (length s)))) = mult s.
Proof. exact shuffle_uniform. Qed.
Print Assumptions C03_uniform_one_topology.

Theorem C03_multiplicity_positive : forall s, mult s > 0.
Proof. exact mult_pos. Qed.
Print Assumptions C03_multiplicity_positive.

(* independence: the joint outcome space over all topologies is the product space, and the joint
   multiplicity of a placement is the product of the per-topology multiplicities *)
Theorem C03_joint_space_is_product : forall sl,
  map (fun pis => shuffle_all pis sl) (prod_lists (map (fun s => perms (seq 0 (length s))) sl)) =
  prod_lists (map perms sl).
Proof. exact schedules_pushforward. Qed.
Print Assumptions C03_joint_space_is_product.

Theorem C03_independent : forall sl t,
  Forall2 (fun a s => Permutation a s) t sl ->
  cntl t (prod_lists (map perms sl)) = multl sl.
Proof. exact joint_multiplicity. Qed.
Print Assumptions C03_independent.

(* for every jds: over ALL resolutions of the generator's shuffles every placement (one arrangement
   of the stub list per topology) is realised equally often, and nothing else is realised *)
Theorem C03_generator_uniform : forall jds t,
  Forall2 (fun a s => Permutation a s) t (all_stubs jds) ->
  cntl t (map (fun pis => shuffle_all pis (all_stubs jds)) (schedules jds)) = multl (all_stubs jds).
Proof. exact schedules_uniform. Qed.
Print Assumptions C03_generator_uniform.

Theorem C03_generator_only_arrangements : forall jds pis,
  In pis (schedules jds) ->
  Forall2 (fun a s => Permutation a s) (shuffle_all pis (all_stubs jds)) (all_stubs jds).
Proof. exact schedules_only_arrangements. Qed.
Print Assumptions C03_generator_only_arrangements.

(* no dependence on vertex order or names: relabelling / reordering the stubs relabels the space *)
Theorem C03_relabel : forall (f : nat -> nat) s s', Permutation s' (map f s) ->
  forall a, cnt a (perms s') = cnt a (map (map f) (perms s)).
Proof. exact perms_relabel. Qed.
Print Assumptions C03_relabel.

(* the verified histogram checker (run on the real generator's exhaustively enumerated outcomes)
   is sound for "flat and complete", and the model's histogram meets that specification *)
Theorem C03_checker_sound : forall jds obs, c03_okb jds obs = true -> Spec_C03 jds obs.
Proof. exact c03_okb_sound. Qed.
Print Assumptions C03_checker_sound.

Theorem C03_model_satisfies_spec : forall jds, Spec_C03 jds (obs_model jds).
Proof. exact model_satisfies_C03. Qed.
Print Assumptions C03_model_satisfies_spec.

(* ---------------------------------------------------------------- the textbook instance *)
(* four vertices of degree one, 2-cliques: 24 shuffle outcomes, each of the three perfect
   matchings exactly 8 times, i.e. probability 1/3 each *)
Example C03_four_degree_one :
  let ms := matchings_of_all_schedules [[1]; [1]; [1]; [1]] in
  length ms = 24 /\
  length (filter (same_matching [(0, 1); (2, 3)]) ms) = 8 /\
  length (filter (same_matching [(0, 2); (1, 3)]) ms) = 8 /\
  length (filter (same_matching [(0, 3); (1, 2)]) ms) = 8.
Proof. vm_compute. repeat split. Qed.

(* non-vacuity of the hypotheses: a vertex-level arrangement with repeated vertices (degrees 2,1,1)
   is reached by mult = 2 of the 24 schedules, and the checker accepts the model's histogram *)
Example C03_repeated_vertex :
  Permutation [1; 0; 2; 0] (stubs [[2]; [1]; [1]] 0) /\
  cnt [1; 0; 2; 0] (map (fun pi => arrange pi (stubs [[2]; [1]; [1]] 0)) (perms (seq 0 4))) = 2 /\
  c03_okb [[2]; [1]; [1]] (obs_model [[2]; [1]; [1]]) = true /\
  c03_okb [[2; 1]; [1; 1]; [1; 0]] (obs_model [[2; 1]; [1; 1]; [1; 0]]) = true.
Proof.
  split; [|vm_compute; repeat split].
  apply perm_count. intros v. vm_compute. now destruct v as [|[|[|v]]].
Qed.

(* and it rejects a histogram that misses placements (what a generator without shuffle yields) *)
Example C03_checker_rejects_no_shuffle :
  c03_okb [[1]; [1]; [1]; [1]] [([[0; 1; 2; 3]], 1)] = false.
Proof. vm_compute. reflexivity. Qed.

(* ================================================================== Growth *)
(* the histogram checker is also COMPLETE: it decides "flat and complete over the placement space" *)
Theorem C03_checker_complete : forall jds obs, Spec_C03 jds obs -> c03_okb jds obs = true.
Proof. exact c03_okb_complete. Qed.
Print Assumptions C03_checker_complete.

Theorem C03_checker_iff_spec : forall jds obs, c03_okb jds obs = true <-> Spec_C03 jds obs.
Proof. exact c03_okb_iff. Qed.
Print Assumptions C03_checker_iff_spec.

(* (a) the verified checker accepts the model's own outcome histogram for EVERY joint degree sequence *)
Theorem C03_model_passes_checker : forall jds, c03_okb jds (obs_model jds) = true.
Proof. exact model_passes_c03_okb. Qed.
Print Assumptions C03_model_passes_checker.

(* the common weight: #schedules = #placements * multiplicity *)
Theorem C03_schedule_count : forall jds,
  length (schedules jds) = length (placement_space jds) * multl (all_stubs jds).
Proof. exact model_histogram_weight. Qed.
Print Assumptions C03_schedule_count.

(* (b) the map "callback calls -> placement" that c03_check applies to every observed run, tied to
   shuffle_all.  Fast / network generator: the placement read off the calls IS the tuple of shuffled
   stub lists ... *)
Theorem C03_placement_fast_is_shuffle : forall sizes jds pis,
  Valid sizes (singleton_mis (ncols jds)) jds -> PisOk jds pis ->
  placement sizes (singleton_mis (ncols jds)) (ncols jds)
            (map flat_call (fst (plan_fast sizes jds pis))) =
  shuffle_all pis (all_stubs jds).
Proof. exact placement_fast. Qed.
Print Assumptions C03_placement_fast_is_shuffle.

(* ... custom generator (list.pop() takes the last partition first): every orbit's slots are its
   shuffled stub list with the consecutive groups in reverse order ... *)
Theorem C03_placement_custom_is_block_reversed_shuffle : forall sizes mis jds pis,
  Valid sizes mis jds -> PisOk jds pis ->
  placement sizes mis (ncols jds) (map flat_call (fst (plan_custom sizes mis jds pis))) =
  block_rev_all sizes (shuffle_all pis (all_stubs jds)).
Proof. exact placement_custom. Qed.
Print Assumptions C03_placement_custom_is_block_reversed_shuffle.

(* ... which is a bijection on the arrangements of a stub list (an involution that permutes) *)
Theorem C03_block_reversal_involutive : forall n a, 0 < n -> length a mod n = 0 ->
  block_rev n (block_rev n a) = a /\ Permutation (block_rev n a) a.
Proof. exact block_rev_invol_perm. Qed.
Print Assumptions C03_block_reversal_involutive.

(* hence the histogram c03_check builds from the calls of ALL runs of the sample space is accepted,
   for every valid configuration of either generator *)
Theorem C03_fast_calls_pass_checker : forall sizes jds,
  Valid sizes (singleton_mis (ncols jds)) jds -> c03_okb jds (obs_calls_fast sizes jds) = true.
Proof. exact fast_calls_pass_c03_okb. Qed.
Print Assumptions C03_fast_calls_pass_checker.

Theorem C03_custom_calls_pass_checker : forall sizes mis jds,
  Valid sizes mis jds -> c03_okb jds (obs_calls_custom sizes mis jds) = true.
Proof. exact custom_calls_pass_c03_okb. Qed.
Print Assumptions C03_custom_calls_pass_checker.

(* every schedule of the sample space is an admissible schedule of the C01 theorems *)
Theorem C03_schedules_are_PisOk : forall jds pis, In pis (schedules jds) -> PisOk jds pis.
Proof. exact schedules_PisOk. Qed.
Print Assumptions C03_schedules_are_PisOk.

(* non-vacuity: a two-orbit custom configuration (degrees (1,2),(1,0),(2,0); orbit sizes 2 and 1) is
   valid, the identity schedule is admissible, the block reversal is visible (the placement differs
   from the shuffled lists), and the checker accepts the 4!*2! = 48-run histogram by computation too *)
Example C03_custom_config_valid :
  let jds := [[1; 2]; [1; 0]; [2; 0]] in
  let pis := [[0; 1; 2; 3]; [0; 1]] in
  validb [2; 1] [[0; 1]] jds = true /\ In pis (schedules jds) /\
  shuffle_all pis (all_stubs jds) = [[0; 1; 2; 2]; [0; 0]] /\
  placement [2; 1] [[0; 1]] 2 (map flat_call (fst (plan_custom [2; 1] [[0; 1]] jds pis))) = [[2; 2; 0; 1]; [0; 0]] /\
  length (obs_calls_custom [2; 1] [[0; 1]] jds) = 48 /\
  c03_okb jds (obs_calls_custom [2; 1] [[0; 1]] jds) = true.
Proof.
  cbv zeta. split; [vm_compute; reflexivity|]. split.
  - apply memllb_In. vm_compute. reflexivity.
  - vm_compute. repeat split.
Qed.

Example C03_fast_config_valid :
  validb [2; 3] (singleton_mis 2) [[1; 1]; [1; 2]; [2; 0]] = true /\
  c03_okb [[1; 1]; [1; 2]; [2; 0]] (obs_calls_fast [2; 3] [[1; 1]; [1; 2]; [2; 0]]) = true.
Proof. vm_compute. split; reflexivity. Qed.

(* ================================================================== no handshake condition (fast / network) *)
(* The uniformity theorems above hold for EVERY joint degree sequence.  For the fast / network generator so does
   the map "calls -> placement": grouper() hands a short last group to the callback as it is, hence the calls carry
   the whole shuffled stub list whatever its length.  c03_check therefore judges non-divisible sequences of the
   fast / network generator too (hypothesis [validb_nohs]: rectangular jds, a positive size per topology). *)
Theorem C03_nohs_hypothesis_decided : forall sizes jds, validb_nohs sizes jds = true <-> ValidNH sizes jds.
Proof. exact validb_nohs_ValidNH. Qed.
Print Assumptions C03_nohs_hypothesis_decided.

Theorem C03_handshake_case_is_special : forall sizes mis jds, Valid sizes mis jds -> ValidNH sizes jds.
Proof. exact Valid_ValidNH. Qed.
Print Assumptions C03_handshake_case_is_special.

Theorem C03_placement_fast_is_shuffle_any_length : forall sizes jds pis,
  ValidNH sizes jds ->
  placement sizes (singleton_mis (ncols jds)) (ncols jds)
            (map flat_call (fst (plan_fast sizes jds pis))) =
  shuffle_all pis (all_stubs jds).
Proof. exact placement_fast_nohs. Qed.
Print Assumptions C03_placement_fast_is_shuffle_any_length.

Theorem C03_fast_calls_pass_checker_any_length : forall sizes jds,
  ValidNH sizes jds -> c03_okb jds (obs_calls_fast sizes jds) = true.
Proof. exact fast_calls_pass_c03_okb_nohs. Qed.
Print Assumptions C03_fast_calls_pass_checker_any_length.

(* non-vacuity: three / five vertices of degree one with 2-cliques, four with 3-cliques violate the handshake
   condition, meet the weaker hypothesis, and the checker accepts the model's histogram by computation; the
   stub left over is each vertex equally often (3 placements of weight 2; here as counts of the last slot) *)
Example C03_odd_one_out :
  validb [2] (singleton_mis 1) [[1]; [1]; [1]] = false /\
  validb_nohs [2] [[1]; [1]; [1]] = true /\
  c03_okb [[1]; [1]; [1]] (obs_calls_fast [2] [[1]; [1]; [1]]) = true /\
  validb_nohs [3] [[1]; [1]; [1]; [1]] = true /\
  c03_okb [[1]; [1]; [1]; [1]] (obs_calls_fast [3] [[1]; [1]; [1]; [1]]) = true /\
  map (fun v => length (filter (fun o => Nat.eqb (last (hd [] (fst o)) 9) v) (obs_calls_fast [2] [[1]; [1]; [1]])))
      [0; 1; 2] = [2; 2; 2].
Proof. vm_compute. repeat split. Qed.

(* and it rejects what a generator yields that drops the surplus stub of the highest-numbered vertex BEFORE the
   shuffle (placements [0;1] and [1;0] only: not arrangements of the stub list) or after it but always the same *)
Example C03_checker_rejects_biased_leftover :
  c03_okb [[1]; [1]; [1]] [([[0; 1]], 1); ([[1; 0]], 1)] = false /\
  c03_okb [[1]; [1]; [1]] [([[0; 1; 2]], 1); ([[1; 0; 2]], 1)] = false.
Proof. vm_compute. split; reflexivity. Qed.

(* ================================================================== round 6: stub lists beyond unary naturals *)
(* The enumeration above stops at a handful of stubs.  A generator that treats LONG stub lists differently
   (shuffling blocks of 65536 stubs separately: stubs never leave their block) is invisible there.  Checker-only
   stream: the real fast generator on >= 70000 stubs with random.shuffle scripted to a structured permutation
   (optional reversal, then left rotation by r: elements cross every block boundary), judged over Z by
   c03_check_big = c03_big_okb.  Soundness: acceptance means the shuffle entry point was handed exactly the
   stub lists of the specification, once per topology and in order, the script was used up, the scripted
   answers are permutations (a schedule in the sense of PisOk), and the observed callback calls are those of
   the model's plan under that schedule -- so (placement_fast_nohs) the placement read off the calls is
   shuffle_all of the ONE whole-list shuffle per topology, an arrangement of each stub list. *)
From GV Require Import Model.GenBig Proofs.GenBigP.

Theorem C03_scripted_permutation_is_a_shuffle_answer : forall sp (l : list nat),
  perm_apply sp l = arrange (pi_of sp (length l)) l /\ is_perm (pi_of sp (length l)) (length l).
Proof. intros sp l. split; [apply perm_apply_arrange|apply pi_of_is_perm]. Qed.
Print Assumptions C03_scripted_permutation_is_a_shuffle_answer.

Theorem C03_big_checker_sound : forall sizes jds specs shufs left calls,
  c03_big_okb (enc sizes) (map enc jds) specs shufs left calls = true ->
  let pis := pis_of specs (all_stubs jds) in
  shufs = map enc (all_stubs jds) /\ length specs = ncols jds /\ left = 0%Z /\
  PisOk jds pis /\
  snd (plan_fast sizes jds pis) = None /\
  calls = map enc_call (map flat_call (fst (plan_fast sizes jds pis))).
Proof. exact c03_big_sound. Qed.
Print Assumptions C03_big_checker_sound.

Theorem C03_big_checker_placement : forall sizes jds specs shufs left calls,
  ValidNH sizes jds ->
  c03_big_okb (enc sizes) (map enc jds) specs shufs left calls = true ->
  exists cs, calls = map enc_call cs /\
    placement sizes (singleton_mis (ncols jds)) (ncols jds) cs =
    shuffle_all (pis_of specs (all_stubs jds)) (all_stubs jds) /\
    Forall2 (fun a s => Permutation a s) (shuffle_all (pis_of specs (all_stubs jds)) (all_stubs jds)) (all_stubs jds).
Proof. exact c03_big_placement. Qed.
Print Assumptions C03_big_checker_placement.

(* non-vacuity: six degree-1 vertices, 2-cliques, rotation by 2 of the reversed list: accepted; the same stubs
   shuffled in two blocks of three (each block reversed, blocks swapped) hand other lists to the shuffle entry
   point and are rejected *)
Example C03_big_checker_discriminates :
  c03_big_okb [2%Z] [[1%Z];[1%Z];[1%Z];[1%Z];[1%Z];[1%Z]] [(true, 2)] [[0;1;2;3;4;5]%Z] 0
              [(0, [3;2]%Z); (0, [1;0]%Z); (0, [5;4]%Z)] = true /\
  c03_big_okb [2%Z] [[1%Z];[1%Z];[1%Z];[1%Z];[1%Z];[1%Z]] [(true, 2)] [[0;1;2]%Z; [3;4;5]%Z] 0
              [(0, [5;4]%Z); (0, [3;2]%Z); (0, [1;0]%Z)] = false.
Proof. split; vm_compute; reflexivity. Qed.
