(* C11 — placeholder while the proofs are being written *)
From Coq Require Import List ZArith.
From GV Require Import Lib.Tree Model.DrawSet Model.Mcmc.
Import ListNotations.

Theorem C11_default_limits : forall f nodes tg es0,
  c_slimit (mk_cfg f nodes tg es0 None None) = 25 /\
  c_climit (mk_cfg f nodes tg es0 None None) = 10 * length es0.
Proof. intros. split; reflexivity. Qed.
Print Assumptions C11_default_limits.
