(* C11 — MCMC rewiring preserves vertices, degrees and motif structure.
   Property theorems only; each is closed by a lemma of Proofs/McmcP.v.

   The model (Model/Mcmc.v) has a variant flag: [fixed = false] is /repo as it is (the proposal
   edges carry the motif id of the motif they LEAVE — open finding C11b), [fixed = true] is the
   repaired rule.  The hard clauses (Hard) are proved for BOTH variants; the shape clause
   (Shape) is refuted for the current variant by a concrete run and kept as [C11_full]. *)
From Coq Require Import List ZArith QArith Bool Arith Permutation.
From GV Require Import Lib.Tree Model.DrawSet Proofs.DrawSetP Model.Mcmc Proofs.McmcP Proofs.McmcCheckP
                       Proofs.McmcFail.
Import ListNotations.

(* the full statement of the property for the model of rewire(): every graph the run passes
   through satisfies the hard clauses AND the shape clause *)
Definition C11_full : Prop :=
  forall fixed nodes tg es0 sl cl evs,
    WF (Z.of_nat (length nodes)) es0 ->
    let C := mk_cfg fixed nodes tg es0 sl cl in
    let '(r, sf, tr) := rewire C es0 evs in
    Forall (fun s => Hard nodes es0 nodes (s_es s) /\ Shape es0 (s_es s)) (sf :: tr).

(* PROVED PART (general: every clean network, every target, all limits, every oracle stream,
   any number of accepted swaps, both id rules): the final state and every state right after
   an accepted swap keep the vertex annotations, are simple graphs on the same vertices (no
   self-loop, no duplicate), have the same number of edges, the same per-vertex per-topology
   degrees, the same number of edges of each topology in each motif-id class, and the draw
   set mirrors the edge set *)
Theorem C11_rewire_inv_partial :
  forall fixed nodes tg es0 sl cl evs,
    WF (Z.of_nat (length nodes)) es0 ->
    let C := mk_cfg fixed nodes tg es0 sl cl in
    let '(r, sf, tr) := rewire C es0 evs in
    StInv C es0 sf /\ Forall (StInv C es0) tr.
Proof. exact rewire_inv. Qed.
Print Assumptions C11_rewire_inv_partial.

(* one accepted swap, from ANY well-formed graph: genuine corners, suitability and a pairing as
   the numerator loop produces it give an apply step that succeeds and preserves the hard clauses *)
Theorem C11_swap_preserves_inv_partial :
  forall N es u0 v0 m0 m1 a0 a1 fixed prs d,
    WF N es ->
    Permutation a0 (corner_edges es u0 m0) -> Permutation a1 (corner_edges es v0 m1) ->
    SuitFacts es u0 v0 m0 m1 a0 a1 ->
    map fst prs = a0 -> Permutation a1 (map snd prs) -> (forall p, In p prs -> et (snd p) = et (fst p)) ->
    Mirror N es d ->
    exists d', apply_swap N (length es) es d u0 v0 (map (other u0) a0) (map (other v0) a1)
                          (swap_props u0 v0 fixed prs)
               = Ok (swap_es' es u0 v0 m0 m1 fixed prs, d')
               /\ Mirror N (swap_es' es u0 v0 m0 m1 fixed prs) d'
               /\ forall nodes, Z.of_nat (length nodes) = N ->
                    Hard nodes es nodes (swap_es' es u0 v0 m0 m1 fixed prs).
Proof.
  intros N es u0 v0 m0 m1 a0 a1 fixed prs d HW G0 G1 SF Hf Hs Ht HM.
  destruct (apply_swap_ok N es u0 v0 m0 m1 a0 a1 fixed prs d HW G0 G1 SF Hf Hs Ht HM) as [d' [H1 H2]].
  exists d'. split; [exact H1|]. split; [exact H2|]. intros nodes HN. eapply swap_hard; eauto.
Qed.
Print Assumptions C11_swap_preserves_inv_partial.

(* what the suitability test establishes, and that the oracle-validated corners are genuine *)
Theorem C11_suitable_facts :
  forall es u0 v0 m0 m1 a0 a1,
    (forall e, In e a0 -> em e = m0) -> (forall e, In e a1 -> em e = m1) ->
    suitable es u0 v0 a0 a1 = true -> SuitFacts es u0 v0 m0 m1 a0 a1.
Proof. exact suitable_facts. Qed.
Print Assumptions C11_suitable_facts.

Theorem C11_corner_genuine :
  forall N es u m c, WF N es -> permb c (corner es u m) = true ->
    exists a, attrs es u c = Some a /\ Genuine es u m c a.
Proof. exact genuine_of_permb. Qed.
Print Assumptions C11_corner_genuine.

(* THE REPAIRED RULE: with the proposal ids inherited from the motif the focal vertex JOINS
   (fixed = true) the full statement holds: every state of every run satisfies the hard clauses AND
   the shape clause -- this is C11_full restricted to fixed = true *)
Theorem C11_shape_fixed :
  forall nodes tg es0 sl cl evs,
    WF (Z.of_nat (length nodes)) es0 ->
    let C := mk_cfg true nodes tg es0 sl cl in
    let '(r, sf, tr) := rewire C es0 evs in
    Forall (fun s => Hard nodes es0 nodes (s_es s) /\ Shape es0 (s_es s)) (sf :: tr).
Proof. exact rewire_shape_fixed. Qed.
Print Assumptions C11_shape_fixed.

(* one swap under the repaired rule: the motif of u0 is renamed u0 -> v0, the motif of v0 is renamed
   v0 -> u0, every other label class is untouched *)
Theorem C11_shape_step_fixed :
  forall N es u0 v0 m0 m1 a0 a1 prs,
    WF N es ->
    Permutation a0 (corner_edges es u0 m0) -> Permutation a1 (corner_edges es v0 m1) ->
    SuitFacts es u0 v0 m0 m1 a0 a1 -> map fst prs = a0 -> Permutation a1 (map snd prs) ->
    Shape es (swap_es' es u0 v0 m0 m1 true prs).
Proof. exact shape_step. Qed.
Print Assumptions C11_shape_step_fixed.

(* the verified checkers run on the implementation's graphs are sound for the specification *)
Theorem C11_check_hard_sound :
  forall nodes0 es0 nodes es, check_hard nodes0 es0 nodes es = true -> Hard nodes0 es0 nodes es.
Proof. exact check_hard_sound. Qed.
Print Assumptions C11_check_hard_sound.

Theorem C11_check_shape_sound : forall es0 es, check_shape es0 es = true -> Shape es0 es.
Proof. exact check_shape_sound. Qed.
Print Assumptions C11_check_shape_sound.

(* rewire() is a function of its arguments: the input network is not an output (the aliasing side
   is checked by the correspondence, input object before/after) *)
Theorem C11_rewire_pure :
  forall C es0 evs, rewire C es0 evs = rewire C es0 evs /\ es0 = es0.
Proof. intros. split; reflexivity. Qed.
Print Assumptions C11_rewire_pure.

(* omitted limits give 25 and 10 * |E| *)
Theorem C11_default_limits : forall f nodes tg es0,
  c_slimit (mk_cfg f nodes tg es0 None None) = 25%nat /\
  c_climit (mk_cfg f nodes tg es0 None None) = (10 * length es0)%nat.
Proof. intros. split; reflexivity. Qed.
Print Assumptions C11_default_limits.

(* ---------- non-vacuity and the refuted / repaired pair ---------- *)
(* a clean 10-vertex network: triangles (0,1,2) id 0 and (3,4,5) id 1, 2-cliques (6,7) (2,8) (5,6)
   (0,9) (4,9) (4,7); vertices annotated with (number of 2-cliques, number of 3-cliques); edges in
   the networkx G.edges() order; a full-support symmetric dyadic target *)
Definition ex_nodes : list (list Z) :=
  [[1;1];[0;1];[1;1];[0;1];[2;1];[1;1];[2;0];[2;0];[1;0];[2;0]]%Z.
Definition ex_edges : list edge :=
  [mkE 0 1 1 0; mkE 0 2 1 0; mkE 0 9 0 5; mkE 1 2 1 0; mkE 2 8 0 3; mkE 3 4 1 1; mkE 3 5 1 1;
   mkE 4 5 1 1; mkE 4 9 0 6; mkE 4 7 0 7; mkE 5 6 0 4; mkE 6 7 0 2]%Z.
Definition ex_target : target :=
  [ [ ([0; 0; 0; 0]%Z, 7#16); ([0; 0; 0; 1]%Z, 7#8); ([0; 1; 0; 0]%Z, 7#8); ([0; 0; 1; 0]%Z, 7#8); ([1; 0; 0; 0]%Z, 7#8); ([0; 0; 1; 1]%Z, 7#8); ([1; 1; 0; 0]%Z, 7#8); ([0; 1; 0; 1]%Z, 1#4); ([0; 1; 1; 0]%Z, 7#16); ([1; 0; 0; 1]%Z, 7#16); ([0; 1; 1; 1]%Z, 3#16); ([1; 1; 0; 1]%Z, 3#16); ([1; 0; 1; 0]%Z, 7#8); ([1; 0; 1; 1]%Z, 7#16); ([1; 1; 1; 0]%Z, 7#16); ([1; 1; 1; 1]%Z, 5#16) ];
    [ ([0; 0; 0; 0]%Z, 3#16); ([0; 0; 1; 0]%Z, 3#16); ([1; 0; 0; 0]%Z, 3#16); ([0; 0; 2; 0]%Z, 3#8); ([2; 0; 0; 0]%Z, 3#8); ([1; 0; 1; 0]%Z, 3#4); ([1; 0; 2; 0]%Z, 3#4); ([2; 0; 1; 0]%Z, 3#4); ([2; 0; 2; 0]%Z, 1#8) ] ].
(* the oracle stream of a real run of /repo (script replayed by the harness): draw (2,8), draw (4,9):
   a suitable pair of 2-clique corners, accepted with the uniform 0; then draw (0,1) (u0 = 0, corner
   [1;2]) and draw (3,4) (v0 = 3, corner [4;5]): the two triangles swap a corner *)
Definition ex_events : list ev :=
  [EDraw 4; ECorner [8%Z]; EDraw 8; ECorner [9%Z]; ERandom (0#1);
   EDraw 0; ECorner [1%Z; 2%Z]; EDraw 5; ECorner [4%Z; 5%Z]; ERandom (0#1)].
Definition ex_run (fixed : bool) :=
  rewire (mk_cfg fixed ex_nodes ex_target ex_edges (Some 25%nat) (Some 1%nat)) ex_edges ex_events.

Example C11_nonvacuous_wf : WF (Z.of_nat (length ex_nodes)) ex_edges.
Proof. apply wfb_sound. vm_compute. reflexivity. Qed.

(* both variants accept two swaps on this stream and finish; the hard clauses hold (as proved) *)
Example C11_nonvacuous_run : forall fixed,
  let '(r, sf, tr) := ex_run fixed in
  r = Finished /\ length tr = 2%nat /\ check_hard ex_nodes ex_edges ex_nodes (s_es sf) = true.
Proof. intros [|]; vm_compute; repeat split; reflexivity. Qed.

(* REFUTED for the current code (crossed ids): after the triangle swap the class of motif id 0 is
   {(1,2),(0,5),(0,4)} -- not a triangle: no renaming of the triangle's vertices produces it *)
Definition tri0 : list edge := [mkE 0 1 1 0; mkE 0 2 1 0; mkE 1 2 1 0]%Z.
Lemma no_triangle_renaming (rho : Z -> Z) :
  ~ (forall it, In it [(1, 2, 1%nat); (0, 5, 1%nat); (0, 4, 1%nat)]%Z <-> In it (map (rename_item rho) tri0)).
Proof.
  intros H.
  assert (H12 := proj1 (H (1, 2, 1%nat)%Z) (or_introl eq_refl)).
  assert (H05 := proj1 (H (0, 5, 1%nat)%Z) (or_intror (or_introl eq_refl))).
  assert (H04 := proj1 (H (0, 4, 1%nat)%Z) (or_intror (or_intror (or_introl eq_refl)))).
  unfold tri0, rename_item in *. cbn [map ea eb et In] in *.
  (* the three images are the three pairs {rho 0, rho 1}, {rho 0, rho 2}, {rho 1, rho 2}: they
     pairwise share a vertex and no vertex lies in all three; {1,2}, {0,4}, {0,5} do not *)
  destruct (norm_cases (rho 0%Z) (rho 1%Z)) as [E1|E1]; destruct (norm_cases (rho 0%Z) (rho 2%Z)) as [E2|E2];
    destruct (norm_cases (rho 1%Z) (rho 2%Z)) as [E3|E3]; rewrite E1, E2, E3 in *; cbn [fst snd] in *;
    destruct H12 as [X|[X|[X|[]]]]; destruct H04 as [Y|[Y|[Y|[]]]]; destruct H05 as [W|[W|[W|[]]]];
    try congruence.
Qed.

Theorem C11_shape_refuted :
  exists nodes tg es0 sl cl evs,
    WF (Z.of_nat (length nodes)) es0 /\
    let '(r, sf, tr) := rewire (mk_cfg false nodes tg es0 sl cl) es0 evs in
    ~ Shape es0 (s_es sf).
Proof.
  exists ex_nodes, ex_target, ex_edges, (Some 25%nat), (Some 1%nat), ex_events.
  split; [exact C11_nonvacuous_wf|].
  assert (E : motif_edges (s_es (snd (fst (ex_run false)))) 0%Z = [mkE 1 2 1 0; mkE 0 5 1 0; mkE 0 4 1 0]%Z)
    by (vm_compute; reflexivity).
  change (rewire (mk_cfg false ex_nodes ex_target ex_edges (Some 25%nat) (Some 1%nat)) ex_edges ex_events)
    with (ex_run false).
  destruct (ex_run false) as [[r sf] tr]. cbn [fst snd] in E.
  intros HS. destruct (HS 0%Z) as [rho [_ Hiff]]. rewrite E in Hiff.
  apply (no_triangle_renaming rho). exact Hiff.
Qed.
Print Assumptions C11_shape_refuted.

(* and the executable shape checker says the same on this run: false for the current rule, true for
   the repaired one *)
Example C11_shape_checker_on_example :
  check_shape ex_edges (s_es (snd (fst (ex_run false)))) = false /\
  check_shape ex_edges (s_es (snd (fst (ex_run true)))) = true.
Proof. vm_compute. split; reflexivity. Qed.

(* ================================================================== Growth *)
(* the verified checkers are also COMPLETE: they DECIDE the hard clauses and the shape clause *)
Theorem C11_check_hard_complete :
  forall nodes0 es0 nodes es, Hard nodes0 es0 nodes es -> check_hard nodes0 es0 nodes es = true.
Proof. exact check_hard_complete. Qed.
Print Assumptions C11_check_hard_complete.

Theorem C11_check_hard_iff :
  forall nodes0 es0 nodes es, check_hard nodes0 es0 nodes es = true <-> Hard nodes0 es0 nodes es.
Proof. exact check_hard_iff. Qed.
Print Assumptions C11_check_hard_iff.

Theorem C11_check_shape_complete : forall es0 es, Shape es0 es -> check_shape es0 es = true.
Proof. exact check_shape_complete. Qed.
Print Assumptions C11_check_shape_complete.

Theorem C11_check_shape_iff : forall es0 es, check_shape es0 es = true <-> Shape es0 es.
Proof. exact check_shape_iff. Qed.
Print Assumptions C11_check_shape_iff.

Theorem C11_check_inv_iff :
  forall nodes0 es0 nodes es,
    check_inv nodes0 es0 nodes es = true <-> Hard nodes0 es0 nodes es /\ Shape es0 es.
Proof. exact check_inv_iff. Qed.
Print Assumptions C11_check_inv_iff.

(* the well-formedness test (simple graph on 0..N-1) is decided too *)
Theorem C11_wfb_iff : forall N es, wfb N es = true <-> WF N es.
Proof. exact wfb_iff. Qed.
Print Assumptions C11_wfb_iff.

(* consequently the checkers accept every state of every run of the model: the hard checker for
   both id rules, the full checker (hard + shape) for the repaired rule *)
Theorem C11_model_passes_check_hard :
  forall fixed nodes tg es0 sl cl evs,
    WF (Z.of_nat (length nodes)) es0 ->
    let C := mk_cfg fixed nodes tg es0 sl cl in
    let '(r, sf, tr) := rewire C es0 evs in
    Forall (fun s => check_hard nodes es0 nodes (s_es s) = true) (sf :: tr).
Proof. exact rewire_passes_check_hard. Qed.
Print Assumptions C11_model_passes_check_hard.

Theorem C11_fixed_model_passes_check_inv :
  forall nodes tg es0 sl cl evs,
    WF (Z.of_nat (length nodes)) es0 ->
    let C := mk_cfg true nodes tg es0 sl cl in
    let '(r, sf, tr) := rewire C es0 evs in
    Forall (fun s => check_inv nodes es0 nodes (s_es s) = true) (sf :: tr).
Proof. exact rewire_fixed_passes_check_inv. Qed.
Print Assumptions C11_fixed_model_passes_check_inv.

(* and the refutation transfers to the checker by logic alone: on the final graph of the crossed-id run
   check_shape MUST answer false (previously only observed by computation) *)
Theorem C11_check_shape_rejects_refuted :
  exists nodes tg es0 sl cl evs,
    WF (Z.of_nat (length nodes)) es0 /\
    let '(r, sf, tr) := rewire (mk_cfg false nodes tg es0 sl cl) es0 evs in
    check_shape es0 (s_es sf) = false.
Proof.
  destruct C11_shape_refuted as [nodes [tg [es0 [sl [cl [evs [HW H]]]]]]].
  exists nodes, tg, es0, sl, cl, evs. split; [exact HW|].
  destruct (rewire (mk_cfg false nodes tg es0 sl cl) es0 evs) as [[r sf] tr].
  destruct (check_shape es0 (s_es sf)) eqn:E; [|reflexivity].
  exfalso. apply H. now apply check_shape_sound.
Qed.
Print Assumptions C11_check_shape_rejects_refuted.

(* non-vacuity of the completeness hypotheses: on the example run of the repaired rule Hard and Shape hold
   at the Prop level by the general theorems (not through the checkers) *)
Example C11_completeness_nonvacuous :
  let sf := snd (fst (ex_run true)) in
  Hard ex_nodes ex_edges ex_nodes (s_es sf) /\ Shape ex_edges (s_es sf) /\ s_es sf <> ex_edges.
Proof.
  cbv zeta. pose proof (C11_shape_fixed ex_nodes ex_target ex_edges (Some 25%nat) (Some 1%nat) ex_events
                          C11_nonvacuous_wf) as H. cbv zeta in H.
  change (rewire (mk_cfg true ex_nodes ex_target ex_edges (Some 25%nat) (Some 1%nat)) ex_edges ex_events)
    with (ex_run true) in H.
  assert (Hne : s_es (snd (fst (ex_run true))) <> ex_edges) by (vm_compute; discriminate).
  destruct (ex_run true) as [[r sf] tr]. cbn [fst snd] in *.
  inversion H as [|? ? [H1 H2] _]; subst. split; [exact H1|]. split; [exact H2|exact Hne].
Qed.

(* ================================================================== Growth 2: admissible runs do not fail *)
(* (audit finding F7: a failed run returns the unchanged last state, so the invariant theorems above hold
   trivially for runs that raise.)  Objects (Proofs/McmcFail.v):
     rewire_visited C es0 evs   the configurations (phase, state, oracle answer) the run passes through, in order
     apply_ok_at C x            if the phase of x is PhRandom (the Metropolis test is due: [suitable] accepted the
                                pair and the swap condition delivered proposals) then apply_swap on the state of
                                x returns Ok
     ev_ok C ph s e             the oracle answer e fits the phase: a draw index below the size of the draw set,
                                a corner that is a permutation of the real corner, a uniform number for PhRandom
     FailSite C ph s e c        the three sites at which a run can fail with code c (below)
     annotb nodes es            every edge's topology index is a position of the annotation of both end points
     posb tg / PosT tg          every stored target weight is positive (boolean / as seen through tlookup)       *)

(* THE APPLY STEP NEVER FAILS (general: every well-formed network, target, limits, oracle stream, both id
   rules): at every configuration of every run at which the apply step can be reached, it succeeds -- no
   "edge already present", no networkx / draw-set error, no edge-count mismatch *)
Theorem C11_no_apply_failure :
  forall fixed nodes tg es0 sl cl evs,
    WF (Z.of_nat (length nodes)) es0 ->
    let C := mk_cfg fixed nodes tg es0 sl cl in
    Forall (apply_ok_at C) (rewire_visited C es0 evs).
Proof. exact rewire_apply_ok. Qed.
Print Assumptions C11_no_apply_failure.

(* WHERE A RUN CAN FAIL (general): a run that ends in the error state either started from a network without
   edges (random.choice([]): IndexError at once), or failed at its LAST configuration, with the state
   untouched, at one of exactly three sites:
     FS_protocol  E_PROTOCOL  the oracle answer is invalid (not an error of the code)
     FS_index     E_INDEX     jd[index] in the swap condition of a pair [suitable] accepted; an edge of the
                              current graph has an end point whose annotation is too short
     FS_denzero   E_MCMC      the swap condition's denominator is 0 (ErrorMarkovChainMonteCarloRewiring)
   -- never the apply step, never KeyError / NetworkXError *)
Theorem C11_failure_site :
  forall fixed nodes tg es0 sl cl evs,
    WF (Z.of_nat (length nodes)) es0 ->
    let C := mk_cfg fixed nodes tg es0 sl cl in
    forall c sf tr, rewire C es0 evs = (Failed c, sf, tr) ->
      (es0 = [] /\ c = E_INDEX) \/
      (es0 <> [] /\ exists pre ph e, rewire_visited C es0 evs = pre ++ [(ph, sf, e)] /\
                                    step C ph sf e = Halt (Failed c) sf false /\ FailSite C ph sf e c).
Proof. exact rewire_fail. Qed.
Print Assumptions C11_failure_site.

(* the same, seen from the arguments of rewire: which error statuses remain possible and why *)
Theorem C11_failure_causes :
  forall fixed nodes tg es0 sl cl evs,
    WF (Z.of_nat (length nodes)) es0 ->
    let C := mk_cfg fixed nodes tg es0 sl cl in
    forall c sf tr, rewire C es0 evs = (Failed c, sf, tr) ->
      (c = E_PROTOCOL /\ exists pre ph e, rewire_visited C es0 evs = pre ++ [(ph, sf, e)] /\ ev_ok C ph sf e = false) \/
      (c = E_INDEX /\ (es0 = [] \/ annotb nodes es0 = false)) \/
      (c = E_MCMC /\ ~ PosT tg).
Proof. exact rewire_failure_causes. Qed.
Print Assumptions C11_failure_causes.

(* an invalid oracle answer always gives the protocol status (no hypothesis): E_PROTOCOL <-> invalid answer *)
Theorem C11_invalid_answer_is_protocol :
  forall C ph s e, ev_ok C ph s e = false -> step C ph s e = Halt (Failed E_PROTOCOL) s false.
Proof. exact step_bad_event. Qed.
Print Assumptions C11_invalid_answer_is_protocol.

(* THE CLEAN RUN: at least one edge, annotations long enough, positive stored weights, valid oracle answers:
   the run does not end in the error state at all -- it finishes, or the script ends first *)
Theorem C11_clean_run_never_fails :
  forall fixed nodes tg es0 sl cl evs,
    WF (Z.of_nat (length nodes)) es0 -> es0 <> [] -> annotb nodes es0 = true -> PosT tg ->
    let C := mk_cfg fixed nodes tg es0 sl cl in
    script_okb C es0 evs = true ->
    let '(r, sf, tr) := rewire C es0 evs in r = Finished \/ r = Exhausted.
Proof. exact rewire_clean_run. Qed.
Print Assumptions C11_clean_run_never_fails.

Theorem C11_posb_sound : forall tg, posb tg = true -> PosT tg.
Proof. exact posb_PosT. Qed.
Print Assumptions C11_posb_sound.

(* METHOD LEVEL (any well-formed graph, not only states of a run): corners that are permutations of the real
   corners, accepted by [suitable], proposals delivered by the swap condition: apply_swap succeeds, the draw set
   mirrors the new edge set and the hard clauses hold for it *)
Theorem C11_apply_after_accept :
  forall N nodes tg fixed es u0 v0 m0 m1 c0 c1 a0 a1 props top bot,
    WF N es ->
    permb c0 (corner es u0 m0) = true -> permb c1 (corner es v0 m1) = true ->
    attrs es u0 c0 = Some a0 -> attrs es v0 c1 = Some a1 ->
    suitable es u0 v0 a0 a1 = true ->
    swap_pre fixed nodes tg u0 v0 a0 a1 = PNeed props top bot ->
    exists es' d', apply_swap N (length es) es (init_ds N es) u0 v0 c0 c1 props = Ok (es', d')
                   /\ Mirror N es' d' /\ (Z.of_nat (length nodes) = N -> Hard nodes es nodes es').
Proof. exact apply_after_accept. Qed.
Print Assumptions C11_apply_after_accept.

(* the swap condition itself, on genuine corners [suitable] accepted: only IndexError (short annotation) or the
   zero denominator; the hashmap pop (ErrorMCMC "exhausted" / KeyError) can not fail *)
Theorem C11_swap_condition_errors :
  forall fixed nodes tg es u0 v0 m0 m1 a0 a1 c,
    Permutation a0 (corner_edges es u0 m0) -> Permutation a1 (corner_edges es v0 m1) ->
    suitable es u0 v0 a0 a1 = true ->
    swap_pre fixed nodes tg u0 v0 a0 a1 = PErr c ->
    (c = E_INDEX /\ ~ (forall e, In e (a0 ++ a1) -> annot_ok nodes e = true)) \/
    (c = E_MCMC /\ exists bot, den_loop nodes tg u0 v0 a0 a1 (1 # 1) = DenOk bot /\ Qeq_bool bot (0 # 1) = true).
Proof. exact swap_pre_err. Qed.
Print Assumptions C11_swap_condition_errors.

(* ---------- non-vacuity ---------- *)
(* the example run meets every hypothesis of C11_clean_run_never_fails, and passes through ten configurations,
   two of them with the Metropolis test due (so C11_no_apply_failure speaks about two real apply steps) *)
Definition is_random (x : site) : bool :=
  match fst (fst x) with PhRandom _ _ _ _ _ _ _ => true | _ => false end.
Example C11_clean_run_nonvacuous : forall fixed,
  let C := mk_cfg fixed ex_nodes ex_target ex_edges (Some 25%nat) (Some 1%nat) in
  ex_edges <> [] /\ annotb ex_nodes ex_edges = true /\ posb ex_target = true /\ script_okb C ex_edges ex_events = true
  /\ length (rewire_visited C ex_edges ex_events) = 10%nat
  /\ length (filter is_random (rewire_visited C ex_edges ex_events)) = 2%nat.
Proof. intros [|]; vm_compute; repeat split; try reflexivity; discriminate. Qed.

(* each of the remaining error statuses does occur (the classification is not vacuous):
   a stored weight 0 on the pairing of the old edge (2,8) -> zero denominator, ErrorMCMC;
   vertex 9 annotated with the empty tuple -> IndexError in the swap condition;
   the empty network -> IndexError of random.choice([]);
   a corner answer that is not the corner / a draw index out of range -> protocol status *)
Definition zero_target : target :=
  map (map (fun kq : list Z * Q => if zs_eqb (fst kq) [0; 1; 0; 0]%Z then (fst kq, 0 # 1) else kq)) ex_target.
Definition short_nodes : list (list Z) :=
  [[1;1];[0;1];[1;1];[0;1];[2;1];[1;1];[2;0];[2;0];[1;0];[]]%Z.
Example C11_failures_do_occur :
  fst (fst (rewire (mk_cfg false ex_nodes zero_target ex_edges None None) ex_edges ex_events)) = Failed E_MCMC
  /\ posb zero_target = false
  /\ fst (fst (rewire (mk_cfg false short_nodes ex_target ex_edges None None) ex_edges ex_events)) = Failed E_INDEX
  /\ annotb short_nodes ex_edges = false
  /\ fst (fst (rewire (mk_cfg false ex_nodes ex_target [] None None) [] ex_events)) = Failed E_INDEX
  /\ fst (fst (rewire (mk_cfg false ex_nodes ex_target ex_edges None None) ex_edges [EDraw 4; ECorner [7%Z]]))
     = Failed E_PROTOCOL
  /\ fst (fst (rewire (mk_cfg false ex_nodes ex_target ex_edges None None) ex_edges [EDraw 40])) = Failed E_PROTOCOL.
Proof.
  repeat split; vm_compute; reflexivity.
Qed.
Example C11_failures_do_occur_wf : WF (Z.of_nat (length short_nodes)) ex_edges /\ WF (Z.of_nat (length ex_nodes)) [].
Proof. split; apply wfb_sound; vm_compute; reflexivity. Qed.
