(* C02 — edge-list columns stay parallel and motif identities are well formed.
   Property theorems only; each is closed by [exact] of a lemma of Proofs/GenP.v.

   Spec_C02 custom names results ce cn ci  (Proofs/GenP.v) says, for the three columns
   ce / cn / ci of an edge list and the list [results] of what the build callbacks returned
   (one entry per motif instance, in call order):
     - the three columns have the same length;
     - the rows are the concatenation of one block per callback call; block number a carries exactly
       the edges callback call a returned (a bare edge = one row, two edges = two rows, ...), the names
       prescribed for it ([expected_names]: the topology's name on every row for the fast generator;
       for custom motifs the single name of a bare edge, else position j of the naming callback on
       row j), and one motif id on all its rows;
     - rows of different blocks never share an id  ([DistinctIds]).
   "Every edge entry is a pair of vertex ids" is a typing fact of the model (ce : list (nat*nat));
   on the implementation's raw column it is part of the checker ([IsPairTree]). *)
From Coq Require Import List ZArith Bool Arith Lia.
From GV Require Import Lib.Tree Model.Gen Proofs.GenP Proofs.GenC02P Proofs.GenC02ZP.
Import ListNotations.

(* fast / network generator: for ALL inputs, callbacks and shuffle outcomes of a run that returns *)
Theorem C02_fast_columns : forall build sizes names jds pis cs ce cn ci,
  gen_fast build sizes (map (hd 0) names) jds pis = Ok (cs, (ce, cn, ci)) ->
  exists results, Results build cs results /\
    ce = concat (map (fun r => edges_of (snd r)) results) /\
    Spec_C02 false names results ce cn ci.
Proof. exact gen_fast_C02. Qed.
Print Assumptions C02_fast_columns.

(* custom-motif generator (after the repair of the bare-edge / two-edge branches); the only
   hypothesis is that the naming callbacks give one name per edge of their motif *)
Theorem C02_custom_columns : forall build sizes names mis jds pis cs ce cn ci,
  gen_custom build sizes names mis jds pis = Ok (cs, (ce, cn, ci)) ->
  NamesOk build names cs ->
  exists results, Results build cs results /\
    ce = concat (map (fun r => edges_of (snd r)) results) /\
    Spec_C02 true names results ce cn ci.
Proof. exact gen_custom_C02. Qed.
Print Assumptions C02_custom_columns.

(* consequence of the specification: the rows sharing the motif id of a row x are EXACTLY the
   block x belongs to, i.e. the edges one callback returned for one motif instance *)
Theorem C02_ids : forall custom names results ce cn ci,
  Spec_C02 custom names results ce cn ci ->
  exists blks, zip3 ce cn ci = concat blks /\ Forall2 (block_ok custom names) results blks /\
    forall a x, In x (nth a blks []) ->
      filter (fun y => r_id y =? r_id x) (zip3 ce cn ci) = nth a blks [].
Proof. exact spec_c02_ids. Qed.
Print Assumptions C02_ids.

(* in the model the ids are the call indices id0, id0+1, id0+2, ... *)
Theorem C02_ids_sequential : forall build names cs id ce cn ci,
  (emit_custom build names id cs = Ok (ce, cn, ci) /\ NamesOk build names cs) \/
  (exists nms, names = map (fun x => [x]) nms /\ emit_fast build nms id cs = Ok (ce, cn, ci)) ->
  exists blks, zip3 ce cn ci = concat blks /\ length blks = length cs /\
    forall d x, In x (nth d blks []) -> r_id x = id + d.
Proof. exact gen_ids_sequential. Qed.
Print Assumptions C02_ids_sequential.

(* the verified checker is sound for the specification (this is what judges /repo's columns) *)
Theorem C02_checker_sound : forall custom names results ce_raw cn ci,
  c02_okb custom names results ce_raw cn ci = true ->
  Forall IsPairTree ce_raw /\ Spec_C02 custom names results (map t_pair ce_raw) cn ci.
Proof. exact c02_okb_sound. Qed.
Print Assumptions C02_checker_sound.

(* ---------------------------------------------------------------- non-vacuity *)
(* the DESIGN section-3 replay: bare-edge motif + two-edge motif; after the repair the model yields
   three parallel columns, the two-edge motif as two rows sharing id 1 with per-edge names 8, 9 *)
Example C02_replay_runs :
  gen_custom (build_of_codes [3; 4]) [2; 3] [[7]; [8; 9]] [[0]; [1]] [[1;1]; [1;1]; [0;1]] [[1;0]; [2;1;0]]
  = Ok ([(0, [[1; 0]]); (1, [[2; 1; 0]])],
        ([(1, 0); (2, 1); (1, 0)], [7; 8; 9], [0; 1; 1])).
Proof. vm_compute. reflexivity. Qed.

Example C02_replay_names_ok :
  NamesOk (build_of_codes [3; 4]) [[7]; [8; 9]] [(0, [[1; 0]]); (1, [[2; 1; 0]])].
Proof.
  intros c es nms [<-|[<-|[]]] Hb Hn; vm_compute in Hb, Hn; inversion Hb; inversion Hn; reflexivity.
Qed.

Example C02_checker_accepts_replay :
  c02_okb true [[7]; [8; 9]] [(0, Bare 1 0); (1, Edges [(2, 1); (1, 0)])]
          [L [I 1; I 0]; L [I 2; I 1]; L [I 1; I 0]]%Z [7; 8; 9] [0; 1; 1] = true.
Proof. vm_compute. reflexivity. Qed.

(* and it rejects the columns the code produced before the repair (lengths 2 / 2 / 4) *)
Example C02_checker_rejects_unrepaired :
  c02_okb true [[7]; [8; 9]] [(0, Bare 0 1); (1, Edges [(0, 1); (1, 2)])]
          [L [I 0; I 1]; L [L [I 0; I 1]; L [I 1; I 2]]]%Z [7; 99] [0; 0; 1; 1] = false.
Proof. vm_compute. reflexivity. Qed.

(* ================================================================== Growth *)
(* the verified checker is also COMPLETE, hence it DECIDES the property on raw columns *)
Theorem C02_checker_complete : forall custom names results ce_raw cn ci,
  Forall IsPairTree ce_raw -> Spec_C02 custom names results (map t_pair ce_raw) cn ci ->
  c02_okb custom names results ce_raw cn ci = true.
Proof. exact c02_okb_complete. Qed.
Print Assumptions C02_checker_complete.

Theorem C02_checker_correct : forall custom names results ce_raw cn ci,
  c02_okb custom names results ce_raw cn ci = true <->
  Forall IsPairTree ce_raw /\ Spec_C02 custom names results (map t_pair ce_raw) cn ci.
Proof. exact c02_okb_correct. Qed.
Print Assumptions C02_checker_correct.

(* consequently the model's own columns (edge column as the wire encoder writes it) pass the
   verified checker: all inputs, all callbacks, all shuffle outcomes of a run that returns *)
Theorem C02_fast_model_passes_checker : forall build sizes names jds pis cs ce cn ci,
  gen_fast build sizes (map (hd 0) names) jds pis = Ok (cs, (ce, cn, ci)) ->
  exists results, Results build cs results /\
    c02_okb false names results (map of_pair ce) cn ci = true.
Proof. exact gen_fast_passes_c02. Qed.
Print Assumptions C02_fast_model_passes_checker.

Theorem C02_custom_model_passes_checker : forall build sizes names mis jds pis cs ce cn ci,
  gen_custom build sizes names mis jds pis = Ok (cs, (ce, cn, ci)) ->
  NamesOk build names cs ->
  exists results, Results build cs results /\
    c02_okb true names results (map of_pair ce) cn ci = true.
Proof. exact gen_custom_passes_c02. Qed.
Print Assumptions C02_custom_model_passes_checker.

(* non-vacuity of the completeness hypotheses: the replay's columns satisfy the Prop-level
   specification by an explicit block decomposition (not through the checker) *)
Example C02_replay_meets_spec :
  Forall IsPairTree [L [I 1; I 0]; L [I 2; I 1]; L [I 1; I 0]]%Z /\
  Spec_C02 true [[7]; [8; 9]] [(0, Bare 1 0); (1, Edges [(2, 1); (1, 0)])]
           (map t_pair [L [I 1; I 0]; L [I 2; I 1]; L [I 1; I 0]]%Z) [7; 8; 9] [0; 1; 1].
Proof.
  split.
  - repeat constructor; [now exists 1, 0|now exists 2, 1|now exists 1, 0].
  - split; [reflexivity|]. split; [reflexivity|].
    exists [[((1, 0), 7, 0)]; [((2, 1), 8, 1); ((1, 0), 9, 1)]].
    split; [reflexivity|]. split.
    + repeat constructor; cbn; intros x y Hx Hy;
        repeat (destruct Hx as [<-|Hx]; [|try contradiction]); repeat (destruct Hy as [<-|Hy]; [|try contradiction]);
        reflexivity.
    + intros a b x y Hab Hx Hy.
      pose proof (in_nth_nil _ _ _ Hx) as Ha. pose proof (in_nth_nil _ _ _ Hy) as Hb. cbn in Ha, Hb.
      destruct a as [|[|a]]; destruct b as [|[|b]]; try lia; cbn in Hx, Hy;
        repeat (destruct Hx as [<-|Hx]; [|try contradiction]); repeat (destruct Hy as [<-|Hy]; [|try contradiction]);
        cbn; discriminate.
Qed.

(* ================================================================== large outputs: the checker over Z *)
(* c02_okb runs on unary naturals and is quadratic in the number of motifs; edge lists with more than 2^16 motifs
   (where a fixed-width id column would wrap) are judged by c02_okz / entry c02_check_ids: integers as Z, one pass
   over the rows, one merge sort of the block ids.  Inputs: one name code per topology, the logged callback results
   (callback index, edges) in call order, the three observed columns.  It is SOUND: whatever it accepts, the verified
   checker c02_okb accepts on the nat image of the columns, so Spec_C02 holds for the block decomposition given by
   the logged calls: parallel columns, every edge entry a pair, block a = exactly the edges of call a with the name
   of its topology and one id, ids of different blocks different (hence the rows sharing an id are one block: C02_ids). *)
Theorem C02_big_checker_implies_checker : forall names results ce_raw cn ci,
  c02_okz names results ce_raw cn ci = true ->
  c02_okb false (names_img names) (map res_img results) ce_raw (map Z.to_nat cn) (map Z.to_nat ci) = true.
Proof. exact c02_okz_implies_okb. Qed.
Print Assumptions C02_big_checker_implies_checker.

Theorem C02_big_checker_sound : forall names results ce_raw cn ci,
  c02_okz names results ce_raw cn ci = true ->
  Forall IsPairTree ce_raw /\
  Spec_C02 false (names_img names) (map res_img results) (map t_pair ce_raw) (map Z.to_nat cn) (map Z.to_nat ci).
Proof. exact c02_okz_sound. Qed.
Print Assumptions C02_big_checker_sound.

(* on the integers themselves: one id per non-empty block, pairwise different and non-negative *)
Theorem C02_big_checker_ids_distinct : forall names results ce_raw cn ci,
  c02_okz names results ce_raw cn ci = true ->
  exists heads, blocks_okz names results (map t_zpair ce_raw) cn ci = Some heads /\ NoDup heads /\
                forall h, In h heads -> (0 <= h)%Z.
Proof. exact c02_okz_ids_distinct. Qed.
Print Assumptions C02_big_checker_ids_distinct.

(* the sort-based distinctness test is sound *)
Theorem C02_nodupz_sound : forall l, nodupz l = true -> NoDup l.
Proof. exact nodupz_NoDup. Qed.
Print Assumptions C02_nodupz_sound.

(* non-vacuity: three 2-cliques and a triangle with ids beyond 2^16 are accepted; the same columns with the id of
   the last block wrapped to the id of the first one (65536 -> 0 in a uint16 column) are rejected, and so are rows of
   one block carrying two ids and a name column of the wrong length *)
Example C02_big_checker_examples :
  let results := [(0, [(5, 140000)]%Z); (0, [(7, 8)]%Z); (1, [(1, 2); (1, 3); (2, 3)]%Z); (0, [(9, 70000)]%Z)] in
  let ce := [L [I 5; I 140000]; L [I 7; I 8]; L [I 1; I 2]; L [I 1; I 3]; L [I 2; I 3]; L [I 9; I 70000]]%Z in
  c02_okz [11; 12]%Z results ce [11; 11; 12; 12; 12; 11]%Z [0; 1; 65535; 65535; 65535; 65536]%Z = true /\
  c02_okz [11; 12]%Z results ce [11; 11; 12; 12; 12; 11]%Z [0; 1; 65535; 65535; 65535; 0]%Z = false /\
  c02_okz [11; 12]%Z results ce [11; 11; 12; 12; 12; 11]%Z [0; 1; 65535; 65534; 65535; 65536]%Z = false /\
  c02_okz [11; 12]%Z results ce [11; 11; 12; 12; 12]%Z [0; 1; 65535; 65535; 65535; 65536]%Z = false.
Proof. vm_compute. repeat split. Qed.
