(* C14 — the degree-distribution algebra is consistent and invertible.
   Property theorems only; each is closed by [exact] of a lemma of Proofs/AlgebraP.v.

   Reading guide.  A distribution is a Python dict = association list [dict] with distinct
   keys (tuples of integers) and rational values; [dgetq m k] is m.get(k, 0).
   [kdec i k] / [kinc i k] = the tuple k with component i decreased / increased by one,
   [kq i k] = k_i as a rational, [mean_spec P i] = sum_k k_i P(k).
   Model functions: [mean], [forward] (get_joint_excess_distributions), [invert_single],
   [invert_all] (get_joint_degree_distribution: it reports the result for EVERY admissible
   common key, which is the schedule of the hash-order dependent choice [common_keys[0]]),
   [roundtrip] = forward, convert_list_qks_to_dict, then the inversion;
   [row_terms]/[dacc] = one topology of get_excess_joint_distributions.
   Topology names are natural-number codes (abstract labels with decidable equality). *)
From Coq Require Import List ZArith QArith Qabs Bool Arith.
From GV Require Import Lib.Tree Lib.QSumM Model.Mixing Model.Algebra Proofs.MixingP Proofs.AlgebraP Proofs.AlgebraNetP.
Import ListNotations.
Local Open Scope Q_scope.

(* mean_i = sum_k k_i P(k) *)
Theorem C14_mean :
  forall (P : dict) (i : nat), valid_jdd P -> (i < first_len P)%nat ->
    exists l, mean P = Ok l /\ length l = first_len P /\ nth i l 0 == mean_spec P i.
Proof. exact mean_correct. Qed.
Print Assumptions C14_mean.

(* forward: the model returns, for every topology index i, exactly the closed form q_i ... *)
Theorem C14_forward_model :
  forall P : dict, valid_jdd P -> mean_defined P ->
    exists qs, forward P = Ok qs /\ length qs = first_len P /\
               forall i, (i < first_len P)%nat -> dict_close 0 (nth i qs []) (spec_forward_i P i).
Proof. exact forward_correct. Qed.
Print Assumptions C14_forward_model.

(* ... whose value at k - e_i is k_i P(k) / <k_i> ... *)
Theorem C14_forward_formula :
  forall (P : dict) (i : nat) (k : key), NoDup (dkeys P) -> In k (dkeys P) -> (0 < knth i k)%Z ->
    dgetq (spec_forward_i P i) (kdec i k) == kq i k * dgetq P k / mean_spec P i.
Proof. exact forward_formula. Qed.
Print Assumptions C14_forward_formula.

(* ... whose keys are exactly the k - e_i with k_i > 0 ... *)
Theorem C14_forward_keys :
  forall (P : dict) (i : nat) (a : key),
    In a (dkeys (spec_forward_i P i)) <-> exists k, In k (dkeys P) /\ (0 < knth i k)%Z /\ a = kdec i k.
Proof. exact forward_keys. Qed.
Print Assumptions C14_forward_keys.

(* ... and which sums to 1 *)
Theorem C14_forward_sums_to_one :
  forall (P : dict) (i : nat), valid_jdd P -> ~ mean_spec P i == 0 -> qsum (dvals (spec_forward_i P i)) == 1.
Proof. exact forward_sums_to_one. Qed.
Print Assumptions C14_forward_sums_to_one.

(* C14_inverse: for P > 0 on its keys with some key positive in every topology, every list of
   distinct names and EVERY choice of the common key, forward-then-invert succeeds and returns a
   dict that agrees exactly with k |-> P(k) / sum_{k' <> 0} P(k') on the non-zero keys of P and
   has no other keys ([spec_inverse], unfolded by the two theorems below) *)
Theorem C14_inverse :
  forall (P : dict) (names : list nat), inv_hyp P -> NoDup names -> length names = first_len P ->
    exists l, roundtrip P names = Ok l /\ l <> [] /\
      forall ck r, In (ck, r) l -> exists d, r = Ok d /\ C14_inverse_spec 0 P d.
Proof. exact model_inverse_satisfies. Qed.
Print Assumptions C14_inverse.

Theorem C14_inverse_values :
  forall (P d : dict) (k : key), inv_hyp P -> dict_close 0 d (spec_inverse P) ->
    In k (dkeys P) -> knonzero k = true -> dgetq d k == dgetq P k / nonzero_mass P.
Proof. exact inverse_values. Qed.
Print Assumptions C14_inverse_values.

Theorem C14_inverse_keys :
  forall (P d : dict) (k : key), dict_close 0 d (spec_inverse P) ->
    (In k (dkeys d) <-> In k (dkeys P) /\ knonzero k = true).
Proof. exact inverse_keys. Qed.
Print Assumptions C14_inverse_keys.

(* the same for excess distributions handed over in any dict whose entries are the forward images
   (not necessarily built by convert_list_qks_to_dict) *)
Theorem C14_inverse_any_dict :
  forall (P : dict), valid_jdd P -> (0 < first_len P)%nat -> Forall (fun kp => 0 < snd kp) P ->
  forall kstar, In kstar (dkeys P) /\ Forall (fun x => (0 < x)%Z) kstar ->
  forall (qks : list (nat * dict)) (names : list nat), NoDup names -> length names = first_len P ->
    (forall i name, nth_error names i = Some name ->
       exists avg, avg == mean_spec P i /\ nget qks name = Some (forward_i P avg i)) ->
  forall ref, nth_error names 0 = Some ref ->
    exists l, invert_all qks names = Ok l /\ l <> [] /\
      forall ck r, In (ck, r) l -> exists d, r = Ok d /\ dict_close 0 d (spec_inverse P).
Proof. exact invert_correct. Qed.
Print Assumptions C14_inverse_any_dict.

(* row sums: q(a) = sum_b M(a ++ b) over the key list, keys = the halves a that have a partner *)
Theorem C14_row_sums :
  forall (M : dict) (keys : list key), NoDup keys ->
    dict_close 0 (dacc [] (row_terms M keys)) (spec_rows M keys).
Proof. exact rows_spec. Qed.
Print Assumptions C14_row_sums.

Theorem C14_row_sums_value :
  forall (M : dict) (keys : list key) (a : key), NoDup keys -> In a keys ->
    dgetq (dacc [] (row_terms M keys)) a == row_total M keys a.
Proof. exact rows_value. Qed.
Print Assumptions C14_row_sums_value.

(* and that sum is the full row sum of the matrix (the quantity of C13_row_sums) as soon as the key
   list contains the second half of every matrix key whose first half is a *)
Theorem C14_row_sums_full :
  forall (T : nat) (M : dict) (keys : list key) (a : key),
    NoDup keys -> NoDup (dkeys M) -> length a = T ->
    (forall k, In k (dkeys M) -> firstn T k = a -> In (skipn T k) keys) ->
    row_total M keys a == rowsum T M a.
Proof. exact row_total_rowsum. Qed.
Print Assumptions C14_row_sums_full.

(* C14_network.  For a clean annotated network (t-degree of every vertex v = c * jd_v[i], c > 0: c = 1
   for 2-cliques, 2 for triangles) with at least one t-stub:
   - the row sum of the C13 matrix of topology (i, t) has the closed form
     (a_i + 1) #{v : jd v = a + e_i} / sum_v jd_v[i]            (double counting of edge ends),
   - and equals the excess distribution of the network's empirical joint degree distribution
     at every excess tuple a = k - e_i of an occurring annotation k with k_i > 0. *)
Theorem C14_network_rowsum_closed_form :
  forall (g : net) (T : nat), valid_net T g ->
  forall (i t : nat), (i < T)%nat -> forall c : Z, clean_for g i t c ->
  forall (cnt : counter) (a : key), length a = T -> col_sum g i <> 0%Z ->
    rowsum T (get_ejk g (count_edge_types cnt (edges g)) i t) a
    == inject_Z (knth i a + 1) * nq (vcount g (kinc i a)) / inject_Z (col_sum g i).
Proof. exact network_rowsum. Qed.
Print Assumptions C14_network_rowsum_closed_form.

Theorem C14_network_partial :
  forall (g : net) (T i t : nat) (c : Z) (cnt : counter) (k : key),
    valid_net T g -> (i < T)%nat -> clean_for g i t c -> col_sum g i <> 0%Z ->
    In k (jds g) -> (0 < knth i k)%Z ->
    rowsum T (get_ejk g (count_edge_types cnt (edges g)) i t) (kdec i k)
    == dgetq (spec_forward_i (jdd_from_network g) i) (kdec i k).
Proof. exact network_identity. Qed.
Print Assumptions C14_network_partial.

(* the full dict-level statement (originally NOT proved; now PROVED as C14_network_full_proved in the
   Growth section at the end of this file.  What was missing: the plumbing that
   excess_from_ejk applied to the extractor's output with the extractor's excess keys returns, for
   every topology, a dict with exactly the keys xkeys_i whose values are the row sums above; the
   value part follows from C14_row_sums_value + C14_row_sums_full + C14_network_partial, the coverage
   hypothesis of C14_row_sums_full holds because under cleanness every end of a t-edge has jd[i] > 0).
   The checker below judges the implementation against exactly this statement. *)
Definition C14_network_full : Prop :=
  forall (g : net) (names cs : list nat),
    valid_net (length names) g -> NoDup names -> jds g <> [] ->
    Forall (fun k => Forall (fun x => (0 <= x)%Z) k) (jds g) ->
    length cs = length names ->
    (forall i name c, nth_error names i = Some name -> nth_error cs i = Some c ->
                      clean_for g i name (Z.of_nat c) /\ col_sum g i <> 0%Z) ->
    exists rows fwd, net_rows g names = Ok rows /\ net_forward g = Ok fwd /\
                     C14_network_spec 0 g names cs rows fwd.

Theorem C14_network_checker_iff :
  forall eps g names cs rows fwd,
    check_networkb eps g names cs rows fwd = true <-> C14_network_spec eps g names cs rows fwd.
Proof. exact check_networkb_iff. Qed.
Print Assumptions C14_network_checker_iff.

(* the verified checkers that judge the implementation's outputs are equivalent to the
   Prop-level specifications, and the model meets them exactly (eps = 0) *)
Theorem C14_forward_checker_iff :
  forall eps P obs, check_forwardb eps P obs = true <-> C14_forward_spec eps P obs.
Proof. exact check_forwardb_iff. Qed.
Print Assumptions C14_forward_checker_iff.

Theorem C14_mean_checker_iff : forall eps P obs, check_meanb eps P obs = true <-> C14_mean_spec eps P obs.
Proof. exact check_meanb_iff. Qed.
Print Assumptions C14_mean_checker_iff.

Theorem C14_inverse_checker_iff :
  forall eps P obs, check_inverseb eps P obs = true <-> C14_inverse_spec eps P obs.
Proof. exact check_inverseb_iff. Qed.
Print Assumptions C14_inverse_checker_iff.

Theorem C14_rows_checker_iff :
  forall eps M keys obs, check_rowsb eps M keys obs = true <-> C14_rows_spec eps M keys obs.
Proof. exact check_rowsb_iff. Qed.
Print Assumptions C14_rows_checker_iff.

(* empirical joint degree distribution of a network: P(k) = #{v annotated k} / N, for every network *)
Theorem C14_jdd_from_network : forall g : net, dict_close 0 (jdd_from_network g) (spec_jdd g).
Proof. exact jdd_from_network_spec. Qed.
Print Assumptions C14_jdd_from_network.

Theorem C14_jdd_checker_iff : forall eps g obs, check_jddb eps g obs = true <-> dict_close eps obs (spec_jdd g).
Proof. exact check_jddb_iff. Qed.
Print Assumptions C14_jdd_checker_iff.

(* splitting matrix keys into halves *)
Theorem C14_split_checker_iff : forall M obs, check_splitb M obs = true <-> C14_split_spec M obs.
Proof. exact check_splitb_iff. Qed.
Print Assumptions C14_split_checker_iff.

Theorem C14_model_satisfies_split_spec :
  forall ejks name M, In (name, M) ejks ->
    exists ks, In (name, ks) (xkeys_from_ejks ejks) /\ C14_split_spec M ks.
Proof. exact model_split_satisfies. Qed.
Print Assumptions C14_model_satisfies_split_spec.

Theorem C14_model_satisfies_forward_spec :
  forall P, valid_jdd P -> mean_defined P -> exists qs, forward P = Ok qs /\ C14_forward_spec 0 P qs.
Proof. exact model_forward_satisfies. Qed.
Print Assumptions C14_model_satisfies_forward_spec.

Theorem C14_model_satisfies_mean_spec : forall P, valid_jdd P -> exists l, mean P = Ok l /\ C14_mean_spec 0 P l.
Proof. exact model_mean_satisfies. Qed.
Print Assumptions C14_model_satisfies_mean_spec.

Theorem C14_model_satisfies_rows_spec :
  forall M keys, NoDup keys -> C14_rows_spec 0 M keys (dacc [] (row_terms M keys)).
Proof. exact model_rows_satisfies. Qed.
Print Assumptions C14_model_satisfies_rows_spec.

(* ---------- non-vacuity ---------- *)
(* three topologies, zero components, unequal supports, the all-zero key present *)
Definition ex_P : dict :=
  [([1; 1; 2], 1 # 4); ([2; 0; 1], 1 # 4); ([0; 3; 0], 1 # 8); ([0; 0; 0], 1 # 8); ([1; 0; 0], 1 # 4)]%Z.

Example C14_nonvacuous_hyp : inv_hyp ex_P /\ mean_defined ex_P /\ NoDup [7; 3; 5]%nat.
Proof.
  split; [apply inv_hypb_spec; reflexivity|]. split; [apply mean_ok_spec; reflexivity|].
  repeat constructor; cbn; intuition discriminate.
Qed.

Example C14_nonvacuous_roundtrip :
  match roundtrip ex_P [7; 3; 5]%nat with
  | Ok [(ck, Ok d)] => ck = [1; 1; 2]%Z /\ check_inverseb 0 ex_P d = true /\
                       map (fun kv => (fst kv, Qred (snd kv))) d =
                       [([1; 1; 2], 2 # 7); ([2; 0; 1], 2 # 7); ([1; 0; 0], 2 # 7); ([0; 3; 0], 1 # 7)]%Z
  | _ => False
  end.
Proof. vm_compute. repeat split; reflexivity. Qed.

(* a clean network: a triangle (topology 1, c = 2) and two single edges (topology 0, c = 1) *)
Definition ex_net14 : net :=
  mk_net [[1; 1]; [1; 1]; [0; 1]; [1; 0]; [1; 0]]%Z
         [(0, 1, 1); (1, 2, 1); (0, 2, 1); (0, 3, 0); (1, 4, 0)]%nat.

Example C14_nonvacuous_network :
  valid_net 2 ex_net14 /\ clean_for ex_net14 1 1 2 /\ clean_for ex_net14 0 0 1 /\
  col_sum ex_net14 1 <> 0%Z /\
  match net_rows ex_net14 [0; 1]%nat, net_forward ex_net14 with
  | Ok rows, Ok fwd => check_networkb 0 ex_net14 [0; 1]%nat [1; 2]%nat rows fwd = true
  | _, _ => False
  end.
Proof.
  split; [apply valid_netb_spec; reflexivity|].
  split; [apply (clean_forb_spec ex_net14 1 1 2); reflexivity|].
  split; [apply (clean_forb_spec ex_net14 0 0 1); reflexivity|].
  split; [discriminate|]. vm_compute. reflexivity.
Qed.

Example C14_nonvacuous_forward :
  match forward ex_P with
  | Ok qs => check_forwardb 0 ex_P qs = true /\ length qs = 3%nat
  | Err _ => False
  end.
Proof. vm_compute. split; reflexivity. Qed.

(* ================================================================== Growth *)
(* C14_network, full dict-level form: for every clean annotated network both routes succeed and return,
   for every topology, exactly the closed-form dict (keys = the excess keys xkeys_i, values
   (a_i+1) #{v : jd v = a+e_i} / sum_v jd_v[i]) *)
Theorem C14_network_full_proved : C14_network_full.
Proof. exact network_full. Qed.
Print Assumptions C14_network_full_proved.

(* its two per-topology halves: row sums of the extractor's matrix over the extractor's excess keys ... *)
Theorem C14_network_rows_dict :
  forall (g : net) (T : nat), valid_net T g ->
  forall (i t : nat), (i < T)%nat -> forall c : Z, clean_for g i t c -> col_sum g i <> 0%Z ->
  forall cnt : counter,
    dict_close 0 (dacc [] (row_terms (get_ejk g (count_edge_types cnt (edges g)) i t) (xkeys_i g i)))
               (spec_network_i g i).
Proof. exact net_row_close. Qed.
Print Assumptions C14_network_rows_dict.

(* ... and the excess distribution of the empirical joint degree distribution *)
Theorem C14_network_forward_dict :
  forall (g : net) (T i : nat), valid_net T g -> (i < T)%nat -> jds g <> [] -> col_sum g i <> 0%Z ->
    dict_close 0 (spec_forward_i (jdd_from_network g) i) (spec_network_i g i).
Proof. exact net_forward_close. Qed.
Print Assumptions C14_network_forward_dict.

(* the coverage facts behind it: under cleanness every excess key has a partner key with a matrix entry,
   and the partner half of every matrix key is an excess key *)
Theorem C14_network_coverage :
  forall (g : net) (T : nat), valid_net T g ->
  forall (i t : nat) (c : Z), clean_for g i t c -> forall cnt : counter,
  let M := get_ejk g (count_edge_types cnt (edges g)) i t in
  (forall a, In a (xkeys_i g i) -> exists b, In b (xkeys_i g i) /\ dmem M (a ++ b) = true) /\
  (forall k a, In k (dkeys M) -> firstn T k = a -> In (skipn T k) (xkeys_i g i)).
Proof. exact network_coverage. Qed.
Print Assumptions C14_network_coverage.

(* consequently the verified checker accepts the model's own output for every clean network *)
Theorem C14_model_passes_network_checker :
  forall (g : net) (names cs : list nat),
    valid_net (length names) g -> NoDup names -> jds g <> [] ->
    Forall (fun k => Forall (fun x => (0 <= x)%Z) k) (jds g) ->
    length cs = length names ->
    (forall i name c, nth_error names i = Some name -> nth_error cs i = Some c ->
                      clean_for g i name (Z.of_nat c) /\ col_sum g i <> 0%Z) ->
    exists rows fwd, net_rows g names = Ok rows /\ net_forward g = Ok fwd /\
                     check_networkb 0 g names cs rows fwd = true.
Proof. exact network_full_passes_checker. Qed.
Print Assumptions C14_model_passes_network_checker.

(* non-vacuity: the triangle + single-edge network meets every hypothesis of C14_network_full *)
Example C14_network_full_nonvacuous :
  let g := ex_net14 in let names := [0; 1]%nat in let cs := [1; 2]%nat in
  valid_net (length names) g /\ NoDup names /\ jds g <> [] /\
  Forall (fun k => Forall (fun x => (0 <= x)%Z) k) (jds g) /\ length cs = length names /\
  (forall i name c, nth_error names i = Some name -> nth_error cs i = Some c ->
                    clean_for g i name (Z.of_nat c) /\ col_sum g i <> 0%Z).
Proof.
  cbv zeta. split; [apply valid_netb_spec; reflexivity|].
  split; [repeat constructor; cbn; intuition discriminate|].
  split; [discriminate|]. split; [repeat constructor; cbn; discriminate|]. split; [reflexivity|].
  intros [|[|i]] name c Hn Hc; cbn in Hn, Hc; try discriminate; inversion Hn; inversion Hc; subst.
  - split; [apply (clean_forb_spec ex_net14 0 0 1); reflexivity|discriminate].
  - split; [apply (clean_forb_spec ex_net14 1 1 2); reflexivity|discriminate].
  - destruct i; discriminate.
Qed.
