(* C14 — placeholder, filled below *)
From GV Require Import Lib.Tree Model.Algebra.
