(* C12 — MCMC rewiring only creates pairings the target allows; the acceptance rule is the
   Metropolis rule of the target.  Property theorems only (lemmas in Proofs/McmcP.v).
   Reading (DESIGN C12): a target matrix is a mixing matrix, i.e. symmetric; the code tests the
   focal-vertex-first orientation of a pairing. *)
From Coq Require Import List ZArith QArith Bool Arith Permutation.
From GV Require Import Lib.Tree Model.DrawSet Proofs.DrawSetP Model.Mcmc Proofs.McmcP.
Import ListNotations.

(* the full statement: allowed pairings only (proved below, general) AND the statistical sentence
   "with a full-support target that differs from the network's mixing, the distance between the
   network's mixing matrices and the target is smaller after rewiring".  The second half is a
   statement about the DISTRIBUTION of runs (it is false for individual oracle streams: a stream
   whose uniforms are all 0 accepts every proposal, whatever it does to the distance), so it has
   no per-run formulation on the executable model; it is kept here as an opaque parameter of the
   full statement and is NOT proved. *)
Definition C12_full (distance_decreases_in_law : Prop) : Prop :=
  (forall fixed nodes tg es0 sl cl evs,
     WF (Z.of_nat (length nodes)) es0 -> NonNeg tg ->
     let C := mk_cfg fixed nodes tg es0 sl cl in
     let '(r, sf, tr) := rewire C es0 evs in chain_allowed nodes tg es0 (map s_es tr) = true)
  /\ distance_decreases_in_law.

(* GENERAL: for every clean network, every target with non-negative entries, all limits, every
   oracle stream and both id rules: between consecutive accepted states every edge that is new
   has a pairing of positive target weight (and nothing else is created: the new edges are exactly
   the proposals).  [chain_allowed] is the verified checker c12_check itself, so this is "the
   model's output satisfies the checker for all valid inputs and all schedules". *)
Theorem C12_allowed_partial :
  forall fixed nodes tg es0 sl cl evs,
    WF (Z.of_nat (length nodes)) es0 -> NonNeg tg ->
    let C := mk_cfg fixed nodes tg es0 sl cl in
    let '(r, sf, tr) := rewire C es0 evs in chain_allowed nodes tg es0 (map s_es tr) = true.
Proof. exact rewire_allowed. Qed.
Print Assumptions C12_allowed_partial.

(* the swap condition itself: whenever it reaches the Metropolis draw, every proposal edge is an
   allowed pairing (numerator non-zero => every factor positive) *)
Theorem C12_swap_condition_allowed :
  forall fixed nodes tg u0 v0 a0 a1 props top bot,
    NonNeg tg -> swap_pre fixed nodes tg u0 v0 a0 a1 = PNeed props top bot ->
    forall p, In p props -> allowed nodes tg p = true.
Proof. exact swap_pre_allowed. Qed.
Print Assumptions C12_swap_condition_allowed.

(* an accepted swap creates the proposals and nothing else *)
Theorem C12_nothing_else_created :
  forall N es u0 v0 m0 m1 fixed prs nodes tg,
    WF N es -> (forall p, In p (swap_props u0 v0 fixed prs) -> allowed nodes tg p = true) ->
    step_allowed nodes tg es (swap_es' es u0 v0 m0 m1 fixed prs) = true.
Proof. exact created_swap. Qed.
Print Assumptions C12_nothing_else_created.

(* the checker is the specification: *)
Theorem C12_checker_iff :
  forall nodes tg es es',
    step_allowed nodes tg es es' = true <->
    forall e, In e es' -> has_edge es (ea e) (eb e) = false -> AllowedP nodes tg e.
Proof. exact step_allowed_iff. Qed.
Print Assumptions C12_checker_iff.

(* non-vacuity: the example run of Props/C11.v has a non-negative target and creates edges *)
Example C12_nonvacuous :
  let nodes := [[1;1];[1;1];[1;1];[1;1]]%Z in
  let es := [mkE 0 1 0 0; mkE 2 3 0 1]%Z in
  let tg := [[([0;1;0;1]%Z, 1#2)]] in
  step_allowed nodes tg es [mkE 0 3 0 0; mkE 1 2 0 1]%Z = true /\
  step_allowed nodes [[([0;1;0;1]%Z, 0#1)]] es [mkE 0 3 0 0; mkE 1 2 0 1]%Z = false.
Proof. vm_compute. split; reflexivity. Qed.
