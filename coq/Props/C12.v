(* C12 — MCMC rewiring only creates pairings the target allows; the acceptance rule is the
   Metropolis rule of the target.  Property theorems only (lemmas in Proofs/McmcP.v).
   Reading (DESIGN C12): a target matrix is a mixing matrix, i.e. symmetric; the code tests the
   focal-vertex-first orientation of a pairing. *)
From Coq Require Import List ZArith QArith Bool Arith Permutation.
From GV Require Import Lib.Tree Model.DrawSet Proofs.DrawSetP Model.Mcmc Proofs.McmcP Proofs.McmcExP.
Import ListNotations.

(* the full statement: allowed pairings only (proved below, general) AND the statistical sentence
   "with a full-support target that differs from the network's mixing, the distance between the
   network's mixing matrices and the target is smaller after rewiring".  The second half is a
   statement about the DISTRIBUTION of runs (it is false for individual oracle streams: a stream
   whose uniforms are all 0 accepts every proposal, whatever it does to the distance), so it has
   no per-run formulation on the executable model; it is kept here as an opaque parameter of the
   full statement and is NOT proved. *)
Definition C12_full (distance_decreases_in_law : Prop) : Prop :=
  (forall fixed nodes tg es0 sl cl evs,
     WF (Z.of_nat (length nodes)) es0 -> NonNeg tg ->
     let C := mk_cfg fixed nodes tg es0 sl cl in
     let '(r, sf, tr) := rewire C es0 evs in chain_allowed nodes tg es0 (map s_es tr) = true)
  /\ distance_decreases_in_law.

(* GENERAL: for every clean network, every target with non-negative entries, all limits, every
   oracle stream and both id rules: between consecutive accepted states every edge that is new
   has a pairing of positive target weight (and nothing else is created: the new edges are exactly
   the proposals).  [chain_allowed] is the verified checker c12_check itself, so this is "the
   model's output satisfies the checker for all valid inputs and all schedules". *)
Theorem C12_allowed_partial :
  forall fixed nodes tg es0 sl cl evs,
    WF (Z.of_nat (length nodes)) es0 -> NonNeg tg ->
    let C := mk_cfg fixed nodes tg es0 sl cl in
    let '(r, sf, tr) := rewire C es0 evs in chain_allowed nodes tg es0 (map s_es tr) = true.
Proof. exact rewire_allowed. Qed.
Print Assumptions C12_allowed_partial.

(* the swap condition itself: whenever it reaches the Metropolis draw, every proposal edge is an
   allowed pairing (numerator non-zero => every factor positive) *)
Theorem C12_swap_condition_allowed :
  forall fixed nodes tg u0 v0 a0 a1 props top bot,
    NonNeg tg -> swap_pre fixed nodes tg u0 v0 a0 a1 = PNeed props top bot ->
    forall p, In p props -> allowed nodes tg p = true.
Proof. exact swap_pre_allowed. Qed.
Print Assumptions C12_swap_condition_allowed.

(* an accepted swap creates the proposals and nothing else *)
Theorem C12_nothing_else_created :
  forall N es u0 v0 m0 m1 fixed prs nodes tg,
    WF N es -> (forall p, In p (swap_props u0 v0 fixed prs) -> allowed nodes tg p = true) ->
    step_allowed nodes tg es (swap_es' es u0 v0 m0 m1 fixed prs) = true.
Proof. exact created_swap. Qed.
Print Assumptions C12_nothing_else_created.

(* GENERAL: the acceptance rule is the Metropolis rule of pi(g) = product over the edges of the target
   weight of the edge's pairing.  For a target symmetric on the network's pairings, whenever
   swap_condition reaches the Metropolis draw: numerator = product over the proposal edges,
   denominator = product over the removed corner edges (this is [ratio_ok], the checker run on the
   implementation's numerator and denominator) ... *)
Theorem C12_ratio :
  forall fixed nodes tg u0 v0 a0 a1 props top bot,
    SymT nodes tg -> length a0 = length a1 ->
    (forall e, In e a0 -> touches u0 e = true) -> (forall e, In e a1 -> touches v0 e = true) ->
    swap_pre fixed nodes tg u0 v0 a0 a1 = PNeed props top bot ->
    top == prodw nodes tg props /\ bot == prodw nodes tg (a0 ++ a1).
Proof. exact swap_pre_ratio. Qed.
Print Assumptions C12_ratio.

Theorem C12_ratio_checker :
  forall fixed nodes tg u0 v0 a0 a1 props top bot,
    SymT nodes tg -> length a0 = length a1 ->
    (forall e, In e a0 -> touches u0 e = true) -> (forall e, In e a1 -> touches v0 e = true) ->
    swap_pre fixed nodes tg u0 v0 a0 a1 = PNeed props top bot ->
    ratio_ok nodes tg (a0 ++ a1) props top bot = true.
Proof. exact swap_pre_ratio_ok. Qed.
Print Assumptions C12_ratio_checker.

(* ... hence top / bot = pi(g') / pi(g) (cross-multiplied, so no support hypothesis is needed) *)
Theorem C12_ratio_pi :
  forall N es u0 v0 m0 m1 a0 a1 fixed prs nodes tg top bot,
    WF N es -> Permutation a0 (corner_edges es u0 m0) -> Permutation a1 (corner_edges es v0 m1) ->
    SuitFacts es u0 v0 m0 m1 a0 a1 ->
    top == prodw nodes tg (swap_props u0 v0 fixed prs) -> bot == prodw nodes tg (a0 ++ a1) ->
    prodw nodes tg (swap_es' es u0 v0 m0 m1 fixed prs) * bot == prodw nodes tg es * top.
Proof. exact swap_ratio_pi. Qed.
Print Assumptions C12_ratio_pi.

(* the checker is the specification: *)
Theorem C12_checker_iff :
  forall nodes tg es es',
    step_allowed nodes tg es es' = true <->
    forall e, In e es' -> has_edge es (ea e) (eb e) = false -> AllowedP nodes tg e.
Proof. exact step_allowed_iff. Qed.
Print Assumptions C12_checker_iff.

(* non-vacuity (Proofs/McmcExP.v: x_nodes / x_edges / x_target / x_events are the network, target and oracle stream of
   the example of Props/C11.v, a real run of /repo; x_target0 is x_target with weight 0 for the pairing
   (1,1)-(0,0) of 2-clique edges).
   1. The hypotheses of C12_allowed_partial (WF, NonNeg) hold for both targets.
   2. ACCEPTED swap: under x_target the first proposal - corners (2,8) and (4,9), created pairings (2,9) and (4,8) -
      reaches the Metropolis draw with numerator = denominator = 49/128; BOTH created pairings have positive target
      weight (7/16 and 7/8); the uniform 0 accepts; the run accepts two swaps (its trace is not empty), the edges
      created are exactly the proposals, every one of them is an allowed pairing, and the conclusion of
      C12_allowed_partial (chain_allowed) holds on a chain that really creates edges.
   3. REJECTED swap: under x_target0 the created pairing (4,8) has weight 0 (not allowed in either orientation) and
      the swap condition refuses the same proposal BEFORE random.random() is called (PFalse); the run goes on,
      accepts only the triangle swap, never creates (4,8), and chain_allowed holds for it.
   4. The checker discriminates: judged against x_target0, the chain of the first run (which did create (4,8)) is
      rejected. *)
Example C12_nonvacuous :
  (WF (Z.of_nat (length x_nodes)) x_edges /\ NonNeg x_target /\ NonNeg x_target0) /\
  (swap_pre false x_nodes x_target 2 4 [mkE 2 8 0 3]%Z [mkE 4 9 0 6]%Z
     = PNeed [mkE 2 9 0 3; mkE 4 8 0 6]%Z (49#128) (49#128) /\
   weight x_nodes x_target (mkE 2 9 0 3)%Z = Some (7#16) /\ weight x_nodes x_target (mkE 4 8 0 6)%Z = Some (7#8) /\
   accepts (49#128) (49#128) (0#1) = true /\
   let '(r, sf, tr) := x_run x_target x_events in
   r = Finished /\
   map (fun s => created x_edges (s_es s)) tr
     = [[mkE 2 9 0 3; mkE 4 8 0 6]; [mkE 2 9 0 3; mkE 4 8 0 6; mkE 0 5 1 0; mkE 1 3 1 1; mkE 0 4 1 0; mkE 2 3 1 1]]%Z /\
   forallb (fun s => forallb (allowed x_nodes x_target) (created x_edges (s_es s))) tr = true /\
   chain_allowed x_nodes x_target x_edges (map s_es tr) = true) /\
  (swap_pre false x_nodes x_target0 2 4 [mkE 2 8 0 3]%Z [mkE 4 9 0 6]%Z = PFalse /\
   weight x_nodes x_target0 (mkE 4 8 0 6)%Z = Some (0#1) /\ allowed x_nodes x_target0 (mkE 4 8 0 6)%Z = false /\
   let '(r, sf, tr) := x_run x_target0 x_events0 in
   map (fun s => created x_edges (s_es s)) tr = [[mkE 0 5 1 0; mkE 1 3 1 1; mkE 0 4 1 0; mkE 2 3 1 1]]%Z /\
   chain_allowed x_nodes x_target0 x_edges (map s_es tr) = true) /\
  (let '(r, sf, tr) := x_run x_target x_events in
   chain_allowed x_nodes x_target0 x_edges (map s_es tr) = false).
Proof.
  split; [exact (conj x_wf (conj x_target_nonneg x_target0_nonneg)) |].
  vm_compute. repeat split; reflexivity.
Qed.

(* the checker alone on a hand-written 4-vertex transition: accepts the two created pairings when their key has
   weight 1/2, rejects them when it has weight 0 *)
Example C12_nonvacuous_checker :
  let nodes := [[1;1];[1;1];[1;1];[1;1]]%Z in
  let es := [mkE 0 1 0 0; mkE 2 3 0 1]%Z in
  let tg := [[([0;1;0;1]%Z, 1#2)]] in
  step_allowed nodes tg es [mkE 0 3 0 0; mkE 1 2 0 1]%Z = true /\
  step_allowed nodes [[([0;1;0;1]%Z, 0#1)]] es [mkE 0 3 0 0; mkE 1 2 0 1]%Z = false.
Proof. vm_compute. split; reflexivity. Qed.

(* non-vacuity of SymT: a symmetric target on a 4-vertex network *)
Example C12_nonvacuous_sym :
  SymT [[1;1];[1;1];[1;1];[1;1]]%Z [[([0;1;0;1]%Z, 1#2)]].
Proof.
  intros t a b ka kb Ha Hb.
  assert (X : forall v k, exk [[1;1];[1;1];[1;1];[1;1]]%Z t v = Some k ->
              k = match t with O => [0;1]%Z | S O => [1;0]%Z | _ => [] end).
  { intros v k H. unfold exk, jd_of in H.
    destruct (Z.to_nat v) as [|[|[|[|n]]]]; cbn [nth] in H;
      try (destruct t as [|[|t]]; cbn in H; [injection H as <-; reflexivity|injection H as <-; reflexivity|destruct t; cbn in H; discriminate]).
    destruct n; destruct t; cbn in H; discriminate. }
  rewrite (X a ka Ha), (X b kb Hb). reflexivity.
Qed.
