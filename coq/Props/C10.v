(* C10 — MPCC labels partition the edges into maximal-first disjoint cliques.
   Property theorems only; each is closed by [exact] of a lemma of Proofs/MpccP.v.

   Vocabulary (Lib/GraphM.v, Model/Mpcc.v, Proofs/MpccP.v):
     graph            vertex list + undirected edge list;  [valid_graph] = distinct vertices, endpoints are
                      vertices, no loop, no edge listed twice (simple loop-free graph)
     adj es u v       {u,v} is an edge of es                       inpair c u v   u, v distinct members of c
     CliqueP g c      c: distinct vertices of g, pairwise adjacent
     Within ms n      ms = 0 \/ n <= ms  (the size limit; MPCC's `len(c) > max_size and max_size > 0` skip)
     mpcc g ms sh     the model of MPCC(G, max_size) under the schedule sh = the clique list as it comes out of
                      shuffle();  [valid_sched g sh]: sh is an arrangement of all cliques of g
     obs              what is observable on the covered graph: node list + one row (edge, label) per edge
     label            (size, members, id)  <->  f"{len(c)}-{c}-{ID}"
     has_row rows u v l   the row of edge {u,v} carries label l
     Spec g ms o      the property C10 (record below)              check g ms o   its executable form *)
From Coq Require Import List Arith Bool Permutation.
From GV Require Import Lib.Tree Lib.GraphM Model.Mpcc Proofs.MpccP.
Import ListNotations.

(* The property, as one Prop:  graph unchanged; every edge exactly one label; per label size = |members|,
   members distinct, size <= limit, rows sharing the label = all pairs of the member list; ids unique;
   greedy-maximality. *)
Print Spec.
Print GoodOrder.

(* ---- the property theorem: for EVERY simple loop-free graph, size limit 0 or >= 2, and EVERY arrangement of
   the clique list that shuffle() can return, the model's labelling satisfies C10. *)
Theorem C10_mpcc_satisfies_spec :
  forall (g : graph) (ms : nat) (sh : list (list nat)),
    valid_graph g = true -> (ms = 0 \/ 2 <= ms) -> valid_sched g sh = true ->
    Spec g ms (mpcc g ms sh).
Proof. exact mpcc_spec. Qed.
Print Assumptions C10_mpcc_satisfies_spec.

(* the same, quantified directly over the permutations of the model's own clique enumeration *)
Theorem C10_mpcc_satisfies_spec_all_shuffles :
  forall (g : graph) (ms : nat) (sh : list (list nat)),
    valid_graph g = true -> (ms = 0 \/ 2 <= ms) -> Permutation sh (all_cliques g) ->
    Spec g ms (mpcc g ms sh).
Proof. exact mpcc_spec_all_shuffles. Qed.
Print Assumptions C10_mpcc_satisfies_spec_all_shuffles.

(* ---- the verified checker: [check] (what c10_check runs on the labels the REAL code wrote) decides Spec *)
Theorem C10_checker_decides_spec :
  forall (g : graph) (ms : nat) (o : obs),
    valid_graph g = true -> (check g ms o = true <-> Spec g ms o).
Proof. exact check_spec. Qed.
Print Assumptions C10_checker_decides_spec.

(* the model's output passes the checker for all valid inputs and all schedules *)
Theorem C10_mpcc_passes_checker :
  forall (g : graph) (ms : nat) (sh : list (list nat)),
    valid_graph g = true -> (ms = 0 \/ 2 <= ms) -> valid_sched g sh = true ->
    check g ms (mpcc g ms sh) = true.
Proof. exact mpcc_check. Qed.
Print Assumptions C10_mpcc_passes_checker.

(* ---- the induction itself: for ANY processing order with the three facts of [GoodOrder] (members are cliques,
   every clique with an edge is present as a set, sorted by length descending) the loop yields a labelling
   satisfying C10 ... *)
Theorem C10_core_any_good_order :
  forall (g : graph) (ms : nat) (order : list (list nat)),
    ValidGraph g -> (ms = 0 \/ 2 <= ms) -> GoodOrder g order ->
    Spec g ms (mpcc_core g ms order).
Proof. exact core_spec. Qed.
Print Assumptions C10_core_any_good_order.

(* ... and those three facts are PROVED for every validated schedule after the model's stable sort, *)
Theorem C10_order_facts :
  forall (g : graph) (sh : list (list nat)),
    ValidGraph g -> valid_sched g sh = true -> GoodOrder g (mpcc_order sh).
Proof. exact valid_sched_good. Qed.
Print Assumptions C10_order_facts.

(* for the model's own enumerator, and for each of its permutations *)
Theorem C10_own_enumeration_is_valid :
  forall g : graph, ValidGraph g -> valid_sched g (all_cliques g) = true.
Proof. exact own_enumeration_valid. Qed.
Print Assumptions C10_own_enumeration_is_valid.

Theorem C10_schedule_validity_is_permutation_invariant :
  forall (g : graph) (sh sh' : list (list nat)), Permutation sh sh' -> valid_sched g sh = valid_sched g sh'.
Proof. exact valid_sched_perm. Qed.
Print Assumptions C10_schedule_validity_is_permutation_invariant.

(* what the validator means: a valid schedule is, clique by clique (as sets), a permutation of the enumeration *)
Theorem C10_valid_schedule_is_arrangement :
  forall (g : graph) (sh : list (list nat)), ValidGraph g -> valid_sched g sh = true ->
    exists sh', Permutation sh' (all_cliques g) /\ Forall2 (fun a b => forall x, In x a <-> In x b) sh sh'.
Proof. exact valid_sched_arrangement. Qed.
Print Assumptions C10_valid_schedule_is_arrangement.

(* the enumerator is sound and complete: its members are cliques, every clique of g has its set in it *)
Theorem C10_enumeration_sound :
  forall (g : graph) (k : list nat), ValidGraph g -> In k (all_cliques g) -> CliqueP g k /\ k <> [].
Proof. exact all_cliques_sound. Qed.
Print Assumptions C10_enumeration_sound.

Theorem C10_enumeration_complete :
  forall (g : graph) (K : list nat), ValidGraph g -> CliqueP g K -> K <> [] ->
    exists k, In k (all_cliques g) /\ NoDup k /\ forall x, In x k <-> In x K.
Proof. exact all_cliques_complete. Qed.
Print Assumptions C10_enumeration_complete.

(* the sort is a permutation and sorts by length, descending *)
Theorem C10_sort_permutes : forall l, Permutation (sort_desc l) l.
Proof. exact sort_desc_perm. Qed.
Print Assumptions C10_sort_permutes.

Theorem C10_sort_sorts : forall l, desc (sort_desc l).
Proof. exact sort_desc_sorted. Qed.
Print Assumptions C10_sort_sorts.

(* ---- the individual claims, on the cover itself *)
(* the caller's graph keeps its vertices and edges (no hypothesis at all) *)
Theorem C10_graph_unchanged :
  forall (g : graph) (ms : nat) (sh : list (list nat)),
    o_nodes (mpcc g ms sh) = g_nodes g /\ map fst (o_rows (mpcc g ms sh)) = g_edges g.
Proof. exact mpcc_graph_unchanged. Qed.
Print Assumptions C10_graph_unchanged.

Theorem C10_accepted_are_cliques_within_limit :
  forall (g : graph) (ms : nat) (sh : list (list nat)),
    valid_graph g = true -> valid_sched g sh = true ->
    forall c, In c (mpcc_cover g ms (mpcc_order sh)) -> CliqueP g c /\ Within ms (length c).
Proof. exact mpcc_cover_cliques. Qed.
Print Assumptions C10_accepted_are_cliques_within_limit.

Theorem C10_accepted_pairwise_edge_disjoint :
  forall (g : graph) (ms : nat) (sh : list (list nat)),
    valid_graph g = true -> valid_sched g sh = true ->
    forall i j a b,
      nth_error (mpcc_cover g ms (mpcc_order sh)) i = Some a ->
      nth_error (mpcc_cover g ms (mpcc_order sh)) j = Some b -> i <> j ->
      forall u v, inpair a u v -> ~ inpair b u v.
Proof. exact mpcc_cover_disjoint. Qed.
Print Assumptions C10_accepted_pairwise_edge_disjoint.

Theorem C10_every_edge_in_exactly_one_accepted_clique :
  forall (g : graph) (ms : nat) (sh : list (list nat)),
    valid_graph g = true -> (ms = 0 \/ 2 <= ms) -> valid_sched g sh = true ->
    forall u v, adj (g_edges g) u v = true ->
      exists i c, nth_error (mpcc_cover g ms (mpcc_order sh)) i = Some c /\ inpair c u v /\
        forall j b, nth_error (mpcc_cover g ms (mpcc_order sh)) j = Some b -> inpair b u v -> j = i /\ b = c.
Proof. exact mpcc_cover_exact. Qed.
Print Assumptions C10_every_edge_in_exactly_one_accepted_clique.

(* greedy-maximality on the cover (DESIGN: C10_greedy): no larger motif is sacrificed for smaller ones *)
Theorem C10_greedy :
  forall (g : graph) (ms : nat) (sh : list (list nat)),
    valid_graph g = true -> valid_sched g sh = true ->
    forall K, CliqueP g K -> 2 <= length K -> Within ms (length K) ->
      exists c' u v, In c' (mpcc_cover g ms (mpcc_order sh)) /\ inpair K u v /\ inpair c' u v /\
                     length K <= length c'.
Proof. exact mpcc_cover_greedy. Qed.
Print Assumptions C10_greedy.

Theorem C10_working_copy_ends_empty :
  forall (g : graph) (ms : nat) (sh : list (list nat)),
    valid_graph g = true -> (ms = 0 \/ 2 <= ms) -> valid_sched g sh = true ->
    forall u v, adj (fst (greedy ms (g_edges g) (mpcc_order sh))) u v = false.
Proof. exact mpcc_working_copy_empty. Qed.
Print Assumptions C10_working_copy_ends_empty.

(* ---- consequences of the specification, hence of ANY labelling the checker accepts (in particular of what
   the real code wrote on every case of every run): the labels PARTITION the edges into cliques of g *)
Theorem C10_spec_every_edge_exactly_one_label :
  forall (g : graph) (ms : nat) (o : obs), Spec g ms o ->
    forall u v, adj (g_edges g) u v = true ->
      exists l, has_row (o_rows o) u v l /\ forall l', has_row (o_rows o) u v l' -> l' = l.
Proof. exact spec_edge_label. Qed.
Print Assumptions C10_spec_every_edge_exactly_one_label.

Theorem C10_spec_labels_are_cliques :
  forall (g : graph) (ms : nat) (o : obs), ValidGraph g -> Spec g ms o ->
    forall e l, In (e, Some l) (o_rows o) -> CliqueP g (lab_mem l).
Proof. exact spec_label_clique. Qed.
Print Assumptions C10_spec_labels_are_cliques.

Theorem C10_spec_labels_edge_disjoint :
  forall (g : graph) (ms : nat) (o : obs), Spec g ms o ->
    forall e1 l1 e2 l2, In (e1, Some l1) (o_rows o) -> In (e2, Some l2) (o_rows o) -> l1 <> l2 ->
      forall u v, inpair (lab_mem l1) u v -> ~ inpair (lab_mem l2) u v.
Proof. exact spec_labels_disjoint. Qed.
Print Assumptions C10_spec_labels_edge_disjoint.

Theorem C10_spec_one_id_per_clique :
  forall (g : graph) (ms : nat) (o : obs), Spec g ms o ->
    forall e1 l1 e2 l2, In (e1, Some l1) (o_rows o) -> In (e2, Some l2) (o_rows o) ->
      (forall x, In x (lab_mem l1) <-> In x (lab_mem l2)) -> l1 = l2.
Proof. exact spec_one_id_per_clique. Qed.
Print Assumptions C10_spec_one_id_per_clique.

(* ---- non-vacuity.  Two K4 sharing the edge {2,3} and a triangle hanging off vertex 5; the schedule is the
   reversed enumeration (33 cliques).  The hypotheses hold; with limit 3 no K4 may be used and the three accepted
   triangles are followed by five 2-cliques; unbounded, the first K4 met wins and the other decays. *)
Definition ex_g : graph := mk_graph [0;1;2;3;4;5;6;7]
   [(0,1);(0,2);(0,3);(1,2);(1,3);(2,3);(2,4);(2,5);(3,4);(3,5);(4,5);(5,6);(5,7);(6,7)].

Example C10_nonvacuous :
  valid_graph ex_g = true /\ length (all_cliques ex_g) = 33 /\
  valid_sched ex_g (rev (all_cliques ex_g)) = true /\
  Permutation (rev (all_cliques ex_g)) (all_cliques ex_g) /\
  mpcc_cover ex_g 3 (mpcc_order (rev (all_cliques ex_g))) =
    [[5;6;7]; [3;4;5]; [1;2;3]; [2;5]; [2;4]; [0;3]; [0;2]; [0;1]; [7]; [6]; [5]; [4]; [3]; [2]; [1]; [0]] /\
  o_rows (mpcc ex_g 3 (rev (all_cliques ex_g))) =
    [(0,1, Some (2,[0;1],7)); (0,2, Some (2,[0;2],6)); (0,3, Some (2,[0;3],5)); (1,2, Some (3,[1;2;3],2));
     (1,3, Some (3,[1;2;3],2)); (2,3, Some (3,[1;2;3],2)); (2,4, Some (2,[2;4],4)); (2,5, Some (2,[2;5],3));
     (3,4, Some (3,[3;4;5],1)); (3,5, Some (3,[3;4;5],1)); (4,5, Some (3,[3;4;5],1)); (5,6, Some (3,[5;6;7],0));
     (5,7, Some (3,[5;6;7],0)); (6,7, Some (3,[5;6;7],0))] /\
  mpcc_cover ex_g 0 (mpcc_order (rev (all_cliques ex_g))) =
    [[2;3;4;5]; [5;6;7]; [0;1;3]; [1;2]; [0;2]; [7]; [6]; [5]; [4]; [3]; [2]; [1]; [0]] /\
  check ex_g 3 (mpcc ex_g 3 (rev (all_cliques ex_g))) = true /\
  check ex_g 0 (mpcc ex_g 0 (rev (all_cliques ex_g))) = true.
Proof.
  split; [vm_compute; reflexivity|]. split; [vm_compute; reflexivity|]. split; [vm_compute; reflexivity|].
  split; [symmetry; apply Permutation_rev|]. repeat split; vm_compute; reflexivity.
Qed.

(* the checker is not trivially true: on a triangle it rejects (a) three 2-clique labels (greedy-maximality),
   (b) a triangle label missing on one edge, (c) an id used for two different cliques of a bow-tie,
   (d) a label above the size limit, (e) a dropped edge *)
Definition tri : graph := mk_graph [0;1;2] [(0,1);(0,2);(1,2)].
Definition bow : graph := mk_graph [0;1;2;3;4] [(0,1);(0,2);(1,2);(2,3);(2,4);(3,4)].
Example C10_checker_rejects :
  check tri 0 (mk_obs [0;1;2] [(0,1, Some (2,[0;1],0)); (0,2, Some (2,[0;2],1)); (1,2, Some (2,[1;2],2))]) = false /\
  check tri 0 (mk_obs [0;1;2] [(0,1, Some (3,[0;1;2],0)); (0,2, Some (3,[0;1;2],0)); (1,2, Some (2,[1;2],1))]) = false /\
  check bow 0 (mk_obs [0;1;2;3;4]
     [(0,1, Some (3,[0;1;2],0)); (0,2, Some (3,[0;1;2],0)); (1,2, Some (3,[0;1;2],0));
      (2,3, Some (3,[2;3;4],0)); (2,4, Some (3,[2;3;4],0)); (3,4, Some (3,[2;3;4],0))]) = false /\
  check tri 2 (mk_obs [0;1;2] [(0,1, Some (3,[0;1;2],0)); (0,2, Some (3,[0;1;2],0)); (1,2, Some (3,[0;1;2],0))]) = false /\
  check tri 0 (mk_obs [0;1;2] [(0,1, Some (2,[0;1],0)); (0,2, Some (2,[0;2],1))]) = false /\
  check tri 0 (mk_obs [0;1;2] [(0,1, Some (3,[0;1;2],0)); (0,2, Some (3,[0;1;2],0)); (1,2, Some (3,[0;1;2],0))]) = true.
Proof. repeat split; vm_compute; reflexivity. Qed.
