(* C10 — placeholder while the proofs are being written *)
From Coq Require Import List Arith Bool.
From GV Require Import Lib.Tree Lib.GraphM Model.Mpcc.
Import ListNotations.
Example C10_smoke : check (mk_graph [0;1;2] [(0,1);(1,2);(0,2)]) 0
   (mpcc (mk_graph [0;1;2] [(0,1);(1,2);(0,2)]) 0 [[0];[1];[2];[0;1];[0;2];[1;2];[0;1;2]]) = true.
Proof. vm_compute. reflexivity. Qed.
