(* C16, thorough tier only (minutes of vm_compute; NOT part of ./build.sh — coq/mk.sh leaves
   Props/*_thorough.v out of _CoqProject, `./check C16 --tier thorough` compiles this file on demand):
   the bounded theorems of Props/C16.v one size further.  Every reflection lemma is closed by
   [vm_compute. reflexivity.] and re-checked by the kernel at Qed. *)
From Coq Require Import List ZArith QArith Bool Arith Lia.
From GV Require Import Lib.Tree Lib.Graph16 Lib.PolyRefl16 Model.QCount Model.CliqueEq
                       Proofs.QCountP Proofs.CliqueEqP Proofs.CliqueGen Proofs.CrossGen.
Import ListNotations.

(* n = 7 (2^21 edge subsets): the recursion against the brute-force count.  QQ(7, .) is not included:
   its 2^21 deletion sets cost 4 more minutes per evaluation, and the Python QQ(7, .) cannot be run
   in the correspondence either. *)
Definition q_brute_ok (n : nat) (k : Z) : bool := (Qv n k =? brute n (Z.to_nat k))%Z.

Lemma q_brute_ok_7 : forallb (q_brute_ok 7) (zrange 0 (tri 7 + 1)) = true.
Proof. vm_compute. reflexivity. Qed.

Theorem C16_Q_count_upto_7 : forall n k, (1 <= n <= 7)%nat -> (0 <= k <= tri (Z.of_nat n))%Z ->
  Qv n k = brute n (Z.to_nat k).
Proof.
  intros n k Hn Hk. destruct (Nat.eq_dec n 7) as [->|Hne].
  - pose proof q_brute_ok_7 as H. rewrite forallb_forall in H.
    specialize (H k ltac:(apply In_zrange; change (Z.of_nat 7) with 7%Z in Hk; lia)).
    apply Z.eqb_eq in H. exact H.
  - destruct (Q_count_upto_6 n k ltac:(lia) Hk) as [H1 H2]. congruence.
Qed.
Print Assumptions C16_Q_count_upto_7.

(* growth: tau = 7 of the clique identity from the count for n <= 7 and the general regrouping theorem
   (the polynomial-normal-form route would need all 2^21 edge subsets of K_7 as polynomials) *)
Theorem C16_clique_identity_upto_7 : forall tau, (2 <= tau <= 7)%nat ->
  forall (phi : Q) (Hs : list Q), length Hs = (tau - 1)%nat ->
    (clique_val tau phi Hs == exact_val (seq 0 tau) (all_edges tau) 0 phi (fun v => nth (v - 1) Hs 0))%Q.
Proof. exact (clique_identity_from_Q_count 7 C16_Q_count_upto_7). Qed.
Print Assumptions C16_clique_identity_upto_7.

Lemma cross_grid_20 : cross_grid 20 = true.
Proof. vm_compute. reflexivity. Qed.

Theorem C16_Q_cross_upto_20 : forall n k, (1 <= n <= 20)%nat -> (0 <= k <= tri (Z.of_nat n))%Z ->
  Qv n k = cross n k.
Proof. exact (cross_grid_lift 20 cross_grid_20). Qed.
Print Assumptions C16_Q_cross_upto_20.

(* growth: with cross = brute (general, Proofs/CrossGen.v) the comparison above is a COUNT, and the regrouping
   theorem turns it into the clique identity for tau <= 20 *)
Theorem C16_Q_count_upto_20 : forall n k, (1 <= n <= 20)%nat -> (0 <= k <= tri (Z.of_nat n))%Z ->
  Qv n k = brute n (Z.to_nat k).
Proof. exact (Q_count_from_cross_grid 20 cross_grid_20). Qed.
Print Assumptions C16_Q_count_upto_20.

Theorem C16_clique_identity_upto_20 : forall tau, (2 <= tau <= 20)%nat ->
  forall (phi : Q) (Hs : list Q), length Hs = (tau - 1)%nat ->
    (clique_val tau phi Hs == exact_val (seq 0 tau) (all_edges tau) 0 phi (fun v => nth (v - 1) Hs 0))%Q.
Proof. exact (clique_identity_from_Q_count 20 C16_Q_count_upto_20). Qed.
Print Assumptions C16_clique_identity_upto_20.

Lemma cycle_ok_upto_14 : forallb cycle_ok (seq 3 12) = true.
Proof. vm_compute. reflexivity. Qed.

Theorem C16_cycle_identity_upto_14 : forall n, (3 <= n <= 14)%nat ->
  forall (u phi : Q), (cycle_val n u phi == exact_val (seq 0 n) (cycle_edges n) 0 phi (fun _ => u))%Q.
Proof. intros n Hn. apply (cycle_identity_lift 12 cycle_ok_upto_14). lia. Qed.
Print Assumptions C16_cycle_identity_upto_14.
