(* placeholder, replaced below *)
From Coq Require Import List ZArith QArith.
From GV Require Import Lib.Tree Lib.QSumS Model.Split.
Import ListNotations.
Example C07_placeholder : valid 2 2 = [[2;0];[0;1]]%nat.
Proof. vm_compute. reflexivity. Qed.
