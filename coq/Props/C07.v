(* C07 — split-degree and delta loaders preserve the overall degree law.
   Property theorems only; each is closed by [exact] of a lemma of Proofs/SplitP.v.

   Model (Model/Split.v): [create_split probs fp lo hi] = JointDegreeSplitDegree.create_jdd,
   [create_delta target M probs fp lo hi] = JointDegreeDelta.create_jdd (M = len(motif_sizes)),
   both returning [Ok table] (insertion-ordered association list joint degree -> Q) or [Err class].
   Notation of the statements:
     T probs      = number of topologies (length probs)
     wsum jd      = sum_i (i+1) * jd_i : the number of edges the joint degree uses
     weight probs jd = prod_i probs_i ^ ((i+1) * jd_i)
     W probs k    = sum of [weight] over all admissible splits of k
     F fp lo hi   = sum_{lo <= k' < hi} fp k'
     mass d k     = total value of the keys of d that use k edges
   All theorems are general: every degree function fp, every probability vector (any number of
   topologies >= 1, not only 1..4), every range, every target; no size bound. *)
From Coq Require Import List ZArith QArith Qabs Bool Arith.
From GV Require Import Lib.Tree Lib.QSumS Model.Split Proofs.SplitP.
Import ListNotations.
Local Open Scope nat_scope.

(* ---------- the recursive generator get_valid_joint_degrees ---------- *)

(* it enumerates exactly the vectors of length T that use k edges ... *)
Theorem C07_valid_spec :
  forall T k jd, T <> 0 -> (In jd (valid T k) <-> length jd = T /\ wsum jd = k).
Proof. exact valid_spec. Qed.
Print Assumptions C07_valid_spec.

(* ... each of them once ... *)
Theorem C07_valid_NoDup : forall T k, NoDup (valid T k).
Proof. exact valid_NoDup. Qed.
Print Assumptions C07_valid_NoDup.

(* ... and keys of different degrees never collide (so no dict entry is ever overwritten) *)
Theorem C07_keys_of_different_degrees_differ :
  forall T k k' jd, k <> k' -> In jd (valid T k) -> ~ In jd (valid T k').
Proof. exact valid_keys_disjoint. Qed.
Print Assumptions C07_keys_of_different_degrees_differ.

(* ---------- split-degree loader ----------
   HypSplit probs fp lo hi  :=  T probs <> 0  /\  (forall k in [lo,hi), W probs k =/= 0)  /\  F =/= 0
   : exactly the inputs on which the code raises nothing (C07_exceptions below). *)

Theorem C07_split_no_exception :
  forall probs fp lo hi, HypSplit probs fp lo hi -> exists d, create_split probs fp lo hi = Ok d.
Proof. exact split_no_exception. Qed.
Print Assumptions C07_split_no_exception.

(* the table has one entry for every admissible joint degree of every k in the range, nothing else *)
Theorem C07_split_keys :
  forall probs fp lo hi d,
    HypSplit probs fp lo hi -> create_split probs fp lo hi = Ok d ->
    NoDup (map fst d) /\
    (forall jd, In jd (map fst d) <-> (length jd = T probs /\ lo <= wsum jd < hi)).
Proof. exact split_keys. Qed.
Print Assumptions C07_split_keys.

(* the total mass of the joint degrees that use k edges is fp k / sum_k' fp k' *)
Theorem C07_mass :
  forall probs fp lo hi d,
    HypSplit probs fp lo hi -> create_split probs fp lo hi = Ok d ->
    forall k, lo <= k < hi -> (mass d k == fp k / F fp lo hi)%Q.
Proof. exact split_mass. Qed.
Print Assumptions C07_mass.

(* within one k the mass is divided in proportion to the weight of the split *)
Theorem C07_within :
  forall probs fp lo hi d,
    HypSplit probs fp lo hi -> create_split probs fp lo hi = Ok d ->
    forall jd v, In (jd, v) d ->
      (v == fp (wsum jd) / F fp lo hi * (weight probs jd / W probs (wsum jd)))%Q.
Proof. exact split_within. Qed.
Print Assumptions C07_within.

(* the literal wording: two splits of the same degree share its mass in proportion to their weights *)
Theorem C07_within_proportional :
  forall probs fp lo hi d,
    HypSplit probs fp lo hi -> create_split probs fp lo hi = Ok d ->
    forall jd1 v1 jd2 v2, In (jd1, v1) d -> In (jd2, v2) d -> wsum jd1 = wsum jd2 ->
      (v1 * weight probs jd2 == v2 * weight probs jd1)%Q.
Proof. exact split_proportional. Qed.
Print Assumptions C07_within_proportional.

Theorem C07_total :
  forall probs fp lo hi d,
    HypSplit probs fp lo hi -> create_split probs fp lo hi = Ok d -> (qsum (map snd d) == 1)%Q.
Proof. exact split_total. Qed.
Print Assumptions C07_total.

(* the hypotheses hold for every vector of probabilities with probs_0 > 0 and every degree
   function that does not sum to zero *)
Theorem C07_hypotheses_of_probabilities :
  forall p0 ps fp lo hi,
    (0 < p0)%Q -> Forall (fun p => 0 <= p)%Q ps -> ~ (F fp lo hi == 0)%Q -> HypSplit (p0 :: ps) fp lo hi.
Proof. exact HypSplit_of_probabilities. Qed.
Print Assumptions C07_hypotheses_of_probabilities.

(* ---------- delta loader ----------
   HypDelta target M probs fp lo hi := (some k <> target in range -> M <> 0) /\
     (target in range -> T probs <> 0 /\ W probs target =/= 0) /\ F =/= 0 *)

Theorem C07_delta_no_exception :
  forall target M probs fp lo hi,
    HypDelta target M probs fp lo hi -> exists d, create_delta target M probs fp lo hi = Ok d.
Proof. exact delta_no_exception. Qed.
Print Assumptions C07_delta_no_exception.

Theorem C07_delta :
  forall target M probs fp lo hi d,
    HypDelta target M probs fp lo hi -> create_delta target M probs fp lo hi = Ok d ->
    NoDup (map fst d) /\
    (forall jd, In jd (map fst d) -> lo <= wsum jd < hi) /\
    (* away from the target the only key that uses k edges is (k,0,...,0); its value is fp k / F *)
    (forall k, lo <= k < hi -> Z.of_nat k <> target ->
       (forall jd, (In jd (map fst d) /\ wsum jd = k) <-> jd = pure_key M k) /\
       (forall v, In (pure_key M k, v) d -> (v == fp k / F fp lo hi)%Q)) /\
    (* at the target: every admissible split, with its share of fp target / F *)
    (forall k, lo <= k < hi -> Z.of_nat k = target ->
       (forall jd, (In jd (map fst d) /\ wsum jd = k) <-> (length jd = T probs /\ wsum jd = k)) /\
       (forall jd v, In (jd, v) d -> wsum jd = k ->
          (v == fp k / F fp lo hi * (weight probs jd / W probs k))%Q)) /\
    (forall k, lo <= k < hi -> (mass d k == fp k / F fp lo hi)%Q) /\
    (qsum (map snd d) == 1)%Q.
Proof. exact delta_spec. Qed.
Print Assumptions C07_delta.

(* target outside the range: no split at all — the table is literally k |-> fp k / F on the
   pure keys, in order, whatever probs is (even no topology) *)
Theorem C07_delta_target_outside :
  forall target M probs fp lo hi,
    (forall k, lo <= k < hi -> Z.of_nat k <> target) -> M <> 0 -> ~ (F fp lo hi == 0)%Q ->
    exists d, create_delta target M probs fp lo hi = Ok d /\
              dict_eq d (map (fun k => (pure_key M k, (fp k / F fp lo hi)%Q)) (seq lo (hi - lo))).
Proof. exact delta_target_outside. Qed.
Print Assumptions C07_delta_target_outside.

(* ---------- Spec, verified checker, model ----------
   [sp k] says whether degree k is split ([sp_split] = always, [sp_delta target] = at the target).
   Spec sp M probs fp lo hi eps d :=
        NoDup (map fst d)
     /\ (forall jd, In jd (map fst d) <-> lo <= wsum jd < hi /\ admissible (wsum jd) jd)
     /\ (forall k, lo <= k < hi -> |mass d k - fp k / F| <= eps)
     /\ (forall (jd,v) in d, |v - fp (wsum jd) / F * share (wsum jd) jd| <= eps)
     /\ |qsum (map snd d) - 1| <= eps
   (admissible k jd := if sp k then length jd = T /\ wsum jd = k else jd = (k,0,..,0);
    share k jd := if sp k then weight jd / W k else 1).  [SpecX] is the exact form (==). *)

Theorem C07_spec_exact_is_tolerance_zero :
  forall sp M probs fp lo hi d, Spec sp M probs fp lo hi 0 d <-> SpecX sp M probs fp lo hi d.
Proof. exact Spec0_SpecX. Qed.
Print Assumptions C07_spec_exact_is_tolerance_zero.

(* the checker run on the implementation's tables decides the Spec, for every tolerance *)
Theorem C07_checker_decides_spec :
  forall sp M probs fp lo hi eps d,
    (forall k, In k (krange lo hi) -> HypK sp M probs k) ->
    (check sp M probs fp lo hi eps d = true <-> Spec sp M probs fp lo hi eps d).
Proof. exact check_iff. Qed.
Print Assumptions C07_checker_decides_spec.

Theorem C07_hypotheses_decided :
  forall sp M probs fp lo hi, hyp_ok sp M probs fp lo hi = true <-> Hyp sp M probs fp lo hi.
Proof. exact hyp_ok_iff. Qed.
Print Assumptions C07_hypotheses_decided.

(* the extracted entry point: answer 1 means hypotheses + Spec on the decoded table *)
Theorem C07_wire_checker_sound :
  forall t, c07_check t = I 1%Z ->
    let mode := t_z (t_nth 0 t) in
    let probs := t_qs (t_nth 1 t) in
    let M := t_nat (t_nth 2 t) in
    let lo := t_nat (t_nth 3 t) in
    let hi := t_nat (t_nth 4 t) in
    let target := t_z (t_nth 5 t) in
    let fp := table_fp lo (t_qs (t_nth 6 t)) in
    let eps := t_q (t_nth 7 t) in
    let d := dec_dict (t_nth 8 t) in
    Hyp (mode_sp mode target) M probs fp lo hi /\
    Spec (mode_sp mode target) M probs fp lo hi eps d.
Proof. exact c07_check_sound. Qed.
Print Assumptions C07_wire_checker_sound.

(* for all valid inputs the model raises nothing and its table satisfies the exact Spec ... *)
Theorem C07_model_satisfies_spec :
  forall sp M probs fp lo hi,
    Hyp sp M probs fp lo hi ->
    exists d, create sp M probs fp lo hi = Ok d /\ SpecX sp M probs fp lo hi d.
Proof. exact create_spec. Qed.
Print Assumptions C07_model_satisfies_spec.

(* ... hence passes the checker at every tolerance >= 0 *)
Theorem C07_model_passes_checker :
  forall sp M probs fp lo hi eps,
    Hyp sp M probs fp lo hi -> (0 <= eps)%Q ->
    exists d, create sp M probs fp lo hi = Ok d /\ check sp M probs fp lo hi eps d = true.
Proof. exact create_check. Qed.
Print Assumptions C07_model_passes_checker.

(* ---------- the exception branch (malformed stream) ---------- *)

(* a table is returned ONLY on the inputs of the hypotheses (or for an empty range: empty table) *)
Theorem C07_exceptions_outside_hypotheses :
  forall sp M probs fp lo hi d,
    create sp M probs fp lo hi = Ok d -> hi <= lo \/ Hyp sp M probs fp lo hi.
Proof. exact create_ok_only_if. Qed.
Print Assumptions C07_exceptions_outside_hypotheses.

(* the first degree outside the hypotheses decides the class: ZeroDivisionError at a degree
   that is split (no topology, or W_k = 0), IndexError at a pure degree (empty motif_sizes) *)
Theorem C07_exception_class :
  forall sp M probs fp lo hi pre k0 post,
    krange lo hi = pre ++ k0 :: post ->
    (forall k, In k pre -> HypK sp M probs k) -> ~ HypK sp M probs k0 ->
    create sp M probs fp lo hi = Err (if sp k0 then E_ZERODIV else E_INDEX).
Proof. exact create_err_first. Qed.
Print Assumptions C07_exception_class.

Theorem C07_split_zero_division :
  forall probs fp lo hi,
    lo < hi ->
    (T probs = 0 \/ (exists k, lo <= k < hi /\ (W probs k == 0)%Q) \/ (F fp lo hi == 0)%Q) ->
    create_split probs fp lo hi = Err E_ZERODIV.
Proof. exact split_zero_division. Qed.
Print Assumptions C07_split_zero_division.

Theorem C07_zero_total_raises :
  forall sp M probs fp lo hi,
    (forall k, In k (krange lo hi) -> HypK sp M probs k) -> lo < hi -> (F fp lo hi == 0)%Q ->
    create sp M probs fp lo hi = Err E_ZERODIV.
Proof. exact create_err_F. Qed.
Print Assumptions C07_zero_total_raises.

(* ---------- non-vacuity ---------- *)
Definition ex_fp : nat -> Q := fun k => (1 # Pos.of_nat (k + 1))%Q.      (* fp k = 1/(k+1) *)
Definition ex_probs : list Q := [(1 # 2)%Q; (1 # 2)%Q].

Definition e (k : list nat) (n : Z) (d : positive) : key * Q := (k, (n # d)%Q).

(* the DESIGN section-3 replay: the hypotheses hold and the table is the expected one
   (30/77 + 20/77 + 15/77 + 12/77 = 1; on the pinned tree only the three k = 4 keys survived) *)
Example C07_nonvacuous_split :
  HypSplit ex_probs ex_fp 1 5 /\
  create_split ex_probs ex_fp 1 5 =
  Ok [e [1; 0] 30 77; e [2; 0] 10 77; e [0; 1] 10 77; e [3; 0] 15 154; e [1; 1] 15 154;
      e [4; 0] 4 77; e [2; 1] 4 77; e [0; 2] 4 77].
Proof. split; [apply HypSplit_iff; [repeat constructor|]|]; vm_compute; reflexivity. Qed.

Example C07_nonvacuous_delta_inside :
  HypDelta 3 2 ex_probs ex_fp 1 5 /\
  create_delta 3 2 ex_probs ex_fp 1 5 =
  Ok [e [1; 0] 30 77; e [2; 0] 20 77; e [3; 0] 15 154; e [1; 1] 15 154; e [4; 0] 12 77].
Proof. split; [apply HypDelta_iff|]; vm_compute; reflexivity. Qed.

Example C07_nonvacuous_delta_outside :
  HypDelta 9 2 ex_probs ex_fp 1 5 /\ HypDelta (-1) 2 [] ex_fp 1 5 /\
  create_delta 9 2 ex_probs ex_fp 1 5 =
  Ok [e [1; 0] 30 77; e [2; 0] 20 77; e [3; 0] 15 77; e [4; 0] 12 77].
Proof. split; [apply HypDelta_iff|split; [apply HypDelta_iff|]]; vm_compute; reflexivity. Qed.

(* three topologies: the 7 ways of spending 6 edges, in the generator's order *)
Example C07_nonvacuous_valid :
  valid 3 6 = [[6; 0; 0]; [4; 1; 0]; [2; 2; 0]; [0; 3; 0]; [3; 0; 1]; [1; 1; 1]; [0; 0; 2]].
Proof. vm_compute. reflexivity. Qed.

(* the exception branch is inhabited too *)
Example C07_nonvacuous_errors :
  create_split [0; (1 # 2)]%Q ex_fp 2 5 = Err E_ZERODIV /\        (* W_3 = 0 *)
  create_split [] ex_fp 1 4 = Err E_ZERODIV /\                     (* k // 0 *)
  create_delta 3 0 ex_probs ex_fp 1 5 = Err E_INDEX /\             (* zeros[0] on [] *)
  create_split ex_probs (fun _ => 0%Q) 1 4 = Err E_ZERODIV.        (* F = 0 *)
Proof. vm_compute. repeat split; reflexivity. Qed.
