(* C09 — EECC returns an edge-disjoint exact clique cover within the size bound.
   Property theorems only; each is closed by [exact] of a lemma of Proofs/EeccP.v / EeccGenP.v / EeccSmallP.v /
   EeccWireP.v / EeccFastP.v.

   Reading: a graph is its edge list [g] (vertices are the endpoints, so there are no isolated
   vertices); [m0] the size bound; a schedule is the list [rs] of tie-break ranks, one per greedy
   round (the r-th tied candidate in lexicographic order, modulo their number; 0 when the list is
   exhausted) — every list is a valid schedule, so "whichever tied candidate is picked" is
   [forall rs].  [eecc_run g m0 rs] is the model of [EECC.get_EECC] (Model/Eecc.v): [o_cover] the
   returned list, [o_graph] the working graph afterwards, [o_status] 0 iff the loop ended normally
   (1 = fuel |E|+1 exhausted, 2 = the ValueError of min() on an empty list). *)
From Coq Require Import List Arith Bool NArith.
From GV Require Import Lib.Tree Lib.GraphE Model.Eecc Proofs.EeccP Proofs.EeccGenP Proofs.EeccFloatP Proofs.EeccSmallP Proofs.EeccWireP Proofs.EeccFastP Proofs.EeccFastSmallP.
Import ListNotations.

(* the property, at full strength (all simple graphs, all m0 >= 2, all schedules) *)
Definition simple_graph (g : graph) : Prop := NoDup g /\ forall e, In e g -> fst e < snd e.

Definition C09_statement (g : graph) (m0 : nat) (rs : list nat) : Prop :=
  let o := eecc_run g m0 rs in
  o_status o = 0 /\ o_graph o = [] /\ ExactCover g m0 (o_cover o) /\ IsolatedIntact g m0 (o_cover o).

Definition C09_full : Prop :=
  forall g m0 rs, simple_graph g -> 2 <= m0 -> C09_statement g m0 rs.

(* GENERAL (no size bound; invariant of the greedy loop, Proofs/EeccGenP.v): for EVERY edge list without
   self-loops (in particular every simple graph), every bound m0 >= 2 and every tie-break schedule, the
   model of get_EECC ends normally (the fuel |E|+1 is not exhausted, min() never sees an empty list),
   the working graph is empty, the cover is an exact cover by cliques of the input within the bound, and
   every maximal clique with at most m0 vertices that shares no edge with another one is a member. *)
Theorem C09_exact_cover_general :
  forall g m0 rs, loopless g -> 2 <= m0 -> C09_statement g m0 rs.
Proof.
  intros g m0 rs Hl Hm. destruct (eecc_exact_cover g m0 rs Hl Hm) as [H1 [H2 H3]].
  split; [exact H1 |]. split; [exact H2 |]. split; [exact H3 | exact (eecc_isolated_intact g m0 rs Hl Hm)].
Qed.
Print Assumptions C09_exact_cover_general.

Theorem C09_full_holds : C09_full.
Proof.
  intros g m0 rs [_ Hlt] Hm. apply C09_exact_cover_general; [| exact Hm].
  intros e He Heq. specialize (Hlt e He). rewrite Heq in Hlt. exact (Nat.lt_irrefl _ Hlt).
Qed.
Print Assumptions C09_full_holds.

(* the loop invariant itself: choosing ANY candidate (not only the one the scores prefer) keeps it *)
Theorem C09_choose_keeps_invariant :
  forall m0 g0 g EC N cli, loopless g0 -> Inv0 m0 g0 g EC -> InvN m0 g N -> In cli (map fst N) ->
    Inv0 m0 g0 (remove_clique g cli) (EC ++ [cli]) /\ length (remove_clique g cli) < length g.
Proof. exact choose_inv. Qed.
Print Assumptions C09_choose_keeps_invariant.

(* GENERAL: the executable checker run on the implementation's covers is exactly the exact-cover
   specification: every member a duplicate-free clique of g with 2 <= size <= m0, and for every
   edge of g exactly one position of the cover contains both its ends. *)
Theorem C09_check_cover_sound :
  forall g m0 c, exact_cover_b g m0 c = true <-> ExactCover g m0 c.
Proof. exact check_cover_sound. Qed.
Print Assumptions C09_check_cover_sound.

(* GENERAL: the second half of the checker is exactly "every maximal clique with at most m0
   vertices that shares no edge with a different maximal clique is a member (as a vertex set)";
   [max_clique] is the Prop-level notion, the brute-force enumeration is proved sound and complete. *)
Theorem C09_check_isolated_sound :
  forall g m0 c, isolated_ok_b g m0 c = true <-> IsolatedIntact g m0 c.
Proof. exact isolated_ok_sound. Qed.
Print Assumptions C09_check_isolated_sound.

(* GENERAL, wire level: the graph every checker entry judges is exactly the simple graph of the edge list handed
   over by the harness (u < v, the pair present in one orientation or the other; loops and repeats dropped). *)
Theorem C09_norm_graph_spec : forall g u v, In (u, v) (norm_graph g) <-> u < v /\ adj g u v.
Proof. exact norm_graph_spec. Qed.
Print Assumptions C09_norm_graph_spec.

(* GENERAL, wire level: the checker-only entry c09_check_cover (run on the implementation's covers of graphs too
   large for the brute-force maximal-clique enumeration: no model, no max_cliques involved) answers 1 in its first
   component exactly when the cover handed over is an ExactCover - the same Prop-level clause as in C09_statement -
   of the simple graph handed over; 1 in its second exactly when the working graph was reported empty; and its
   answers are the first two answers of c09_check (it judges the same clauses, it only omits IsolatedIntact). *)
Theorem C09_check_cover_entry_sound : forall t,
  t_nth 0 (c09_check_cover t) = of_bool true <->
  ExactCover (norm_graph (t_pairs (t_nth 0 t))) (t_nat (t_nth 1 t)) (t_natss (t_nth 2 t)).
Proof. exact check_cover_entry_sound. Qed.
Print Assumptions C09_check_cover_entry_sound.

Theorem C09_check_cover_entry_empty : forall t,
  t_nth 1 (c09_check_cover t) = of_bool true <-> t_bool (t_nth 3 t) = false.
Proof. exact check_cover_entry_empty. Qed.
Print Assumptions C09_check_cover_entry_empty.

Theorem C09_check_cover_entry_agrees : forall t, t_list (c09_check_cover t) = firstn 2 (t_list (c09_check t)).
Proof. exact check_cover_entry_agrees. Qed.
Print Assumptions C09_check_cover_entry_agrees.

(* ---- growth 2: IsolatedIntact decided without enumerating maximal cliques ----
   GENERAL: on a loop-free graph a maximal clique shares no edge with a different maximal clique exactly when no
   vertex outside it has two neighbours in it (equivalently: every common neighbour of two members is a member). *)
Theorem C09_isolated_is_local :
  forall g K, max_clique g K ->
    ((forall K', max_clique g K' -> share_edge K K' -> same_set K' K) <->
     (forall w a b, ~ In w K -> In a K -> In b K -> adj g w a -> adj g w b -> a = b)).
Proof. exact isolated_closed2. Qed.
Print Assumptions C09_isolated_is_local.

(* GENERAL: the polynomial test isolated_ok_fast_b (one candidate per edge: the edge plus the common neighbours of
   its ends; no maximal-clique enumeration) is exactly the Prop-level clause IsolatedIntact of C09_statement, for
   every edge list without self-loops, every bound and every cover ... *)
Theorem C09_check_isolated_fast_sound :
  forall g m0 c, loopless g -> (isolated_ok_fast_b g m0 c = true <-> IsolatedIntact g m0 c).
Proof. exact isolated_ok_fast_sound. Qed.
Print Assumptions C09_check_isolated_fast_sound.

(* ... and therefore the same boolean as the brute-force isolated_ok_b. *)
Theorem C09_check_isolated_fast_eq :
  forall g m0 c, loopless g -> isolated_ok_fast_b g m0 c = isolated_ok_b g m0 c.
Proof. exact isolated_ok_fast_eq. Qed.
Print Assumptions C09_check_isolated_fast_eq.

(* BOUNDED, independent of the general equivalence above (reflection, vm_compute): on all 1024 edge subsets of K5,
   every bound 1..6 and three probe covers per graph - every edge as a 2-clique, all maximal cliques, all maximal
   cliques but the first - the polynomial test and the brute force return the same boolean (13557 probes accepted,
   4875 rejected: C09_fast_probe_counts). *)
Theorem C09_check_isolated_fast_agrees_upto_5 :
  forall g m0 c, subseq g (all_pairs 5) -> 1 <= m0 <= 6 -> In c (probe_covers g) ->
    isolated_ok_fast_b g m0 c = isolated_ok_b g m0 c.
Proof. exact fast_agrees_upto_5. Qed.
Print Assumptions C09_check_isolated_fast_agrees_upto_5.

(* GENERAL, wire level: the entry c09_check_full_fast (run on the implementation's covers of the 25-160 vertex
   graphs, where the brute force cannot enumerate maximal cliques) answers, for EVERY tree, exactly what c09_check
   answers; its three answers are 1 exactly when ExactCover holds / the working graph was reported empty /
   IsolatedIntact holds - the Prop-level clauses of C09_statement - for the simple graph, bound and cover decoded
   from the tree (C09_norm_graph_spec says which graph that is). *)
Theorem C09_check_full_fast_agrees : forall t, c09_check_full_fast t = c09_check t.
Proof. exact check_full_fast_agrees. Qed.
Print Assumptions C09_check_full_fast_agrees.

Theorem C09_check_full_fast_entry_cover : forall t,
  t_nth 0 (c09_check_full_fast t) = of_bool true <->
  ExactCover (norm_graph (t_pairs (t_nth 0 t))) (t_nat (t_nth 1 t)) (t_natss (t_nth 2 t)).
Proof. exact check_full_fast_entry_cover. Qed.
Print Assumptions C09_check_full_fast_entry_cover.

Theorem C09_check_full_fast_entry_empty : forall t,
  t_nth 1 (c09_check_full_fast t) = of_bool true <-> t_bool (t_nth 3 t) = false.
Proof. exact check_full_fast_entry_empty. Qed.
Print Assumptions C09_check_full_fast_entry_empty.

Theorem C09_check_full_fast_entry_isolated : forall t,
  t_nth 2 (c09_check_full_fast t) = of_bool true <->
  IsolatedIntact (norm_graph (t_pairs (t_nth 0 t))) (t_nat (t_nth 1 t)) (t_natss (t_nth 2 t)).
Proof. exact check_full_fast_entry_isolated. Qed.
Print Assumptions C09_check_full_fast_entry_isolated.

Theorem C09_max_cliques_sound :
  forall g K, In K (max_cliques g) -> max_clique g K /\ subseq K (verts g).
Proof. exact max_cliques_sound. Qed.
Print Assumptions C09_max_cliques_sound.

Theorem C09_max_cliques_complete :
  forall g K, max_clique g K -> exists K', In K' (max_cliques g) /\ same_set K' K.
Proof. exact max_cliques_complete. Qed.
Print Assumptions C09_max_cliques_complete.

(* GENERAL: the model's zero test (no shared edge, or at most two vertices) is exactly the code's float
   comparison `r[c] == 0` under the binary64 rounding model (a rounded sum of positive terms is positive). *)
Theorem C09_score_zero_is_float_zero :
  forall C c, score_zero C c = QArith_base.Qeq_bool (score C c) (QArith_base.Qmake BinNums.Z0 BinNums.xH).
Proof. exact score_zero_is_float_zero. Qed.
Print Assumptions C09_score_zero_is_float_zero.

(* GENERAL: whatever the schedule, the run is one of the outcomes enumerated by [eecc_all]
   (which branches over every tied candidate in every round). *)
Theorem C09_every_schedule_enumerated :
  forall g m0 rs, In (out_triple (eecc_run g m0 rs)) (eecc_all g m0).
Proof. exact run_in_all. Qed.
Print Assumptions C09_every_schedule_enumerated.

(* BOUNDED, independent of the invariant proof (reflection: vm_compute over all 1024 edge subsets of K5 x
   m0 in 2..6 x every outcome of eecc_all, lifted by forallb_forall and the theorem above): the model's
   output passes the executable CHECKER (the one run on the implementation) for every graph on at most
   5 labelled vertices, every bound 2..6 and EVERY tie-break sequence. *)
Theorem C09_exact_cover_upto_5 :
  forall g m0 rs, subseq g (all_pairs 5) -> 2 <= m0 <= 6 -> C09_statement g m0 rs.
Proof. exact exact_cover_upto_5. Qed.
Print Assumptions C09_exact_cover_upto_5.

Theorem C09_eecc_terminates_upto_5 :
  forall g m0 rs, subseq g (all_pairs 5) -> 2 <= m0 <= 6 -> o_status (eecc_run g m0 rs) = 0.
Proof. intros g m0 rs Hg Hm. exact (proj1 (exact_cover_upto_5 g m0 rs Hg Hm)). Qed.
Print Assumptions C09_eecc_terminates_upto_5.

(* the domain of the bounded theorem is what it says: the 1024 edge subsets of K5 *)
Theorem C09_domain_upto_5 : forall g, In g (all_graphs 5) <-> subseq g (all_pairs 5).
Proof. intros g. exact (sublists_spec (all_pairs 5) g). Qed.
Print Assumptions C09_domain_upto_5.

(* non-vacuity: two K4 sharing an edge with m0 = 3 is in the domain, is decomposed (no maximal
   clique fits the bound), has genuine ties (7 candidates in the first round, 13 outcomes) and different schedules give different covers *)
Example C09_nonvacuous :
  let g := [(0,1);(0,2);(0,3);(1,2);(1,3);(1,4);(2,3);(2,4);(3,4)] in
  subseq g (all_pairs 5) /\ length (all_graphs 5) = 1024 /\
  max_cliques g = [[0;1;2;3];[1;2;3;4]] /\
  o_cover (eecc_run g 3 [0]) = [[0; 1; 2]; [0; 3]; [1; 3; 4]; [2; 3]; [2; 4]] /\
  o_cover (eecc_run g 3 [3]) = [[1; 2; 3]; [0; 1]; [0; 2]; [0; 3]; [1; 4]; [2; 4]; [3; 4]] /\
  length (eecc_all g 3) = 13 /\ o_status (eecc_run g 3 [3]) = 0.
Proof.
  cbv zeta. split; [vm_compute; repeat constructor |]. vm_compute. repeat split; reflexivity.
Qed.

(* non-vacuity of the checker: it accepts a cover and rejects one listing an edge twice *)
Example C09_checker_discriminates :
  exact_cover_b [(0,1);(0,2);(1,2);(2,3)] 3 [[0;1;2];[2;3]] = true /\
  exact_cover_b [(0,1);(0,2);(1,2);(2,3)] 2 [[0;1];[0;2];[1;2];[2;3];[1;2]] = false /\
  isolated_ok_b [(0,1);(0,2);(1,2);(2,3)] 3 [[0;1];[0;2];[1;2];[2;3]] = false.
Proof. vm_compute. repeat split; reflexivity. Qed.


(* non-vacuity of the checker-only entry on the wire (edges in arbitrary orientation, sparse labels): it accepts an
   exact cover, rejects a cover in which one edge lies in two members, rejects a member above the bound, and reports a
   non-empty working graph *)
Example C09_check_cover_entry_discriminates :
  let es := of_pairs [(21,20);(21,22);(20,22);(22,30);(30,41);(22,41);(20,41);(21,41)] in
  c09_check_cover (L [es; of_nat 4; of_natss [[20;21;22;41];[22;30];[30;41]]; of_bool false]) = L [of_bool true; of_bool true] /\
  c09_check_cover (L [es; of_nat 4; of_natss [[20;21;22;41];[22;30];[30;41];[20;21]]; of_bool false]) = L [of_bool false; of_bool true] /\
  c09_check_cover (L [es; of_nat 3; of_natss [[20;21;22;41];[22;30];[30;41]]; of_bool false]) = L [of_bool false; of_bool true] /\
  c09_check_cover (L [es; of_nat 4; of_natss [[20;21;22;41];[22;30];[30;41]]; of_bool true]) = L [of_bool true; of_bool false].
Proof. vm_compute. repeat split; reflexivity. Qed.

(* non-vacuity of the fast isolated-clique clause (hypothesis: loopless): a loop-free graph with two triangles sharing
   an edge, an isolated triangle, an isolated K4 and a pendant edge; sparse labels, edges in both orientations.  The
   test accepts the cover that keeps the isolated cliques whole, rejects (third clause only) an exact cover that splits the
   isolated triangle, accepts the split K4 when the bound is 3 (the K4 is above the bound), and agrees with the brute force. *)
Example C09_check_full_fast_discriminates :
  let g := [(21,20);(21,22);(20,22);(23,21);(22,23);(30,31);(31,32);(32,30);(40,41);(40,42);(43,40);(41,42);(41,43);(42,43);(50,20)] in
  let es := of_pairs g in
  let good := [[20;21;22];[21;23];[22;23];[30;31;32];[40;41;42;43];[20;50]] in
  let split := [[20;21;22];[21;23];[22;23];[30;31];[31;32];[30;32];[40;41;42;43];[20;50]] in
  let split4 := [[20;21;22];[21;23];[22;23];[30;31;32];[40;41;42];[40;43];[41;43];[42;43];[20;50]] in
  loopless g /\
  c09_check_full_fast (L [es; of_nat 4; of_natss good; of_bool false]) = L [of_bool true; of_bool true; of_bool true] /\
  c09_check_full_fast (L [es; of_nat 4; of_natss split; of_bool false]) = L [of_bool true; of_bool true; of_bool false] /\
  c09_check_full_fast (L [es; of_nat 4; of_natss split4; of_bool false]) = L [of_bool true; of_bool true; of_bool false] /\
  c09_check_full_fast (L [es; of_nat 3; of_natss split4; of_bool false]) = L [of_bool true; of_bool true; of_bool true] /\
  isolated_ok_b (norm_graph g) 4 split = false /\ isolated_ok_b (norm_graph g) 3 split4 = true /\
  isolated_ok_fast_b g 4 split = false /\ isolated_ok_fast_b g 3 split4 = true.
Proof.
  cbv zeta. split.
  - intros e He. cbn [In] in He. repeat (destruct He as [He | He]; [subst e; cbn [fst snd]; discriminate |]). destruct He.
  - vm_compute. repeat split; reflexivity.
Qed.

(* both verdicts occur often among the probes of the bounded comparison *)
Example C09_fast_probe_counts :
  count_verdicts (all_graphs 5) [1; 2; 3; 4; 5; 6] = (13557%N, 4875%N).
Proof. exact graphs5_verdict_counts. Qed.
