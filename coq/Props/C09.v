(* C09 placeholder while the harness is brought up *)
From Coq Require Import List Arith Bool.
From GV Require Import Lib.Tree Lib.GraphE Model.Eecc Proofs.EeccP.
Import ListNotations.
Example C09_smoke : exact_cover_b [(0,1);(0,2);(1,2)] 3 [[0;1;2]] = true.
Proof. vm_compute. reflexivity. Qed.
Print Assumptions C09_smoke.
