(* C01 — generated graphs realise exactly the requested joint degree sequence.
   Property theorems only; each is closed by [exact] of a lemma of Proofs/GenP.v.

   Reading guide (definitions in Model/Gen.v and Proofs/GenP.v):
     gen_fast / gen_custom / gen_main : the generators (network variant = fast + C04's conversion);
       [build] is ANY family of build callbacks, [pis] the answers of random.shuffle;
     Valid sizes mis jds   : rectangular jds, positive sizes, motif_indices a partition of the columns,
                             handshake (every column sum divisible by its size; equal partition counts
                             over the orbits of one motif);  decided by [validb];
     PisOk jds pis         : every answer is a permutation of the positions of its stub list;
     Spec_C01 / Spec_calls : the property on the observable run (callback calls, joint_degrees, vertex
                             ids in edges); decided by [c01_okb] = what c01_check runs on /repo's output;
     the fast generator is the configuration singleton_mis T = [[0];[1];...;[T-1]]. *)
From Coq Require Import List ZArith Bool Arith Permutation.
From GV Require Import Lib.Tree Model.Gen Proofs.GenP.
Import ListNotations.

(* every vertex v contributes exactly jds[v][k] stubs of topology k, vertices >= N none *)
Theorem C01_stub_lists : forall jds k v, count v (stubs jds k) = jd jds v k.
Proof. exact count_stubs. Qed.
Print Assumptions C01_stub_lists.

(* fast / network generator, for every callback family and every shuffle outcome:
   jds carried unchanged, no vertex outside 0..N-1 in any edge, sum/size instances per topology,
   each on size_k stubs, every vertex in exactly jds[v][k] slots of topology k *)
Theorem C01_fast_realises_jds : forall build sizes nms jds pis cs ce cn ci,
  Valid sizes (singleton_mis (ncols jds)) jds -> PisOk jds pis -> BuildClosed build ->
  gen_fast build sizes nms jds pis = Ok (cs, (ce, cn, ci)) ->
  Spec_C01 sizes (singleton_mis (ncols jds)) jds (map flat_call cs) jds (endpoints ce).
Proof. exact gen_fast_C01. Qed.
Print Assumptions C01_fast_realises_jds.

(* custom-motif generator (multi-orbit motifs, pop() from the end of every orbit's partition list) *)
Theorem C01_custom_realises_jds : forall build sizes names mis jds pis cs ce cn ci,
  Valid sizes mis jds -> PisOk jds pis -> BuildClosed build ->
  NamesOk build names (fst (plan_custom sizes mis jds pis)) ->
  gen_custom build sizes names mis jds pis = Ok (cs, (ce, cn, ci)) ->
  Spec_C01 sizes mis jds (map flat_call cs) jds (endpoints ce).
Proof. exact gen_custom_C01. Qed.
Print Assumptions C01_custom_realises_jds.

(* the calls are fixed before any callback runs: under the hypotheses the generator's own
   indexing raises nothing and the planned calls satisfy the count / group / slot clauses *)
Theorem C01_fast_calls : forall sizes jds pis,
  Valid sizes (singleton_mis (ncols jds)) jds -> PisOk jds pis ->
  snd (plan_fast sizes jds pis) = None /\
  Spec_calls sizes (singleton_mis (ncols jds)) jds (map flat_call (fst (plan_fast sizes jds pis))).
Proof. exact plan_fast_C01. Qed.
Print Assumptions C01_fast_calls.

Theorem C01_custom_calls : forall sizes mis jds pis,
  Valid sizes mis jds -> PisOk jds pis ->
  snd (plan_custom sizes mis jds pis) = None /\
  Spec_calls sizes mis jds (map flat_call (fst (plan_custom sizes mis jds pis))).
Proof. exact plan_custom_C01. Qed.
Print Assumptions C01_custom_calls.

(* one callback call per group and nothing else emitted: the edge column is the concatenation
   of the callbacks' results, in call order (holds for ALL inputs) *)
Theorem C01_fast_edges_are_callback_results : forall build sizes names jds pis cs ce cn ci,
  gen_fast build sizes (map (hd 0) names) jds pis = Ok (cs, (ce, cn, ci)) ->
  exists results, Results build cs results /\
    ce = concat (map (fun r => edges_of (snd r)) results) /\
    Spec_C02 false names results ce cn ci.
Proof. exact gen_fast_C02. Qed.
Print Assumptions C01_fast_edges_are_callback_results.

(* the emitted edges of every motif instance only connect stubs of its own group (second half of
   c01_check; with the slot theorem this is why no vertex outside 0..N-1 can appear) *)
Theorem C01_edges_stay_inside_their_group : forall build cs results,
  Results build cs results -> BuildClosed build -> Closed (map flat_call cs) results.
Proof. exact results_closed. Qed.
Print Assumptions C01_edges_stay_inside_their_group.

Theorem C01_closed_checker_iff : forall calls results,
  closed_okb calls results = true <-> Closed calls results.
Proof. exact closed_okb_iff. Qed.
Print Assumptions C01_closed_checker_iff.

(* under the hypotheses a run can only fail inside a callback or on a missing name *)
Theorem C01_fast_total : forall build sizes nms jds pis,
  Valid sizes (singleton_mis (ncols jds)) jds -> PisOk jds pis ->
  (forall c, In c (fst (plan_fast sizes jds pis)) ->
     (exists es, build (fst c) (concat (snd c)) = Ok (Edges es)) /\ fst c < length nms) ->
  exists out, gen_fast build sizes nms jds pis = Ok out.
Proof. exact gen_fast_total. Qed.
Print Assumptions C01_fast_total.

Theorem C01_custom_total : forall build sizes names mis jds pis,
  Valid sizes mis jds -> PisOk jds pis ->
  (forall c, In c (fst (plan_custom sizes mis jds pis)) ->
     (exists sh, build (fst c) (concat (snd c)) = Ok sh) /\ fst c < length names) ->
  exists out, gen_custom build sizes names mis jds pis = Ok out.
Proof. exact gen_custom_total. Qed.
Print Assumptions C01_custom_total.

(* factory / load_gcm_algorithm = direct construction, for the three types *)
Theorem C01_dispatch : forall build sizes names mis jds pis,
  gen_main 0 build sizes names mis jds pis = gen_fast build sizes (map (hd 0) names) jds pis /\
  gen_main 1 build sizes names mis jds pis = gen_fast build sizes (map (hd 0) names) jds pis /\
  gen_main 2 build sizes names mis jds pis = gen_custom build sizes names mis jds pis /\
  (forall tag, 2 < tag -> gen_main tag build sizes names mis jds pis = Err E_TYPE).
Proof. exact gen_main_dispatch. Qed.
Print Assumptions C01_dispatch.

(* clique_motif, cycle_motif, diamond_motif (and the synthetic callbacks of the correspondence)
   only connect vertices they were handed *)
Theorem C01_builtin_callbacks_closed : forall codes, BuildClosed (build_of_codes codes).
Proof. exact build_of_codes_closed. Qed.
Print Assumptions C01_builtin_callbacks_closed.

(* the verified checker decides the specification, and the hypotheses are decidable *)
Theorem C01_checker_iff_spec : forall sizes mis jds calls jds_out verts,
  c01_okb sizes mis jds calls jds_out verts = true <-> Spec_C01 sizes mis jds calls jds_out verts.
Proof. exact c01_okb_spec. Qed.
Print Assumptions C01_checker_iff_spec.

Theorem C01_validb_iff_Valid : forall sizes mis jds, validb sizes mis jds = true <-> Valid sizes mis jds.
Proof. exact validb_Valid. Qed.
Print Assumptions C01_validb_iff_Valid.

(* the model's output satisfies the checker for all valid inputs and all schedules *)
Theorem C01_fast_model_passes_checker : forall build sizes nms jds pis cs ce cn ci,
  Valid sizes (singleton_mis (ncols jds)) jds -> PisOk jds pis -> BuildClosed build ->
  gen_fast build sizes nms jds pis = Ok (cs, (ce, cn, ci)) ->
  c01_okb sizes (singleton_mis (ncols jds)) jds (map flat_call cs) jds (endpoints ce) = true.
Proof. exact gen_fast_passes_c01. Qed.
Print Assumptions C01_fast_model_passes_checker.

Theorem C01_custom_model_passes_checker : forall build sizes names mis jds pis cs ce cn ci,
  Valid sizes mis jds -> PisOk jds pis -> BuildClosed build ->
  NamesOk build names (fst (plan_custom sizes mis jds pis)) ->
  gen_custom build sizes names mis jds pis = Ok (cs, (ce, cn, ci)) ->
  c01_okb sizes mis jds (map flat_call cs) jds (endpoints ce) = true.
Proof. exact gen_custom_passes_c01. Qed.
Print Assumptions C01_custom_model_passes_checker.

(* ---------------------------------------------------------------- non-vacuity *)
(* the custom-motif fixture of gcmpy's own test-suite (2-clique, 3-clique, diamond on two orbits,
   chorded pentagon on three orbits) meets the hypotheses; identity shuffles are a schedule;
   the model then runs to completion with 7+1+3+1 = 12 motif instances and 33 edge rows *)
Definition fixture_jds : list (list nat) :=
  [[2;1;0;1;1;0;0]; [1;1;0;1;1;0;0]; [3;1;1;0;0;1;0]; [2;0;1;0;0;1;0]; [0;0;0;1;0;0;1]; [1;0;0;1;0;0;0];
   [1;0;1;0;0;0;0]; [1;0;1;0;0;0;0]; [1;0;0;1;0;0;0]; [1;0;0;1;0;0;0]; [1;0;1;0;0;0;0]; [0;0;1;0;0;0;0]].
Definition fixture_sizes : list nat := [2;3;2;2;2;2;1].
Definition fixture_mis : list (list nat) := [[0]; [1]; [2;3]; [4;5;6]].

Example C01_fixture_valid : Valid fixture_sizes fixture_mis fixture_jds.
Proof. apply validb_Valid. vm_compute. reflexivity. Qed.

Example C01_identity_schedule : forall jds, PisOk jds (map (fun s => seq 0 (length s)) (all_stubs jds)).
Proof. exact PisOk_identity. Qed.

Example C01_fixture_runs :
  let pis := map (fun s => seq 0 (length s)) (all_stubs fixture_jds) in
  match gen_custom (build_of_codes [3;0;2;1]) fixture_sizes
                   [[20]; [30;31;32]; [40;41;42;43;44;45]; [50;51;52;53;54]] fixture_mis fixture_jds pis with
  | Ok (cs, (ce, cn, ci)) => length cs = 12 /\ length ce = 33 /\ length cn = 33 /\ length ci = 33
  | Err _ => False
  end.
Proof. vm_compute. repeat split. Qed.

(* a fast-generator instance with a repeated vertex inside one group and a zero-degree vertex *)
Example C01_fast_valid : Valid [2;3] (singleton_mis 2) [[2;1];[0;0];[1;1];[1;1]].
Proof. apply validb_Valid. vm_compute. reflexivity. Qed.

(* ================================================================== Growth: the network variant *)
(* audit-1 finding F2: Gen.v and Conv.v composed.  gen_network (Model/GenNet.v) = Conv.to_network applied
   to the edge list of the fast generator, exactly as GCMAlgorithmNetwork.random_clustered_graph is
   EdgeListToNetwork.convert(GCMAlgorithmFast(params).random_clustered_graph(jds)).
   Proofs in Proofs/GenNetP.v; the C01 / C02 statements are transported through C04's
   to_network_spec / final_attr_once / simple_edges_rows. *)
From GV Require Import Model.Conv Model.GenNet Proofs.ConvP Proofs.ConvGenP Proofs.GenNetP.

Theorem C01_network_is_composition : forall build sizes names mis jds pis cs ce cn ci,
  gen_main 1 build sizes names mis jds pis = Ok (cs, (ce, cn, ci)) ->
  gen_network build sizes (map (hd 0) names) jds pis = Ok (cs, to_network (mk_elist jds ce cn ci)).
Proof. exact gen_network_of_main. Qed.
Print Assumptions C01_network_is_composition.

(* the network variant fails exactly when (and as) the fast generator fails *)
Theorem C01_network_errors : forall build sizes nms jds pis e,
  gen_network build sizes nms jds pis = Err e <-> gen_fast build sizes nms jds pis = Err e.
Proof. exact gen_network_err. Qed.
Print Assumptions C01_network_errors.

(* Under the C01 hypotheses, for every callback family and every shuffle outcome of a run that returns
   the network g: g is the conversion of the fast generator's list (ce, cn, ci), whose calls satisfy
   Spec_C01 and whose columns satisfy Spec_C02 w.r.t. the callback results; and
     - g has exactly the vertices 0..N-1, each once, vertex v annotated with jds[v];
     - the edge set of g is the set of callback edges (unordered pairs, each once);
     - a pair produced once carries that row's name and id;
     - when the produced rows have no repeated unordered pair: g has one edge per row, in row order,
       every row's pair carrying the row's name and id, and every edge of motif instance number d
       (callback / topology j) carries (name of topology j, motif id d). *)
Theorem C01_network_variant : forall build sizes names jds pis cs g,
  Valid sizes (singleton_mis (ncols jds)) jds -> PisOk jds pis -> BuildClosed build ->
  gen_network build sizes (map (hd 0) names) jds pis = Ok (cs, g) ->
  exists ce cn ci results,
    gen_fast build sizes (map (hd 0) names) jds pis = Ok (cs, (ce, cn, ci)) /\
    g = to_network (mk_elist jds ce cn ci) /\
    Spec_C01 sizes (singleton_mis (ncols jds)) jds (map flat_call cs) jds (Gen.endpoints ce) /\
    Results build cs results /\
    ce = concat (map (fun r => edges_of (snd r)) results) /\
    Spec_C02 false names results ce cn ci /\
    NoDup (map fst (n_nodes g)) /\
    (forall v, In v (map fst (n_nodes g)) <-> v < length jds) /\
    (forall v a, In (v, a) (n_nodes g) -> a = Some (nth v jds [])) /\
    NoDup (map fst (n_edges g)) /\
    (forall e, In e (map fst (n_edges g)) <->
       (norm e = e /\ exists d r e0, nth_error results d = Some r /\ In e0 (edges_of (snd r)) /\ norm e0 = e)) /\
    (forall e a r, In (e, a) (n_edges g) -> occurrences (mk_elist jds ce cn ci) e = [r] -> a = Some r) /\
    (NoDup (map norm ce) ->
       n_edges g = map (fun r => (norm (fst r), Some (snd r))) (rows (mk_elist jds ce cn ci)) /\
       length (n_edges g) = length ce /\
       (forall x, In x (zip3 ce cn ci) -> In (norm (r_edge x), Some (r_name x, r_id x)) (n_edges g)) /\
       (forall d j sh e, nth_error results d = Some (j, sh) -> In e (edges_of sh) ->
          In (norm e, Some (hd 0 (nth j names []), d)) (n_edges g))).
Proof. exact gen_network_C01. Qed.
Print Assumptions C01_network_variant.

(* ... and NetworkToEdgeList on the generated network always succeeds (repeated pairs or not), returns
   jds and one row per generated unordered pair (C04's general round trip); without repeated pairs it
   returns the generated list itself, each pair in normalised orientation *)
Theorem C01_network_converts_back : forall build sizes names jds pis cs g,
  Valid sizes (singleton_mis (ncols jds)) jds -> PisOk jds pis -> BuildClosed build ->
  gen_network build sizes (map (hd 0) names) jds pis = Ok (cs, g) ->
  exists ce cn ci el',
    gen_fast build sizes (map (hd 0) names) jds pis = Ok (cs, (ce, cn, ci)) /\
    to_edgelist g = Some el' /\ Spec_back (mk_elist jds ce cn ci) el' /\
    (NoDup (map norm ce) -> el' = mk_elist jds (map norm ce) cn ci).
Proof. exact gen_network_back. Qed.
Print Assumptions C01_network_converts_back.

Theorem C01_network_total : forall build sizes nms jds pis,
  Valid sizes (singleton_mis (ncols jds)) jds -> PisOk jds pis ->
  (forall c, In c (fst (plan_fast sizes jds pis)) ->
     (exists es, build (fst c) (concat (snd c)) = Ok (Edges es)) /\ fst c < length nms) ->
  exists out, gen_network build sizes nms jds pis = Ok out.
Proof. exact gen_network_total. Qed.
Print Assumptions C01_network_total.

(* the extracted entry point the harness compares the real networkx graph with is gen_network on
   the decoded input (definitional; stated so that the wire format is visible here) *)
Theorem C01_net_run_is_gen_network : forall t,
  c01_net_run t =
  match gen_network (build_of_codes (t_nats (t_nth 3 t))) (t_nats (t_nth 2 t))
                    (map (hd 0) (t_natss (t_nth 4 t))) (t_natss (t_nth 1 t)) (t_natss (t_nth 6 t)) with
  | Err e => t_err e
  | Ok (cs, g) => L [L (map (fun c => enc_call (flat_call c)) cs); enc_net g]
  end.
Proof. exact c01_net_run_unfold. Qed.
Print Assumptions C01_net_run_is_gen_network.

(* non-vacuity: a 2-clique topology and a 3-cycle topology, vertex 4 of joint degree zero, non-identity
   shuffles; the callbacks return (1,0), (3,0), (0,2), (3,2): no unordered pair twice, three of them
   stored in the other orientation; every edge carries (topology name, motif id) *)
Example C01_network_nonvacuous :
  let jds := [[1;1];[1;0];[0;1];[0;1];[0;0]] in
  let pis := [[1;0];[2;0;1]] in
  Valid [2;3] (singleton_mis (ncols jds)) jds /\ PisOk jds pis /\
  gen_fast (build_of_codes [0;1]) [2;3] (map (hd 0) [[7];[8]]) jds pis =
    Ok ([(0, [[1;0]]); (1, [[3;0;2]])], ([(1,0);(3,0);(0,2);(3,2)], [7;8;8;8], [0;1;1;1])) /\
  NoDup (map norm [(1,0);(3,0);(0,2);(3,2)]) /\
  gen_network (build_of_codes [0;1]) [2;3] (map (hd 0) [[7];[8]]) jds pis =
    Ok ([(0, [[1;0]]); (1, [[3;0;2]])],
        mk_net [(4, Some [0;0]); (1, Some [1;0]); (0, Some [1;1]); (3, Some [0;1]); (2, Some [0;1])]
               [((0,1), Some (7,0)); ((0,3), Some (8,1)); ((0,2), Some (8,1)); ((2,3), Some (8,1))]).
Proof.
  intros jds pis. split; [apply validb_Valid; vm_compute; reflexivity|]. split.
  { intros k Hk. change (ncols jds) with 2 in Hk. destruct k as [|[|k]]; [| |exfalso; inversion Hk as [|? H1]; inversion H1 as [|? H2]; inversion H2].
    - vm_compute. apply perm_swap.
    - vm_compute. apply perm_trans with [0;2;1]; [apply perm_swap|apply perm_skip, perm_swap]. }
  split; [vm_compute; reflexivity|]. split; [|vm_compute; reflexivity].
  apply nodupb_edge_NoDup. vm_compute. reflexivity.
Qed.

(* with a repeated pair the conversion keeps ONE edge and the back conversion still succeeds with jds *)
Example C01_network_repeated_pair :
  let jds := [[2];[2]] in
  match gen_network (build_of_codes [0]) [2] [7] jds [[0;2;1;3]] with
  | Ok (cs, g) => length cs = 2 /\ n_edges g = [((0,1), Some (7,1))] /\
                  to_edgelist g = Some (mk_elist jds [(0,1)] [7] [1])
  | Err _ => False
  end.
Proof. vm_compute. repeat split; reflexivity. Qed.

(* ================================================================== round 6: the callbacks' RESULTS *)
(* "each [motif instance] obtained by applying that topology's build callback to size_k drawn stubs": the harness
   logs (argument list, result) of every callback call of the real generators; c01_check_results = results_okb with
   build_of_codes decides that every logged result is the builder's specification applied to the logged arguments
   (clique_motif / cycle_motif / diamond_motif and the synthetic callbacks), i.e. the relation Results the
   generator theorems above are stated with.  A builder with memory (a cached list extended by a caller) fails it. *)
From GV Require Import Model.GenBig Proofs.GenBigP.

Theorem C01_results_checker_iff : forall build calls results,
  results_okb build calls results = true <->
  Forall2 (fun c r => fst r = fst c /\ build (fst c) (snd c) = Ok (snd r)) calls results.
Proof. exact results_okb_iff. Qed.
Print Assumptions C01_results_checker_iff.

Theorem C01_results_relation_on_flat_calls : forall build cs results,
  Results build cs results <->
  Forall2 (fun c r => fst r = fst c /\ build (fst c) (snd c) = Ok (snd r)) (map flat_call cs) results.
Proof. exact results_flat_iff. Qed.
Print Assumptions C01_results_relation_on_flat_calls.

(* the three library builders in closed form: k(k-1)/2 pairs, k cycle edges, six diamond edges on four vertices *)
Theorem C01_clique_builder_spec : forall l,
  clique_motif l = Ok (Edges (combos2 l)) /\ 2 * length (combos2 l) = length l * (length l - 1).
Proof. intros l. split; [reflexivity|apply combos2_length2]. Qed.
Print Assumptions C01_clique_builder_spec.

Theorem C01_cycle_builder_spec : forall l es, cycle_motif l = Ok (Edges es) -> length es = length l.
Proof. exact cycle_motif_length. Qed.
Print Assumptions C01_cycle_builder_spec.

Theorem C01_diamond_builder_spec : forall l es, diamond_motif l = Ok (Edges es) -> length l = 4 /\ length es = 6.
Proof. exact diamond_motif_shape. Qed.
Print Assumptions C01_diamond_builder_spec.

(* non-vacuity: the 4-cycle on (2,0,1,3) is accepted; the six edges a cycle builder returns after a diamond call
   extended its cached list in place are rejected *)
Example C01_results_checker_discriminates :
  results_okb (build_of_codes [2; 1]) [(0, [2;0;1;3]); (1, [2;0;1;3])]
              [(0, Edges [(2,0);(0,1);(1,3);(2,3);(2,1);(0,3)]); (1, Edges [(2,0);(0,1);(1,3);(2,3)])] = true /\
  results_okb (build_of_codes [2; 1]) [(0, [2;0;1;3]); (1, [2;0;1;3])]
              [(0, Edges [(2,0);(0,1);(1,3);(2,3);(2,1);(0,3)]);
               (1, Edges [(2,0);(0,1);(1,3);(2,3);(2,1);(0,3)])] = false.
Proof. split; vm_compute; reflexivity. Qed.
