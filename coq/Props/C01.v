(* placeholder while the harness is being brought up; replaced by the real theorems *)
From GV Require Import Lib.Tree Model.Gen.
Example C01_placeholder : sum (cons 1 (cons 2 nil)) = 3.
Proof. reflexivity. Qed.
