(* C18 — bond percolation keeps each edge independently with probability phi.
   Property theorems only; proofs in Proofs/PercP.v.
   The model: edge i of G.edges() is removed iff its own draw rs_i = random.random() > phi;
   the result is (largest component of what is kept) / N. *)
From Coq Require Import List ZArith QArith Bool Arith Permutation.
From GV Require Import Lib.Tree Model.Perc Proofs.PercP Proofs.PercMonoP.
Import ListNotations.
Local Open Scope nat_scope.

(* the component function really computes connected components (paths in the kept graph) *)
Theorem C18_components_spec :
  forall nodes es v w, wf nodes es -> In v nodes -> (In w (comp nodes es v) <-> conn es v w).
Proof. exact comp_spec. Qed.
Print Assumptions C18_components_spec.

Theorem C18_largest_spec :
  forall nodes es, wf nodes es -> nodes <> [] ->
    (exists v, In v nodes /\ largest nodes es = length (comp nodes es v)) /\
    (forall v, In v nodes -> length (comp nodes es v) <= largest nodes es).
Proof. exact largest_spec. Qed.
Print Assumptions C18_largest_spec.

(* always a multiple k/N of 1/N with 1 <= k <= N, for every graph, phi and every draw sequence *)
Theorem C18_multiple_of_1_over_N :
  forall nodes es phi rs, wf nodes es -> nodes <> [] ->
    1 <= fst (percolate nodes es phi rs) <= snd (percolate nodes es phi rs) /\
    snd (percolate nodes es phi rs) = length nodes.
Proof. intros nodes es phi rs Hwf Hne. split; [exact (percolate_range nodes es phi rs Hwf Hne)|reflexivity]. Qed.
Print Assumptions C18_multiple_of_1_over_N.

(* each edge is retained exactly when ITS OWN draw is <= phi, whatever the other draws are:
   under independent uniform draws on [0,1) (trusted) that is probability phi, independently *)
Theorem C18_edge_kept_iff_own_draw :
  forall es phi rs i e r, nth_error es i = Some e -> nth_error rs i = Some r -> NoDup es ->
    (In e (keep es phi rs) <-> (r <= phi)%Q).
Proof. exact kept_iff_draw. Qed.
Print Assumptions C18_edge_kept_iff_own_draw.

(* phi = 1: the exact largest-component fraction of the input, for all draws in [0,1] *)
Theorem C18_phi_one :
  forall nodes es rs, length es <= length rs -> Forall (fun r => (r <= 1)%Q) rs ->
    percolate nodes es 1%Q rs = (largest nodes es, length nodes).
Proof. exact percolate_phi1. Qed.
Print Assumptions C18_phi_one.

(* phi = 0: exactly 1/N, for all strictly positive draws (random() == 0.0 has probability 2^-53
   per edge: the side condition named in DESIGN.md) *)
Theorem C18_phi_zero :
  forall nodes es rs, nodes <> [] -> Forall (fun r => (0 < r)%Q) rs ->
    percolate nodes es 0%Q rs = (1, length nodes).
Proof. exact percolate_phi0. Qed.
Print Assumptions C18_phi_zero.

(* star with M leaves: N*S - 1 = number of draws <= phi, for EVERY draw sequence; hence
   (N*S-1)/M is Binomial(M, phi)/M under independent uniform draws *)
Theorem C18_star :
  forall c leaves phi rs, NoDup (c :: leaves) -> length rs = length leaves ->
    fst (percolate (c :: leaves) (star c leaves) phi rs) =
    1 + length (filter (fun r => Qle_bool r phi) rs).
Proof. exact star_binomial_count. Qed.
Print Assumptions C18_star.

(* direction of the comparison, for EVERY graph, every phi <= phi' and every draw sequence (monotone
   coupling): with the same draws the edges kept at phi are among those kept at phi', the numerator of
   the returned fraction cannot decrease and the denominator is the same.  Keeping edges with
   probability 1 - phi (an inverted comparison) violates this. *)
Theorem C18_monotone_coupling :
  forall nodes es phi phi' rs, wf nodes es -> (phi <= phi')%Q ->
    incl (keep es phi rs) (keep es phi' rs) /\
    fst (percolate nodes es phi rs) <= fst (percolate nodes es phi' rs) /\
    snd (percolate nodes es phi rs) = snd (percolate nodes es phi' rs).
Proof. exact percolate_mono. Qed.
Print Assumptions C18_monotone_coupling.

(* the graph-level fact behind it: adding edges never shrinks a component or the largest one *)
Theorem C18_more_edges_larger_components :
  forall nodes es es', wf nodes es' -> incl es es' ->
    largest nodes es <= largest nodes es' /\
    (forall v, In v nodes -> incl (comp nodes es v) (comp nodes es' v)).
Proof. exact largest_mono_edges. Qed.
Print Assumptions C18_more_edges_larger_components.

(* the value depends only on the undirected kept-edge SET and the vertex SET: order, orientation and
   multiplicity of the edges and the order of G.nodes() are irrelevant (so only the pairing of draws
   with edges, C18_edge_kept_iff_own_draw, uses the G.edges() order) *)
Theorem C18_value_depends_on_sets_only :
  (forall nodes es es', wf nodes es -> wf nodes es' ->
     (forall u x, adj es u x <-> adj es' u x) -> largest nodes es = largest nodes es') /\
  (forall nodes nodes' es, Permutation nodes nodes' -> largest nodes es = largest nodes' es).
Proof. split; [exact largest_adj_ext|exact largest_nodes_perm]. Qed.
Print Assumptions C18_value_depends_on_sets_only.

(* the components are the classes of an equivalence relation on the vertices: two components are
   equal as sets or disjoint (so "largest connected component" is well defined) *)
Theorem C18_components_are_classes :
  forall nodes es v w, wf nodes es -> In v nodes -> In w nodes ->
    (In w (comp nodes es v) -> forall x, In x (comp nodes es v) <-> In x (comp nodes es w)) /\
    (~ In w (comp nodes es v) -> forall x, In x (comp nodes es v) -> ~ In x (comp nodes es w)).
Proof. exact comp_classes. Qed.
Print Assumptions C18_components_are_classes.

(* non-vacuity *)
Example C18_nonvacuous :
  let nodes := [0;1;2;3;4;5] in
  let es := [(0,1);(1,2);(3,4)] in
  wf nodes es /\ nodes <> [] /\
  percolate nodes es (1#2)%Q [(1#4)%Q; (3#4)%Q; (1#2)%Q] = (2, 6) /\
  percolate nodes es 1%Q [(1#4)%Q; (3#4)%Q; (1#2)%Q] = (3, 6) /\
  percolate (0 :: [1;2;3]) (star 0 [1;2;3]) (1#2)%Q [(1#4)%Q; (3#4)%Q; (1#2)%Q] = (3, 4).
Proof.
  cbv zeta. split; [|split; [discriminate|vm_compute; repeat split; reflexivity]].
  intros e He. cbn in He. destruct He as [<-|[<-|[<-|[]]]]; cbn; intuition.
Qed.

(* non-vacuity of the coupling: on a concrete graph and draw sequence the kept set and the value
   grow STRICTLY between phi = 1/4 and phi = 3/4 *)
Example C18_monotone_nonvacuous :
  let nodes := [0;1;2;3;4;5] in
  let es := [(0,1);(1,2);(3,4)] in
  let rs := [(1#4)%Q; (3#4)%Q; (1#2)%Q] in
  keep es (1#4)%Q rs = [(0,1)] /\ keep es (3#4)%Q rs = es /\
  fst (percolate nodes es (1#4)%Q rs) = 2 /\ fst (percolate nodes es (3#4)%Q rs) = 3.
Proof. vm_compute. repeat split; reflexivity. Qed.
