From GV Require Import Model.AutoEq.
