(* C15 — the automated motif equation equals the exact bond-percolation expectation.
   Property theorems only; each is closed by [exact] of a lemma of Proofs/AutoEqP.v / AutoEqR.v (reflection) /
   AutoEqW.v AutoEqC.v AutoEqG.v AutoEqE.v (the general identity, growth phase).

   Objects (Model/AutoEq.v):
     auto_q g r phi u        the model of AutomatedEquation.automated_equation on a fresh evaluator, in Q
     expectation g r phi u   THE SPEC: sum over all edge subsets S of
                             phi^|S| (1-phi)^(|E|-|S|) prod_{v in comp_S(r), v <> r} u v
     auto_step / run_history the evaluator object with its two structure-only caches
     c15_checkb              the verified checker the harness runs on the implementation's polynomial. *)
From Coq Require Import List ZArith QArith Bool Arith Ring_polynom Permutation.
From GV Require Import Lib.Tree Lib.PolyRefl15 Lib.Graph15 Model.AutoEq Proofs.AutoEqP Proofs.AutoEqR
                       Proofs.AutoEqW Proofs.AutoEqC Proofs.AutoEqG Proofs.AutoEqE.
Import ListNotations.
Local Open Scope nat_scope.

(* The full statement (all motif sizes, arbitrary vertex labels).  PROVED: C15_identity_general /
   C15_full_holds below (general regrouping proof, Proofs/AutoEqW.v AutoEqC.v AutoEqG.v).  The bounded
   reflection result C15_identity_upto_5 is kept as an independent check. *)
Definition C15_full : Prop :=
  forall (g : graph) (r : nat), wf_graph g = true -> In r (g_nodes g) ->
  forall (phi : Q) (u : nat -> Q), (auto_q g r phi u == expectation g r phi u)%Q.

(* BOUNDED (reflection): every labelled graph on the vertex set {0..k-1}, k <= 5 (all 1100 of them,
   connected or not), every root, ALL rational phi and heterogeneous u: an identity of polynomials. *)
Theorem C15_identity_upto_5 :
  forall k es r, k <= 5 -> In es (sublists (all_pairs k)) -> r < k ->
  forall (phi : Q) (u : nat -> Q),
    (auto_q (seq 0 k, es) r phi u == expectation (seq 0 k, es) r phi u)%Q.
Proof. exact identity_upto_5. Qed.
Print Assumptions C15_identity_upto_5.

(* the graphs covered are well-formed inputs and there are many: non-vacuity of the bound *)
Example C15_identity_nonvacuous :
  length (graphs_upto 5) = 1100 /\
  forallb wf_graph (graphs_upto 5) = true /\
  In [(0,1);(0,2);(1,2);(1,3);(2,3)] (sublists (all_pairs 4)) /\
  length (pe_monos (auto_expr ([0;1;2;3], [(0,1);(0,2);(1,2);(1,3);(2,3)]) 1)) = 32.
Proof. vm_compute. repeat split. tauto. Qed.

(* GENERAL (every motif size, arbitrary vertex labels): THE REGROUPING IDENTITY.  For every well-formed
   motif g (distinct nodes, simple edges between listed nodes; connected or not), every root r of g, all
   rational phi and heterogeneous per-vertex values u, the value of the automated equation
     sum over the enumerated connected vertex sets C containing r of
       (1-phi)^(#interface edges of C) * prod_{v in C, v <> r} u v *
       sum over the edge sets T of the reduced graph of C whose removal keeps it connected of
         phi^(|E(C)|-|T|) (1-phi)^|T|
   equals the exact bond-percolation expectation
     sum over ALL edge subsets S of phi^|S| (1-phi)^(|E|-|S|) prod_{v in comp_S(r), v <> r} u v. *)
Theorem C15_identity_general :
  forall (g : graph) (r : nat), wf_graph g = true -> In r (g_nodes g) ->
  forall (phi : Q) (u : nat -> Q), (auto_q g r phi u == expectation g r phi u)%Q.
Proof. exact identity_general. Qed.
Print Assumptions C15_identity_general.

Theorem C15_full_holds : C15_full.
Proof. exact identity_general. Qed.
Print Assumptions C15_full_holds.

(* ... and for WHATEVER order the candidate sets are iterated in by the backtracking enumeration
   (Python set iteration order): [auto_q_ord ord] is the automated equation under the schedule [ord]
   (any function returning a permutation of its argument), [auto_q] is the instance [ord] = identity. *)
Theorem C15_identity_general_any_order :
  forall (ord : list nat -> list nat) (g : graph) (r : nat),
    (forall l, Permutation (ord l) l) -> wf_graph g = true -> In r (g_nodes g) ->
    forall (phi : Q) (u : nat -> Q), (auto_q_ord ord g r phi u == expectation g r phi u)%Q.
Proof. exact identity_general_any_order. Qed.
Print Assumptions C15_identity_general_any_order.

(* non-vacuity: a motif beyond the reflection bound (6 vertices with non-contiguous labels in shuffled
   order, 7 edges, two cycles sharing the root's neighbour 3), root 7: the hypotheses hold, there are 22
   connected vertex sets, the common value is a non-trivial rational; the reversed iteration order visits
   the sets in another order and gives the same value *)
Example C15_identity_general_nonvacuous :
  let g := ([10;3;7;22;5;41], [(10,3);(3,7);(7,10);(7,22);(22,5);(5,41);(3,41)]) in
  let u := fun v : nat => (Z.of_nat v + 1 # Pos.of_nat (v + 3))%Q in
  wf_graph g = true /\ In 7 (g_nodes g) /\ (forall l : list nat, Permutation (rev l) l)
  /\ length (enum g 7) = 22
  /\ Qred (auto_q g 7 (1#3) u) = (2641687 # 3474900)%Q
  /\ Qred (expectation g 7 (1#3) u) = (2641687 # 3474900)%Q
  /\ Qred (auto_q_ord (@rev nat) g 7 (1#3) u) = (2641687 # 3474900)%Q
  /\ nth 1 (enum g 7) [] = [7; 3] /\ nth 1 (enum_ord (@rev nat) g 7) [] = [7; 22].
Proof.
  cbv zeta. split; [reflexivity|]. split; [cbn; tauto|].
  split; [intros l; apply Permutation_sym, Permutation_rev|].
  vm_compute. repeat split; reflexivity.
Qed.

(* GENERAL (any graph size, any schedule): whatever order [ord] the candidate sets are iterated in (any
   function returning a permutation of its argument), the backtracking enumeration returns only vertex
   lists grown from the root ([grown]: start with the root, repeatedly add a vertex adjacent to the list =
   connected vertex sets containing the root) and it returns every such vertex set that lies inside the
   node list exactly once ([cnt T out] counts the results equal to T as sets). *)
Theorem C15_enum_general :
  forall (ord : list nat -> list nat) (nodes : list nat) (es : list edge) (root : nat),
    (forall l, Permutation (ord l) l) ->
    NoDup (nbrs es root) -> memb root (nbrs es root) = false ->
    (forall c, In c (enum_ord ord (nodes, es) root) -> grown es root c) /\
    (forall T, grown es root T -> (forall v, memb v T = true -> In v nodes) ->
               cnt T (enum_ord ord (nodes, es) root) = 1).
Proof. intros ord nodes es root. exact (enum_general ord es nodes root). Qed.
Print Assumptions C15_enum_general.

(* the same for every well-formed input graph (distinct nodes, simple edges between listed nodes) *)
Theorem C15_enum_general_wf :
  forall (ord : list nat -> list nat) (g : graph) (root : nat),
    (forall l, Permutation (ord l) l) -> wf_graph g = true ->
    (forall c, In c (enum_ord ord g root) -> grown (g_edges g) root c) /\
    (forall T, grown (g_edges g) root T -> (forall v, memb v T = true -> In v (g_nodes g)) ->
               cnt T (enum_ord ord g root) = 1).
Proof. exact enum_general_wf. Qed.
Print Assumptions C15_enum_general_wf.

(* non-vacuity: the diamond, root 1, reversed iteration order; [1;0;2;3] is grown and is found once *)
Example C15_enum_general_nonvacuous :
  let es := [(0,1);(0,2);(1,2);(1,3);(2,3)] in
  (forall l : list nat, Permutation (rev l) l) /\ wf_graph ([0;1;2;3], es) = true
  /\ NoDup (nbrs es 1) /\ memb 1 (nbrs es 1) = false
  /\ grown es 1 [1; 0; 2; 3]
  /\ cnt [3; 2; 1; 0] (enum_ord (@rev nat) ([0;1;2;3], es) 1) = 1
  /\ length (enum_ord (@rev nat) ([0;1;2;3], es) 1) = 8.
Proof.
  cbv zeta. split; [intros l; apply Permutation_sym, Permutation_rev|]. split; [reflexivity|].
  split; [vm_compute; repeat constructor; cbn; intuition discriminate|].
  split; [reflexivity|]. split; [|split; vm_compute; reflexivity].
  change [1; 0; 2; 3] with (addv 3 (addv 2 (addv 0 [1]))).
  repeat (apply g_add; [| reflexivity |]).
  - apply g_root.
  - exists 1. split; reflexivity.
  - exists 0. split; reflexivity.
  - exists 2. split; reflexivity.
Qed.

(* BOUNDED (reflection): the backtracking enumeration returns every connected vertex set that
   contains the root exactly once, and nothing else (every graph on <= 5 vertices, every root);
   also under the reversed iteration order of every candidate set (a second schedule). *)
Theorem C15_enum_ok_upto_5 :
  forall k es r, k <= 5 -> In es (sublists (all_pairs k)) -> r < k ->
  enum_ok (seq 0 k, es) r (enum (seq 0 k, es) r).
Proof. exact enum_ok_upto_5. Qed.
Print Assumptions C15_enum_ok_upto_5.

Theorem C15_enum_rev_ok_upto_5 :
  forall k es r, k <= 5 -> In es (sublists (all_pairs k)) -> r < k ->
  enum_ok (seq 0 k, es) r (enum_ord (@rev nat) (seq 0 k, es) r).
Proof. exact enum_rev_ok_upto_5. Qed.
Print Assumptions C15_enum_rev_ok_upto_5.

(* GENERAL (all sizes, all schedules): the property the enumeration checker decides (every vertex subset
   s of the node list, in canonical order, is reported exactly once if it contains the root and is connected
   in the networkx sense [conn_set], and not at all otherwise; every reported list is duplicate-free and
   inside the node list) holds for the backtracking enumeration of every well-formed graph.  This also
   identifies the inductive notion [grown] of C15_enum_general with boolean connectivity. *)
Theorem C15_enum_ok_general :
  forall (ord : list nat -> list nat) (g : graph) (r : nat),
    (forall l, Permutation (ord l) l) -> wf_graph g = true -> In r (g_nodes g) ->
    enum_ok g r (enum_ord ord g r).
Proof. exact enum_ok_general. Qed.
Print Assumptions C15_enum_ok_general.

Example C15_enum_ok_general_nonvacuous :
  let g := ([10;3;7;22;5;41], [(10,3);(3,7);(7,10);(7,22);(22,5);(5,41);(3,41)]) in
  wf_graph g = true /\ enum_okb g 7 (enum_ord (@rev nat) g 7) = true
  /\ enum_okb g 7 (tl (enum_ord (@rev nat) g 7)) = false
  /\ conn_set g [10;3;41] = true /\ conn_set g [10;41] = false.
Proof. vm_compute. repeat split; reflexivity. Qed.

(* GENERAL: on ONE evaluator, for every history of calls (any motifs of any size, roots, phi, u, in
   any interleaving) in which equal names denote equal motifs, every returned value (or raised
   error = None) is the one a fresh evaluator returns. *)
Theorem C15_history :
  forall calls : list (call (T:=Q)),
    distinctly_named calls ->
    run_history alg_q caches_empty calls
    = map (fun c => fst (auto_step alg_q caches_empty (c_name c) (c_graph c) (c_root c) (c_phi c) (c_u c)))
          calls.
Proof. exact (history_independent alg_q). Qed.
Print Assumptions C15_history.

(* ... and the value of a fresh evaluator is auto_q (or an error when the root is not a vertex) *)
Theorem C15_fresh_value :
  forall name g r phi u,
    fst (auto_step alg_q caches_empty name g r phi u)
    = if memb r (g_nodes g) then Some (auto_q g r phi u) else None.
Proof. exact (fresh_is_fresh alg_q). Qed.
Print Assumptions C15_fresh_value.

(* the invariant behind it: from ANY state whose cache entries equal the fresh computation for the
   motif their key names, a call returns the fresh value and re-establishes the invariant *)
Theorem C15_cache_invariant :
  forall naming st name r (phi : Q) u,
    cache_inv naming st ->
    fst (auto_step alg_q st name (naming name) r phi u) = fresh_value alg_q (naming name) r phi u /\
    cache_inv naming (snd (auto_step alg_q st name (naming name) r phi u)).
Proof. exact (auto_step_inv alg_q). Qed.
Print Assumptions C15_cache_invariant.

(* non-vacuity: a history with two motifs on the same vertex labels, repeated names, a cache hit
   for another root and an erroneous call; the caches are really filled and reused *)
Example C15_history_nonvacuous :
  let tri := ([0;1;2], [(0,1);(1,2);(0,2)]) in
  let path := ([0;1;2], [(0,1);(1,2)]) in
  let u := fun v : nat => (Z.of_nat v + 2 # 7)%Q in
  let calls := [mk_call (0,0) tri 0 (1#3)%Q u; mk_call (0,1) path 0 (1#2)%Q u; mk_call (0,0) tri 1 (2#3)%Q u;
                mk_call (0,1) path 5 (1#2)%Q u; mk_call (0,0) tri 0 (1#5)%Q u] in
  distinctly_named calls /\
  map (fun o => match o with Some _ => true | None => false end) (run_history alg_q caches_empty calls)
  = [true; true; true; false; true] /\
  length (cc_sub (snd (auto_step alg_q caches_empty (0,0) tri 0 (1#3)%Q u))) = 1 /\
  length (cc_edge (snd (auto_step alg_q caches_empty (0,0) tri 0 (1#3)%Q u))) = 3.
Proof.
  cbv zeta. split; [|vm_compute; repeat split].
  intros c1 c2 H1 H2 Hn. cbn [In] in H1, H2.
  repeat match goal with H : _ \/ _ |- _ => destruct H as [H|H] end;
    try contradiction; subst; try reflexivity; discriminate Hn.
Qed.

(* GENERAL, END TO END: on ONE evaluator object, for every history of calls on well-formed motifs (any
   sizes, roots, phi, u, any interleaving) in which equal names denote equal motifs, EVERY call returns the
   exact expectation of its own arguments (up to ==), or raises when its root is not a vertex of its motif:
   C15_history + C15_fresh_value + C15_identity_general. *)
Theorem C15_history_exact :
  forall calls : list (call (T:=Q)),
    distinctly_named calls -> (forall c, In c calls -> wf_graph (c_graph c) = true) ->
    Forall2 (fun (o : option Q) (c : call (T:=Q)) =>
               if memb (c_root c) (g_nodes (c_graph c))
               then exists v, o = Some v /\ (v == expectation (c_graph c) (c_root c) (c_phi c) (c_u c))%Q
               else o = None)
            (run_history alg_q caches_empty calls) calls.
Proof. exact history_exact. Qed.
Print Assumptions C15_history_exact.

(* non-vacuity: the history of C15_history_nonvacuous consists of well-formed motifs *)
Example C15_history_exact_nonvacuous :
  let tri := ([0;1;2], [(0,1);(1,2);(0,2)]) in
  let path := ([0;1;2], [(0,1);(1,2)]) in
  wf_graph tri = true /\ wf_graph path = true /\ memb 5 (g_nodes path) = false.
Proof. vm_compute. repeat split; reflexivity. Qed.

(* GENERAL: the expectation of a product of values in [0,1] lies in [0,1] (used by C17) *)
Theorem C15_exact_in_unit :
  forall g r (phi : Q) (u : nat -> Q),
    (0 <= phi <= 1)%Q -> (forall v, (0 <= u v <= 1)%Q) -> (0 <= expectation g r phi u <= 1)%Q.
Proof. exact exact_in_unit. Qed.
Print Assumptions C15_exact_in_unit.

Example C15_unit_nonvacuous :
  (expectation ([0;1;2], [(0,1);(1,2);(0,2)])%nat 0%nat (1#2) (fun v => 1 # Pos.of_nat (v + 1)) == 7 # 16)%Q.
Proof. vm_compute. reflexivity. Qed.

(* GENERAL: the explicit sum equals the edge-by-edge conditional form (condition on each edge in turn) *)
Theorem C15_expectation_rec :
  forall g r phi u, (exact_gen alg_q g r phi u == expectation g r phi u)%Q.
Proof. exact expectation_rec. Qed.
Print Assumptions C15_expectation_rec.

(* GENERAL: soundness of the checker that judges the implementation's output.  If c15_check accepts
   the monomial list [ms] reported for motif g, root r and the argument expressions ephi, eu, then
   the reported polynomial equals the exact expectation for EVERY rational assignment. *)
Theorem C15_check_sound :
  forall g r ephi eu ms,
    c15_checkb g r ephi eu ms = true ->
    forall env, (peval env (monos_expr ms)
                 == expectation g r (peval env ephi) (fun v => peval env (eu v)))%Q.
Proof. exact c15_check_sound. Qed.
Print Assumptions C15_check_sound.

(* GENERAL (all sizes): the same identity on the level of the polynomial expressions the extracted model
   reports, for every substitution of expressions for phi and u: the model's polynomial and the exact one take
   the same value at every rational point ... *)
Theorem C15_identity_general_poly :
  forall (g : graph) (r : nat), wf_graph g = true -> In r (g_nodes g) ->
  forall (ephi : pe) (eu : nat -> pe) (env : list Q),
    (peval env (auto_gen alg_pe g r ephi eu) == peval env (exact_gen alg_pe g r ephi eu))%Q.
Proof. exact identity_general_poly. Qed.
Print Assumptions C15_identity_general_poly.

(* ... hence a polynomial accepted by the verified checker agrees everywhere with the MODEL's polynomial
   (motifs of any size): the checker cannot accept an output the model would not produce (as a function) *)
Theorem C15_check_accepts_only_model :
  forall (g : graph) (r : nat), wf_graph g = true -> In r (g_nodes g) ->
  forall ephi eu ms, c15_checkb g r ephi eu ms = true ->
  forall env, (peval env (monos_expr ms) == peval env (auto_gen alg_pe g r ephi eu))%Q.
Proof. exact check_accepts_only_model. Qed.
Print Assumptions C15_check_accepts_only_model.

(* the enumeration checker means what it says *)
Theorem C15_check_enum_spec :
  forall g r res, enum_okb g r res = true <-> enum_ok g r res.
Proof. exact enum_okb_spec. Qed.
Print Assumptions C15_check_enum_spec.

(* non-vacuity of the checker: it accepts the model's own polynomial for the diamond and rejects a
   perturbed one *)
Example C15_check_nonvacuous :
  let g := ([0;1;2;3], [(0,1);(0,2);(1,2);(1,3);(2,3)]) in
  c15_checkb g 1 ephi0 eu0 (pe_monos (auto_expr g 1)) = true /\
  c15_checkb g 1 ephi0 eu0 ((1%Z, [(1, 1)]) :: pe_monos (auto_expr g 1)) = false.
Proof. vm_compute. split; reflexivity. Qed.
