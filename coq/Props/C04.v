(* C04 — edge list <-> network conversion loses nothing.
   Property theorems only; proofs in Proofs/ConvP.v. *)
From Coq Require Import List ZArith Bool Arith Permutation.
From GV Require Import Lib.Tree Model.Conv Proofs.ConvP.
Import ListNotations.

(* For EVERY edge list (any N, degree-zero vertices, self-loops, repeated and reversed pairs,
   even columns of unequal length): the network has exactly one vertex per entry of the joint
   degree sequence plus the edge ends, each vertex v < N annotated with jds[v]; two vertices
   are joined exactly when the pair occurs in the list; an edge whose pair occurs once carries
   precisely that row's topology name and motif id. *)
Theorem C04_network_spec : forall el : elist, Spec_net el (to_network el).
Proof. exact to_network_spec. Qed.
Print Assumptions C04_network_spec.

(* the executable checker that judges the implementation's graph implies that specification *)
Theorem C04_checker_sound : forall el g, check_net el g = true -> Spec_net el g.
Proof. exact check_net_sound. Qed.
Print Assumptions C04_checker_sound.

Theorem C04_model_passes_checker : forall el, check_net el (to_network el) = true.
Proof. exact to_network_check. Qed.
Print Assumptions C04_model_passes_checker.

(* Round trip: for every list the generators can produce on a simple graph (no unordered pair
   repeated — self-loops allowed —, vertices below N, parallel columns) converting back
   succeeds and returns the same joint degree sequence and the same annotated rows, each edge
   in normalised orientation: the identity up to orientation (and, in networkx, order). *)
Theorem C04_roundtrip_el :
  forall el, simple_el el = true -> to_edgelist (to_network el) = Some (normalised el).
Proof. exact roundtrip_el. Qed.
Print Assumptions C04_roundtrip_el.

Theorem C04_roundtrip_checker : forall el, check_roundtrip el (normalised el) = true.
Proof. exact roundtrip_check. Qed.
Print Assumptions C04_roundtrip_checker.

(* ... and converting the returned list again yields the same network *)
Theorem C04_roundtrip_net :
  forall el, simple_el el = true -> net_equiv (to_network (normalised el)) (to_network el).
Proof. exact roundtrip_net. Qed.
Print Assumptions C04_roundtrip_net.

(* non-vacuity: vertices 1 and 3 have joint degree zero, a reversed pair and a self-loop occur *)
Example C04_nonvacuous :
  let el := mk_elist [[1];[0];[2];[0];[3]] [(2,0);(4,2);(4,4)] [7;7;8] [0;1;2] in
  simple_el el = true /\
  map fst (n_nodes (to_network el)) = [1;3;0;2;4] /\
  n_edges (to_network el) = [((0,2), Some (7,0)); ((2,4), Some (7,1)); ((4,4), Some (8,2))] /\
  to_edgelist (to_network el) = Some (mk_elist [[1];[0];[2];[0];[3]] [(0,2);(2,4);(4,4)] [7;7;8] [0;1;2]).
Proof. vm_compute. repeat split; reflexivity. Qed.

(* with a repeated pair the attribute is decided by Python dict order (modelled faithfully):
   rows (1,2,a) (2,1,b) (1,2,c) leave b on the edge *)
Example C04_dict_order :
  let el := mk_elist [[1];[1];[1]] [(1,2);(2,1);(1,2)] [10;11;12] [0;1;2] in
  n_edges (to_network el) = [((1,2), Some (11,1))].
Proof. vm_compute. reflexivity. Qed.
