(* C04 — edge list <-> network conversion loses nothing.
   Property theorems only; proofs in Proofs/ConvP.v. *)
From Coq Require Import List ZArith Bool Arith Permutation.
From GV Require Import Lib.Tree Model.Conv Proofs.ConvP.
Import ListNotations.

(* For EVERY edge list (any N, degree-zero vertices, self-loops, repeated and reversed pairs,
   even columns of unequal length): the network has exactly one vertex per entry of the joint
   degree sequence plus the edge ends, each vertex v < N annotated with jds[v]; two vertices
   are joined exactly when the pair occurs in the list; an edge whose pair occurs once carries
   precisely that row's topology name and motif id. *)
Theorem C04_network_spec : forall el : elist, Spec_net el (to_network el).
Proof. exact to_network_spec. Qed.
Print Assumptions C04_network_spec.

(* the executable checker that judges the implementation's graph implies that specification *)
Theorem C04_checker_sound : forall el g, check_net el g = true -> Spec_net el g.
Proof. exact check_net_sound. Qed.
Print Assumptions C04_checker_sound.

Theorem C04_model_passes_checker : forall el, check_net el (to_network el) = true.
Proof. exact to_network_check. Qed.
Print Assumptions C04_model_passes_checker.

(* Round trip: for every list the generators can produce on a simple graph (no unordered pair
   repeated — self-loops allowed —, vertices below N, parallel columns) converting back
   succeeds and returns the same joint degree sequence and the same annotated rows, each edge
   in normalised orientation: the identity up to orientation (and, in networkx, order). *)
Theorem C04_roundtrip_el :
  forall el, simple_el el = true -> to_edgelist (to_network el) = Some (normalised el).
Proof. exact roundtrip_el. Qed.
Print Assumptions C04_roundtrip_el.

Theorem C04_roundtrip_checker : forall el, check_roundtrip el (normalised el) = true.
Proof. exact roundtrip_check. Qed.
Print Assumptions C04_roundtrip_checker.

(* ... and converting the returned list again yields the same network *)
Theorem C04_roundtrip_net :
  forall el, simple_el el = true -> net_equiv (to_network (normalised el)) (to_network el).
Proof. exact roundtrip_net. Qed.
Print Assumptions C04_roundtrip_net.

(* non-vacuity: vertices 1 and 3 have joint degree zero, a reversed pair and a self-loop occur *)
Example C04_nonvacuous :
  let el := mk_elist [[1];[0];[2];[0];[3]] [(2,0);(4,2);(4,4)] [7;7;8] [0;1;2] in
  simple_el el = true /\
  map fst (n_nodes (to_network el)) = [1;3;0;2;4] /\
  n_edges (to_network el) = [((0,2), Some (7,0)); ((2,4), Some (7,1)); ((4,4), Some (8,2))] /\
  to_edgelist (to_network el) = Some (mk_elist [[1];[0];[2];[0];[3]] [(0,2);(2,4);(4,4)] [7;7;8] [0;1;2]).
Proof. vm_compute. repeat split; reflexivity. Qed.

(* with a repeated pair the attribute is decided by Python dict order (modelled faithfully):
   rows (1,2,a) (2,1,b) (1,2,c) leave b on the edge *)
Example C04_dict_order :
  let el := mk_elist [[1];[1];[1]] [(1,2);(2,1);(1,2)] [10;11;12] [0;1;2] in
  n_edges (to_network el) = [((1,2), Some (11,1))].
Proof. vm_compute. reflexivity. Qed.

(* ================= growth: audit finding F5 (proofs in Proofs/ConvGenP.v) ================= *)
From GV Require Import Proofs.ConvGenP.

(* (a) what the round-trip judge means: it accepts el' exactly when el' has the same joint degree
   sequence, the same number of rows and the same SET of normalised annotated rows as el *)
Theorem C04_roundtrip_checker_iff :
  forall el el', check_roundtrip el el' = true <->
    (el_jds el = el_jds el' /\ length (nrows el) = length (nrows el') /\
     (forall r, In r (nrows el) <-> In r (nrows el'))).
Proof. exact check_roundtrip_iff. Qed.
Print Assumptions C04_roundtrip_checker_iff.

(* ... for a simple list: exactly when the normalised annotated rows are a permutation of each other *)
Theorem C04_roundtrip_checker_simple_iff :
  forall el el', simple_el el = true ->
    (check_roundtrip el el' = true <-> el_jds el = el_jds el' /\ Permutation (nrows el) (nrows el')).
Proof. exact check_roundtrip_simple_iff. Qed.
Print Assumptions C04_roundtrip_checker_simple_iff.

(* ... and it accepts whatever the modelled back conversion of a simple list returns *)
Theorem C04_roundtrip_simple_checked :
  forall el el', simple_el el = true -> to_edgelist (to_network el) = Some el' -> check_roundtrip el el' = true.
Proof. exact roundtrip_simple_checked. Qed.
Print Assumptions C04_roundtrip_simple_checked.

(* (b) EVERY list with parallel columns and vertices below N (repeated / reversed pairs and self-loops
   allowed): the back conversion succeeds, returns the same joint degree sequence and exactly one row
   per unordered pair of the list (normalised orientation, first-occurrence order), carrying the
   attribute the network holds for the pair *)
Theorem C04_roundtrip_general :
  forall el, wf_el el = true ->
  exists el', to_edgelist (to_network el) = Some el' /\
    el_jds el' = el_jds el /\
    el_edges el' = nodup_edges (map norm (el_edges el)) /\
    length (el_names el') = length (el_edges el') /\
    length (el_ids el') = length (el_edges el') /\
    (forall e a, In (e, a) (rows el') <-> (In e (el_edges el') /\ final_attr el e = Some a)).
Proof. exact roundtrip_general. Qed.
Print Assumptions C04_roundtrip_general.

(* the same without reference to model functions other than final_attr: the returned pairs are
   duplicate-free, are exactly the normalised pairs of the list, every returned row is one of the
   list's (normalised) rows, and a pair occurring once keeps precisely that row's name and id *)
Theorem C04_roundtrip_general_spec :
  forall el, wf_el el = true ->
  exists el', to_edgelist (to_network el) = Some el' /\
    el_jds el' = el_jds el /\
    length (el_names el') = length (el_edges el') /\
    length (el_ids el') = length (el_edges el') /\
    map fst (rows el') = el_edges el' /\
    NoDup (el_edges el') /\
    (forall e, In e (el_edges el') <-> (norm e = e /\ exists e0, In e0 (el_edges el) /\ norm e0 = e)) /\
    (forall e a, In (e, a) (rows el') <-> (In e (el_edges el') /\ final_attr el e = Some a)) /\
    (forall r, In r (rows el') -> In r (nrows el)) /\
    (forall e a r, In (e, a) (rows el') -> occurrences el e = [r] -> a = r).
Proof. exact roundtrip_general_spec. Qed.
Print Assumptions C04_roundtrip_general_spec.

(* the attribute the network holds for a pair is always that of one of the rows naming the pair *)
Theorem C04_final_attr_is_a_row :
  forall el ne a, final_attr el ne = Some a -> In a (occurrences el ne).
Proof. exact final_attr_in. Qed.
Print Assumptions C04_final_attr_is_a_row.

Theorem C04_simple_is_wf : forall el, simple_el el = true -> wf_el el = true.
Proof. exact simple_wf. Qed.
Print Assumptions C04_simple_is_wf.

(* (c) the error lemma: an edge naming a vertex >= N makes the back conversion raise KeyError
   (the model's value None, on the wire t_err 1), whatever else the list contains *)
Theorem C04_back_conversion_error :
  forall el v, In v (endpoints (el_edges el)) -> length (el_jds el) <= v ->
    to_edgelist (to_network el) = None.
Proof. exact back_conversion_error. Qed.
Print Assumptions C04_back_conversion_error.

Theorem C04_run_error :
  forall t v, In v (endpoints (el_edges (dec_elist t))) -> length (el_jds (dec_elist t)) <= v ->
    c04_run t = L [enc_net (to_network (dec_elist t)); t_err 1].
Proof. exact c04_run_error. Qed.
Print Assumptions C04_run_error.

(* non-vacuity: the audit's list - a pair given three times in both orientations and a self-loop -
   is well-formed but not simple; one row per pair comes back, (1,2) with the attribute of row 2 *)
Example C04_general_nonvacuous :
  let el := mk_elist [[1];[1];[1]] [(1,2);(2,1);(1,2);(0,0)] [10;11;12;13] [0;1;2;3] in
  wf_el el = true /\ simple_el el = false /\
  to_edgelist (to_network el) = Some (mk_elist [[1];[1];[1]] [(1,2);(0,0)] [11;13] [1;3]) /\
  final_attr el (1,2) = Some (11,1) /\ occurrences el (1,2) = [(10,0);(11,1);(12,2)].
Proof. vm_compute. repeat split; reflexivity. Qed.

(* the judge rejects a back conversion that lost a row, changed an id, or changed the jds *)
Example C04_roundtrip_checker_rejects :
  let el := mk_elist [[1];[1];[2]] [(2,0);(1,2)] [7;8] [0;1] in
  check_roundtrip el (mk_elist [[1];[1];[2]] [(1,2);(0,2)] [8;7] [1;0]) = true /\
  check_roundtrip el (mk_elist [[1];[1];[2]] [(0,2)] [7] [0]) = false /\
  check_roundtrip el (mk_elist [[1];[1];[2]] [(0,2);(1,2)] [7;8] [0;2]) = false /\
  check_roundtrip el (mk_elist [[1];[2];[1]] [(0,2);(1,2)] [7;8] [0;1]) = false.
Proof. vm_compute. repeat split; reflexivity. Qed.

(* the error case: vertex 3 with N = 3 *)
Example C04_error_nonvacuous :
  let el := mk_elist [[1];[1];[0]] [(0,3)] [5] [0] in
  In 3 (endpoints (el_edges el)) /\ length (el_jds el) <= 3 /\ to_edgelist (to_network el) = None /\
  c04_run (L [L [of_nats [1]; of_nats [1]; of_nats [0]]; L [of_pair (0,3)]; of_nats [5]; of_nats [0]])
    = L [enc_net (to_network el); t_err 1].
Proof.
  intros el. split; [vm_compute; right; left; reflexivity|]. split; [vm_compute; apply le_n|].
  vm_compute. split; reflexivity.
Qed.
