(* C19 — built-in degree distributions are the probability mass functions they name.
   Property theorems only; each is closed by [exact] of a lemma of Proofs/DistP.v / Proofs/DistSuppP.v.

   Real-valued laws (Model/Dist.v, formulas of gcmpy/distributions/*.py):
     exponential_R a k  = (1 - e^-a) e^(-a k)                         k >= 0
     poisson_R m k      = e^-m m^k / k!                               k >= 0
     power_law_R s K k  = k^-s / sum_{j=1..K} j^-s                    k >= 1, K = index at which the code's loop stops
     cutoff_R s kap K k = k^-s e^(-k/kap) / sum_{j=1..K} z^j j^-s     z = e^(-1/kap)
     power_law_exact / cutoff_exact: the same with the full series zeta s / polylog s z.
   The support of the two power laws starts at k = 1: every statement about one of their VALUES carries
   (1 <= k)%nat, because at k = 0 the totalised Rpower gives the junk value 1 (C19_degree_0_is_totalised) where the
   code raises ZeroDivisionError; the series statements range over S n.
   Axioms: the theorems over R use the real-number axioms of the standard library and the classical
   axioms Coquelicot / Interval import (expected for this property, see DESIGN.md section 6). *)
From Coq Require Import Reals ZArith List Bool QArith Qreals Lra.
From Coquelicot Require Import Coquelicot.
From Interval Require Import Specific_bigint Specific_ops Float_full Interval Xreal Basic Sig.
From GV Require Import Lib.Tree Model.Dist Proofs.DistP Proofs.DistSuppP.
Import ListNotations.
Local Open Scope R_scope.
(* one line per axiom in the Print Assumptions output (the harness parses `name : type` lines) *)
Set Printing Width 100000.

(* Each theorem below is a conjunction of the statements of one group (one Print Assumptions per group:
   the closure walk over Coquelicot / Interval costs 1-3 s per call). *)

(* ------------------------------------------------------------------ values are non-negative *)
Theorem C19_values_nonneg :
  (forall a k, 0 <= a -> 0 <= exponential_R a k) /\
  (forall m k, 0 <= m -> 0 <= poisson_R m k) /\
  (forall s K k, (1 <= K)%nat -> (1 <= k)%nat -> 0 < power_law_R s K k) /\
  (forall s kappa K k, (1 <= K)%nat -> (1 <= k)%nat -> 0 < cutoff_R s kappa K k).
Proof. exact (conj exponential_nonneg (conj poisson_nonneg (conj power_law_pos_supp cutoff_pos_supp))). Qed.
Print Assumptions C19_values_nonneg.

(* why (1 <= k): Coq's ln is total with ln 0 = 0, so the formulas have a value at k = 0 - the junk value 1 for both
   terms, 1 / normaliser for the law - where the code (0 ** -s) raises; k = 0 is outside the support and no theorem of
   this file says anything about it *)
Theorem C19_degree_0_is_totalised :
  (forall s, pl_term s 0 = 1) /\ (forall s z, co_term s z 0 = 1) /\
  (forall s K, power_law_R s K 0 = 1 / psum (pl_term s) K).
Proof. exact (conj pl_term_0 (conj co_term_0 power_law_R_0)). Qed.
Print Assumptions C19_degree_0_is_totalised.

(* ------------------------------------------------------------------ the closed forms sum to exactly 1 *)
Theorem C19_closed_forms_sum_to_1 :
  (forall a, 0 < a -> is_series (exponential_R a) 1) /\
  (forall m, is_series (poisson_R m) 1).
Proof. exact (conj exponential_series poisson_series). Qed.
Print Assumptions C19_closed_forms_sum_to_1.

(* ------------------------------------------------------------------ truncated normalisers: tails *)
(* for s >= 2 and ANY truncation index K >= 1 the zeta / polylogarithm series converge and
   0 <= zeta s - Z_K s <= K^(1-s),   0 <= Li_s z - L_K s z <= z^(K+1) K^(1-s)   (0 < z <= 1) *)
Theorem C19_normaliser_tails :
  (forall s K, 2 <= s -> (1 <= K)%nat ->
     ex_series (fun n => pl_term s (S n)) /\
     0 <= zeta s - psum (pl_term s) K <= Rpower (INR K) (1 - s)) /\
  (forall s z K, 2 <= s -> 0 < z <= 1 -> (1 <= K)%nat ->
     ex_series (fun n => co_term s z (S n)) /\
     0 <= polylog s z - psum (co_term s z) K <= z ^ (S K) * Rpower (INR K) (1 - s)).
Proof. exact (conj zeta_tail polylog_tail). Qed.
Print Assumptions C19_normaliser_tails.

(* the truncated laws sum (over k = 1, 2, ..) to full / truncated normaliser, which is within K^(1-s) of 1 *)
Theorem C19_truncated_laws_sum_to_1_within :
  (forall s K, 2 <= s -> (1 <= K)%nat ->
     is_series (fun n => power_law_R s K (S n)) (zeta s / psum (pl_term s) K) /\
     0 <= zeta s / psum (pl_term s) K - 1 <= Rpower (INR K) (1 - s)) /\
  (forall s kappa K, 2 <= s -> 0 < kappa -> (1 <= K)%nat ->
     let z := cutoff_z kappa in
     is_series (fun n => cutoff_R s kappa K (S n)) (polylog s z / psum (co_term s z) K) /\
     0 <= polylog s z / psum (co_term s z) K - 1 <= Rpower (INR K) (1 - s)).
Proof. exact (conj power_law_sum cutoff_sum). Qed.
Print Assumptions C19_truncated_laws_sum_to_1_within.

(* every value of a truncated law is within K^(1-s) (relative, and on the support also absolute) of the
   named law *)
Theorem C19_truncated_laws_pointwise :
  (forall s K k, 2 <= s -> (1 <= K)%nat -> (1 <= k)%nat ->
     0 <= power_law_R s K k - power_law_exact s k <= Rpower (INR K) (1 - s) * power_law_exact s k) /\
  (forall s K k, 2 <= s -> (1 <= K)%nat -> (1 <= k)%nat ->
     Rabs (power_law_R s K k - power_law_exact s k) <= Rpower (INR K) (1 - s)) /\
  (forall s kappa K k, 2 <= s -> 0 < kappa -> (1 <= K)%nat -> (1 <= k)%nat ->
     0 <= cutoff_R s kappa K k - cutoff_exact s kappa k <= Rpower (INR K) (1 - s) * cutoff_exact s kappa k) /\
  (forall s kappa K k, 2 <= s -> 0 < kappa -> (1 <= K)%nat -> (1 <= k)%nat ->
     Rabs (cutoff_R s kappa K k - cutoff_exact s kappa k) <= Rpower (INR K) (1 - s)).
Proof.
  exact (conj power_law_pointwise_supp (conj power_law_pointwise_abs (conj cutoff_pointwise_supp cutoff_pointwise_abs))).
Qed.
Print Assumptions C19_truncated_laws_pointwise.

(* the cut-off law with the factor z^K kept: when kappa is small the loop stops after a few terms and
   K^(1-s) alone is not small, z^K K^(1-s) is *)
Theorem C19_cutoff_tails_sharp :
  (forall s kappa K, 2 <= s -> 0 < kappa -> (1 <= K)%nat ->
     let z := cutoff_z kappa in
     0 <= polylog s z / psum (co_term s z) K - 1 <= z ^ K * Rpower (INR K) (1 - s)) /\
  (forall s kappa K k, 2 <= s -> 0 < kappa -> (1 <= K)%nat -> (1 <= k)%nat ->
     0 <= cutoff_R s kappa K k - cutoff_exact s kappa k
       <= cutoff_z kappa ^ K * Rpower (INR K) (1 - s) * cutoff_exact s kappa k).
Proof. exact (conj cutoff_sum_sharp cutoff_pointwise_sharp_supp). Qed.
Print Assumptions C19_cutoff_tails_sharp.

(* the series-truncation tolerance in closed form: at EVERY index at which the loop may stop (near_break,
   tolerance 1e-06) and for every s >= 2 the relative tail is below 1001 * tol_hi < 1.002e-3 *)
Theorem C19_truncation_tolerance_closed_form :
  (forall s K, 2 <= s -> near_break (pl_term s) K -> Rpower (INR K) (1 - s) < 1001 * tol_hi) /\
  (forall s z K, 2 <= s -> 0 < z <= 1 -> near_break (co_term s z) K ->
     z ^ K * Rpower (INR K) (1 - s) < 1001 * tol_hi) /\
  1001 * tol_hi < 1002 / 1000000.
Proof. exact (conj trunc_tolerance_power_law (conj trunc_tolerance_cutoff trunc_tolerance_numeric)). Qed.
Print Assumptions C19_truncation_tolerance_closed_form.

(* ------------------------------------------------------------------ the truncation loops terminate *)
(* is_break t K: K >= 1, |t K| < tol and tol <= |t j| for 1 <= j < K, i.e. K is where
   `while 1: l += term; if abs(term) < tol: break; k += 1` stops (tol = the double 1e-06) *)
Theorem C19_truncation_loops_terminate :
  (forall s, 0 < s -> exists K, is_break (pl_term s) K) /\
  (forall s z, 0 < s -> 0 < z <= 1 -> exists K, is_break (co_term s z) K).
Proof. exact (conj power_law_loop_terminates cutoff_loop_terminates). Qed.
Print Assumptions C19_truncation_loops_terminate.

(* ------------------------------------------------------------------ enclosures contain the laws *)
(* cR E x := contains (I.convert E) (Xreal x).  The interval version of the truncation loop (any fuel)
   returns only indices at which the code's loop may stop (comparison with tol trusted to 2^-40
   relative), each with an enclosure of the partial sum up to it. *)
Theorem C19_enclosures_sound :
  (forall A a k, cR A a -> cR (i_exponential A k) (exponential_R a k)) /\
  (forall M m k, cR M m -> cR (i_poisson M k) (poisson_R m k)) /\
  (forall S N s K k, (1 <= k)%nat ->
     cR S s -> cR N (psum (pl_term s) K) -> cR (i_power_law S N k) (power_law_R s K k)) /\
  (forall S Ka N s kappa K k, (1 <= k)%nat ->
     cR S s -> cR Ka kappa -> cR N (psum (co_term s (cutoff_z kappa)) K) ->
     cR (i_cutoff S Ka N k) (cutoff_R s kappa K k)) /\
  (forall fuel term t res,
     (forall j, cR (term j) (t j)) -> trunc fuel term = Some res ->
     List.Forall (fun c => near_break t (fst c) /\ cR (snd c) (psum t (fst c))) res).
Proof.
  exact (conj encl_exponential (conj encl_poisson (conj encl_power_law_supp (conj encl_cutoff_supp trunc_sound)))).
Qed.
Print Assumptions C19_enclosures_sound.

(* ------------------------------------------------------------------ the verified checker *)
(* Spec_* (Model/Dist.v): 0 <= x and |x - law| <= 2^-36 |law| + 2^-1000, for the power laws with the
   law truncated at SOME index the code's loop may stop at.  The checker c19_eval is what ./check C19
   evaluates (inside Coq) on the implementation's floats: entry 3 + 3 i of its output is the verdict for
   case i.  Sound, not complete (interval arithmetic may reject a borderline value). *)
Theorem C19_checker_sound :
  (forall a cases i k x,
     nth_error cases i = Some (k, x) ->
     nth (3 + 3 * i) (c19_eval 0 [a] cases) 0%Z = 1%Z ->
     Spec_exponential (Q2R a) k (Q2R x)) /\
  (forall m cases i k x,
     nth_error cases i = Some (k, x) ->
     nth (3 + 3 * i) (c19_eval 1 [m] cases) 0%Z = 1%Z ->
     Spec_poisson (Q2R m) k (Q2R x)) /\
  (forall s cases i k x,
     nth_error cases i = Some (k, x) ->
     nth (3 + 3 * i) (c19_eval 2 [s] cases) 0%Z = 1%Z ->
     (1 <= k)%nat /\ Spec_power_law (Q2R s) k (Q2R x)) /\
  (forall s kappa cases i k x,
     nth_error cases i = Some (k, x) ->
     nth (3 + 3 * i) (c19_eval 3 [s; kappa] cases) 0%Z = 1%Z ->
     (1 <= k)%nat /\ Spec_cutoff (Q2R s) (Q2R kappa) k (Q2R x)).
Proof.
  exact (conj c19_eval_exponential_sound (conj c19_eval_poisson_sound
          (conj c19_eval_power_law_sound c19_eval_cutoff_sound))).
Qed.
Print Assumptions C19_checker_sound.

(* what an accepted value satisfies with respect to the NAMED laws (full zeta / polylogarithm):
   within the series-truncation tolerance K^(1-s) (plus the float tolerance) of the exact formula *)
Theorem C19_accepted_values_vs_named_laws :
  (forall s k x, 2 <= s -> (1 <= k)%nat -> Spec_power_law s k x ->
     0 <= x /\ exists K, near_break (pl_term s) K /\
       Rabs (x - power_law_exact s k)
         <= (Rpower (INR K) (1 - s) + relR * (1 + Rpower (INR K) (1 - s))) * power_law_exact s k + absR) /\
  (forall s kappa k x, 2 <= s -> 0 < kappa -> (1 <= k)%nat -> Spec_cutoff s kappa k x ->
     0 <= x /\ exists K, near_break (co_term s (cutoff_z kappa)) K /\
       Rabs (x - cutoff_exact s kappa k)
         <= (Rpower (INR K) (1 - s) + relR * (1 + Rpower (INR K) (1 - s))) * cutoff_exact s kappa k + absR).
Proof. exact (conj spec_power_law_exact_supp spec_cutoff_exact_supp). Qed.
Print Assumptions C19_accepted_values_vs_named_laws.

(* the same with the tolerance in closed form (TRUNC_TOL = 1002 / 1000000, relR = 2^-36, absR = 2^-1000):
   every value the checker accepts is non-negative and within 1.002e-3 (relative) of the named law *)
Theorem C19_accepted_values_closed_tolerance :
  (forall s k x, 2 <= s -> (1 <= k)%nat -> Spec_power_law s k x ->
     0 <= x /\
     Rabs (x - power_law_exact s k) <= (TRUNC_TOL + relR * (1 + TRUNC_TOL)) * power_law_exact s k + absR) /\
  (forall s kappa k x, 2 <= s -> 0 < kappa -> (1 <= k)%nat -> Spec_cutoff s kappa k x ->
     0 <= x /\
     Rabs (x - cutoff_exact s kappa k) <= (TRUNC_TOL + relR * (1 + TRUNC_TOL)) * cutoff_exact s kappa k + absR).
Proof. exact (conj spec_power_law_exact_closed_supp spec_cutoff_exact_closed_supp). Qed.
Print Assumptions C19_accepted_values_closed_tolerance.

(* ------------------------------------------------------------------ the model meets the specification *)
(* "The model" = the law truncated at the index where the exact-arithmetic loop stops.
   Clauses 1-2: for all valid parameters the loop stops at EXACTLY ONE index (existence and uniqueness: the model is a
   function of the parameters, not a relation).
   Clauses 3-4: for s >= 2 and that index K, (a) every value on the support k >= 1 satisfies the specification the
   checker enforces on the implementation, (b) the values sum over k = 1, 2, .. to a number in [1, 1 + TRUNC_TOL),
   TRUNC_TOL = 1.002e-3, (c) every value lies within TRUNC_TOL (relative, from above) of the named law.
   (Until growth 2 this theorem was Spec (law) for each law: 0 <= law and near law law, i.e. C19_values_nonneg +
   reflexivity + C19_truncation_loops_terminate; that statement is kept below as C19_spec_satisfiable_sanity.) *)
Theorem C19_model_meets_spec :
  (forall s, 0 < s -> exists K, is_break (pl_term s) K /\ forall K', is_break (pl_term s) K' -> K' = K) /\
  (forall s z, 0 < s -> 0 < z <= 1 ->
     exists K, is_break (co_term s z) K /\ forall K', is_break (co_term s z) K' -> K' = K) /\
  (forall s K, 2 <= s -> is_break (pl_term s) K ->
     (forall k, (1 <= k)%nat -> Spec_power_law s k (power_law_R s K k)) /\
     is_series (fun n => power_law_R s K (S n)) (zeta s / psum (pl_term s) K) /\
     0 <= zeta s / psum (pl_term s) K - 1 < TRUNC_TOL /\
     (forall k, (1 <= k)%nat ->
        0 <= power_law_R s K k - power_law_exact s k <= TRUNC_TOL * power_law_exact s k)) /\
  (forall s kappa K, 2 <= s -> 0 < kappa -> is_break (co_term s (cutoff_z kappa)) K ->
     (forall k, (1 <= k)%nat -> Spec_cutoff s kappa k (cutoff_R s kappa K k)) /\
     is_series (fun n => cutoff_R s kappa K (S n))
               (polylog s (cutoff_z kappa) / psum (co_term s (cutoff_z kappa)) K) /\
     0 <= polylog s (cutoff_z kappa) / psum (co_term s (cutoff_z kappa)) K - 1 < TRUNC_TOL /\
     (forall k, (1 <= k)%nat ->
        0 <= cutoff_R s kappa K k - cutoff_exact s kappa k <= TRUNC_TOL * cutoff_exact s kappa k)).
Proof.
  exact (conj power_law_break_unique (conj cutoff_break_unique (conj model_power_law_property model_cutoff_property))).
Qed.
Print Assumptions C19_model_meets_spec.

(* SANITY only (not counted as evidence for the property): the specification is satisfiable - by the law itself.
   Each clause is 0 <= law (C19_values_nonneg), near law law (reflexivity) and, for the power laws, the existence of
   the break index (C19_truncation_loops_terminate). *)
Theorem C19_spec_satisfiable_sanity :
  (forall a k, 0 < a -> Spec_exponential a k (exponential_R a k)) /\
  (forall m k, 0 < m -> Spec_poisson m k (poisson_R m k)) /\
  (forall s k, 0 < s -> (1 <= k)%nat -> exists K, is_break (pl_term s) K /\ Spec_power_law s k (power_law_R s K k)) /\
  (forall s kappa k, 0 < s -> 0 < kappa -> (1 <= k)%nat ->
     exists K, is_break (co_term s (cutoff_z kappa)) K /\ Spec_cutoff s kappa k (cutoff_R s kappa K k)).
Proof.
  exact (conj model_exponential_spec (conj model_poisson_spec (conj model_power_law_total_supp model_cutoff_total_supp))).
Qed.
Print Assumptions C19_spec_satisfiable_sanity.

(* ------------------------------------------------------------------ non-vacuity *)
(* the checker accepts the implementation's actual floats (exact dyadic values of
   exponential(0.5)(3), poisson(2.0)(2), power_law(3.0)(2), scale_free_cut_off(3.0, 1.0)(2)) ... *)
Example C19_nonvacuous_accepts :
  nth 3 (c19_eval 0 [1 # 2] [(3%nat, 6326287599121571 # 72057594037927936)])%Q 0%Z = 1%Z /\
  nth 3 (c19_eval 1 [2 # 1] [(2%nat, 1218991862308979 # 4503599627370496)])%Q 0%Z = 1%Z /\
  nth 3 (c19_eval 2 [3 # 1] [(2%nat, 7493458007597295 # 72057594037927936)])%Q 0%Z = 1%Z /\
  nth 3 (c19_eval 3 [3 # 1; 1 # 1] [(2%nat, 787472226813957 # 18014398509481984)])%Q 0%Z = 1%Z.
Proof. vm_compute. repeat split. Qed.

(* ... and rejects wrong ones: poisson(2.0)(2) computed with factorial(k+1), a negative value, a value off
   by 1e-9 relative; for the power law alpha = 3 the term 100^-3 equals the tolerance up to 2^-40, so the loop
   may stop at K = 100 or K = 101 (both are admissible truncation indices) *)
Example C19_nonvacuous_rejects :
  nth 3 (c19_eval 1 [2 # 1] [(2%nat, 6501289932314555 # 72057594037927936)])%Q 0%Z = 0%Z /\
  nth 3 (c19_eval 1 [2 # 1] [(2%nat, (-1218991862308979) # 4503599627370496)])%Q 0%Z = 0%Z /\
  nth 3 (c19_eval 1 [2 # 1] [(2%nat, 1218991863527971 # 4503599627370496)])%Q 0%Z = 0%Z /\
  firstn 3 (c19_eval 2 [3 # 1] [])%Q = [0; 100; 101]%Z.
Proof. vm_compute. repeat split. Qed.

(* the hypotheses of the tail theorems are met (s = 5/2, z = e^-1/10 via kappa = 10, K = 7) *)
Example C19_nonvacuous_ranges : 2 <= 5 / 2 /\ 0 < cutoff_z 10 <= 1 /\ (1 <= 7)%nat /\ 0 < 10.
Proof.
  pose proof (cutoff_z_range 10 ltac:(lra)) as H.
  repeat split; try lra; auto with arith.
Qed.

(* the hypotheses [near_break ..] / [Spec_power_law ..] of the tolerance theorems are inhabited for every s >= 2
   (here s = 5/2, kappa = 10): the loop stops somewhere, and the model's value there meets the specification *)
Example C19_nonvacuous_near_break :
  (exists K, near_break (pl_term (5 / 2)) K) /\
  (exists K, near_break (co_term (5 / 2) (cutoff_z 10)) K) /\
  (exists x, Spec_power_law (5 / 2) 3 x) /\ (exists x, Spec_cutoff (5 / 2) 10 3 x).
Proof.
  pose proof (cutoff_z_range 10 ltac:(lra)) as Hz.
  destruct (power_law_loop_terminates (5 / 2) ltac:(lra)) as [K1 H1].
  destruct (cutoff_loop_terminates (5 / 2) (cutoff_z 10) ltac:(lra) ltac:(lra)) as [K2 H2].
  split; [exists K1; apply is_break_near_break, H1|].
  split; [exists K2; apply is_break_near_break, H2|].
  split; [eexists; apply (model_power_law_spec _ _ 3%nat H1) | eexists; apply (model_cutoff_spec _ _ _ 3%nat H2)].
Qed.

(* the hypotheses of C19_model_meets_spec clauses 3-4 are inhabited (s = 5/2 >= 2, kappa = 10, degree 3 >= 1): the loop
   stops at an index, at exactly one, and the conclusions then hold there *)
Example C19_nonvacuous_model :
  (exists K, is_break (pl_term (5 / 2)) K /\ (forall K', is_break (pl_term (5 / 2)) K' -> K' = K) /\
             Spec_power_law (5 / 2) 3 (power_law_R (5 / 2) K 3)) /\
  (exists K, is_break (co_term (5 / 2) (cutoff_z 10)) K /\ Spec_cutoff (5 / 2) 10 3 (cutoff_R (5 / 2) 10 K 3)).
Proof.
  pose proof (cutoff_z_range 10 ltac:(lra)) as Hz.
  destruct (power_law_break_unique (5 / 2) ltac:(lra)) as [K1 [H1 U1]].
  destruct (cutoff_loop_terminates (5 / 2) (cutoff_z 10) ltac:(lra) ltac:(lra)) as [K2 H2].
  split.
  - exists K1. split; [exact H1 |]. split; [exact U1 |].
    apply (proj1 (model_power_law_property (5 / 2) K1 ltac:(lra) H1) 3%nat). auto with arith.
  - exists K2. split; [exact H2 |].
    apply (proj1 (model_cutoff_property (5 / 2) 10 K2 ltac:(lra) ltac:(lra) H2) 3%nat). auto with arith.
Qed.
