(* C19 — built-in degree distributions are the probability mass functions they name. *)
From Coq Require Import Reals ZArith List Bool QArith.
From GV Require Import Lib.Tree Model.Dist Proofs.DistP.
Local Open Scope R_scope.

Theorem C19_exponential_nonneg : forall a k, 0 <= a -> 0 <= exponential_R a k.
Proof. exact exponential_nonneg. Qed.
Print Assumptions C19_exponential_nonneg.
