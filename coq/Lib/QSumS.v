(* Finite sums over Q (setoid equality ==), the reduced arithmetic the executable
   models use to keep numerators / denominators small, and a few list lemmas
   (filter / flat_map / NoDup) used by the split-degree unit (C07). *)
From Coq Require Import List ZArith QArith Qabs Bool Arith Lia Setoid Morphisms.
Import ListNotations.
Local Open Scope Q_scope.

(* ---------- reduced arithmetic: same value (==), normalised representation ---------- *)
Definition radd (a b : Q) : Q := Qred (a + b).
Definition rmul (a b : Q) : Q := Qred (a * b).
Definition rdiv (a b : Q) : Q := Qred (a / b).

Lemma radd_eq a b : radd a b == a + b. Proof. apply Qred_correct. Qed.
Lemma rmul_eq a b : rmul a b == a * b. Proof. apply Qred_correct. Qed.
Lemma rdiv_eq a b : rdiv a b == a / b. Proof. apply Qred_correct. Qed.

(* ---------- sums ---------- *)
Fixpoint qsum (l : list Q) : Q := match l with [] => 0 | x :: r => x + qsum r end.
Fixpoint rsum (l : list Q) : Q := match l with [] => 0 | x :: r => radd x (rsum r) end.

Lemma rsum_eq l : rsum l == qsum l.
Proof. induction l as [|x r IH]; cbn [rsum qsum]; [reflexivity|]. rewrite radd_eq, IH. reflexivity. Qed.

Lemma qsum_app l1 l2 : qsum (l1 ++ l2) == qsum l1 + qsum l2.
Proof.
  induction l1 as [|x r IH]; cbn [qsum app]; [ring|]. rewrite IH. ring.
Qed.

Lemma qsum_Forall2 l1 l2 : Forall2 Qeq l1 l2 -> qsum l1 == qsum l2.
Proof.
  induction 1 as [|x y l1 l2 Hxy _ IH]; cbn [qsum]; [reflexivity|]. rewrite Hxy, IH. reflexivity.
Qed.

Lemma qsum_map_ext {A} (f g : A -> Q) l :
  (forall x, In x l -> f x == g x) -> qsum (map f l) == qsum (map g l).
Proof.
  induction l as [|x r IH]; intros H; cbn [qsum map]; [reflexivity|].
  rewrite (H x (or_introl eq_refl)), IH; [reflexivity|]. intros y Hy. apply H. right. exact Hy.
Qed.

Lemma qsum_map_scale {A} (c : Q) (f : A -> Q) l :
  qsum (map (fun x => c * f x) l) == c * qsum (map f l).
Proof. induction l as [|x r IH]; cbn [qsum map]; [ring|]. rewrite IH. ring. Qed.

Lemma qsum_map_div {A} (c : Q) (f : A -> Q) l :
  qsum (map (fun x => f x / c) l) == qsum (map f l) / c.
Proof.
  induction l as [|x r IH]; cbn [qsum map]; [unfold Qdiv; ring|]. rewrite IH. unfold Qdiv. ring.
Qed.

Lemma qsum_flat_map {A B} (f : A -> list B) (g : B -> Q) l :
  qsum (map g (flat_map f l)) == qsum (map (fun a => qsum (map g (f a))) l).
Proof.
  induction l as [|a r IH]; cbn [flat_map map qsum]; [reflexivity|].
  rewrite map_app, qsum_app, IH. reflexivity.
Qed.

Lemma qsum_map_const1 {A} (l : list A) (f : A -> Q) :
  (forall x, In x l -> f x == 0) -> qsum (map f l) == 0.
Proof.
  induction l as [|x r IH]; intros H; cbn [qsum map]; [reflexivity|].
  rewrite (H x (or_introl eq_refl)), IH; [ring|]. intros y Hy. apply H. right. exact Hy.
Qed.

(* |sum| <= n * eps when every term is within eps *)
Lemma qsum_abs_bound {A} (f g : A -> Q) (eps : Q) l :
  (forall x, In x l -> Qabs (f x - g x) <= eps) ->
  Qabs (qsum (map f l) - qsum (map g l)) <= inject_Z (Z.of_nat (length l)) * eps.
Proof.
  induction l as [|x r IH]; intros H.
  - cbn [map qsum length]. change (Z.of_nat 0) with 0%Z.
    setoid_replace (0 - 0) with 0 by ring.
    setoid_replace (inject_Z 0 * eps) with 0 by ring. cbn. apply Qle_refl.
  - cbn [qsum map length].
    setoid_replace (f x + qsum (map f r) - (g x + qsum (map g r)))
      with ((f x - g x) + (qsum (map f r) - qsum (map g r))) by ring.
    eapply Qle_trans; [apply Qabs_triangle|].
    rewrite Nat2Z.inj_succ. unfold Z.succ. rewrite inject_Z_plus.
    setoid_replace ((inject_Z (Z.of_nat (length r)) + inject_Z 1) * eps)
      with (eps + inject_Z (Z.of_nat (length r)) * eps) by ring.
    apply Qplus_le_compat.
    + apply H. left. reflexivity.
    + apply IH. intros y Hy. apply H. right. exact Hy.
Qed.

(* ---------- list facts ---------- *)
Lemma filter_flat_map {A B} (p : B -> bool) (f : A -> list B) l :
  filter p (flat_map f l) = flat_map (fun a => filter p (f a)) l.
Proof.
  induction l as [|a r IH]; cbn [flat_map]; [reflexivity|]. rewrite filter_app, IH. reflexivity.
Qed.

Lemma filter_all {A} (p : A -> bool) l : (forall x, In x l -> p x = true) -> filter p l = l.
Proof.
  induction l as [|x r IH]; intros H; cbn [filter]; [reflexivity|].
  rewrite (H x (or_introl eq_refl)). f_equal. apply IH. intros y Hy. apply H. right. exact Hy.
Qed.

Lemma filter_none {A} (p : A -> bool) l : (forall x, In x l -> p x = false) -> filter p l = [].
Proof.
  induction l as [|x r IH]; intros H; cbn [filter]; [reflexivity|].
  rewrite (H x (or_introl eq_refl)). apply IH. intros y Hy. apply H. right. exact Hy.
Qed.

Lemma flat_map_nil_all {A B} (f : A -> list B) l : (forall a, In a l -> f a = []) -> flat_map f l = [].
Proof.
  induction l as [|a r IH]; intros H; cbn [flat_map]; [reflexivity|].
  rewrite (H a (or_introl eq_refl)). apply IH. intros y Hy. apply H. right. exact Hy.
Qed.

(* blocks indexed by a NoDup list, a predicate that selects exactly block k *)
Lemma filter_blocks {A B} (p : B -> bool) (f : A -> list B) (l : list A) (k : A) :
  NoDup l -> In k l ->
  (forall x, In x (f k) -> p x = true) ->
  (forall a x, In a l -> a <> k -> In x (f a) -> p x = false) ->
  filter p (flat_map f l) = f k.
Proof.
  intros Hnd Hin Hk Hother. rewrite filter_flat_map.
  induction l as [|a r IH]; [contradiction|]. cbn [flat_map].
  inversion Hnd as [|a' r' Hna Hndr]; subst.
  destruct Hin as [->|Hin].
  - rewrite (filter_all p (f k) Hk).
    rewrite flat_map_nil_all; [apply app_nil_r|].
    intros a Ha. apply filter_none. intros x Hx. apply (Hother a x); [right; exact Ha| |exact Hx].
    intros ->. contradiction.
  - rewrite (filter_none p (f a)).
    + cbn [app]. apply IH; [exact Hndr|exact Hin|].
      intros a0 x Ha0. apply Hother. right. exact Ha0.
    + intros x Hx. apply (Hother a x); [left; reflexivity| |exact Hx]. intros ->. contradiction.
Qed.

(* NoDup of a flat_map through a separating function *)
Lemma NoDup_flat_map_sep {A B} (f : A -> list B) (h : B -> A) (l : list A) :
  NoDup l ->
  (forall a, In a l -> NoDup (f a)) ->
  (forall a x, In a l -> In x (f a) -> h x = a) ->
  NoDup (flat_map f l).
Proof.
  induction l as [|a r IH]; intros Hnd Hin Hsep; cbn [flat_map]; [constructor|].
  inversion Hnd as [|a' r' Hna Hndr]; subst.
  assert (Hr : NoDup (flat_map f r)).
  { apply IH; [exact Hndr| |].
    - intros b Hb. apply Hin. right. exact Hb.
    - intros b x Hb. apply Hsep. right. exact Hb. }
  assert (Ha : NoDup (f a)) by (apply Hin; left; reflexivity).
  revert Ha. generalize (Hsep a). intros Hsa.
  assert (Hdisj : forall x, In x (f a) -> ~ In x (flat_map f r)).
  { intros x Hx Hx'. apply in_flat_map in Hx'. destruct Hx' as [b [Hb Hxb]].
    assert (h x = a) by (apply Hsa; [left; reflexivity|exact Hx]).
    assert (h x = b) by (apply (Hsep b x); [right; exact Hb|exact Hxb]).
    apply Hna. congruence. }
  clear Hsa. revert Hdisj. generalize (f a) as la. intros la.
  induction la as [|x la IHla]; intros Hdisj Hla; cbn [app]; [exact Hr|].
  inversion Hla as [|x' la' Hxn Hla']; subst. constructor.
  - rewrite in_app_iff. intros [H|H]; [contradiction|]. apply (Hdisj x); [left; reflexivity|exact H].
  - apply IHla; [|exact Hla']. intros y Hy. apply Hdisj. right. exact Hy.
Qed.

Lemma Forall2_map_l {A B C} (R : B -> C -> Prop) (f : A -> B) l l' :
  Forall2 (fun a c => R (f a) c) l l' -> Forall2 R (map f l) l'.
Proof. induction 1; cbn; constructor; auto. Qed.

Lemma Forall2_app_inv_both {A B} (R : A -> B -> Prop) l1 l2 l1' l2' :
  Forall2 R l1 l1' -> Forall2 R l2 l2' -> Forall2 R (l1 ++ l2) (l1' ++ l2').
Proof. intros H1 H2. apply Forall2_app; assumption. Qed.
