(* Polynomial reflection for C15 / C17: polynomial expressions [PExpr Z] evaluated in Q,
   decided by Coq's own [Ring_polynom] normaliser, soundness = one instance of [ring_correct]
   (no axioms).  Also: an abstract "arithmetic" record so that the model algorithms are
   written once and instantiated with expressions and with rationals. *)
From Coq Require Import ZArith QArith Qring Qpower List Bool Ring_polynom Ring_theory InitialRing Setoid BinList Zbool Morphisms Lia.
Import ListNotations.

Definition pe := PExpr Z.

Definition normZ (e : pe) : Pol Z :=
  norm_subst 0%Z 1%Z Z.add Z.mul Z.sub Z.opp Zeq_bool Z.quotrem 0 nil e.
Definition peq (a b : pe) : bool := Peq Zeq_bool (normZ a) (normZ b).
Definition phiZ : Z -> Q := gen_phiZ 0%Q 1%Q Qplus Qmult Qopp.
Definition peval (l : list Q) (e : pe) : Q :=
  PEeval 0%Q 1%Q Qplus Qmult Qminus Qopp phiZ Z.of_N Qpower l e.

Lemma Qsth15 : Setoid_Theory Q Qeq.
Proof. exact Q_Setoid. Qed.

Lemma Qreqe15 : ring_eq_ext Qplus Qmult Qopp Qeq.
Proof.
  constructor.
  - intros a b H c d H'. rewrite H, H'. reflexivity.
  - intros a b H c d H'. rewrite H, H'. reflexivity.
  - intros a b H. rewrite H. reflexivity.
Qed.

Lemma peq_sound : forall a b, peq a b = true -> forall l, peval l a == peval l b.
Proof.
  intros a b H l.
  exact (ring_correct Qsth15 Qreqe15 (Rth_ARth Qsth15 Qreqe15 Qsrt)
           (gen_phiZ_morph Qsth15 Qreqe15 Qsrt) Qpower_theory
           (Ztriv_div_th Qsth15 phiZ) 0 l nil a b I H).
Qed.

(* ------------------------------------------------------------------ *)
(* abstract arithmetic *)
Record alg (T : Type) := mk_alg {
  a0 : T; a1 : T;
  aadd : T -> T -> T; amul : T -> T -> T; asub : T -> T -> T;
  apow : T -> nat -> T }.
Arguments a0 {T}. Arguments a1 {T}. Arguments aadd {T}. Arguments amul {T}.
Arguments asub {T}. Arguments apow {T}.

Definition alg_pe : alg pe :=
  mk_alg pe (PEc 0%Z) (PEc 1%Z) (@PEadd Z) (@PEmul Z) (@PEsub Z) (fun e n => PEpow e (N.of_nat n)).
Definition alg_q : alg Q :=
  mk_alg Q 0%Q 1%Q Qplus Qmult Qminus (fun q n => Qpower q (Z.of_nat n)).

(* the same arithmetic with every sum reduced to lowest terms (keeps the extracted model fast);
   related to [alg_q] by Qeq, see Proofs/AutoEqP.v *)
Definition alg_qr : alg Q :=
  mk_alg Q 0%Q 1%Q (fun a b => Qred (Qplus a b)) Qmult Qminus (fun q n => Qpower q (Z.of_nat n)).

Definition asum {T} (A : alg T) (l : list T) : T := fold_left (aadd A) l (a0 A).
Definition aprod {T} (A : alg T) (l : list T) : T := fold_left (amul A) l (a1 A).

(* ------------------------------------------------------------------ *)
(* variables: phi = X1, u_v = X(v+2) *)
Definition vpos (v : nat) : positive := Pos.of_succ_nat (S v).
Definition ephi0 : pe := PEX Z 1%positive.
Definition eu0 (v : nat) : pe := PEX Z (vpos v).

(* ------------------------------------------------------------------ *)
(* monomial lists (wire form of a polynomial): (coefficient, [(variable index >= 1, exponent)]) *)
Definition mono := (Z * list (nat * nat))%type.

Definition mono_expr (m : mono) : pe :=
  fold_left (fun acc ve => PEmul acc (PEpow (PEX Z (Pos.of_nat (fst ve))) (N.of_nat (snd ve))))
            (snd m) (PEc (fst m)).
Definition monos_expr (ms : list mono) : pe :=
  fold_left (fun acc m => PEadd acc (mono_expr m)) ms (PEc 0%Z).

(* normal form -> monomials.  [k] = number of variables already skipped. *)
Fixpoint pol_monos (k : nat) (P : Pol Z) : list mono :=
  match P with
  | Pc c => if Z.eqb c 0 then [] else [(c, [])]
  | Pinj j Q => pol_monos (k + Pos.to_nat j) Q
  | PX P i Q =>
      map (fun m : mono => (fst m, (S k, Pos.to_nat i) :: snd m)) (pol_monos k P)
      ++ pol_monos (S k) Q
  end.

Definition pe_monos (e : pe) : list mono := pol_monos 0 (normZ e).
