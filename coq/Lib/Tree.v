(* Generic wire format between the Python harness and the extracted model:
   a tree of integers.  Every model entry point has type [tree -> tree]. *)
From Coq Require Import List ZArith Bool.
Import ListNotations.
Local Open Scope Z_scope.

Inductive tree : Type :=
| I (z : Z)
| L (l : list tree).

Definition t_z (t : tree) : Z := match t with I z => z | L _ => 0 end.
Definition t_nat (t : tree) : nat := Z.to_nat (t_z t).
Definition t_list (t : tree) : list tree := match t with L l => l | I _ => [] end.
Definition t_zs (t : tree) : list Z := map t_z (t_list t).
Definition t_nats (t : tree) : list nat := map t_nat (t_list t).
Definition t_natss (t : tree) : list (list nat) := map t_nats (t_list t).
Definition t_nth (n : nat) (t : tree) : tree := nth n (t_list t) (L []).
Definition t_bool (t : tree) : bool := negb (Z.eqb (t_z t) 0).

Definition of_nat (n : nat) : tree := I (Z.of_nat n).
Definition of_bool (b : bool) : tree := I (if b then 1 else 0).
Definition of_nats (l : list nat) : tree := L (map of_nat l).
Definition of_natss (l : list (list nat)) : tree := L (map of_nats l).
Definition of_zs (l : list Z) : tree := L (map I l).
Definition of_pair (p : nat * nat) : tree := L [of_nat (fst p); of_nat (snd p)].
Definition of_pairs (l : list (nat * nat)) : tree := L (map of_pair l).
Definition t_pair (t : tree) : nat * nat := (t_nat (t_nth 0 t), t_nat (t_nth 1 t)).
Definition t_pairs (t : tree) : list (nat * nat) := map t_pair (t_list t).

(* error values: L [I (-1); I code] *)
Definition t_err (code : Z) : tree := L [I (-1); I code].

(* exact rationals on the wire: L [I num; I den] with den > 0 *)
From Coq Require Import QArith.
Definition t_q (t : tree) : Q :=
  match t_z (t_nth 1 t) with
  | Zpos d => Qmake (t_z (t_nth 0 t)) d
  | _ => Qmake (t_z (t_nth 0 t)) 1
  end.
Definition of_q (q : Q) : tree := let r := Qred q in L [I (Qnum r); I (Zpos (Qden r))].
Definition t_qs (t : tree) : list Q := map t_q (t_list t).
Definition of_qs (l : list Q) : tree := L (map of_q l).
