(* Generic reflection lemmas (boolean list checks <-> Forall / Forall2 statements) shared by the
   loaders unit (C05, C06, C08). *)
From Coq Require Import List ZArith Bool Arith Lia.
Import ListNotations.

Lemma forallb_Forall {A} (f : A -> bool) l : forallb f l = true <-> Forall (fun x => f x = true) l.
Proof. rewrite forallb_forall, Forall_forall. reflexivity. Qed.

Lemma Forall_combine_Forall2 {A B} (P : A -> B -> Prop) a b :
  length a = length b -> (Forall (fun p => P (fst p) (snd p)) (combine a b) <-> Forall2 P a b).
Proof.
  revert b. induction a as [|x a IH]; intros [|y b] Hl; cbn in Hl; try discriminate.
  - split; constructor.
  - cbn [combine]. split; intros H; inversion H; subst; constructor; auto; apply (IH b); auto.
Qed.

Lemma Forall2_iff {A B} (P Q : A -> B -> Prop) a b :
  (forall x y, P x y <-> Q x y) -> (Forall2 P a b <-> Forall2 Q a b).
Proof. intros H. split; intros F; induction F; constructor; auto; apply H; auto. Qed.

Lemma Forall2_impl {A B} (P Q : A -> B -> Prop) a b :
  (forall x y, P x y -> Q x y) -> Forall2 P a b -> Forall2 Q a b.
Proof. intros H F. induction F; constructor; auto. Qed.

Lemma Forall_iff {A} (P Q : A -> Prop) l : (forall x, P x <-> Q x) -> (Forall P l <-> Forall Q l).
Proof. intros H. split; intros F; induction F; constructor; auto; apply H; auto. Qed.

Lemma Forall2_length_eq {A B} (P : A -> B -> Prop) a b : Forall2 P a b -> length a = length b.
Proof. induction 1; cbn; auto. Qed.

Lemma Forall2_eq_iff {A} (a b : list A) : Forall2 eq a b <-> a = b.
Proof.
  split.
  - induction 1; subst; reflexivity.
  - intros ->. induction b; constructor; auto.
Qed.

Lemma Forall_combine_seq {B} (P : nat * B -> Prop) i (l : list B) d :
  Forall P (combine (seq i (length l)) l) <-> forall k, k < length l -> P (i + k, nth k l d).
Proof.
  revert i. induction l as [|x l IH]; intros i; cbn [length seq combine].
  - split; [intros _ k Hk; lia|constructor].
  - split.
    + intros H k Hk. inversion H as [|? ? H1 H2]; subst. destruct k as [|k].
      * rewrite Nat.add_0_r. exact H1.
      * replace (i + S k) with (S i + k) by lia. cbn [nth]. apply IH; [exact H2|lia].
    + intros H. constructor.
      * specialize (H 0). rewrite Nat.add_0_r in H. apply H. lia.
      * apply IH. intros k Hk. replace (S i + k) with (i + S k) by lia. apply (H (S k)). lia.
Qed.

Lemma Forall_seq0 (P : nat -> Prop) n : Forall P (seq 0 n) <-> forall v, v < n -> P v.
Proof.
  rewrite Forall_forall. split; intros H v Hv; apply H; [apply in_seq; lia|apply in_seq in Hv; lia].
Qed.

Lemma list_eqb_rel {A} (eqb : A -> A -> bool) (R : A -> A -> Prop) :
  (forall x y, eqb x y = true <-> R x y) ->
  forall a b, (Nat.eqb (length a) (length b) && forallb (fun xy => eqb (fst xy) (snd xy)) (combine a b)) = true
              <-> Forall2 R a b.
Proof.
  intros H a b. rewrite andb_true_iff, Nat.eqb_eq, forallb_Forall. split.
  - intros [Hl F]. apply (Forall_combine_Forall2 (fun x y => eqb x y = true)) in F; [|exact Hl].
    eapply Forall2_iff; [|exact F]. intros x y. symmetry. apply H.
  - intros F. pose proof (Forall2_length_eq _ _ _ F) as Hl. split; [exact Hl|].
    apply (Forall_combine_Forall2 (fun x y => eqb x y = true)); [exact Hl|].
    eapply Forall2_iff; [|exact F]. intros x y. apply H.
Qed.

Lemma and_iff_both (A B C D : Prop) : (A <-> B) -> (C <-> D) -> (A /\ C <-> B /\ D).
Proof. tauto. Qed.

