(* Polynomial reflection for C16: polynomial expressions [PExpr Z] in the variables
   x1, x2, ... evaluated in Q; equality of the [Ring_polynom] normal forms implies
   equality of the values for every environment (one application of [ring_correct],
   axiom free).  Also: reading a normal form as a list of monomials (wire output only). *)
From Coq Require Import ZArith QArith List Ring_polynom Ring_theory InitialRing Qfield Setoid.
Import ListNotations.

Definition pe := PExpr Z.

Definition normZ (e : pe) : Pol Z :=
  norm_subst 0%Z 1%Z Z.add Z.mul Z.sub Z.opp Zeq_bool Z.quotrem 0 nil e.
Definition peq (a b : pe) : bool := Peq Zeq_bool (normZ a) (normZ b).
Definition phiZ : Z -> Q := gen_phiZ 0%Q 1%Q Qplus Qmult Qopp.
Definition peval (l : list Q) (e : pe) : Q :=
  PEeval 0%Q 1%Q Qplus Qmult Qminus Qopp phiZ Z.of_N Qpower l e.

Lemma Qsth : Setoid_Theory Q Qeq.
Proof. constructor; [exact Qeq_refl | exact Qeq_sym | exact Qeq_trans]. Qed.
Lemma Qreqe : ring_eq_ext Qplus Qmult Qopp Qeq.
Proof. constructor; [exact Qplus_comp | exact Qmult_comp | exact Qopp_comp]. Qed.

Lemma peq_sound (a b : pe) : peq a b = true -> forall l, peval l a == peval l b.
Proof.
  intros H l.
  exact (ring_correct Qsth Qreqe (Rth_ARth Qsth Qreqe Qsrt) (gen_phiZ_morph Qsth Qreqe Qsrt)
    Qpower_theory (Ztriv_div_th Qsth phiZ) 0 l nil a b I H).
Qed.

(* ---- small constructors ---- *)
Definition pc (z : Z) : pe := PEc z.
Definition px (i : positive) : pe := PEX Z i.
Definition padd (a b : pe) : pe := PEadd a b.
Definition pmul (a b : pe) : pe := PEmul a b.
Definition psub (a b : pe) : pe := PEsub a b.
Definition ppow (a : pe) (n : N) : pe := PEpow a n.
Definition psum (l : list pe) : pe := fold_right padd (pc 0) l.
Definition pprod (l : list pe) : pe := fold_right pmul (pc 1) l.

(* ---- monomial lists: (coefficient, exponents of x1 x2 ...) ---- *)
Definition mono := (Z * list N)%type.

Definition bump (i : N) (e : list N) : list N :=
  match e with [] => [i] | a :: t => (a + i)%N :: t end.

Fixpoint pol_monos (p : Pol Z) : list mono :=
  match p with
  | Pc c => [(c, [])]
  | Pinj j q => map (fun m => (fst m, repeat 0%N (Pos.to_nat j) ++ snd m)) (pol_monos q)
  | PX a i q => map (fun m => (fst m, bump (Npos i) (snd m))) (pol_monos a)
                ++ map (fun m => (fst m, 0%N :: snd m)) (pol_monos q)
  end.

(* a monomial list back to an expression *)
Fixpoint mono_vars (i : positive) (e : list N) : list pe :=
  match e with
  | [] => []
  | a :: t => ppow (px i) a :: mono_vars (Pos.succ i) t
  end.
Definition mono_pe (m : mono) : pe := pmul (pc (fst m)) (pprod (mono_vars 1 (snd m))).
Definition monos_pe (l : list mono) : pe := psum (map mono_pe l).
