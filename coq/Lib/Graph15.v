(* Small-graph utilities for C15 / C17: list-sets of vertices, neighbours, reachability,
   connectivity, sublists / k-combinations, enumeration of all labelled graphs. Definitions only
   plus nothing else; facts are proved in Proofs/AutoEqP.v. *)
From Coq Require Import List Arith Bool.
Import ListNotations.

Definition memb (v : nat) (l : list nat) : bool := existsb (Nat.eqb v) l.
Definition addv (v : nat) (l : list nat) : list nat := if memb v l then l else l ++ [v].
Definition unionv (a b : list nat) : list nat := fold_left (fun acc v => addv v acc) b a.
Definition diffv (a b : list nat) : list nat := filter (fun v => negb (memb v b)) a.
Definition subsetb (a b : list nat) : bool := forallb (fun v => memb v b) a.
Definition same_setb (a b : list nat) : bool := subsetb a b && subsetb b a.

Fixpoint list_eqb (a b : list nat) : bool :=
  match a, b with
  | [], [] => true
  | x :: a', y :: b' => Nat.eqb x y && list_eqb a' b'
  | _, _ => false
  end.

Definition edge := (nat * nat)%type.

Definition adj (v : nat) (e : edge) : list nat :=
  if Nat.eqb (fst e) v then [snd e] else if Nat.eqb (snd e) v then [fst e] else [].
Definition nbrs (es : list edge) (v : nat) : list nat := flat_map (adj v) es.

(* closure of [seen] under adjacency: at most [fuel] rounds, stops as soon as a round adds nothing *)
Fixpoint reach (fuel : nat) (es : list edge) (seen : list nat) : list nat :=
  match fuel with
  | 0 => seen
  | S f => let seen' := fold_left (fun acc v => unionv acc (nbrs es v)) seen seen in
           if Nat.eqb (length seen') (length seen) then seen else reach f es seen'
  end.

(* component of [root] in the graph (nodes, es), listed in node order *)
Definition comp (nodes : list nat) (es : list edge) (root : nat) : list nat :=
  let r := reach (length nodes) es [root] in filter (fun v => memb v r) nodes.

(* networkx.is_connected on a non-null graph *)
Definition connectedb (nodes : list nat) (es : list edge) : bool :=
  match nodes with
  | [] => false
  | v :: _ => let r := reach (length nodes) es [v] in forallb (fun w => memb w r) nodes
  end.

(* all sublists (subsets, order kept) *)
Fixpoint sublists {A} (l : list A) : list (list A) :=
  match l with
  | [] => [[]]
  | x :: t => let r := sublists t in map (cons x) r ++ r
  end.

(* itertools.combinations(l, k), same order *)
Fixpoint combs {A} (k : nat) (l : list A) : list (list A) :=
  match k with
  | 0 => [[]]
  | S k' => match l with
            | [] => []
            | x :: t => map (cons x) (combs k' t) ++ combs (S k') t
            end
  end.

(* remove the edges of [t] (given as a sublist of es, same orientation) *)
Definition edge_eqb (a b : edge) : bool := Nat.eqb (fst a) (fst b) && Nat.eqb (snd a) (snd b).
Definition edge_mem (e : edge) (l : list edge) : bool := existsb (edge_eqb e) l.
Definition edges_minus (es t : list edge) : list edge := filter (fun e => negb (edge_mem e t)) es.

(* all pairs i<j on 0..k-1, all labelled graphs on exactly / at most n vertices *)
Definition all_pairs (k : nat) : list edge :=
  flat_map (fun i => map (fun j => (i, j)) (seq (S i) (k - S i))) (seq 0 k).
Definition graphs_on (k : nat) : list (list nat * list edge) :=
  map (fun es => (seq 0 k, es)) (sublists (all_pairs k)).
Definition graphs_upto (n : nat) : list (list nat * list edge) :=
  flat_map graphs_on (seq 0 (S n)).
