(* Connectivity on small labelled graphs (vertices = nat, edges = pairs) for C16:
   an executable [connectedb] (component labels merged edge by edge, structural, no fuel),
   its specification against paths, and the k-combinations / sublists enumerators. *)
From Coq Require Import List Arith Bool Lia PeanoNat.
Import ListNotations.

Definition edge := (nat * nat)%type.

(* ------------------------------------------------------------------ labels *)
Definition lab := list (nat * nat).   (* (vertex, component label) *)

Fixpoint lookup (l : lab) (v : nat) : option nat :=
  match l with
  | [] => None
  | (w, c) :: t => if Nat.eqb v w then Some c else lookup t v
  end.

Definition relabel (from to : nat) (l : lab) : lab :=
  map (fun p => (fst p, if Nat.eqb (snd p) from then to else snd p)) l.

Definition merge (l : lab) (e : edge) : lab :=
  match lookup l (fst e), lookup l (snd e) with
  | Some la, Some lb => relabel lb la l
  | _, _ => l
  end.

Definition labels (vs : list nat) (es : list edge) : lab :=
  fold_left merge es (map (fun v => (v, v)) vs).

Definition same_comp (l : lab) (x y : nat) : bool :=
  match lookup l x, lookup l y with
  | Some a, Some b => Nat.eqb a b
  | _, _ => false
  end.

(* networkx.is_connected on the graph (vs, es); the null graph is not connected
   (networkx raises there; the callers treat that case separately) *)
Definition connectedb (vs : list nat) (es : list edge) : bool :=
  match vs with
  | [] => false
  | r :: _ => let l := labels vs es in forallb (fun v => same_comp l r v) vs
  end.

(* ------------------------------------------------------------------ paths *)
Definition adj (es : list edge) (x y : nat) : Prop := In (x, y) es \/ In (y, x) es.

Inductive conn (es : list edge) : nat -> nat -> Prop :=
| conn_refl x : conn es x x
| conn_step x y z : adj es x y -> conn es y z -> conn es x z.

Definition Connected (vs : list nat) (es : list edge) : Prop :=
  vs <> [] /\ forall x y, In x vs -> In y vs -> conn es x y.

Definition edges_in (vs : list nat) (es : list edge) : Prop :=
  forall e, In e es -> In (fst e) vs /\ In (snd e) vs.

Lemma conn_trans es x y z : conn es x y -> conn es y z -> conn es x z.
Proof. induction 1; intros; eauto using conn. Qed.

Lemma adj_sym es x y : adj es x y -> adj es y x.
Proof. unfold adj; tauto. Qed.

Lemma conn_edge es x y : adj es x y -> conn es x y.
Proof. intros; eapply conn_step; eauto using conn. Qed.

Lemma conn_sym es x y : conn es x y -> conn es y x.
Proof.
  induction 1 as [|x y z Ha _ IH]; [constructor|].
  eapply conn_trans; [exact IH|]. apply conn_edge, adj_sym, Ha.
Qed.

Lemma conn_incl es es' x y : incl es es' -> conn es x y -> conn es' x y.
Proof.
  intros Hi; induction 1 as [|x y z Ha _ IH]; [constructor|].
  eapply conn_step; [|exact IH]. destruct Ha as [Ha|Ha]; [left|right]; apply Hi, Ha.
Qed.

Lemma conn_nil x y : conn [] x y -> x = y.
Proof. induction 1 as [|x y z Ha]; [reflexivity|]. destruct Ha as [[]|[]]. Qed.

(* adding one edge (p,q) *)
Lemma conn_add_edge es p q x y :
  conn ((p, q) :: es) x y <->
  conn es x y \/ (conn es x p /\ conn es q y) \/ (conn es x q /\ conn es p y).
Proof.
  split.
  - induction 1 as [x|x y z Ha _ IH].
    + left; constructor.
    + assert (Hcases : adj es x y \/ (x = p /\ y = q) \/ (x = q /\ y = p)).
      { destruct Ha as [[Ha|Ha]|[Ha|Ha]].
        - inversion Ha; subst; tauto.
        - left; left; exact Ha.
        - inversion Ha; subst; tauto.
        - left; right; exact Ha. }
      destruct Hcases as [Hadj|[[-> ->]|[-> ->]]].
      * destruct IH as [IH|[[IH1 IH2]|[IH1 IH2]]].
        -- left; eapply conn_step; eauto.
        -- right; left; split; [eapply conn_step; eauto | exact IH2].
        -- right; right; split; [eapply conn_step; eauto | exact IH2].
      * destruct IH as [IH|[[IH1 IH2]|[IH1 IH2]]].
        -- right; left; split; [constructor | exact IH].
        -- right; left; split; [constructor | exact IH2].
        -- left; exact IH2.
      * destruct IH as [IH|[[IH1 IH2]|[IH1 IH2]]].
        -- right; right; split; [constructor | exact IH].
        -- left; exact IH2.
        -- right; right; split; [constructor | exact IH2].
  - assert (Hi : incl es ((p, q) :: es)) by (intros e He; right; exact He).
    assert (Hpq : conn ((p, q) :: es) p q) by (apply conn_edge; left; left; reflexivity).
    intros [H|[[H1 H2]|[H1 H2]]].
    + eapply conn_incl; eauto.
    + eapply conn_trans; [eapply conn_incl; eauto|].
      eapply conn_trans; [exact Hpq|]. eapply conn_incl; eauto.
    + eapply conn_trans; [eapply conn_incl; eauto|].
      eapply conn_trans; [apply conn_sym, Hpq|]. eapply conn_incl; eauto.
Qed.

(* ------------------------------------------------------------------ labels: invariant *)
Lemma lookup_relabel f t l v :
  lookup (relabel f t l) v =
  match lookup l v with Some c => Some (if Nat.eqb c f then t else c) | None => None end.
Proof.
  induction l as [|[w c] l IH]; cbn; [reflexivity|].
  destruct (Nat.eqb v w); [reflexivity | exact IH].
Qed.

Lemma lookup_init vs v :
  lookup (map (fun v => (v, v)) vs) v = if existsb (Nat.eqb v) vs then Some v else None.
Proof.
  induction vs as [|w vs IH]; cbn; [reflexivity|].
  destruct (Nat.eqb v w) eqn:E; cbn; [apply Nat.eqb_eq in E; subst; reflexivity | exact IH].
Qed.

Lemma existsb_eqb_In v vs : existsb (Nat.eqb v) vs = true <-> In v vs.
Proof.
  rewrite existsb_exists. split.
  - intros [x [Hx E]]. apply Nat.eqb_eq in E. subst. exact Hx.
  - intros H. exists v. split; [exact H | apply Nat.eqb_refl].
Qed.

(* [l] labels exactly the vertices of vs, two labels agree iff joined by a path in es *)
Definition LInv (vs : list nat) (l : lab) (es : list edge) : Prop :=
  (forall v, In v vs <-> lookup l v <> None) /\
  (forall x y a b, lookup l x = Some a -> lookup l y = Some b -> (a = b <-> conn es x y)).

Lemma LInv_init vs : LInv vs (map (fun v => (v, v)) vs) [].
Proof.
  split.
  - intros v. rewrite lookup_init. destruct (existsb (Nat.eqb v) vs) eqn:E.
    + apply existsb_eqb_In in E. split; [discriminate | intros _; exact E].
    + split; [|intros H; contradiction H; reflexivity].
      intros H. apply existsb_eqb_In in H. congruence.
  - intros x y a b. rewrite !lookup_init.
    destruct (existsb (Nat.eqb x) vs); [|discriminate].
    destruct (existsb (Nat.eqb y) vs); [|discriminate].
    intros [= <-] [= <-]. split; [intros ->; constructor | apply conn_nil].
Qed.

Lemma LInv_merge vs l es e :
  In (fst e) vs -> In (snd e) vs -> LInv vs l es -> LInv vs (merge l e) (e :: es).
Proof.
  destruct e as [p q]. cbn [fst snd]. intros Hp Hq [Hdom Hrel].
  unfold merge. cbn [fst snd].
  destruct (lookup l p) as [la|] eqn:Ep; [|apply Hdom in Hp; congruence].
  destruct (lookup l q) as [lb|] eqn:Eq; [|apply Hdom in Hq; congruence].
  split.
  - intros v. rewrite lookup_relabel. rewrite Hdom.
    destruct (lookup l v); split; congruence.
  - intros x y a' b'. rewrite !lookup_relabel.
    destruct (lookup l x) as [a|] eqn:Ex; [|discriminate].
    destruct (lookup l y) as [b|] eqn:Ey; [|discriminate].
    intros [= <-] [= <-].
    rewrite conn_add_edge.
    rewrite <- (Hrel x y a b Ex Ey), <- (Hrel x p a la Ex Ep), <- (Hrel q y lb b Eq Ey),
            <- (Hrel x q a lb Ex Eq), <- (Hrel p y la b Ep Ey).
    destruct (Nat.eqb_spec a lb); destruct (Nat.eqb_spec b lb); lia.
Qed.

Lemma LInv_ext vs l es es' : incl es es' -> incl es' es -> LInv vs l es -> LInv vs l es'.
Proof.
  intros H1 H2 [Hd Hr]. split; [exact Hd|].
  intros x y a b Hx Hy. rewrite (Hr x y a b Hx Hy).
  split; apply conn_incl; assumption.
Qed.

Lemma LInv_fold vs es : forall l done,
  edges_in vs es -> LInv vs l done -> LInv vs (fold_left merge es l) (es ++ done).
Proof.
  induction es as [|e es IH]; intros l done Hin Hinv; [exact Hinv|].
  cbn [fold_left].
  assert (He : In (fst e) vs /\ In (snd e) vs) by (apply Hin; left; reflexivity).
  assert (Hin' : edges_in vs es) by (intros e' He'; apply Hin; right; exact He').
  pose proof (IH (merge l e) (e :: done) Hin' (LInv_merge vs l done e (proj1 He) (proj2 He) Hinv)) as H.
  eapply LInv_ext; [| |exact H].
  - intros x Hx. apply in_app_or in Hx. cbn. destruct Hx as [Hx|[Hx|Hx]]; auto.
    right. apply in_or_app. auto. right. apply in_or_app. auto.
  - intros x Hx. cbn in Hx. apply in_or_app. destruct Hx as [Hx|Hx]; [right; left; exact Hx|].
    apply in_app_or in Hx. destruct Hx; [left; assumption | right; right; assumption].
Qed.

Lemma labels_LInv vs es : edges_in vs es -> LInv vs (labels vs es) es.
Proof.
  intros H. unfold labels.
  pose proof (LInv_fold vs es _ [] H (LInv_init vs)) as H1.
  rewrite app_nil_r in H1. exact H1.
Qed.

Lemma same_comp_spec vs es x y :
  edges_in vs es -> In x vs -> In y vs ->
  (same_comp (labels vs es) x y = true <-> conn es x y).
Proof.
  intros He Hx Hy. destruct (labels_LInv vs es He) as [Hd Hr].
  unfold same_comp.
  destruct (lookup (labels vs es) x) as [a|] eqn:Ex; [|apply Hd in Hx; congruence].
  destruct (lookup (labels vs es) y) as [b|] eqn:Ey; [|apply Hd in Hy; congruence].
  rewrite Nat.eqb_eq. apply Hr; assumption.
Qed.

(* GENERAL: the executable connectivity test decides "every two vertices are joined by a path" *)
Theorem connectedb_spec vs es :
  edges_in vs es -> (connectedb vs es = true <-> Connected vs es).
Proof.
  intros He. unfold connectedb, Connected.
  destruct vs as [|r vs']; [split; [discriminate | intros [H _]; contradiction H; reflexivity]|].
  set (vs := r :: vs') in *.
  rewrite forallb_forall. split.
  - intros H. split; [discriminate|]. intros x y Hx Hy.
    assert (Hrx : conn es r x).
    { apply (same_comp_spec vs es r x He); [left; reflexivity | exact Hx | apply H, Hx]. }
    assert (Hry : conn es r y).
    { apply (same_comp_spec vs es r y He); [left; reflexivity | exact Hy | apply H, Hy]. }
    eapply conn_trans; [apply conn_sym, Hrx | exact Hry].
  - intros [_ H] x Hx.
    apply (same_comp_spec vs es r x He); [left; reflexivity | exact Hx|].
    apply H; [left; reflexivity | exact Hx].
Qed.

(* ------------------------------------------------------------------ combinations, sublists *)
Section Combs.
Context {A : Type}.

(* itertools.combinations(l, k): all k-element sublists, lexicographic by position *)
Fixpoint combs (k : nat) (l : list A) {struct l} : list (list A) :=
  match l with
  | [] => match k with O => [[]] | S _ => [] end
  | x :: t => match k with
              | O => [[]]
              | S k' => map (cons x) (combs k' t) ++ combs (S k') t
              end
  end.

(* all sublists (edge subsets) *)
Fixpoint subseqs (l : list A) : list (list A) :=
  match l with
  | [] => [[]]
  | x :: t => map (cons x) (subseqs t) ++ subseqs t
  end.

Inductive subl : list A -> list A -> Prop :=
| subl_nil : subl [] []
| subl_cons x s l : subl s l -> subl (x :: s) (x :: l)
| subl_skip x s l : subl s l -> subl s (x :: l).

Lemma subl_nil_l l : subl [] l.
Proof. induction l; constructor; assumption. Qed.

Lemma subl_incl s l : subl s l -> incl s l.
Proof.
  induction 1 as [|x s l _ IH|x s l _ IH]; intros a Ha.
  - exact Ha.
  - destruct Ha as [<-|Ha]; [left; reflexivity | right; apply IH, Ha].
  - right; apply IH, Ha.
Qed.

Lemma combs_0 l : combs 0 l = [[]].
Proof. destruct l; reflexivity. Qed.

Lemma combs_spec : forall l k s, In s (combs k l) <-> subl s l /\ length s = k.
Proof.
  induction l as [|x t IH]; intros k s.
  - destruct k; cbn.
    + split; [intros [<-|[]]; split; [constructor | reflexivity]|].
      intros [H _]. inversion H. left; reflexivity.
    + split; [intros [] | intros [H Hl]; inversion H; subst; discriminate].
  - destruct k.
    + cbn. split.
      * intros [<-|[]]. split; [apply subl_nil_l | reflexivity].
      * intros [_ Hl]. destruct s; [left; reflexivity | discriminate].
    + cbn [combs]. rewrite in_app_iff, in_map_iff. split.
      * intros [[s' [<- Hs']]|Hs].
        -- apply IH in Hs'. destruct Hs' as [H1 H2]. split; [constructor; exact H1 | cbn; congruence].
        -- apply IH in Hs. destruct Hs as [H1 H2]. split; [constructor; exact H1 | exact H2].
      * intros [H Hl]. inversion H; subst.
        -- left. exists s0. split; [reflexivity|]. apply IH. split; [assumption | cbn in Hl; congruence].
        -- right. apply IH. split; assumption.
Qed.

Lemma subseqs_spec : forall l s, In s (subseqs l) <-> subl s l.
Proof.
  induction l as [|x t IH]; intros s; cbn.
  - split; [intros [<-|[]]; constructor | intros H; inversion H; left; reflexivity].
  - rewrite in_app_iff, in_map_iff. split.
    + intros [[s' [<- Hs']]|Hs]; [apply subl_cons, IH, Hs' | apply subl_skip, IH, Hs].
    + intros H. inversion H; subst.
      * left. exists s0. split; [reflexivity | apply IH; assumption].
      * right. apply IH; assumption.
Qed.

Lemma NoDup_map_cons x (L : list (list A)) : NoDup L -> NoDup (map (cons x) L).
Proof.
  induction 1 as [|a L Hn _ IH]; cbn; constructor; [|exact IH].
  rewrite in_map_iff. intros [b [E Hb]]. inversion E; subst. contradiction.
Qed.

Lemma combs_NoDup : forall l k, NoDup l -> NoDup (combs k l).
Proof.
  induction l as [|x t IH]; intros k Hnd.
  - destruct k; cbn; constructor; [intros [] | constructor].
  - inversion Hnd as [|? ? Hx Ht]; subst. destruct k.
    + cbn. constructor; [intros [] | constructor].
    + cbn [combs].
      assert (Hdisj : forall s, In s (map (cons x) (combs k t)) -> ~ In s (combs (S k) t)).
      { intros s Hs Hs'. apply in_map_iff in Hs. destruct Hs as [s' [<- _]].
        apply combs_spec in Hs'. destruct Hs' as [Hs' _]. apply subl_incl in Hs'.
        apply Hx, Hs'. left; reflexivity. }
      revert Hdisj. generalize (NoDup_map_cons x _ (IH k Ht)). generalize (IH (S k) Ht).
      generalize (combs (S k) t) as R. generalize (map (cons x) (combs k t)) as Lf.
      induction Lf as [|a Lf IHl]; intros R HR HL Hd; cbn; [exact HR|].
      inversion HL; subst. constructor.
      * rewrite in_app_iff. intros [H|H]; [contradiction|]. apply (Hd a); [left; reflexivity | exact H].
      * apply IHl; [exact HR | assumption | intros s Hs; apply Hd; right; exact Hs].
Qed.

End Combs.

(* ------------------------------------------------------------------ small list facts *)
Lemma NoDup_app_intro {A} (a b : list A) :
  NoDup a -> NoDup b -> (forall x, In x a -> ~ In x b) -> NoDup (a ++ b).
Proof.
  induction a as [|x a IH]; intros Ha Hb Hd; cbn; [exact Hb|].
  inversion Ha; subst. constructor.
  - rewrite in_app_iff. intros [H|H]; [contradiction|]. apply (Hd x); [left; reflexivity | exact H].
  - apply IH; [assumption | exact Hb | intros y Hy; apply Hd; right; exact Hy].
Qed.

Lemma subl_length {A} (s l : list A) : subl s l -> length s <= length l.
Proof. induction 1; cbn; lia. Qed.

Lemma combs_too_many {A} : forall (l : list A) k, length l < k -> combs k l = [].
Proof.
  induction l as [|x t IH]; intros k Hk; destruct k; cbn in *; try lia; [reflexivity|].
  rewrite (IH k), (IH (S k)) by lia. reflexivity.
Qed.
