(* Small executable graph vocabulary used by the MPCC model (Model/Mpcc.v):
   undirected edges over [nat] vertices as unordered pairs, adjacency in an edge list,
   removal, the pairs of a vertex list (itertools.combinations(c, 2)), and a brute-force
   enumeration of ALL cliques (the model of nx.enumerate_all_cliques, as a set of sets).
   Definitions only; the lemmas live in Proofs/MpccP.v. *)
From Coq Require Import List Arith Bool.
Import ListNotations.

Definition edge := (nat * nat)%type.

(* equality of undirected edges *)
Definition eqe (a b : edge) : bool :=
  (Nat.eqb (fst a) (fst b) && Nat.eqb (snd a) (snd b)) ||
  (Nat.eqb (fst a) (snd b) && Nat.eqb (snd a) (fst b)).

(* has_edge *)
Definition adj (es : list edge) (u v : nat) : bool := existsb (eqe (u, v)) es.

(* remove_edges_from: absent edges are ignored, as networkx does *)
Definition del_edge (es : list edge) (e : edge) : list edge :=
  filter (fun x => negb (eqe e x)) es.
Definition del_edges (es ds : list edge) : list edge := fold_left del_edge ds es.

(* itertools.combinations(c, 2), in itertools' order *)
Fixpoint pairs (c : list nat) : list edge :=
  match c with
  | [] => []
  | x :: t => map (pair x) t ++ pairs t
  end.

Definition memb (x : nat) (l : list nat) : bool := existsb (Nat.eqb x) l.

Fixpoint nodupb (l : list nat) : bool :=
  match l with
  | [] => true
  | x :: t => negb (memb x t) && nodupb t
  end.

(* u, v are two distinct members of c: {u,v} is one of the pairs of c *)
Definition inpairb (c : list nat) (u v : nat) : bool :=
  memb u c && memb v c && negb (Nat.eqb u v).

Definition set_eqb (a b : list nat) : bool :=
  forallb (fun x => memb x b) a && forallb (fun x => memb x a) b.

Record graph := mk_graph { g_nodes : list nat; g_edges : list edge }.

(* loop-free and no undirected edge listed twice *)
Fixpoint simpleb (es : list edge) : bool :=
  match es with
  | [] => true
  | e :: t => negb (Nat.eqb (fst e) (snd e)) && negb (existsb (eqe e) t) && simpleb t
  end.

Definition valid_graph (g : graph) : bool :=
  nodupb (g_nodes g) && simpleb (g_edges g) &&
  forallb (fun e => memb (fst e) (g_nodes g) && memb (snd e) (g_nodes g)) (g_edges g).

(* c is (the member list of) a clique of g: distinct vertices of g, pairwise adjacent *)
Definition is_cliqueb (g : graph) (c : list nat) : bool :=
  nodupb c && forallb (fun v => memb v (g_nodes g)) c &&
  forallb (fun e => adj (g_edges g) (fst e) (snd e)) (pairs c).

(* every clique on the vertex list vs (the empty one included), each listed in vs order *)
Fixpoint cliques_on (es : list edge) (vs : list nat) : list (list nat) :=
  match vs with
  | [] => [[]]
  | v :: t =>
      let cs := cliques_on es t in
      map (cons v) (filter (fun c => forallb (adj es v) c) cs) ++ cs
  end.

Definition nonemptyb (c : list nat) : bool := negb (Nat.eqb (length c) 0).

Definition all_cliques (g : graph) : list (list nat) :=
  filter nonemptyb (cliques_on (g_edges g) (g_nodes g)).
