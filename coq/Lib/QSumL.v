(* Finite sums / products over Q and Z used by the loaders unit (C05, C06, C08):
   definitions and generic lemmas (no model-specific content). *)
From Coq Require Import List ZArith QArith Lia Setoid Morphisms.
Import ListNotations.

Definition qsum (l : list Q) : Q := fold_right Qplus 0%Q l.
Definition qprod (l : list Q) : Q := fold_right Qmult 1%Q l.
Definition zsum (l : list Z) : Z := fold_right Z.add 0%Z l.

(* ---------- zsum ---------- *)
Lemma zsum_app a b : zsum (a ++ b) = (zsum a + zsum b)%Z.
Proof. induction a as [|x a IH]; cbn [zsum fold_right app]; [reflexivity|]. fold (zsum (a ++ b)). fold (zsum a). lia. Qed.

Lemma zsum_cons x a : zsum (x :: a) = (x + zsum a)%Z.
Proof. reflexivity. Qed.

Lemma zsum_nonneg l : Forall (fun x => 0 <= x)%Z l -> (0 <= zsum l)%Z.
Proof.
  induction 1 as [|x l Hx _ IH]; [cbn; lia|]. rewrite zsum_cons. lia.
Qed.

Lemma zsum_map_add {A} (f g : A -> Z) l :
  zsum (map (fun x => f x + g x)%Z l) = (zsum (map f l) + zsum (map g l))%Z.
Proof.
  induction l as [|x l IH]; [reflexivity|]. cbn [map]. rewrite !zsum_cons, IH. lia.
Qed.

Lemma zsum_map_ext {A} (f g : A -> Z) l :
  (forall x, In x l -> f x = g x) -> zsum (map f l) = zsum (map g l).
Proof.
  induction l as [|x l IH]; intros H; [reflexivity|]. cbn [map]. rewrite !zsum_cons.
  rewrite (H x (or_introl eq_refl)), IH; [reflexivity|]. intros y Hy. apply H. right. exact Hy.
Qed.

Lemma zsum_map_const0 {A} (l : list A) : zsum (map (fun _ => 0%Z) l) = 0%Z.
Proof. induction l as [|x l IH]; [reflexivity|]. cbn [map]. rewrite zsum_cons, IH. reflexivity. Qed.

(* ---------- qsum ---------- *)
Lemma qsum_cons x l : qsum (x :: l) = (x + qsum l)%Q.
Proof. reflexivity. Qed.

Lemma qsum_app a b : (qsum (a ++ b) == qsum a + qsum b)%Q.
Proof.
  induction a as [|x a IH]; cbn [app].
  - cbn. ring.
  - rewrite !qsum_cons, IH. ring.
Qed.

Lemma qsum_nonneg l : Forall (fun x => 0 <= x)%Q l -> (0 <= qsum l)%Q.
Proof.
  induction 1 as [|x l Hx _ IH]; [cbn; apply Qle_refl|]. rewrite qsum_cons.
  setoid_replace 0%Q with (0 + 0)%Q by ring. apply Qplus_le_compat; assumption.
Qed.

Lemma qsum_map_scale {A} (f : A -> Q) c l :
  (qsum (map (fun x => f x * c) l) == qsum (map f l) * c)%Q.
Proof.
  induction l as [|x l IH]; cbn [map]; [cbn; ring|]. rewrite !qsum_cons, IH. ring.
Qed.

Lemma qsum_map_scale_l {A} (f : A -> Q) c l :
  (qsum (map (fun x => c * f x) l) == c * qsum (map f l))%Q.
Proof.
  induction l as [|x l IH]; cbn [map]; [cbn; ring|]. rewrite !qsum_cons, IH. ring.
Qed.

Lemma qsum_map_div {A} (f : A -> Q) c l :
  (qsum (map (fun x => f x / c) l) == qsum (map f l) / c)%Q.
Proof. unfold Qdiv. apply qsum_map_scale. Qed.

Lemma qsum_map_ext {A} (f g : A -> Q) l :
  (forall x, In x l -> f x == g x)%Q -> (qsum (map f l) == qsum (map g l))%Q.
Proof.
  induction l as [|x l IH]; intros H; [reflexivity|]. cbn [map]. rewrite !qsum_cons.
  rewrite (H x (or_introl eq_refl)), IH; [reflexivity|]. intros y Hy. apply H. right. exact Hy.
Qed.

Lemma qsum_flat_map {A} (f : A -> list Q) l :
  (qsum (flat_map f l) == qsum (map (fun x => qsum (f x)) l))%Q.
Proof.
  induction l as [|x l IH]; [reflexivity|]. cbn [flat_map map]. rewrite qsum_app, qsum_cons, IH. reflexivity.
Qed.

Lemma qsum_map_inject (l : list Z) : (qsum (map inject_Z l) == inject_Z (zsum l))%Q.
Proof.
  induction l as [|x l IH]; [reflexivity|]. cbn [map]. rewrite qsum_cons, zsum_cons, IH, inject_Z_plus. reflexivity.
Qed.

(* ---------- qprod ---------- *)
Lemma qprod_cons x l : qprod (x :: l) = (x * qprod l)%Q.
Proof. reflexivity. Qed.

Lemma qprod_nonneg l : Forall (fun x => 0 <= x)%Q l -> (0 <= qprod l)%Q.
Proof.
  induction 1 as [|x l Hx _ IH]; [cbn; discriminate|]. rewrite qprod_cons. apply Qmult_le_0_compat; assumption.
Qed.
