(* Finite sums over Q and Python-dict-like association lists keyed by integer tuples
   (used by Model/Mixing.v and Model/Algebra.v).  Definitions first, then lemmas. *)
From Coq Require Import List ZArith QArith Qabs Bool Lia Permutation Setoid Morphisms.
Import ListNotations.
Local Open Scope Q_scope.

(* ------------------------------------------------------------------ keys *)
Definition key := list Z.

Fixpoint keqb (a b : key) : bool :=
  match a, b with
  | [], [] => true
  | x :: a', y :: b' => Z.eqb x y && keqb a' b'
  | _, _ => false
  end.

Definition kmem (k : key) (l : list key) : bool := existsb (keqb k) l.

(* first occurrences, in order: what [list(dict.fromkeys(l))] / a set holds *)
Fixpoint kdedup_acc (seen : list key) (l : list key) : list key :=
  match l with
  | [] => []
  | k :: t => if kmem k seen then kdedup_acc seen t else k :: kdedup_acc (k :: seen) t
  end.
Definition kdedup (l : list key) : list key := kdedup_acc [] l.

Fixpoint knodupb (l : list key) : bool :=
  match l with [] => true | k :: t => negb (kmem k t) && knodupb t end.

(* ------------------------------------------------------------------ sums *)
Definition qsum (l : list Q) : Q := fold_right Qplus 0 l.
Definition b2q (b : bool) : Q := if b then 1 else 0.

(* ------------------------------------------------------------------ dicts *)
Definition dict := list (key * Q).

Fixpoint dget (m : dict) (k : key) : option Q :=
  match m with
  | [] => None
  | (k', v) :: m' => if keqb k k' then Some v else dget m' k
  end.
Definition dgetq (m : dict) (k : key) : Q := match dget m k with Some q => q | None => 0 end.
Definition dmem (m : dict) (k : key) : bool := match dget m k with Some _ => true | None => false end.
Definition dkeys (m : dict) : list key := map fst m.
Definition dvals (m : dict) : list Q := map snd m.

(* m[k] = m.get(k, 0) + q   (values kept reduced so that extracted numbers stay small) *)
Fixpoint dadd (m : dict) (k : key) (q : Q) : dict :=
  match m with
  | [] => [(k, Qred q)]
  | (k', v) :: m' => if keqb k k' then (k', Qred (v + q)) :: m' else (k', v) :: dadd m' k q
  end.

(* m[k] = q  (an existing key keeps its position, a new one is appended) *)
Fixpoint dset (m : dict) (k : key) (q : Q) : dict :=
  match m with
  | [] => [(k, q)]
  | (k', v) :: m' => if keqb k k' then (k', q) :: m' else (k', v) :: dset m' k q
  end.

Definition dacc (m : dict) (l : list (key * Q)) : dict :=
  fold_left (fun m kq => dadd m (fst kq) (snd kq)) l m.
Definition dupdate (m m2 : dict) : dict :=
  fold_left (fun m kq => dset m (fst kq) (snd kq)) m2 m.
Definition dmapv (f : Q -> Q) (m : dict) : dict := map (fun kv => (fst kv, f (snd kv))) m.

(* approximate equality of an observed dict with a specification dict *)
Definition qcloseb (eps x y : Q) : bool := Qle_bool (Qabs (x - y)) eps.
Definition dict_closeb (eps : Q) (obs spec : dict) : bool :=
  Qle_bool 0 eps
  && knodupb (dkeys obs)
  && forallb (fun k => dmem spec k) (dkeys obs)
  && forallb (fun k => dmem obs k) (dkeys spec)
  && forallb (fun k => qcloseb eps (dgetq obs k) (dgetq spec k)) (dkeys obs).

Definition dict_close (eps : Q) (obs spec : dict) : Prop :=
  0 <= eps /\
  NoDup (dkeys obs) /\
  (forall k, In k (dkeys obs) <-> In k (dkeys spec)) /\
  (forall k, Qabs (dgetq obs k - dgetq spec k) <= eps).
