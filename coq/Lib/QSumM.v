(* Finite sums over Q and Python-dict-like association lists keyed by integer tuples
   (used by Model/Mixing.v and Model/Algebra.v).  Definitions first, then lemmas. *)
From Coq Require Import List ZArith QArith Qabs Bool Lia Permutation Setoid Morphisms.
Import ListNotations.
Local Open Scope Q_scope.

(* ------------------------------------------------------------------ keys *)
Definition key := list Z.

Fixpoint keqb (a b : key) : bool :=
  match a, b with
  | [], [] => true
  | x :: a', y :: b' => Z.eqb x y && keqb a' b'
  | _, _ => false
  end.

Definition kmem (k : key) (l : list key) : bool := existsb (keqb k) l.

(* first occurrences, in order: what [list(dict.fromkeys(l))] / a set holds *)
Fixpoint kdedup_acc (seen : list key) (l : list key) : list key :=
  match l with
  | [] => []
  | k :: t => if kmem k seen then kdedup_acc seen t else k :: kdedup_acc (k :: seen) t
  end.
Definition kdedup (l : list key) : list key := kdedup_acc [] l.

Fixpoint knodupb (l : list key) : bool :=
  match l with [] => true | k :: t => negb (kmem k t) && knodupb t end.

(* ------------------------------------------------------------------ sums *)
Fixpoint qsum (l : list Q) : Q := match l with [] => 0 | x :: t => x + qsum t end.
Definition b2q (b : bool) : Q := if b then 1 else 0.

(* ------------------------------------------------------------------ dicts *)
Definition dict := list (key * Q).

Fixpoint dget (m : dict) (k : key) : option Q :=
  match m with
  | [] => None
  | (k', v) :: m' => if keqb k k' then Some v else dget m' k
  end.
Definition dgetq (m : dict) (k : key) : Q := match dget m k with Some q => q | None => 0 end.
Definition dmem (m : dict) (k : key) : bool := match dget m k with Some _ => true | None => false end.
Definition dkeys (m : dict) : list key := map fst m.
Definition dvals (m : dict) : list Q := map snd m.

(* m[k] = m.get(k, 0) + q   (values kept reduced so that extracted numbers stay small) *)
Fixpoint dadd (m : dict) (k : key) (q : Q) : dict :=
  match m with
  | [] => [(k, Qred q)]
  | (k', v) :: m' => if keqb k k' then (k', Qred (v + q)) :: m' else (k', v) :: dadd m' k q
  end.

(* m[k] = q  (an existing key keeps its position, a new one is appended) *)
Fixpoint dset (m : dict) (k : key) (q : Q) : dict :=
  match m with
  | [] => [(k, q)]
  | (k', v) :: m' => if keqb k k' then (k', q) :: m' else (k', v) :: dset m' k q
  end.

Definition dacc (m : dict) (l : list (key * Q)) : dict :=
  fold_left (fun m kq => dadd m (fst kq) (snd kq)) l m.
Definition dupdate (m m2 : dict) : dict :=
  fold_left (fun m kq => dset m (fst kq) (snd kq)) m2 m.
Definition dmapv (f : Q -> Q) (m : dict) : dict := map (fun kv => (fst kv, f (snd kv))) m.

(* approximate equality of an observed dict with a specification dict *)
Definition qcloseb (eps x y : Q) : bool := Qle_bool (Qabs (x - y)) eps.
Definition dict_closeb (eps : Q) (obs spec : dict) : bool :=
  Qle_bool 0 eps
  && knodupb (dkeys obs)
  && forallb (fun k => dmem spec k) (dkeys obs)
  && forallb (fun k => dmem obs k) (dkeys spec)
  && forallb (fun k => qcloseb eps (dgetq obs k) (dgetq spec k)) (dkeys obs).

Definition dict_close (eps : Q) (obs spec : dict) : Prop :=
  0 <= eps /\
  NoDup (dkeys obs) /\
  (forall k, In k (dkeys obs) <-> In k (dkeys spec)) /\
  (forall k, Qabs (dgetq obs k - dgetq spec k) <= eps).

(* ================================================================== lemmas *)

(* ---------- keys ---------- *)
Lemma keqb_eq a b : keqb a b = true <-> a = b.
Proof.
  revert b. induction a as [|x a IH]; intros [|y b]; cbn; split; intros H; try reflexivity; try discriminate.
  - apply andb_true_iff in H. destruct H as [H1 H2]. apply Z.eqb_eq in H1. apply IH in H2. congruence.
  - injection H as -> ->. rewrite Z.eqb_refl. cbn. apply IH. reflexivity.
Qed.

Lemma keqb_refl a : keqb a a = true.
Proof. apply keqb_eq. reflexivity. Qed.

Lemma keqb_neq a b : keqb a b = false <-> a <> b.
Proof.
  split.
  - intros H E. apply keqb_eq in E. congruence.
  - intros H. destruct (keqb a b) eqn:E; [|reflexivity]. apply keqb_eq in E. contradiction.
Qed.

Lemma keqb_sym a b : keqb a b = keqb b a.
Proof.
  destruct (keqb a b) eqn:E.
  - apply keqb_eq in E. subst. symmetry. apply keqb_refl.
  - symmetry. apply keqb_neq. apply keqb_neq in E. congruence.
Qed.

Lemma keqb_spec a b : reflect (a = b) (keqb a b).
Proof. destruct (keqb a b) eqn:E; constructor; [apply keqb_eq|apply keqb_neq]; exact E. Qed.

Lemma kmem_In k l : kmem k l = true <-> In k l.
Proof.
  unfold kmem. rewrite existsb_exists. split.
  - intros [x [Hx E]]. apply keqb_eq in E. subst. exact Hx.
  - intros H. exists k. split; [exact H|apply keqb_refl].
Qed.

Lemma kmem_false k l : kmem k l = false <-> ~ In k l.
Proof.
  split.
  - intros H HI. apply kmem_In in HI. congruence.
  - intros H. destruct (kmem k l) eqn:E; [|reflexivity]. apply kmem_In in E. contradiction.
Qed.

Lemma knodupb_NoDup l : knodupb l = true <-> NoDup l.
Proof.
  induction l as [|k t IH]; cbn.
  - split; [constructor|reflexivity].
  - rewrite andb_true_iff, negb_true_iff, kmem_false, IH. split.
    + intros [H1 H2]. constructor; assumption.
    + intros H. inversion H; subst. split; assumption.
Qed.

Lemma kdedup_acc_In seen l k : In k (kdedup_acc seen l) <-> In k l /\ ~ In k seen.
Proof.
  revert seen. induction l as [|x t IH]; intros seen; cbn.
  - tauto.
  - destruct (kmem x seen) eqn:E.
    + apply kmem_In in E. rewrite IH. split.
      * intros [H1 H2]. tauto.
      * intros [[->|H1] H2]; [contradiction|tauto].
    + apply kmem_false in E. cbn. rewrite IH. cbn. split.
      * intros [->|[H1 H2]]; [tauto|]. split; [tauto|]. intros H. apply H2. right. exact H.
      * intros [[->|H1] H2]; [left; reflexivity|].
        destruct (keqb_spec x k) as [->|Hne]; [left; reflexivity|]. right. split; [exact H1|].
        intros [H|H]; [contradiction|contradiction].
Qed.

Lemma kdedup_In l k : In k (kdedup l) <-> In k l.
Proof. unfold kdedup. rewrite kdedup_acc_In. cbn. tauto. Qed.

Lemma kdedup_acc_NoDup seen l : NoDup (kdedup_acc seen l).
Proof.
  revert seen. induction l as [|x t IH]; intros seen; cbn; [constructor|].
  destruct (kmem x seen) eqn:E; [apply IH|].
  constructor; [|apply IH]. rewrite kdedup_acc_In. cbn. tauto.
Qed.

Lemma kdedup_NoDup l : NoDup (kdedup l).
Proof. apply kdedup_acc_NoDup. Qed.

(* ---------- sums ---------- *)
Local Ltac sq := cbn [qsum fold_right app map filter flat_map b2q andb].
Lemma qsum_app l1 l2 : qsum (l1 ++ l2) == qsum l1 + qsum l2.
Proof.
  induction l1 as [|x t IH]; sq; [ring|]. rewrite IH. ring.
Qed.

Lemma qsum_map_ext {A} (f g : A -> Q) l :
  (forall x, In x l -> f x == g x) -> qsum (map f l) == qsum (map g l).
Proof.
  induction l as [|x t IH]; intros H; sq; [reflexivity|].
  rewrite H by (left; reflexivity). rewrite IH; [reflexivity|]. intros y Hy. apply H. right. exact Hy.
Qed.

Lemma qsum_map_scale {A} (f : A -> Q) c l : qsum (map (fun x => c * f x) l) == c * qsum (map f l).
Proof. induction l as [|x t IH]; sq; [ring|]. rewrite IH. ring. Qed.

Lemma qsum_map_scale_r {A} (f : A -> Q) c l : qsum (map (fun x => f x * c) l) == qsum (map f l) * c.
Proof. induction l as [|x t IH]; sq; [ring|]. rewrite IH. ring. Qed.

Lemma qsum_map_div {A} (f : A -> Q) c l : qsum (map (fun x => f x / c) l) == qsum (map f l) / c.
Proof. unfold Qdiv. apply qsum_map_scale_r. Qed.

Lemma qsum_map_plus {A} (f g : A -> Q) l :
  qsum (map (fun x => f x + g x) l) == qsum (map f l) + qsum (map g l).
Proof. induction l as [|x t IH]; sq; [ring|]. rewrite IH. ring. Qed.

Lemma qsum_map_zero {A} (f : A -> Q) l : (forall x, In x l -> f x == 0) -> qsum (map f l) == 0.
Proof.
  induction l as [|x t IH]; intros H; sq; [reflexivity|].
  rewrite H by (left; reflexivity). rewrite IH; [ring|]. intros y Hy. apply H. right. exact Hy.
Qed.

Lemma qsum_flat_map {A} (f : A -> list Q) l : qsum (flat_map f l) == qsum (map (fun x => qsum (f x)) l).
Proof. induction l as [|x t IH]; sq; [reflexivity|]. rewrite qsum_app, IH. reflexivity. Qed.

Lemma qsum_nonneg l : (forall x, In x l -> 0 <= x) -> 0 <= qsum l.
Proof.
  induction l as [|x t IH]; intros H; sq; [apply Qle_refl|].
  assert (0 <= x) by (apply H; left; reflexivity).
  assert (0 <= qsum t) by (apply IH; intros y Hy; apply H; right; exact Hy).
  replace 0 with (0 + 0) by reflexivity. apply Qplus_le_compat; assumption.
Qed.

(* sum over the elements satisfying p = sum of the masked terms *)
Lemma qsum_filter {A} (p : A -> bool) (f : A -> Q) l :
  qsum (map f (filter p l)) == qsum (map (fun x => b2q (p x) * f x) l).
Proof.
  induction l as [|x t IH]; sq; [reflexivity|].
  destruct (p x); sq; rewrite IH; ring.
Qed.

(* exchanging two finite sums *)
Lemma qsum_exchange {A B} (f : A -> B -> Q) la lb :
  qsum (map (fun a => qsum (map (fun b => f a b) lb)) la)
  == qsum (map (fun b => qsum (map (fun a => f a b) la)) lb).
Proof.
  induction la as [|a ta IH]; sq.
  - symmetry. apply qsum_map_zero. intros; reflexivity.
  - rewrite IH. rewrite <- qsum_map_plus. reflexivity.
Qed.

Lemma b2q_and a b : b2q (a && b) == b2q a * b2q b.
Proof. destruct a, b; sq; ring. Qed.

(* an indicator sum over a duplicate-free list counts membership *)
Lemma qsum_indicator (k : key) l : NoDup l -> qsum (map (fun x => b2q (keqb x k)) l) == b2q (kmem k l).
Proof.
  induction l as [|x t IH]; intros Hnd; [reflexivity|].
  cbn [map qsum kmem existsb]. fold (kmem k t).
  inversion Hnd as [|? ? Hnin Hnd']; subst. rewrite IH by exact Hnd'.
  rewrite (keqb_sym k x). destruct (keqb_spec x k) as [->|Hne]; cbn [b2q orb].
  - apply kmem_false in Hnin. rewrite Hnin. cbn [b2q]. ring.
  - ring.
Qed.

Lemma qsum_perm l1 l2 : Permutation l1 l2 -> qsum l1 == qsum l2.
Proof.
  induction 1; sq; try reflexivity.
  - rewrite IHPermutation. reflexivity.
  - ring.
  - rewrite IHPermutation1. exact IHPermutation2.
Qed.

Lemma qsum_map_perm {A} (f : A -> Q) l1 l2 : Permutation l1 l2 -> qsum (map f l1) == qsum (map f l2).
Proof. intros H. apply qsum_perm. apply Permutation_map. exact H. Qed.

Lemma qsum_pointwise l1 l2 : Forall2 Qeq l1 l2 -> qsum l1 == qsum l2.
Proof. induction 1; sq; [reflexivity|]. rewrite H, IHForall2. reflexivity. Qed.

(* ---------- dicts ---------- *)
Definition msum (p : key -> bool) (m : list (key * Q)) : Q :=
  qsum (map snd (filter (fun kv => p (fst kv)) m)).

Lemma msum_cons p k v m : msum p ((k, v) :: m) == b2q (p k) * v + msum p m.
Proof. unfold msum. cbn [filter fst]. destruct (p k); cbn [map qsum snd b2q]; ring. Qed.

Lemma msum_nil p : msum p [] == 0.
Proof. reflexivity. Qed.

Lemma msum_app p m1 m2 : msum p (m1 ++ m2) == msum p m1 + msum p m2.
Proof. unfold msum. rewrite filter_app, map_app, qsum_app. reflexivity. Qed.

Lemma msum_true m : msum (fun _ => true) m == qsum (dvals m).
Proof.
  unfold msum, dvals. induction m as [|[k v] m IH]; [reflexivity|]. cbn [filter map qsum snd]. rewrite IH. reflexivity.
Qed.

Lemma msum_flat_map {A} p (f : A -> list (key * Q)) l :
  msum p (flat_map f l) == qsum (map (fun x => msum p (f x)) l).
Proof.
  induction l as [|x t IH]; [reflexivity|]. cbn [flat_map map qsum]. rewrite msum_app, IH. reflexivity.
Qed.

Lemma dget_None m k : dget m k = None <-> ~ In k (dkeys m).
Proof.
  induction m as [|[k' v] m IH]; cbn; [tauto|].
  destruct (keqb_spec k k') as [->|Hne].
  - split; [discriminate|]. intros H. exfalso. apply H. left. reflexivity.
  - rewrite IH. split; [intros H [E|HI]; [congruence|contradiction]|tauto].
Qed.

Lemma dmem_In m k : dmem m k = true <-> In k (dkeys m).
Proof.
  unfold dmem. destruct (dget m k) eqn:E.
  - split; [intros _|reflexivity]. destruct (in_dec (list_eq_dec Z.eq_dec) k (dkeys m)) as [H|H]; [exact H|].
    apply dget_None in H. congruence.
  - apply dget_None in E. split; [discriminate|contradiction].
Qed.

Lemma dmem_false m k : dmem m k = false <-> ~ In k (dkeys m).
Proof.
  split.
  - intros H HI. apply dmem_In in HI. congruence.
  - intros H. destruct (dmem m k) eqn:E; [|reflexivity]. apply dmem_In in E. contradiction.
Qed.

Lemma dgetq_notin m k : ~ In k (dkeys m) -> dgetq m k = 0.
Proof. intros H. apply dget_None in H. unfold dgetq. rewrite H. reflexivity. Qed.

Lemma dget_In m k v : dget m k = Some v -> In (k, v) m.
Proof.
  induction m as [|[k' v'] m IH]; cbn; [discriminate|].
  destruct (keqb_spec k k') as [->|Hne].
  - intros [= ->]. left. reflexivity.
  - intros H. right. apply IH. exact H.
Qed.

Lemma In_dget m k v : NoDup (dkeys m) -> In (k, v) m -> dget m k = Some v.
Proof.
  induction m as [|[k' v'] m IH]; cbn; intros Hnd HI; [contradiction|].
  inversion Hnd as [|? ? Hnin Hnd']; subst.
  destruct HI as [E|HI].
  - injection E as -> ->. rewrite keqb_refl. reflexivity.
  - destruct (keqb_spec k k') as [->|Hne].
    + exfalso. apply Hnin. apply (in_map fst) in HI. exact HI.
    + apply IH; assumption.
Qed.

Lemma msum_notin m k : ~ In k (dkeys m) -> msum (fun x => keqb x k) m == 0.
Proof.
  induction m as [|[k' v] m IH]; intros H; [reflexivity|].
  rewrite msum_cons. cbn in H. destruct (keqb_spec k' k) as [->|Hne].
  - exfalso. apply H. left. reflexivity.
  - rewrite IH by tauto. cbn [b2q]. ring.
Qed.

Lemma dgetq_msum m k : NoDup (dkeys m) -> dgetq m k == msum (fun x => keqb x k) m.
Proof.
  induction m as [|[k' v] m IH]; intros Hnd; [reflexivity|].
  inversion Hnd as [|? ? Hnin Hnd']; subst.
  rewrite msum_cons. unfold dgetq. cbn [dget]. rewrite (keqb_sym k k').
  destruct (keqb_spec k' k) as [->|Hne].
  - rewrite msum_notin by exact Hnin. cbn [b2q]. ring.
  - fold (dgetq m k). rewrite IH by exact Hnd'. cbn [b2q]. ring.
Qed.

(* dadd *)
Lemma dadd_keys m k q k' : In k' (dkeys (dadd m k q)) <-> In k' (dkeys m) \/ k' = k.
Proof.
  induction m as [|[k0 v] m IH]; cbn.
  - split; [intros [H|H]; [right; congruence|destruct H]|intros [H| ->]; [destruct H|left; reflexivity]].
  - destruct (keqb_spec k k0) as [->|Hne]; cbn.
    + split; [tauto|]. intros [H| ->]; [exact H|left; reflexivity].
    + unfold dkeys in IH. rewrite IH. tauto.
Qed.

Lemma dadd_NoDup m k q : NoDup (dkeys m) -> NoDup (dkeys (dadd m k q)).
Proof.
  induction m as [|[k0 v] m IH]; cbn; intros Hnd.
  - constructor; [intros []|constructor].
  - inversion Hnd as [|? ? Hnin Hnd']; subst.
    destruct (keqb_spec k k0) as [->|Hne]; cbn.
    + constructor; assumption.
    + constructor; [|apply IH; exact Hnd'].
      intros H. apply (dadd_keys m k q k0) in H. destruct H as [H|H]; [contradiction|congruence].
Qed.

Lemma dadd_msum p m k q : msum p (dadd m k q) == msum p m + b2q (p k) * q.
Proof.
  induction m as [|[k0 v] m IH]; cbn [dadd].
  - rewrite msum_cons, msum_nil, Qred_correct. ring.
  - destruct (keqb_spec k k0) as [->|Hne].
    + rewrite !msum_cons, Qred_correct. ring.
    + rewrite !msum_cons, IH. ring.
Qed.

Lemma dacc_keys l m k : In k (dkeys (dacc m l)) <-> In k (dkeys m) \/ In k (map fst l).
Proof.
  revert m. induction l as [|[k0 q] l IH]; intros m; cbn [dacc fold_left map fst snd].
  - cbn. tauto.
  - fold (dacc (dadd m k0 q) l). rewrite IH, dadd_keys. cbn. intuition congruence.
Qed.

Lemma dacc_NoDup l m : NoDup (dkeys m) -> NoDup (dkeys (dacc m l)).
Proof.
  revert m. induction l as [|[k0 q] l IH]; intros m H; cbn [dacc fold_left fst snd]; [exact H|].
  apply IH. apply dadd_NoDup. exact H.
Qed.

Lemma dacc_msum p l m : msum p (dacc m l) == msum p m + msum p l.
Proof.
  revert m. induction l as [|[k0 q] l IH]; intros m; cbn [dacc fold_left fst snd].
  - rewrite msum_nil. ring.
  - fold (dacc (dadd m k0 q) l). rewrite IH, dadd_msum, msum_cons. ring.
Qed.

Lemma dacc_get l k : dgetq (dacc [] l) k == msum (fun x => keqb x k) l.
Proof.
  rewrite dgetq_msum by (apply dacc_NoDup; constructor).
  rewrite dacc_msum, msum_nil. ring.
Qed.

Lemma dacc_total l : qsum (dvals (dacc [] l)) == qsum (map snd l).
Proof.
  rewrite <- msum_true, dacc_msum, msum_nil, msum_true. unfold dvals. ring.
Qed.

(* dicts given by a function on a list of keys *)
Lemma dget_map_fun (f : key -> Q) l k :
  dget (map (fun x => (x, f x)) l) k = if kmem k l then Some (f k) else None.
Proof.
  induction l as [|x t IH]; [reflexivity|].
  cbn [map dget kmem existsb]. fold (kmem k t). destruct (keqb_spec k x) as [->|Hne]; [reflexivity|exact IH].
Qed.

Lemma dkeys_map_fun (f : key -> Q) l : dkeys (map (fun x => (x, f x)) l) = l.
Proof. unfold dkeys. rewrite map_map. cbn. apply map_id. Qed.

(* ---------- dict_closeb ---------- *)
Lemma qcloseb_spec eps x y : qcloseb eps x y = true <-> Qabs (x - y) <= eps.
Proof. unfold qcloseb. apply Qle_bool_iff. Qed.

Lemma dict_closeb_spec eps obs spec : dict_closeb eps obs spec = true <-> dict_close eps obs spec.
Proof.
  unfold dict_closeb, dict_close.
  rewrite !andb_true_iff, Qle_bool_iff, knodupb_NoDup, !forallb_forall.
  split.
  - intros [[[[H0 H1] H2] H3] H4]. split; [exact H0|]. split; [exact H1|]. split.
    + intros k. split; intros H; [apply dmem_In, H2, H|apply dmem_In, H3, H].
    + intros k. destruct (in_dec (list_eq_dec Z.eq_dec) k (dkeys obs)) as [HI|HI].
      * apply qcloseb_spec. apply H4. exact HI.
      * rewrite (dgetq_notin obs k HI).
        assert (HI2 : ~ In k (dkeys spec)).
        { intros H. apply HI. apply dmem_In. apply H3. exact H. }
        rewrite (dgetq_notin spec k HI2). cbn. exact H0.
  - intros [H0 [H1 [H2 H3]]]. repeat split; try assumption.
    + intros k H. apply dmem_In, H2, H.
    + intros k H. apply dmem_In, H2, H.
    + intros k _. apply qcloseb_spec. apply H3.
Qed.

(* two dicts with the same key list and pointwise equal values *)
Lemma dget_same_keys m1 m2 k :
  dkeys m1 = dkeys m2 -> Forall2 Qeq (dvals m1) (dvals m2) -> dgetq m1 k == dgetq m2 k.
Proof.
  revert m2. induction m1 as [|[k1 v1] m1 IH]; intros [|[k2 v2] m2] HK HV; try discriminate; [reflexivity|].
  cbn in HK. injection HK as -> HK. inversion HV; subst.
  unfold dgetq. cbn [dget]. destruct (keqb k k2); [assumption|]. apply IH; assumption.
Qed.

Lemma Qabs_zero_le x y eps : 0 <= eps -> x == y -> Qabs (x - y) <= eps.
Proof.
  intros H E. assert (Hz : x - y == 0) by (rewrite E; ring). rewrite Hz. cbn. exact H.
Qed.

Lemma dict_close_same_keys m1 m2 :
  NoDup (dkeys m1) -> dkeys m1 = dkeys m2 -> Forall2 Qeq (dvals m1) (dvals m2) -> dict_close 0 m1 m2.
Proof.
  intros Hnd HK HV. split; [apply Qle_refl|]. split; [exact Hnd|]. split.
  - intros k. rewrite HK. tauto.
  - intros k. apply Qabs_zero_le; [apply Qle_refl|]. apply dget_same_keys; assumption.
Qed.

Lemma dict_close_0_get m s k : dict_close 0 m s -> dgetq m k == dgetq s k.
Proof.
  intros [_ [_ [_ H]]]. specialize (H k). apply Qabs_Qle_condition in H. destruct H as [H1 H2].
  assert (Hd : dgetq m k - dgetq s k == 0) by (apply Qle_antisym; assumption).
  assert (E : dgetq m k == dgetq m k - dgetq s k + dgetq s k) by ring. rewrite E, Hd. ring.
Qed.

(* ---------- weighted sums over a dict ---------- *)
Definition wsum (f : key -> Q) (m : list (key * Q)) : Q := qsum (map (fun kv => f (fst kv) * snd kv) m).

Lemma wsum_cons f k v m : wsum f ((k, v) :: m) == f k * v + wsum f m.
Proof. reflexivity. Qed.

Lemma dadd_wsum f m k q : wsum f (dadd m k q) == wsum f m + f k * q.
Proof.
  induction m as [|[k0 v] m IH]; cbn [dadd].
  - rewrite wsum_cons. unfold wsum at 1 2. cbn [map qsum]. rewrite Qred_correct. ring.
  - destruct (keqb_spec k k0) as [->|Hne].
    + rewrite !wsum_cons, Qred_correct. ring.
    + rewrite !wsum_cons, IH. ring.
Qed.

Lemma dacc_wsum f l m : wsum f (dacc m l) == wsum f m + wsum f l.
Proof.
  revert m. induction l as [|[k0 q] l IH]; intros m; cbn [dacc fold_left fst snd].
  - unfold wsum at 3. cbn [map qsum]. ring.
  - fold (dacc (dadd m k0 q) l). rewrite IH, dadd_wsum, wsum_cons. ring.
Qed.

(* ---------- dset / dupdate ---------- *)
Lemma dset_keys m k q k' : In k' (dkeys (dset m k q)) <-> In k' (dkeys m) \/ k' = k.
Proof.
  induction m as [|[k0 v] m IH]; cbn.
  - split; [intros [H|H]; [right; congruence|destruct H]|intros [H| ->]; [destruct H|left; reflexivity]].
  - destruct (keqb_spec k k0) as [->|Hne]; cbn.
    + split; [tauto|]. intros [H| ->]; [exact H|left; reflexivity].
    + unfold dkeys in IH. rewrite IH. tauto.
Qed.

Lemma dset_NoDup m k q : NoDup (dkeys m) -> NoDup (dkeys (dset m k q)).
Proof.
  induction m as [|[k0 v] m IH]; cbn; intros Hnd.
  - constructor; [intros []|constructor].
  - inversion Hnd as [|? ? Hnin Hnd']; subst.
    destruct (keqb_spec k k0) as [->|Hne]; cbn.
    + constructor; assumption.
    + constructor; [|apply IH; exact Hnd'].
      intros H. apply (dset_keys m k q k0) in H. destruct H as [H|H]; [contradiction|congruence].
Qed.

Lemma dset_Forall (R : key * Q -> Prop) m k q : Forall R m -> R (k, q) -> Forall R (dset m k q).
Proof.
  induction m as [|[k0 v] m IH]; cbn; intros HF HR.
  - constructor; [exact HR|constructor].
  - inversion HF; subst. destruct (keqb_spec k k0) as [->|Hne]; constructor; auto.
Qed.

Lemma dupdate_keys m2 m k : In k (dkeys (dupdate m m2)) <-> In k (dkeys m) \/ In k (dkeys m2).
Proof.
  revert m. induction m2 as [|[k0 q] m2 IH]; intros m; cbn [dupdate fold_left fst snd].
  - cbn. tauto.
  - fold (dupdate (dset m k0 q) m2). rewrite IH, dset_keys. cbn. intuition congruence.
Qed.

Lemma dupdate_NoDup m2 m : NoDup (dkeys m) -> NoDup (dkeys (dupdate m m2)).
Proof.
  revert m. induction m2 as [|[k0 q] m2 IH]; intros m H; cbn [dupdate fold_left fst snd]; [exact H|].
  apply IH. apply dset_NoDup. exact H.
Qed.

Lemma dupdate_Forall (R : key * Q -> Prop) m2 m : Forall R m -> Forall R m2 -> Forall R (dupdate m m2).
Proof.
  revert m. induction m2 as [|[k0 q] m2 IH]; intros m H1 H2; cbn [dupdate fold_left fst snd]; [exact H1|].
  inversion H2; subst. apply IH; [apply dset_Forall; assumption|assumption].
Qed.

(* a dict all of whose entries carry the value of a function of the key *)
Lemma Forall_dgetq (F : key -> Q) m k :
  Forall (fun kv => snd kv == F (fst kv)) m -> In k (dkeys m) -> dgetq m k == F k.
Proof.
  intros HF HI. unfold dgetq. destruct (dget m k) as [v|] eqn:E.
  - apply dget_In in E. rewrite Forall_forall in HF. apply (HF (k, v) E).
  - apply dget_None in E. contradiction.
Qed.

Lemma Forall_dvals (F : key -> Q) m :
  Forall (fun kv => snd kv == F (fst kv)) m -> qsum (dvals m) == qsum (map F (dkeys m)).
Proof.
  unfold dvals, dkeys. induction 1 as [|[k v] m H _ IH]; [reflexivity|]. cbn [map qsum fst snd] in *.
  rewrite H, IH. reflexivity.
Qed.

Lemma qsum_map_set_eq {A} (f : A -> Q) l1 l2 :
  NoDup l1 -> NoDup l2 -> (forall x, In x l1 <-> In x l2) -> qsum (map f l1) == qsum (map f l2).
Proof. intros H1 H2 H. apply qsum_map_perm. apply NoDup_Permutation; assumption. Qed.
