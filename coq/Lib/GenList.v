(* Generic list lemmas used by Proofs/GenP.v (generators, C01-C03). *)
From Coq Require Import List Arith Bool Lia Permutation.
Import ListNotations.

Lemma map_nth_seq : forall (A : Type) (d : A) (l : list A),
  map (fun i => nth i l d) (seq 0 (length l)) = l.
Proof.
  intros A d l. induction l as [|x t IH]; [reflexivity|].
  cbn [length seq map nth]. f_equal.
  rewrite <- seq_shift, map_map. exact IH.
Qed.

Lemma Forall2_len : forall (A B : Type) (R : A -> B -> Prop) l1 l2,
  Forall2 R l1 l2 -> length l1 = length l2.
Proof. intros A B R l1 l2 H. induction H; cbn; congruence. Qed.

Lemma Forall2_nth : forall (A B : Type) (R : A -> B -> Prop) l1 l2 da db n,
  Forall2 R l1 l2 -> n < length l1 -> R (nth n l1 da) (nth n l2 db).
Proof.
  intros A B R l1 l2 da db n H. revert n.
  induction H as [|x y l1 l2 Hxy H IH]; intros n Hn; cbn in *; [lia|].
  destruct n; [exact Hxy|]. apply IH. lia.
Qed.

Lemma Forall2_map_l : forall (A B : Type) (f : A -> B) (R : A -> B -> Prop) l,
  (forall x, In x l -> R x (f x)) -> Forall2 R l (map f l).
Proof.
  intros A B f R l. induction l as [|x t IH]; intros H; cbn; constructor.
  - apply H. now left.
  - apply IH. intros y Hy. apply H. now right.
Qed.

Lemma filter_all : forall (A : Type) (f : A -> bool) l,
  (forall x, In x l -> f x = true) -> filter f l = l.
Proof.
  intros A f l. induction l as [|x t IH]; intros H; cbn; [reflexivity|].
  rewrite (H x (or_introl eq_refl)). f_equal. apply IH. intros y Hy. apply H. now right.
Qed.

Lemma filter_none : forall (A : Type) (f : A -> bool) l,
  (forall x, In x l -> f x = false) -> filter f l = [].
Proof.
  intros A f l. induction l as [|x t IH]; intros H; cbn; [reflexivity|].
  rewrite (H x (or_introl eq_refl)). apply IH. intros y Hy. apply H. now right.
Qed.

Lemma filter_map_comm : forall (A B : Type) (g : A -> B) (f : B -> bool) l,
  filter f (map g l) = map g (filter (fun x => f (g x)) l).
Proof.
  intros A B g f l. induction l as [|x t IH]; cbn; [reflexivity|].
  destruct (f (g x)); cbn; now rewrite IH.
Qed.

Lemma concat_perm_rev : forall (A : Type) (l : list (list A)),
  Permutation (concat (rev l)) (concat l).
Proof.
  intros A l. induction l as [|x t IH]; cbn; [constructor|].
  rewrite concat_app. cbn. rewrite app_nil_r.
  eapply Permutation_trans; [apply Permutation_app_comm|].
  now apply Permutation_app_head.
Qed.

Lemma nth_map_in : forall (A B : Type) (f : A -> B) l n da db,
  n < length l -> nth n (map f l) db = f (nth n l da).
Proof.
  intros A B f l n da db Hn.
  rewrite (nth_indep (map f l) db (f da)) by now rewrite map_length.
  apply map_nth.
Qed.

Lemma nth_skipn_tl : forall (A : Type) (l : list A) n d, nth n (tl l) d = nth (S n) l d.
Proof. intros A l n d. destruct l; cbn; [now destruct n|reflexivity]. Qed.

Lemma skipn_tl : forall (A : Type) (l : list A) n, skipn n (tl l) = skipn (S n) l.
Proof. intros A l n. destruct l; cbn; [now destruct n|reflexivity]. Qed.

Lemma combine_app_eq : forall (A B : Type) (a1 a2 : list A) (b1 b2 : list B),
  length a1 = length b1 -> combine (a1 ++ a2) (b1 ++ b2) = combine a1 b1 ++ combine a2 b2.
Proof.
  intros A B a1. induction a1 as [|x t IH]; intros a2 b1 b2 H; destruct b1; cbn in *; try discriminate.
  - reflexivity.
  - f_equal. apply IH. lia.
Qed.

Lemma map_fst_combine : forall (A B : Type) (a : list A) (b : list B),
  length a = length b -> map fst (combine a b) = a.
Proof.
  intros A B a. induction a as [|x t IH]; intros b H; destruct b; cbn in *; try discriminate; [reflexivity|].
  f_equal. apply IH. lia.
Qed.

Lemma map_snd_combine : forall (A B : Type) (a : list A) (b : list B),
  length a = length b -> map snd (combine a b) = b.
Proof.
  intros A B a. induction a as [|x t IH]; intros b H; destruct b; cbn in *; try discriminate; [reflexivity|].
  f_equal. apply IH. lia.
Qed.

Lemma in_seq0 : forall n i, In i (seq 0 n) <-> i < n.
Proof. intros n i. rewrite in_seq. lia. Qed.

Lemma NoDup_app_l : forall (A : Type) (a b : list A), NoDup (a ++ b) -> NoDup a.
Proof.
  intros A a. induction a as [|x t IH]; intros b H; [constructor|].
  cbn in H. inversion H as [|? ? Hn Hd]; subst. constructor.
  - intro Hi. apply Hn. apply in_or_app. now left.
  - eapply IH; eauto.
Qed.

Lemma NoDup_app_r : forall (A : Type) (a b : list A), NoDup (a ++ b) -> NoDup b.
Proof.
  intros A a. induction a as [|x t IH]; intros b H; [exact H|].
  cbn in H. inversion H; subst. now apply IH.
Qed.

Lemma NoDup_app_disj : forall (A : Type) (a b : list A) x, NoDup (a ++ b) -> In x a -> In x b -> False.
Proof.
  intros A a. induction a as [|y t IH]; intros b x H Ha Hb; [destruct Ha|].
  cbn in H. inversion H as [|? ? Hn Hd]; subst. destruct Ha as [->|Ha].
  - apply Hn. apply in_or_app. now right.
  - eapply IH; eauto.
Qed.
