(* Small-graph toolkit for the EECC model (C09): graphs as edge lists over nat vertices,
   all cliques / maximal cliques by brute force over the sorted vertex list, k-subsets,
   lexicographic order on vertex lists.  Definitions only (proofs: Proofs/EeccP.v). *)
From Coq Require Import List Arith Bool.
Import ListNotations.

Definition edge := (nat * nat)%type.
Definition graph := list edge.
Definition clique := list nat.

Definition memb (x : nat) (l : list nat) : bool := existsb (Nat.eqb x) l.

(* undirected adjacency *)
Definition edge_is (u v : nat) (e : edge) : bool :=
  (Nat.eqb (fst e) u && Nat.eqb (snd e) v) || (Nat.eqb (fst e) v && Nat.eqb (snd e) u).
Definition adjb (g : graph) (u v : nat) : bool := existsb (edge_is u v) g.

(* sorted duplicate-free insertion *)
Fixpoint insert_nat (x : nat) (l : list nat) : list nat :=
  match l with
  | [] => [x]
  | y :: r => if Nat.eqb x y then l else if Nat.ltb x y then x :: l else y :: insert_nat x r
  end.

(* the vertices that carry an edge, ascending *)
Definition verts (g : graph) : list nat :=
  fold_right (fun e acc => insert_nat (fst e) (insert_nat (snd e) acc)) [] g.

(* every clique of g whose vertices form a subsequence of vs (the empty one included) *)
Fixpoint cliques_of (g : graph) (vs : list nat) : list clique :=
  match vs with
  | [] => [[]]
  | v :: r => let cr := cliques_of g r in
              map (cons v) (filter (forallb (adjb g v)) cr) ++ cr
  end.

(* no vertex outside c is adjacent to all of c *)
Definition maximalb (g : graph) (vs : list nat) (c : clique) : bool :=
  negb (existsb (fun w => negb (memb w c) && forallb (adjb g w) c) vs).

Definition nonemptyb {A} (l : list A) : bool := match l with [] => false | _ => true end.

(* model of networkx find_cliques on a graph without isolated vertices: each maximal clique
   once, vertices ascending *)
Definition max_cliques (g : graph) : list clique :=
  let vs := verts g in
  filter (fun c => nonemptyb c && maximalb g vs c) (cliques_of g vs).

(* itertools.combinations(l, k) for an ascending l: the k-subsequences *)
Fixpoint combs (l : list nat) (k : nat) : list (list nat) :=
  match k with
  | 0 => [[]]
  | S k' => match l with
            | [] => []
            | x :: r => map (cons x) (combs r k') ++ combs r k
            end
  end.

Fixpoint list_eqb (a b : list nat) : bool :=
  match a, b with
  | [], [] => true
  | x :: a', y :: b' => Nat.eqb x y && list_eqb a' b'
  | _, _ => false
  end.

(* Python list comparison a < b *)
Fixpoint lex_ltb (a b : list nat) : bool :=
  match a, b with
  | [], [] => false
  | [], _ :: _ => true
  | _ :: _, [] => false
  | x :: a', y :: b' => if Nat.ltb x y then true else if Nat.ltb y x then false else lex_ltb a' b'
  end.

(* insertion into a lexicographically sorted duplicate-free list of vertex lists *)
Fixpoint insert_lex (c : clique) (l : list clique) : list clique :=
  match l with
  | [] => [c]
  | d :: r => if lex_ltb c d then c :: l else d :: insert_lex c r
  end.
Definition insert_cl (c : clique) (l : list clique) : list clique :=
  if existsb (list_eqb c) l then l else insert_lex c l.

Definition sort_cl (l : list clique) : list clique := fold_right insert_cl [] l.

(* all unordered vertex pairs of a vertex list, (c_i, c_j) with i < j *)
Fixpoint pairs_of (c : list nat) : list (nat * nat) :=
  match c with
  | [] => []
  | x :: r => map (pair x) r ++ pairs_of r
  end.

(* remove_edge(c_i, c_j) for all i < j: drops every edge with both ends in c *)
Definition remove_clique (g : graph) (c : clique) : graph :=
  filter (fun e => negb (memb (fst e) c && memb (snd e) c)) g.

(* input normalisation: orient u < v, drop loops, sort, de-duplicate *)
Definition edge_ltb (a b : edge) : bool :=
  Nat.ltb (fst a) (fst b) || (Nat.eqb (fst a) (fst b) && Nat.ltb (snd a) (snd b)).
Definition edge_eqb (a b : edge) : bool := Nat.eqb (fst a) (fst b) && Nat.eqb (snd a) (snd b).
Fixpoint insert_edge (e : edge) (l : graph) : graph :=
  match l with
  | [] => [e]
  | d :: r => if edge_eqb e d then l else if edge_ltb e d then e :: l else d :: insert_edge e r
  end.
Definition orient (e : edge) : edge := if Nat.ltb (snd e) (fst e) then (snd e, fst e) else e.
Definition norm_graph (g : graph) : graph :=
  fold_right insert_edge [] (filter (fun e => negb (Nat.eqb (fst e) (snd e))) (map orient g)).

(* enumeration of small graphs: all edge subsets (as subsequences) of the complete graph on n vertices *)
Fixpoint sublists {A} (l : list A) : list (list A) :=
  match l with
  | [] => [[]]
  | x :: r => let s := sublists r in map (cons x) s ++ s
  end.
Definition all_pairs (n : nat) : list edge := pairs_of (seq 0 n).
Definition all_graphs (n : nat) : list graph := sublists (all_pairs n).
