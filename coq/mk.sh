#!/bin/sh
# regenerate _CoqProject from the files present and build everything (full .vo build)
cd "$(dirname "$0")"
# Props/*_thorough.v (minutes of vm_compute) are not part of the normal build: the thorough tier of
# ./check compiles them on demand (harness/core.py coq_step); GV_THOROUGH=1 includes them here too.
{ echo "-Q . GV"; ls Lib/*.v Model/*.v Proofs/*.v Props/*.v Extract/*.v 2>/dev/null | { if [ -n "$GV_THOROUGH" ]; then cat; else grep -v '_thorough\.v$'; fi; }; } > _CoqProject
coq_makefile -f _CoqProject -o Makefile >/dev/null 2>&1
exec timeout ${GV_MAKE_TIMEOUT:-3000} make -j${GV_JOBS:-16} "$@"
