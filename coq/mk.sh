#!/bin/sh
# regenerate _CoqProject from the files present and build everything (full .vo build)
cd "$(dirname "$0")"
{ echo "-Q . GV"; ls Lib/*.v Model/*.v Proofs/*.v Props/*.v Extract/*.v 2>/dev/null; } > _CoqProject
coq_makefile -f _CoqProject -o Makefile >/dev/null 2>&1
exec timeout ${GV_MAKE_TIMEOUT:-3000} make -j${GV_JOBS:-16} "$@"
