(* Model of gcmpy/message_passing/equations/automated_equation.py (class AutomatedEquation)
   and the exact bond-percolation expectation it is supposed to equal.
   Definitions only; proofs live in Proofs/AutoEqP.v.

   The arithmetic is abstract ([alg T]): the same algorithm is instantiated with polynomial
   expressions ([alg_pe], variables phi = X1, u_v = X(v+2)) and with rationals ([alg_q]). *)
From Coq Require Import List ZArith QArith Bool Arith Ring_polynom.
From GV Require Import Lib.Tree Lib.PolyRefl15 Lib.Graph15.
Import ListNotations.
Local Open Scope nat_scope.

Definition graph := (list nat * list edge)%type.
Definition g_nodes (g : graph) : list nat := fst g.
Definition g_edges (g : graph) : list edge := snd g.

(* ---------------------------------------------------------------- *)
(* _get_connected_subgraphs: backtracking enumeration.
   [ord] resolves the iteration order of the Python set [possible - excluded]
   (a schedule: any function returning a permutation of its argument). *)
Fixpoint enum_rec (ord : list nat -> list nat) (fuel : nat) (es : list edge) (maxsize : nat)
         (sub poss excl : list nat) {struct fuel} : list (list nat) :=
  sub ::
  match fuel with
  | 0 => []
  | S f =>
      if Nat.eqb (length sub) maxsize then []
      else
        (fix loop (cands : list nat) (excl : list nat) {struct cands} : list (list nat) :=
           match cands with
           | [] => []
           | j :: cs =>
               let excl' := addv j excl in
               enum_rec ord f es maxsize (addv j sub)
                        (diffv (unionv poss (nbrs es j)) excl') excl'
               ++ loop cs excl'
           end) (ord (diffv poss excl)) excl
  end.

Definition enum_ord (ord : list nat -> list nat) (g : graph) (root : nat) : list (list nat) :=
  enum_rec ord (length (g_nodes g)) (g_edges g) (length (g_nodes g)) [root] (nbrs (g_edges g) root) [root].

Definition enum (g : graph) (root : nat) : list (list nat) := enum_ord (fun l => l) g root.

(* ---------------------------------------------------------------- *)
(* per component: classification of the edges, the reduced graph g *)
Definition in_c (c : list nat) (v : nat) : bool := memb v c.
Definition internal_edges (es : list edge) (c : list nat) : list edge :=
  filter (fun e => in_c c (fst e) && in_c c (snd e)) es.
Definition n_interface (es : list edge) (c : list nat) : nat :=
  length (filter (fun e => xorb (in_c c (fst e)) (in_c c (snd e))) es).
(* nodes of g after remove_nodes_from(isolated) *)
Definition live_nodes (nodes : list nat) (es : list edge) : list nat :=
  filter (fun v => match nbrs es v with [] => false | _ => true end) nodes.

(* get_edge_combinations (fresh computation): numbers of removed edges that keep g connected *)
Definition edge_combos (nodes : list nat) (es : list edge) : list nat :=
  flat_map (fun l => flat_map (fun t => if connectedb nodes (edges_minus es t) then [l] else [])
                              (combs l es))
           (seq 0 (S (length es))).

Definition combos_for (g : graph) (c : list nat) : list nat :=
  let ec := internal_edges (g_edges g) c in
  edge_combos (live_nodes (g_nodes g) ec) ec.

Section Arith.
  Context {T : Type} (A : alg T).
  (* contribution of one component, given its edge-combination list *)
  Definition term_of (g : graph) (root : nat) (phi : T) (u : nat -> T) (c : list nat) (combos : list nat) : T :=
    match c with
    | [v] => apow A (asub A (a1 A) phi) (length (nbrs (g_edges g) v))
    | _ =>
        let ec := internal_edges (g_edges g) c in
        let iface := apow A (asub A (a1 A) phi) (n_interface (g_edges g) c) in
        let us := aprod A (map u (filter (fun v => negb (Nat.eqb v root)) (live_nodes (g_nodes g) ec))) in
        asum A (map (fun n => amul A (amul A (amul A (apow A phi (length ec - n))
                                                     (apow A (asub A (a1 A) phi) n)) iface) us)
                    combos)
    end.

  (* automated_equation on a fresh evaluator *)
  Definition auto_gen (g : graph) (root : nat) (phi : T) (u : nat -> T) : T :=
    asum A (map (fun c => term_of g root phi u c (combos_for g c)) (enum g root)).

  (* exact expectation, edge by edge: condition on the state of each edge in turn *)
  Fixpoint exact_rec (nodes : list nat) (root : nat) (phi : T) (u : nat -> T)
           (es kept : list edge) : T :=
    match es with
    | [] => aprod A (map u (filter (fun v => negb (Nat.eqb v root)) (comp nodes kept root)))
    | e :: es' =>
        aadd A (amul A phi (exact_rec nodes root phi u es' (kept ++ [e])))
               (amul A (asub A (a1 A) phi) (exact_rec nodes root phi u es' kept))
    end.
  Definition exact_gen (g : graph) (root : nat) (phi : T) (u : nat -> T) : T :=
    exact_rec (g_nodes g) root phi u (g_edges g) [].
End Arith.

(* the polynomial expressions and the rational functions *)
Definition auto_expr (g : graph) (root : nat) : pe := auto_gen alg_pe g root ephi0 eu0.
Definition exact_expr (g : graph) (root : nat) : pe := exact_gen alg_pe g root ephi0 eu0.
Definition auto_q (g : graph) (root : nat) (phi : Q) (u : nat -> Q) : Q := auto_gen alg_q g root phi u.

(* THE SPECIFICATION: expectation over independent occupation of every edge with probability
   phi of the product of u over the other vertices of the root's component, written as the
   explicit finite sum over all edge subsets S. *)
Definition qprod (l : list Q) : Q := fold_left Qmult l 1%Q.
Definition qsum (l : list Q) : Q := fold_left Qplus l 0%Q.
Definition expectation (g : graph) (root : nat) (phi : Q) (u : nat -> Q) : Q :=
  qsum (map (fun S : list edge =>
               Qpower phi (Z.of_nat (length S))
               * Qpower (1 - phi) (Z.of_nat (length (g_edges g) - length S))
               * qprod (map u (filter (fun v => negb (Nat.eqb v root)) (comp (g_nodes g) S root))))%Q
            (sublists (g_edges g))).

(* ---------------------------------------------------------------- *)
(* The evaluator object as a state machine: two structure-only caches. *)
(* G.name is modelled as a pair of numbers (MessagePassing names its motif graphs f"{focal}-{ID}") *)
Definition mname := (nat * nat)%type.
Definition mname_eqb (a b : mname) : bool := Nat.eqb (fst a) (fst b) && Nat.eqb (snd a) (snd b).
Definition key_sub := (nat * mname)%type.          (* f"{root}-{G.name}" *)
Definition key_edge := (list nat * mname)%type.    (* f"{c}-{G.name}", c a list *)
Record caches := mk_caches {
  cc_sub : list (key_sub * list (list nat));
  cc_edge : list (key_edge * list nat) }.
Definition caches_empty : caches := mk_caches [] [].

Definition key_sub_eqb (a b : key_sub) : bool := Nat.eqb (fst a) (fst b) && mname_eqb (snd a) (snd b).
Definition key_edge_eqb (a b : key_edge) : bool := list_eqb (fst a) (fst b) && mname_eqb (snd a) (snd b).

Fixpoint alookup {K V} (eqb : K -> K -> bool) (k : K) (m : list (K * V)) : option V :=
  match m with
  | [] => None
  | (k', v) :: m' => if eqb k k' then Some v else alookup eqb k m'
  end.

Definition get_connected_subgraphs (st : caches) (name : mname) (g : graph) (root : nat)
  : list (list nat) * caches :=
  match alookup key_sub_eqb (root, name) (cc_sub st) with
  | Some r => (r, st)
  | None => let r := enum g root in
            (r, mk_caches (((root, name), r) :: cc_sub st) (cc_edge st))
  end.

Definition get_edge_combinations (st : caches) (name : mname) (g : graph) (c : list nat)
  : list nat * caches :=
  match alookup key_edge_eqb (c, name) (cc_edge st) with
  | Some r => (r, st)
  | None => let r := combos_for g c in
            (r, mk_caches (cc_sub st) (((c, name), r) :: cc_edge st))
  end.

Section ArithState.
  Context {T : Type} (A : alg T).
  (* automated_equation on an evaluator with state [st]; None = the call raises
     (root not a vertex of G: networkx raises in G.neighbors(root), nothing is cached) *)
  Definition auto_step (st : caches) (name : mname) (g : graph) (root : nat) (phi : T) (u : nat -> T)
    : option T * caches :=
    if negb (memb root (g_nodes g)) then (None, st)
    else
      let '(comps, st1) := get_connected_subgraphs st name g root in
      let '(acc, st2) :=
        fold_left (fun (as_ : T * caches) (c : list nat) =>
                     let '(acc, s) := as_ in
                     match c with
                     | [_] => (aadd A acc (term_of A g root phi u c []), s)
                     | _ => let '(cmb, s') := get_edge_combinations s name g c in
                            (aadd A acc (term_of A g root phi u c cmb), s')
                     end)
                  comps (a0 A, st1) in
      (Some acc, st2).
End ArithState.

(* ---------------------------------------------------------------- *)
(* wire format *)
Definition t_graph (t : tree) : graph := (t_nats (t_nth 0 t), t_pairs (t_nth 1 t)).

(* substitution on the wire: [k; z] with k = 0: integer constant z, k = 1: variable number z *)
Definition t_sub (t : tree) : pe :=
  match t_z (t_nth 0 t) with
  | 0%Z => PEc (t_z (t_nth 1 t))
  | _ => PEX Z (Pos.of_nat (t_nat (t_nth 1 t)))
  end.
(* [phi-subst; ((v subst) ...)] : u of a vertex not listed = its own variable *)
Definition t_usub (t : tree) (v : nat) : pe :=
  match find (fun x => Nat.eqb (t_nat (t_nth 0 x)) v) (t_list t) with
  | Some x => t_sub (t_nth 1 x)
  | None => eu0 v
  end.

Definition of_mono (m : mono) : tree :=
  L [I (fst m); L (map (fun ve => L [of_nat (fst ve); of_nat (snd ve)]) (snd m))].
Definition of_monos (ms : list mono) : tree := L (map of_mono ms).
Definition t_mono (t : tree) : mono :=
  (t_z (t_nth 0 t), map (fun x => (t_nat (t_nth 0 x), t_nat (t_nth 1 x))) (t_list (t_nth 1 t))).
Definition t_monos (t : tree) : list mono := map t_mono (t_list t).

(* well-formed input graph: distinct nodes, edges between distinct listed nodes, no repeated edge *)
Fixpoint nodupb (l : list nat) : bool :=
  match l with [] => true | x :: t => negb (memb x t) && nodupb t end.
Fixpoint edges_okb (nodes : list nat) (es : list edge) : bool :=
  match es with
  | [] => true
  | e :: t => memb (fst e) nodes && memb (snd e) nodes && negb (Nat.eqb (fst e) (snd e))
              && negb (edge_mem e t) && negb (edge_mem (snd e, fst e) t) && edges_okb nodes t
  end.
Definition wf_graph (g : graph) : bool := nodupb (g_nodes g) && edges_okb (g_nodes g) (g_edges g).

(* one expression, checked against its own monomial list (translation validation of pol_monos) *)
Definition monos_checked (e : pe) : tree :=
  let ms := pe_monos e in L [of_monos ms; of_bool (peq (monos_expr ms) e)].

(* c15_run: a stream of calls on ONE evaluator.
   input  = list of calls [name; nodes; edges; root; phi-subst; u-substs]
   output = per call: [0; monomials; self-check; components; cache sizes] or error [-1 code] *)
Fixpoint run_calls (st : caches) (calls : list tree) : list tree :=
  match calls with
  | [] => []
  | cl :: rest =>
      let name := (0, t_nat (t_nth 0 cl)) in
      let g := (t_nats (t_nth 1 cl), t_pairs (t_nth 2 cl)) in
      let root := t_nat (t_nth 3 cl) in
      let phi := t_sub (t_nth 4 cl) in
      let u := t_usub (t_nth 5 cl) in
      if negb (wf_graph g) then t_err 2 :: run_calls st rest
      else
        let '(r, st') := auto_step alg_pe st name g root phi u in
        match r with
        | None => t_err 1 :: run_calls st' rest
        | Some e =>
            L [I 0; monos_checked e;
               of_natss (fst (get_connected_subgraphs st' name g root));
               L (map (fun c => L [of_nats c; of_nats (fst (get_edge_combinations st' name g c))])
                      (filter (fun c => negb (Nat.eqb (length c) 1))
                              (fst (get_connected_subgraphs st' name g root))));
               of_nat (length (cc_sub st')); of_nat (length (cc_edge st'))]
            :: run_calls st' rest
        end
  end.

Definition c15_run (t : tree) : tree := L (run_calls caches_empty (t_list t)).

(* THE VERIFIED CHECKER: does the polynomial reported by the implementation (monomial list)
   equal the exact expectation for this motif / root / substitution?
   input = [nodes; edges; root; phi-subst; u-substs; monomials] *)
Definition c15_checkb (g : graph) (root : nat) (phi : pe) (u : nat -> pe) (ms : list mono) : bool :=
  peq (monos_expr ms) (exact_gen alg_pe g root phi u).
Definition c15_check (t : tree) : tree :=
  of_bool (c15_checkb (t_nats (t_nth 0 t), t_pairs (t_nth 1 t)) (t_nat (t_nth 2 t))
                      (t_sub (t_nth 3 t)) (t_usub (t_nth 4 t)) (t_monos (t_nth 5 t))).

(* enumeration checker: the reported component list contains every connected vertex set that
   contains the root exactly once and nothing else.  input = [nodes; edges; root; components] *)
Definition canon (nodes c : list nat) : list nat := filter (fun v => memb v c) nodes.
Definition conn_set (g : graph) (s : list nat) : bool :=
  connectedb s (internal_edges (g_edges g) s).
Definition enum_okb (g : graph) (root : nat) (res : list (list nat)) : bool :=
  forallb (fun c => nodupb c && subsetb c (g_nodes g)) res
  && forallb (fun s =>
                Nat.eqb (length (filter (fun c => list_eqb (canon (g_nodes g) c) s) res))
                        (if memb root s && conn_set g s then 1 else 0))
             (sublists (g_nodes g)).
Definition c15_check_enum (t : tree) : tree :=
  of_bool (enum_okb (t_nats (t_nth 0 t), t_pairs (t_nth 1 t)) (t_nat (t_nth 2 t)) (t_natss (t_nth 3 t))).
