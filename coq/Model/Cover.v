(* Model of gcmpy/joint_degree/joint_degree_loaders/joint_degree_cover.py (C08), literally the
   loader after the repair: zero-index detection, [largest] columns, counting, deletion of the
   all-zero columns from the right, rows to tuples, empirical law (Loaders.empirical).
   Definitions only; proofs live in Proofs/CoverP.v. *)
From Coq Require Import List ZArith QArith Bool Arith.
From GV Require Import Lib.Tree Lib.QSumL Model.Loaders Model.Sample.
Import ListNotations.
Local Open Scope nat_scope.

Definition cover := list (list Z).

Definition zmem (x : Z) (l : list Z) : bool := existsb (Z.eqb x) l.

(* list(set(...)): only the SET of ids matters to the code (its length and its minimum) *)
Fixpoint znodup (l : list Z) : list Z :=
  match l with
  | [] => []
  | x :: t => x :: filter (fun y => negb (Z.eqb x y)) (znodup t)
  end.

Definition vertex_ids (c : cover) : list Z := znodup (concat c).

Definition zmin_list (l : list Z) : option Z :=
  match l with [] => None | x :: t => Some (fold_left Z.min t x) end.

Definition largest (c : cover) : nat := fold_right Nat.max 0 (map (@length Z) c).

(* sorted(list(set(lens))) *)
Definition sorted_set (lens : list nat) : list nat :=
  filter (fun s => existsb (Nat.eqb s) lens) (seq 0 (S (fold_right Nat.max 0 lens))).

Definition motif_sizes (c : cover) : list nat := sorted_set (map (@length Z) c).

(* Python list indexing with an int: negative indices wrap once *)
Definition pyidx (n : nat) (i : Z) : option nat :=
  if (0 <=? i)%Z && (i <? Z.of_nat n)%Z then Some (Z.to_nat i)
  else if (- Z.of_nat n <=? i)%Z && (i <? 0)%Z then Some (Z.to_nat (i + Z.of_nat n))
  else None.

Definition table := list (list Z).

(* jds[vertex - zero_index][clique_size - 1] += 1 for every vertex of one clique *)
Fixpoint count_clique (zero : Z) (size : nat) (vs : list Z) (t : table) : option table :=
  match vs with
  | [] => Some t
  | v :: vs' =>
      match pyidx (length t) (v - zero) with
      | None => None                                     (* IndexError *)
      | Some r => count_clique zero size vs' (bump (size - 1) r t)   (* row r, column size-1 += 1 *)
      end
  end.

Fixpoint count_cover (zero : Z) (c : cover) (t : table) : option table :=
  match c with
  | [] => Some t
  | cl :: c' =>
      match count_clique zero (length cl) cl t with
      | None => None
      | Some t' => count_cover zero c' t'
      end
  end.

(* indxs = [i for i, top in enumerate(zip( *jds )) if not any(top)] *)
Definition zero_cols (width : nat) (t : table) : list nat :=
  filter (fun i => forallb (fun row => Z.eqb (nth i row 0%Z) 0) t) (seq 0 width).

Fixpoint del_nth {A} (n : nat) (l : list A) : list A :=
  match l, n with
  | [], _ => []
  | _ :: t, O => t
  | h :: t, S n' => h :: del_nth n' t
  end.

(* for i in reversed(indxs): for jd in jds: del jd[i] *)
Definition delete_cols (indxs : list nat) (t : table) : table :=
  fold_left (fun t i => map (del_nth i) t) (rev indxs) t.

Definition cover_rows (c : cover) : res table :=
  let ids := vertex_ids c in
  match zmin_list ids with
  | None => Err E_Value                                   (* min() of an empty sequence *)
  | Some m =>
      let zero := if Z.eqb m 0 then 0%Z else 1%Z in
      let w := largest c in
      let t0 := map (fun _ => repeat 0%Z w) ids in
      match count_cover zero c t0 with
      | None => Err E_Index
      | Some t => Ok (delete_cols (zero_cols w t) t)
      end
  end.

Definition cover_loader (c : cover) : res (list nat * table * dist) :=
  match cover_rows c with
  | Err e => Err e
  | Ok rows => Ok (motif_sizes c, rows, empirical rows)
  end.

(* ====================================================================== *)
(* specification side: counts of cover cliques per size containing the vertex *)

Definition count_cl (c : cover) (s : nat) (v : Z) : nat :=
  length (filter (fun cl => Nat.eqb (length cl) s && zmem v cl) c).

Definition spec_row (c : cover) (sizes : list nat) (v : Z) : key :=
  map (fun s => Z.of_nat (count_cl c s v)) sizes.

Fixpoint sorted_nat (l : list nat) : bool :=
  match l with
  | [] => true
  | x :: t => match t with [] => true | y :: _ => Nat.ltb x y && sorted_nat t end
  end.

Definition sizes_check (c : cover) (sizes : list nat) : bool :=
  sorted_nat sizes
  && forallb (fun s => existsb (Nat.eqb s) (map (@length Z) c)) sizes
  && forallb (fun s => existsb (Nat.eqb s) sizes) (map (@length Z) c).

(* the verified checker: reported sizes are exactly the occurring clique sizes, ascending; the exposed map
   is the empirical law of the per-vertex count tuples *)
Definition cover_check (c : cover) (sizes : list nat) (obs : dist) : bool :=
  let vs := vertex_ids c in
  let rows := map (spec_row c sizes) vs in
  sizes_check c sizes
  && law_check tol (first_occ rows) (fun k => qfrac (count_key k rows) (length vs)) obs
  && nonneg_vals obs.

(* ====================================================================== *)
(* wire *)
Definition t_cover (t : tree) : cover := map t_zs (t_list t).
Definition of_table (t : table) : tree := L (map of_zs t).

Definition c08_run (t : tree) : tree :=
  match cover_loader (t_cover t) with
  | Ok (sizes, rows, d) => L [I 0; of_nats sizes; of_table rows; of_dist d]
  | Err e => t_err e
  end.

(* c08_check [cover; reported sizes; observed dist] *)
Definition c08_check (t : tree) : tree :=
  of_bool (cover_check (t_cover (t_nth 0 t)) (t_nats (t_nth 1 t)) (t_dist (t_nth 2 t))).
