(* Model of gcmpy/tools/bond_percolate.py.  Definitions only. *)
From Coq Require Import List ZArith QArith Qabs Bool Arith.
From GV Require Import Lib.Tree.
Import ListNotations.
Local Open Scope nat_scope.

Definition edge := (nat * nat)%type.

Definition mem (x : nat) (l : list nat) : bool := existsb (Nat.eqb x) l.

Fixpoint nodup (l : list nat) : list nat :=
  match l with
  | [] => []
  | x :: t => if mem x t then nodup t else x :: nodup t
  end.

(* neighbours of u (either orientation) *)
Definition nbrs (es : list edge) (u : nat) : list nat :=
  flat_map (fun e => (if Nat.eqb (fst e) u then [snd e] else []) ++
                     (if Nat.eqb (snd e) u then [fst e] else [])) es.

Definition expand (es : list edge) (S : list nat) : list nat := nodup (S ++ flat_map (nbrs es) S).

Fixpoint iter_expand (es : list edge) (n : nat) (S : list nat) : list nat :=
  match n with O => S | S n' => iter_expand es n' (expand es S) end.

(* connected component of v in the graph (nodes, es): |nodes| rounds of expansion *)
Definition comp (nodes : list nat) (es : list edge) (v : nat) : list nat :=
  iter_expand es (length nodes) [v].

Definition largest (nodes : list nat) (es : list edge) : nat :=
  fold_right (fun v m => Nat.max (length (comp nodes es v)) m) 0 nodes.

(* the random part: edge i is REMOVED iff rs_i > phi (random.random() > phi), else kept *)
Fixpoint keep (es : list edge) (phi : Q) (rs : list Q) : list edge :=
  match es, rs with
  | e :: es', r :: rs' => if Qle_bool r phi then e :: keep es' phi rs' else keep es' phi rs'
  | _, _ => []
  end.

(* bond_percolate: numerator and denominator of the returned fraction *)
Definition percolate (nodes : list nat) (es : list edge) (phi : Q) (rs : list Q) : nat * nat :=
  (largest nodes (keep es phi rs), length nodes).

(* wire: [nodes; edges (in G.edges() order); phi; rs] -> [k; N] or error for the empty graph
   (sorted(...)[0] raises IndexError) *)
Definition c18_run (t : tree) : tree :=
  let nodes := t_nats (t_nth 0 t) in
  let es := t_pairs (t_nth 1 t) in
  let phi := t_q (t_nth 2 t) in
  let rs := t_qs (t_nth 3 t) in
  match nodes with
  | [] => t_err 1
  | _ => let r := percolate nodes es phi rs in L [of_nat (fst r); of_nat (snd r)]
  end.

(* verified checker: observed value num/den (exact rational of the returned float) against
   the specification: value = largest component of the kept subgraph / N. *)
Definition c18_check (t : tree) : tree :=
  let nodes := t_nats (t_nth 0 t) in
  let es := t_pairs (t_nth 1 t) in
  let phi := t_q (t_nth 2 t) in
  let rs := t_qs (t_nth 3 t) in
  let v := t_q (t_nth 4 t) in
  let N := length nodes in
  let k := largest nodes (keep es phi rs) in
  (* |v - k/N| <= 2^-50 : the value is float(k)/N *)
  let d := Qabs (v - (Z.of_nat k # Pos.of_nat N))%Q in
  L [of_bool (Qle_bool d (1 # 1125899906842624)%Q);
     of_bool (Nat.leb 1 k && Nat.leb k N)].
