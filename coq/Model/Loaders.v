(* Model of the manual / empirical / marginal / function joint-degree loaders (C06):
     gcmpy/joint_degree/joint_degree.py            (normalise_jdd, convert_jds_to_jdd)
     gcmpy/joint_degree/joint_degree_loaders/joint_degree_{manual,empirical,marginal,function}.py
     gcmpy/joint_degree/joint_degree_factory.py, joint_degree_distribution.py (dispatcher)
   Definitions only; proofs live in Proofs/LoadersP.v.

   Distributions are insertion-ordered association lists (Python dict order); callables are
   functions [Z -> Q] / [key -> Q] (on the wire: look-up tables, default 0). *)
From Coq Require Import List ZArith QArith Qabs Bool Arith.
From GV Require Import Lib.Tree Lib.QSumL.
Import ListNotations.

Definition key := list Z.
Definition dist := list (key * Q).

(* results: [Err code] = the Python call raised; codes shared by the loaders unit *)
Inductive res (A : Type) : Type := Ok (a : A) | Err (code : Z).
Arguments Ok {A} a.
Arguments Err {A} code.
Definition E_Index : Z := 1.
Definition E_ZeroDiv : Z := 2.
Definition E_Value : Z := 3.

Fixpoint key_eqb (a b : key) : bool :=
  match a, b with
  | [], [] => true
  | x :: a', y :: b' => Z.eqb x y && key_eqb a' b'
  | _, _ => false
  end.

Definition mem_key (k : key) (l : list key) : bool := existsb (key_eqb k) l.

Fixpoint count_key (k : key) (l : list key) : nat :=
  match l with
  | [] => 0
  | x :: t => (if key_eqb k x then 1 else 0) + count_key k t
  end.

(* keys in order of first occurrence: the insertion order of collections.Counter / dict *)
Fixpoint first_occ (l : list key) : list key :=
  match l with
  | [] => []
  | k :: t => k :: filter (fun x => negb (key_eqb k x)) (first_occ t)
  end.

Definition qfrac (a b : nat) : Q := inject_Z (Z.of_nat a) / inject_Z (Z.of_nat b).

(* JointDegree.convert_jds_to_jdd: Counter(jds), value count / n_samples *)
Definition empirical (jds : list key) : dist :=
  map (fun k => (k, qfrac (count_key k jds) (length jds))) (first_occ jds).

(* range(lo, hi) *)
Definition zrange (lo hi : Z) : list Z :=
  map (fun i => (lo + Z.of_nat i)%Z) (seq 0 (Z.to_nat (hi - lo))).

(* itertools.product over the ranges: last dimension fastest *)
Fixpoint box (rs : list (list Z)) : list key :=
  match rs with
  | [] => [[]]
  | r :: rs' => flat_map (fun x => map (cons x) (box rs')) r
  end.

Definition half_open (b : Z * Z) : list Z := zrange (fst b) (snd b).
Definition closed (b : Z * Z) : list Z := zrange (fst b) (snd b + 1).

(* JointDegreeMarginal.evaluate_prob_of_joint_degree: prod_i arr_fp[i](deg_i) *)
Fixpoint eval_prod (fs : list (Z -> Q)) (k : key) : Q :=
  match k, fs with
  | [], _ => 1
  | x :: k', f :: fs' => f x * eval_prod fs' k'
  | _ :: _, [] => 0     (* unreachable when length k <= length fs (IndexError otherwise) *)
  end.

(* JointDegreeMarginal.create_jdd_directly *)
Definition marginal_direct (fs : list (Z -> Q)) (bounds : list (Z * Z)) : res dist :=
  let keys := box (map half_open bounds) in
  match keys with
  | [] => Ok []                       (* empty box: empty dict, sum([]) = 0, no division happens *)
  | _ :: _ =>
      if Nat.ltb (length fs) (length bounds) then Err E_Index
      else
        let vals := map (fun k => (k, eval_prod fs k)) keys in
        let total := qsum (map snd vals) in
        if Qeq_bool total 0 then Err E_ZeroDiv
        else Ok (map (fun kv => (fst kv, snd kv / total)) vals)
  end.

(* one random.choices(ks, pks, k=n) call as logged: population, weights, k *)
Definition call := (list Z * list Q * nat)%type.

Fixpoint sampling_calls (fs : list (Z -> Q)) (bounds : list (Z * Z)) (n : nat) : res (list call) :=
  match bounds with
  | [] => Ok []
  | b :: bs =>
      match fs with
      | [] => Err E_Index
      | f :: fs' =>
          match sampling_calls fs' bs n with
          | Err e => Err e
          | Ok cs => Ok ((closed b, map f (closed b), n) :: cs)
          end
      end
  end.

(* np.column_stack(ret).tolist(): row r = [ret_0[r]; ...; ret_{d-1}[r]] *)
Definition stack_rows (cols : list (list Z)) (n : nat) : list key :=
  map (fun r => map (fun c => nth r c 0%Z) cols) (seq 0 n).

(* the scripted oracle answers indices into the population *)
Definition picks (pop : list Z) (idxs : list nat) : list Z := map (fun i => nth i pop 0%Z) idxs.

(* JointDegreeMarginal.create_jdd_by_sampling; [draws] = one index list per dimension *)
Definition marginal_sampling (fs : list (Z -> Q)) (bounds : list (Z * Z)) (n : nat)
           (draws : list (list nat)) : res (list call * dist) :=
  match sampling_calls fs bounds n with
  | Err e => Err e
  | Ok cs =>
      match bounds with
      | [] => Err E_Value                 (* np.column_stack([]) *)
      | _ :: _ =>
          let cols := map (fun cd => picks (fst (fst (fst cd))) (snd cd)) (combine cs draws) in
          Ok (cs, empirical (stack_rows cols n))
      end
  end.

(* JointDegreeFunction.create_jdd *)
Definition function_loader (fp : key -> Q) (bounds : list (Z * Z)) : dist :=
  map (fun k => (k, fp k)) (box (map closed bounds)).

(* ---------- the loaders as objects: constructor = create_jdd once, dispatcher = once more ---------- *)
Inductive loader :=
| LManual (d : dist)
| LEmpirical (jds : list key)
| LMargDirect (fs : list (Z -> Q)) (bounds : list (Z * Z))
| LMargSampling (fs : list (Z -> Q)) (bounds : list (Z * Z)) (n : nat)
| LFunction (fp : key -> Q) (bounds : list (Z * Z)).

(* create_jdd: reads only the constructor parameters (never the previous _jdd); [draws] are the
   oracle answers of this call *)
Definition create (l : loader) (draws : list (list nat)) : res (list call * dist) :=
  match l with
  | LManual d => Ok ([], d)
  | LEmpirical jds => Ok ([], empirical jds)
  | LMargDirect fs b => match marginal_direct fs b with Ok d => Ok ([], d) | Err e => Err e end
  | LMargSampling fs b n => marginal_sampling fs b n draws
  | LFunction fp b => Ok ([], function_loader fp b)
  end.

(* direct construction: Loader(params) *)
Definition construct (l : loader) (rounds : list (list (list nat))) : res (list (list call) * dist) :=
  match create l (nth 0 rounds []) with
  | Ok (cs, d) => Ok ([cs], d)
  | Err e => Err e
  end.

(* JointDegreeDistribution.load_joint_degree: factory (constructor) then create_jdd() again *)
Definition dispatch (l : loader) (rounds : list (list (list nat))) : res (list (list call) * dist) :=
  match create l (nth 0 rounds []) with
  | Err e => Err e
  | Ok (cs0, _) =>
      match create l (nth 1 rounds []) with
      | Ok (cs1, d) => Ok ([cs0; cs1], d)
      | Err e => Err e
      end
  end.

(* ---------- tables standing for callables ---------- *)
Fixpoint tlookup (t : list (Z * Q)) (k : Z) : Q :=
  match t with
  | [] => 0
  | (k', v) :: t' => if Z.eqb k k' then v else tlookup t' k
  end.

Fixpoint flookup (t : dist) (k : key) : Q :=
  match t with
  | [] => 0
  | (k', v) :: t' => if key_eqb k k' then v else flookup t' k
  end.

(* ====================================================================== *)
(* The specification side: the law each loader must expose, and its checker *)

Definition tol : Q := 1 # 1000000000.

(* |x - q| <= eps * max(1, |q|) *)
Definition qclose (eps x q : Q) : bool :=
  Qle_bool (Qabs (x - q)) (eps * (if Qle_bool 1 (Qabs q) then Qabs q else 1)).

Fixpoint nodup_keys (l : list key) : bool :=
  match l with [] => true | k :: t => negb (mem_key k t) && nodup_keys t end.

(* observed map [obs] has exactly the keys [support] and value ~ law k at every key *)
Definition law_check (eps : Q) (support : list key) (law : key -> Q) (obs : dist) : bool :=
  nodup_keys (map fst obs)
  && forallb (fun k => mem_key k support) (map fst obs)
  && forallb (fun k => mem_key k (map fst obs)) support
  && forallb (fun kv => qclose eps (snd kv) (law (fst kv))) obs.

(* normalised product of marginals: prod_i f_i(k_i) / prod_i (sum_{x in range_i} f_i x) *)
Definition marg_sums (fs : list (Z -> Q)) (ranges : list (list Z)) : list Q :=
  map (fun fr => qsum (map (fst fr) (snd fr))) (combine fs ranges).

Definition marginal_law (fs : list (Z -> Q)) (ranges : list (list Z)) (k : key) : Q :=
  eval_prod fs k / qprod (marg_sums fs ranges).

Definition call_eqb (a b : call) : bool :=
  key_eqb (fst (fst a)) (fst (fst b))
  && Nat.eqb (length (snd (fst a))) (length (snd (fst b)))
  && forallb (fun xy => Qeq_bool (fst xy) (snd xy)) (combine (snd (fst a)) (snd (fst b)))
  && Nat.eqb (snd a) (snd b).

Definition calls_eqb (a b : list call) : bool :=
  Nat.eqb (length a) (length b) && forallb (fun xy => call_eqb (fst xy) (snd xy)) (combine a b).

(* sampling mode: every logged round asked the documented question, answers are in range, and the
   exposed map is the empirical law of the column-stacked answers of the LAST round *)
Definition sampling_check (fs : list (Z -> Q)) (bounds : list (Z * Z)) (n : nat)
           (logged : list (list call)) (rounds : list (list (list nat))) (obs : dist) : bool :=
  match sampling_calls fs bounds n with
  | Err _ => false
  | Ok cs =>
      negb (Nat.eqb (length bounds) 0)
      && negb (Nat.eqb (length logged) 0)
      && Nat.eqb (length logged) (length rounds)
      && forallb (calls_eqb cs) logged
      && forallb (fun ds => Nat.eqb (length ds) (length cs)
                            && forallb (fun cd => Nat.eqb (length (snd cd)) n
                                                  && forallb (fun i => Nat.ltb i (length (fst (fst (fst cd))))) (snd cd))
                                       (combine cs ds)) rounds
      && let ds := last rounds [] in
         let rows := stack_rows (map (fun cd => picks (fst (fst (fst cd))) (snd cd)) (combine cs ds)) n in
         law_check tol (first_occ rows) (fun k => qfrac (count_key k rows) n) obs
  end.

Definition nonneg_vals (d : dist) : bool := forallb (fun kv => Qle_bool 0 (snd kv)) d.

(* the verified checker: does the observed distribution [obs] of a loader [l] have the documented law? *)
Definition loader_check (l : loader) (logged : list (list call)) (rounds : list (list (list nat)))
           (obs : dist) : bool :=
  match l with
  | LManual d => law_check 0 (map fst d) (flookup d) obs
  | LEmpirical jds => law_check tol (first_occ jds) (fun k => qfrac (count_key k jds) (length jds)) obs
                      && nonneg_vals obs
  | LMargDirect fs b =>
      let ranges := map half_open b in
      law_check tol (box ranges) (marginal_law fs ranges) obs
  | LMargSampling fs b n => sampling_check fs b n logged rounds obs && nonneg_vals obs
  | LFunction fp b => law_check 0 (box (map closed b)) fp obs
  end.

(* ====================================================================== *)
(* wire format *)
Definition t_key (t : tree) : key := t_zs t.
Definition t_keys (t : tree) : list key := map t_key (t_list t).
Definition t_dist (t : tree) : dist := map (fun x => (t_key (t_nth 0 x), t_q (t_nth 1 x))) (t_list t).
Definition t_tbl (t : tree) : list (Z * Q) := map (fun x => (t_z (t_nth 0 x), t_q (t_nth 1 x))) (t_list t).
Definition t_bounds (t : tree) : list (Z * Z) := map (fun x => (t_z (t_nth 0 x), t_z (t_nth 1 x))) (t_list t).
Definition t_rounds (t : tree) : list (list (list nat)) := map t_natss (t_list t).

Definition of_key (k : key) : tree := of_zs k.
Definition of_dist (d : dist) : tree := L (map (fun kv => L [of_key (fst kv); of_q (snd kv)]) d).
Definition of_call (c : call) : tree := L [of_zs (fst (fst c)); of_qs (snd (fst c)); of_nat (snd c)].
Definition of_calls (cs : list (list call)) : tree := L (map (fun r => L (map of_call r)) cs).
Definition t_call (t : tree) : call := (t_zs (t_nth 0 t), t_qs (t_nth 1 t), t_nat (t_nth 2 t)).
Definition t_calls (t : tree) : list (list call) := map (fun r => map t_call (t_list r)) (t_list t).

(* loader = [kind; payload] *)
Definition t_loader (kind : Z) (p : tree) : loader :=
  match kind with
  | 0%Z => LManual (t_dist p)
  | 1%Z => LEmpirical (t_keys p)
  | 2%Z => LMargDirect (map tlookup (map t_tbl (t_list (t_nth 1 p)))) (t_bounds (t_nth 0 p))
  | 3%Z => LMargSampling (map tlookup (map t_tbl (t_list (t_nth 1 p)))) (t_bounds (t_nth 0 p)) (t_nat (t_nth 2 p))
  | _ => LFunction (flookup (t_dist (t_nth 1 p))) (t_bounds (t_nth 0 p))
  end.

(* c06_run [kind; path; payload; rounds] : path 0 = direct construction, 1 = dispatcher *)
Definition c06_run (t : tree) : tree :=
  let l := t_loader (t_z (t_nth 0 t)) (t_nth 2 t) in
  let rounds := t_rounds (t_nth 3 t) in
  let r := if Z.eqb (t_z (t_nth 1 t)) 0 then construct l rounds else dispatch l rounds in
  match r with
  | Ok (cs, d) => L [I 0; of_dist d; of_calls cs]
  | Err e => t_err e
  end.

(* c06_check [kind; payload; rounds; logged calls; observed dist] *)
Definition c06_check (t : tree) : tree :=
  let l := t_loader (t_z (t_nth 0 t)) (t_nth 1 t) in
  of_bool (loader_check l (t_calls (t_nth 3 t)) (t_rounds (t_nth 2 t)) (t_dist (t_nth 4 t))).
