(* Model of gcmpy/message_passing/number_connected_graphs.py:
   binomial, Q (the Harary-Palmer style recursion, memoised), number_of_connected_graphs, QQ;
   plus the brute-force count and the independent exponential-formula recurrence used as
   specifications.  Definitions only; proofs live in Proofs/QCountP.v. *)
From Coq Require Import List ZArith Bool Arith.
From GV Require Import Lib.Tree Lib.Graph16.
Import ListNotations.
Local Open Scope Z_scope.

Definition zsum (l : list Z) : Z := fold_right Z.add 0 l.
(* range(lo, hi) *)
Definition zrange (lo hi : Z) : list Z :=
  map (fun i => lo + Z.of_nat i) (seq 0 (Z.to_nat (hi - lo))).

(* ------------------------------------------------------------------ binomial *)
Fixpoint fact (n : nat) : Z :=
  match n with O => 1 | S m => Z.of_nat n * fact m end.

(* binomial(n, k) exactly as the code: factorial(n) // factorial(k) // factorial(n-k) *)
Definition binomial (n k : Z) : Z :=
  let d := n - k in
  if d <? 0 then 0 else fact (Z.to_nat n) / fact (Z.to_nat k) / fact (Z.to_nat d).

(* Pascal's triangle as a table (the memo of lru_cache); row n = [C(n,0) .. C(n,n)] *)
Fixpoint map2 (f : Z -> Z -> Z) (a b : list Z) : list Z :=
  match a, b with
  | x :: a', y :: b' => f x y :: map2 f a' b'
  | _, _ => []
  end.
Definition pnext (r : list Z) : list Z := map2 Z.add (0 :: r) (r ++ [0]).
Fixpoint iter_rows (n : nat) (r : list Z) : list (list Z) :=
  match n with O => [] | S m => r :: iter_rows m (pnext r) end.
Definition ptab (N : nat) : list (list Z) := iter_rows N [1].

(* table lookup with fall-back to the definition outside the table *)
Definition binom_t (T : list (list Z)) (n k : Z) : Z :=
  if (0 <=? n) && (0 <=? k) && (Z.to_nat n <? length T)%nat
  then nth (Z.to_nat k) (nth (Z.to_nat n) T []) 0
  else binomial n k.

(* ------------------------------------------------------------------ Q *)
Definition tri (n : Z) : Z := n * (n - 1) / 2.

(* the body of Q(n, k); [C] = binomial, [prev m j] = the recursive calls Q(m, j) (only m < n) *)
Definition Qstep (C : Z -> Z -> Z) (prev : nat -> Z -> Z) (n : nat) (k : Z) : Z :=
  let nz := Z.of_nat n in
  let s := tri nz in
  if (k <? nz - 1) || (s <? k) then 0
  else if k =? nz - 1 then (if (n <=? 1)%nat then 1 else nz ^ (nz - 2))
  else
    C s k -
    zsum (map (fun m =>
            let mz := Z.of_nat m in
            let lb := Z.max 0 (k - (mz + 1) * mz / 2) in
            let np := (nz - 1 - mz) * (nz - 2 - mz) / 2 in
            C (nz - 1) mz *
            zsum (map (fun p => C np p * prev (S m) (k - p)) (zrange lb (k - mz + 1))))
          (seq 0 (n - 1)%nat)).

(* the recursion as written (exponential without the cache): reference semantics *)
Fixpoint Qrec (fuel : nat) (n : nat) (k : Z) : Z :=
  match fuel with
  | O => 0
  | S f => Qstep binomial (Qrec f) n k
  end.
Definition Qcode (n : nat) (k : Z) : Z := Qrec (S n) n k.

(* the memoised evaluation: rows n = 0, 1, ... of the table, row n = [Q(n,0) .. Q(n, n(n-1)/2)] *)
Definition qlook (rows : list (list Z)) (n : nat) (k : Z) : Z :=
  if k <? 0 then 0 else nth (Z.to_nat k) (nth n rows []) 0.

Definition Qrow (T : list (list Z)) (rows : list (list Z)) (n : nat) : list Z :=
  map (Qstep (binom_t T) (qlook rows) n) (zrange 0 (tri (Z.of_nat n) + 1)).

Fixpoint Qrows (T : list (list Z)) (N : nat) : list (list Z) :=
  match N with
  | O => []
  | S N' => let rows := Qrows T N' in rows ++ [Qrow T rows N']
  end.

Definition Qv (n : nat) (k : Z) : Z :=
  let T := ptab (Z.to_nat (tri (Z.of_nat n)) + n + 1)%nat in
  qlook (Qrows T (S n)) n k.

(* all of Q(n, .) for n < N at once (one table) *)
Definition Qtable (N : nat) : list (list Z) :=
  Qrows (ptab (Z.to_nat (tri (Z.of_nat N)) + N + 1)%nat) N.

(* ------------------------------------------------------------------ the brute-force counter *)
Definition edge_eqb (a b : edge) : bool := Nat.eqb (fst a) (fst b) && Nat.eqb (snd a) (snd b).
Definition emem (e : edge) (l : list edge) : bool := existsb (edge_eqb e) l.
Definition nmem (v : nat) (l : list nat) : bool := existsb (Nat.eqb v) l.
(* J = H.copy(); every edge of comb removed from J *)
Definition ediff (es T : list edge) : list edge := filter (fun e => negb (emem e T)) es.

Fixpoint dedup_n (l : list nat) : list nat :=
  match l with [] => [] | x :: t => if nmem x t then dedup_n t else x :: dedup_n t end.
Fixpoint dedup_e (l : list edge) : list edge :=
  match l with [] => [] | x :: t => if emem x t then dedup_e t else x :: dedup_e t end.
Definition orient (e : edge) : edge := if (fst e <=? snd e)%nat then e else (snd e, fst e).

(* number of k-subsets T of es such that (vs, es \ T) is connected *)
Definition ncg_count (vs : list nat) (es : list edge) (k : nat) : Z :=
  Z.of_nat (length (filter (fun T => connectedb vs (ediff es T)) (combs k es))).

(* the induced subgraph H on (ak + i) *)
Definition induced_vs (nodes ak : list nat) (i : nat) : list nat :=
  filter (fun v => Nat.eqb v i || nmem v ak) (dedup_n nodes).
Definition induced_es (vs : list nat) (edges : list edge) : list edge :=
  dedup_e (map orient (filter (fun e => nmem (fst e) vs && nmem (snd e) vs) edges)).

Inductive res := Val (z : Z) | Err (code : Z).
(* error codes: 1 ZeroDivisionError, 2 ValueError, 3 NetworkXPointlessConcept, 9 outside the modelled domain *)

Definition ncg_model (nodes : list nat) (edges : list edge) (ak : list nat) (i : nat) (k : Z) : res :=
  let vs := induced_vs nodes ak i in
  let es := induced_es vs edges in
  if k <? 0 then Err 2
  else if (Z.of_nat (length es) <? k) then Val 0
  else match vs with
       | [] => Err 3
       | _ => Val (ncg_count vs es (Z.to_nat k))
       end.

(* nx.complete_graph(n).edges() *)
Definition all_edges (n : nat) : list edge :=
  flat_map (fun a => map (fun b => (a, b)) (seq (S a) (n - S a)%nat)) (seq 0 n).

Definition QQv (n : nat) (k : Z) : Z :=
  ncg_count (seq 0 n) (all_edges n) (Z.to_nat (tri (Z.of_nat n) - k)).

Definition QQ_model (n : nat) (k : Z) : res :=
  let s := tri (Z.of_nat n) in
  if s <? k then Err 2
  else if k <? 0 then Val 0
  else match n with O => Err 3 | _ => Val (QQv n k) end.

Definition Q_model (n : nat) (k : Z) : res :=
  match n with
  | O => if k =? -1 then Err 1 else Val (Qv n k)
  | _ => Val (Qv n k)
  end.

(* ------------------------------------------------------------------ specifications *)
(* number of connected labelled graphs on {0..n-1} with k edges, by brute force *)
Definition brute (n : nat) (k : nat) : Z :=
  Z.of_nat (length (filter (fun S => connectedb (seq 0 n) S) (combs k (all_edges n)))).

(* independent cross-check: exponential formula on edge-generating polynomials
   C_n(x) = G_n(x) - sum_{j=1}^{n-1} binom(n-1, j-1) C_j(x) G_{n-j}(x),  G_n = (1+x)^(n(n-1)/2);
   polynomials are coefficient lists, binomials come from Pascal's rule *)
Fixpoint padd_c (a b : list Z) : list Z :=
  match a, b with
  | [], _ => b
  | _, [] => a
  | x :: a', y :: b' => (x + y) :: padd_c a' b'
  end.
Definition pscale_c (c : Z) (a : list Z) : list Z := map (Z.mul c) a.
Fixpoint pmul_c (a b : list Z) : list Z :=
  match a with
  | [] => []
  | x :: a' => padd_c (pscale_c x b) (0 :: pmul_c a' b)
  end.
Fixpoint ppow_c (a : list Z) (n : nat) : list Z :=
  match n with O => [1] | S m => pmul_c a (ppow_c a m) end.
Fixpoint Cn (n k : nat) : Z :=
  match n, k with
  | _, O => 1
  | O, S _ => 0
  | S n', S k' => Cn n' k' + Cn n' k
  end.
Definition Gpoly (n : nat) : list Z := ppow_c [1; 1] (Z.to_nat (tri (Z.of_nat n))).

(* cross_rows N = [C_1; ...; C_N] *)
Fixpoint cross_rows (N : nat) : list (list Z) :=
  match N with
  | O => []
  | S N' =>
      let prev := cross_rows N' in   (* C_1 .. C_N' ; now n = N *)
      let n := N in
      let sub := fold_right padd_c []
                   (map (fun j => pscale_c (Cn (n - 1)%nat (j - 1)%nat)
                                    (pmul_c (nth (j - 1)%nat prev []) (Gpoly (n - j)%nat)))
                        (seq 1 (n - 1)%nat)) in
      prev ++ [padd_c (Gpoly n) (pscale_c (-1) sub)]
  end.
Definition cross (n : nat) (k : Z) : Z :=
  if k <? 0 then 0 else nth (Z.to_nat k) (nth (n - 1)%nat (cross_rows n) []) 0.
