(* Model of gcmpy/message_passing/equations/clique_equation.py and chordless_cycle_equation.py
   as polynomial expressions ([PExpr Z], variables x1 x2 ...), the exact bond-percolation
   expectation [exact_expr] (the specification), and the wire entry points c16_run / c16_check.
   Definitions only; proofs live in Proofs/CliqueEqP.v. *)
From Coq Require Import List ZArith Bool Arith Ring_polynom.
From GV Require Import Lib.Tree Lib.Graph16 Lib.PolyRefl16 Model.QCount.
Import ListNotations.
Local Open Scope Z_scope.

(* ------------------------------------------------------------------ clique_equation *)
(* omega(tau, kappa): r = tau-kappa-1; sum_{v=1..r} (tau - v) - 0.5 r (r-1)  (an integral float) *)
Definition omega (tau kappa : nat) : Z :=
  let r := Z.of_nat (tau - kappa - 1)%nat in
  zsum (map (fun v => Z.of_nat tau - v) (zrange 1 (r + 1))) - r * (r - 1) / 2.

Definition clique_term (tau : nat) (phi : pe) (factor : pe) (kappa : nat) (m : Z) : pe :=
  let kz := Z.of_nat kappa in
  let e := kz * (kz + 1) / 2 - m in
  pmul (pmul (pmul (pc (Qv (S kappa) e)) (ppow phi (Z.to_N e)))
             (ppow (psub (pc 1) phi) (Z.to_N (omega tau kappa + m))))
       factor.

Definition clique_expr (tau : nat) (phi : pe) (Hs : list pe) : pe :=
  psum (flat_map (fun kappa =>
          let kz := Z.of_nat kappa in
          let factor := psum (map pprod (combs kappa Hs)) in
          map (clique_term tau phi factor kappa) (zrange 0 (kz * (kz - 1) / 2 + 1)))
        (seq 0 tau)).

(* ------------------------------------------------------------------ chordless_cycle_equation *)
Definition cycle_expr (n : nat) (u phi : pe) : pe :=
  let q := psub (pc 1) phi in
  let nz := Z.of_nat n in
  padd (padd (padd (ppow q 2)
    (psum (map (fun i => pmul (pmul (pc (i + 1)) (ppow (pmul phi u) (Z.to_N i))) (ppow q 2))
               (zrange 1 (nz - 1)))))
    (pmul (pmul (pc nz) (ppow (pmul u phi) (Z.to_N (nz - 1)))) q))
    (pmul phi (ppow (pmul phi u) (Z.to_N (nz - 1)))).

(* ------------------------------------------------------------------ the specification *)
(* exact bond-percolation expectation on the graph (vs, es) seen from [root]:
   sum over edge subsets S of phi^|S| (1-phi)^(|E|-|S|) * prod of u_v over the vertices v <> root
   in the component of root in (vs, S) *)
Definition exact_term (vs : list nat) (ne : nat) (root : nat) (phi : pe) (u : nat -> pe)
           (S : list edge) : pe :=
  let l := labels vs S in
  pmul (pmul (ppow phi (N.of_nat (length S)))
             (ppow (psub (pc 1) phi) (N.of_nat (ne - length S))))
       (pprod (map u (filter (fun v => negb (Nat.eqb v root) && same_comp l root v) vs))).

Definition exact_expr (vs : list nat) (es : list edge) (root : nat) (phi : pe) (u : nat -> pe) : pe :=
  psum (map (exact_term vs (length es) root phi u) (subseqs es)).

(* motifs *)
Definition clique_graph (tau : nat) : list nat * list edge := (seq 0 tau, all_edges tau).
Definition cycle_edges (n : nat) : list edge := map (fun i => (i, Nat.modulo (S i) n)) (seq 0 n).

Definition clique_spec (tau : nat) (phi : pe) (Hs : list pe) : pe :=
  exact_expr (seq 0 tau) (all_edges tau) 0 phi (fun v => nth (v - 1) Hs (pc 0)).
Definition cycle_spec (n : nat) (u phi : pe) : pe :=
  exact_expr (seq 0 n) (cycle_edges n) 0 phi (fun _ => u).

(* ------------------------------------------------------------------ wire format *)
(* polynomial = L [ L [I coef; L [I e1; I e2; ...]] ; ... ] *)
Definition dec_mono (t : tree) : mono := (t_z (t_nth 0 t), map (fun x => Z.to_N (t_z x)) (t_list (t_nth 1 t))).
Definition dec_poly (t : tree) : pe := monos_pe (map dec_mono (t_list t)).
Definition enc_mono (m : mono) : tree := L [I (fst m); L (map (fun e => I (Z.of_N e)) (snd m))].
Definition enc_poly (e : pe) : tree := L (map enc_mono (pol_monos (normZ e))).

Definition enc_res (r : res) : tree :=
  match r with Val z => L [I 0; I z] | Err c => t_err c end.

(* c16_run:  (0 n k) Q | (1 n k) QQ | (2 nodes edges ak i k) number_of_connected_graphs
             | (3 tau phi (H1 ...)) clique_equation | (4 n u phi) chordless_cycle_equation
             | (5 N) the whole table Q(n, .), n < N *)
Definition c16_run (t : tree) : tree :=
  let a := t_nth 1 t in let b := t_nth 2 t in
  match t_z (t_nth 0 t) with
  | 0 => if t_z a <? 0 then t_err 9 else enc_res (Q_model (t_nat a) (t_z b))
  | 1 => if t_z a <? 0 then t_err 9 else enc_res (QQ_model (t_nat a) (t_z b))
  | 2 => enc_res (ncg_model (t_nats a) (t_pairs b) (t_nats (t_nth 3 t)) (t_nat (t_nth 4 t)) (t_z (t_nth 5 t)))
  | 3 => if t_z a <? 0 then t_err 9
         else L [I 0; enc_poly (clique_expr (t_nat a) (dec_poly b) (map dec_poly (t_list (t_nth 3 t))))]
  | 4 => if t_z a <? 1 then t_err 2
         else L [I 0; enc_poly (cycle_expr (t_nat a) (dec_poly b) (dec_poly (t_nth 3 t)))]
  | 5 => L (map of_zs (Qtable (t_nat a)))
  | _ => t_err 9
  end.

(* ------------------------------------------------------------------ the verified checker *)
(* the count the property demands: brute force where feasible (n <= bmax <= 7, [bmax] chosen by the
   caller: 6 in the quick tier), the independent exponential-formula recurrence above that *)
Definition count_spec (bmax : nat) (n : nat) (k : Z) : Z :=
  if (k <? 0) then 0
  else if (n <=? Nat.min bmax 7)%nat then brute n (Z.to_nat k) else cross n k.

Definition check_count (bmax : nat) (n : nat) (k r : Z) : bool := r =? count_spec bmax n k.

(* a whole row Q(n, 0..n(n-1)/2) at once (one table of the recurrence instead of one per entry) *)
Definition check_row (bmax : nat) (n : nat) (rs : list Z) : bool :=
  let s := Z.to_nat (tri (Z.of_nat n)) in
  Nat.eqb (length rs) (S s) &&
  (if (n <=? Nat.min bmax 7)%nat
   then forallb (fun k => nth k rs 0 =? brute n k) (seq 0 (S s))
   else let row := nth (n - 1)%nat (cross_rows n) [] in
        forallb (fun k => nth k rs 0 =? nth k row 0) (seq 0 (S s))).

Definition check_ncg (nodes : list nat) (edges : list edge) (ak : list nat) (i : nat) (k r : Z) : bool :=
  let vs := induced_vs nodes ak i in
  let es := induced_es vs edges in
  r =? ncg_count vs es (Z.to_nat k).

(* the implementation returned the polynomial [impl]/[d]; demand  impl = d * spec  as polynomials *)
Definition check_clique (tau : nat) (phi : pe) (Hs : list pe) (d : Z) (impl : pe) : bool :=
  peq impl (pmul (pc d) (clique_spec tau phi Hs)).
Definition check_cycle (n : nat) (u phi : pe) (d : Z) (impl : pe) : bool :=
  peq impl (pmul (pc d) (cycle_spec n u phi)).

(* c16_check: (5 n bmax (r_0 ... r_s)) a whole row of Q | (0 n k r bmax) | (1 n k r bmax) | (2 nodes edges ak i k r) | (3 tau phi Hs d impl) | (4 n u phi d impl)
   answers 1 = the property holds on this observation, 0 = it does not, 2 = outside the property's domain *)
Definition c16_check (t : tree) : tree :=
  let a := t_nth 1 t in let b := t_nth 2 t in
  match t_z (t_nth 0 t) with
  | 0 | 1 =>
      let n := t_nat a in let k := t_z b in
      if (t_z a <? 1) || (k <? 0) || (tri (t_z a) <? k) then I 2
      else of_bool (check_count (t_nat (t_nth 4 t)) n k (t_z (t_nth 3 t)))
  | 2 =>
      let k := t_z (t_nth 5 t) in
      if k <? 0 then I 2
      else of_bool (check_ncg (t_nats a) (t_pairs b) (t_nats (t_nth 3 t)) (t_nat (t_nth 4 t)) k (t_z (t_nth 6 t)))
  | 5 => if t_z a <? 1 then I 2 else of_bool (check_row (t_nat b) (t_nat a) (t_zs (t_nth 3 t)))
  | 3 =>
      let tau := t_nat a in let Hs := map dec_poly (t_list (t_nth 3 t)) in
      if (t_z a <? 2) || negb (Nat.eqb (S (length Hs)) tau) then I 2
      else of_bool (check_clique tau (dec_poly b) Hs (t_z (t_nth 4 t)) (dec_poly (t_nth 5 t)))
  | 4 =>
      if t_z a <? 3 then I 2
      else of_bool (check_cycle (t_nat a) (dec_poly b) (dec_poly (t_nth 3 t)) (t_z (t_nth 4 t)) (dec_poly (t_nth 5 t)))
  | _ => I 2
  end.
