(* Model of gcmpy/network/edge_list_to_network.py and network_to_edge_list.py
   (EdgeListToNetwork.convert / NetworkToEdgeList.convert) on top of networkx Graph.
   Definitions only. *)
From Coq Require Import List ZArith Bool Arith.
From GV Require Import Lib.Tree.
Import ListNotations.

Definition jd := list nat.
Definition edge := (nat * nat)%type.

Definition norm (e : edge) : edge := if Nat.leb (fst e) (snd e) then e else (snd e, fst e).
Definition edge_eqb (a b : edge) : bool := Nat.eqb (fst a) (fst b) && Nat.eqb (snd a) (snd b).

(* the light-weight edge list: four parallel columns *)
Record elist := mk_elist {
  el_jds : list jd; el_edges : list edge; el_names : list nat; el_ids : list nat }.

(* rows the conversion sees: zip(edge_list, topologies, motif_id) truncates to the shortest *)
Definition rows (el : elist) : list (edge * (nat * nat)) :=
  combine (el_edges el) (combine (el_names el) (el_ids el)).

(* ---- Python dict keyed by the ORIENTED tuple: first-insertion order, last value ---- *)
Fixpoint dict_set {V} (d : list (edge * V)) (k : edge) (v : V) : list (edge * V) :=
  match d with
  | [] => [(k, v)]
  | (k', v') :: d' => if edge_eqb k k' then (k', v) :: d' else (k', v') :: dict_set d' k v
  end.

Definition build_dict {V} (rs : list (edge * V)) : list (edge * V) :=
  fold_left (fun d kv => dict_set d (fst kv) (snd kv)) rs [].

Fixpoint dict_get {V} (d : list (edge * V)) (k : edge) : option V :=
  match d with
  | [] => None
  | (k', v) :: d' => if edge_eqb k k' then Some v else dict_get d' k
  end.

(* nx.set_edge_attributes(G, dict): for every (oriented) key in dict order write the
   attribute of the UNDIRECTED edge; so the entry written last wins *)
Definition apply_dict {V} (d : list (edge * V)) : list (edge * V) :=
  fold_left (fun m kv => dict_set m (norm (fst kv)) (snd kv)) d [].

Fixpoint nodup_edges (l : list edge) : list edge :=
  match l with
  | [] => []
  | e :: t => if existsb (edge_eqb e) t then nodup_edges t else e :: nodup_edges t
  end.

Fixpoint nodup_nat (l : list nat) : list nat :=
  match l with
  | [] => []
  | x :: t => if existsb (Nat.eqb x) t then nodup_nat t else x :: nodup_nat t
  end.

(* the annotated graph: node -> optional joint degree, undirected edge -> optional (name, id) *)
Record net := mk_net {
  n_nodes : list (nat * option jd);
  n_edges : list (edge * option (nat * nat)) }.

Definition endpoints (es : list edge) : list nat := flat_map (fun e => [fst e; snd e]) es.

Definition to_network (el : elist) : net :=
  let N := length (el_jds el) in
  let nodes := nodup_nat (seq 0 N ++ endpoints (el_edges el)) in
  let attr := apply_dict (build_dict (rows el)) in
  mk_net
    (map (fun v => (v, if Nat.ltb v N then Some (nth v (el_jds el) []) else None)) nodes)
    (map (fun e => (e, dict_get attr e)) (nodup_edges (map norm (el_edges el)))).

(* NetworkToEdgeList.convert: None = KeyError (a node id in range(len(nodes)) missing or
   without joint degree, or an edge without attributes) *)
Fixpoint node_jds (nodes : list (nat * option jd)) (n k : nat) : option (list jd) :=
  match n with
  | O => Some []
  | S n' =>
      match find (fun p => Nat.eqb (fst p) k) nodes with
      | Some (_, Some d) => option_map (cons d) (node_jds nodes n' (S k))
      | _ => None
      end
  end.

Fixpoint edge_cols (es : list (edge * option (nat * nat))) : option (list (edge * (nat * nat))) :=
  match es with
  | [] => Some []
  | (e, Some a) :: t => option_map (cons (e, a)) (edge_cols t)
  | (_, None) :: _ => None
  end.

Definition to_edgelist (g : net) : option elist :=
  match node_jds (n_nodes g) (length (n_nodes g)) 0, edge_cols (n_edges g) with
  | Some jds, Some rs => Some (mk_elist jds (map fst rs) (map (fun r => fst (snd r)) rs) (map (fun r => snd (snd r)) rs))
  | _, _ => None
  end.

(* ---------- canonical observation (order-insensitive parts are sorted by the harness) ---------- *)
Definition enc_jd (d : jd) : tree := of_nats d.
Definition enc_opt_jd (o : option jd) : tree := match o with Some d => L [enc_jd d] | None => L [] end.
Definition enc_attr (o : option (nat * nat)) : tree :=
  match o with Some (a, b) => L [of_nat a; of_nat b] | None => L [] end.

Definition enc_net (g : net) : tree :=
  L [ L (map (fun p => L [of_nat (fst p); enc_opt_jd (snd p)]) (n_nodes g));
      L (map (fun p => L [of_pair (fst p); enc_attr (snd p)]) (n_edges g)) ].

Definition enc_elist (el : elist) : tree :=
  L [ L (map enc_jd (el_jds el));
      L (map (fun r => L [of_pair (norm (fst r)); of_nat (fst (snd r)); of_nat (snd (snd r))]) (rows el)) ].

Definition dec_elist (t : tree) : elist :=
  mk_elist (t_natss (t_nth 0 t)) (t_pairs (t_nth 1 t)) (t_nats (t_nth 2 t)) (t_nats (t_nth 3 t)).

(* c04_run: [jds; edges; names; ids] -> [network; back-conversion or error] *)
Definition c04_run (t : tree) : tree :=
  let g := to_network (dec_elist t) in
  L [ enc_net g; match to_edgelist g with Some el => L [enc_elist el] | None => t_err 1 end ].

(* ---------- the executable specification (verified checker) ----------
   Judges an OBSERVED network [g] (and observed back-conversion) against the edge list. *)
Definition mem_nat (x : nat) (l : list nat) := existsb (Nat.eqb x) l.
Definition mem_edge (e : edge) (l : list edge) := existsb (edge_eqb e) l.

Definition occurrences (el : elist) (ne : edge) : list (nat * nat) :=
  map snd (filter (fun r => edge_eqb (norm (fst r)) ne) (rows el)).

Definition opt_attr_eqb (a b : option (nat * nat)) : bool :=
  match a, b with
  | Some (x, y), Some (x', y') => Nat.eqb x x' && Nat.eqb y y'
  | None, None => true
  | _, _ => false
  end.

Fixpoint list_nat_eqb (a b : list nat) : bool :=
  match a, b with
  | [], [] => true
  | x :: a', y :: b' => Nat.eqb x y && list_nat_eqb a' b'
  | _, _ => false
  end.

Definition opt_jd_eqb (a b : option jd) : bool :=
  match a, b with
  | Some x, Some y => list_nat_eqb x y
  | None, None => true
  | _, _ => false
  end.

Fixpoint nodupb_nat (l : list nat) : bool :=
  match l with [] => true | x :: t => negb (mem_nat x t) && nodupb_nat t end.
Fixpoint nodupb_edge (l : list edge) : bool :=
  match l with [] => true | x :: t => negb (mem_edge x t) && nodupb_edge t end.

Definition check_net (el : elist) (g : net) : bool :=
  let N := length (el_jds el) in
  let vs := map fst (n_nodes g) in
  let es := map fst (n_edges g) in
  let nes := map norm (el_edges el) in
  (* one vertex per entry of the joint degree sequence (and the edge ends), no duplicates *)
  nodupb_nat vs
  && forallb (fun v => mem_nat v vs) (seq 0 N)
  && forallb (fun v => mem_nat v vs) (endpoints (el_edges el))
  && forallb (fun v => Nat.ltb v N || mem_nat v (endpoints (el_edges el))) vs
  (* every vertex v < N annotated with jds[v] *)
  && forallb (fun p => if Nat.ltb (fst p) N then opt_jd_eqb (snd p) (Some (nth (fst p) (el_jds el) []))
                       else opt_jd_eqb (snd p) None) (n_nodes g)
  (* an edge exactly when the pair occurs *)
  && nodupb_edge es
  && forallb (fun e => edge_eqb (norm e) e && mem_edge e nes) es
  && forallb (fun e => mem_edge e es) nes
  (* a pair occurring once carries precisely that row's name and id *)
  && forallb (fun p => match occurrences el (fst p) with
                       | [a] => opt_attr_eqb (snd p) (Some a)
                       | _ => true
                       end) (n_edges g).

(* round trip: the back-converted list has the same jds and the same annotated edge set *)
Definition simple_el (el : elist) : bool :=
  nodupb_edge (map norm (el_edges el))
  && forallb (fun v => Nat.ltb v (length (el_jds el))) (endpoints (el_edges el))
  && Nat.eqb (length (el_names el)) (length (el_edges el))
  && Nat.eqb (length (el_ids el)) (length (el_edges el)).

Definition row_eqb (a b : edge * (nat * nat)) : bool :=
  edge_eqb (fst a) (fst b) && Nat.eqb (fst (snd a)) (fst (snd b)) && Nat.eqb (snd (snd a)) (snd (snd b)).
Definition nrows (el : elist) := map (fun r => (norm (fst r), snd r)) (rows el).

Fixpoint list_jd_eqb (a b : list jd) : bool :=
  match a, b with
  | [], [] => true
  | x :: a', y :: b' => list_nat_eqb x y && list_jd_eqb a' b'
  | _, _ => false
  end.

Definition check_roundtrip (el el' : elist) : bool :=
  list_jd_eqb (el_jds el) (el_jds el')
  && Nat.eqb (length (nrows el)) (length (nrows el'))
  && forallb (fun r => existsb (row_eqb r) (nrows el')) (nrows el)
  && forallb (fun r => existsb (row_eqb r) (nrows el)) (nrows el').

(* c04_check: [elist; observed net; observed back conversion ([el'] or error)] -> 1/0 per clause *)
Definition dec_net (t : tree) : net :=
  mk_net
    (map (fun p => (t_nat (t_nth 0 p),
                    match t_list (t_nth 1 p) with d :: _ => Some (t_nats d) | [] => None end))
         (t_list (t_nth 0 t)))
    (map (fun p => (t_pair (t_nth 0 p),
                    match t_list (t_nth 1 p) with a :: b :: _ => Some (t_nat a, t_nat b) | _ => None end))
         (t_list (t_nth 1 t))).

Definition c04_check (t : tree) : tree :=
  let el := dec_elist (t_nth 0 t) in
  let g := dec_net (t_nth 1 t) in
  let back := t_nth 2 t in
  let ok_net := check_net el g in
  let ok_rt :=
    if simple_el el then
      match t_list back with
      | [b] => check_roundtrip el (dec_elist b)
      | _ => false  (* the reverse conversion raised although the list is simple *)
      end
    else true in
  L [of_bool ok_net; of_bool ok_rt].
