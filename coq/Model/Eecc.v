(* Model of gcmpy/covers/eecc.py (class EECC) on top of gcmpy/network/network.py.
   Definitions only; proofs live in Proofs/EeccP.v.

   The clique list C of the Python code is kept as a lexicographically sorted duplicate-free
   list: nothing the code computes from C depends on its order except (a) the order in which
   zero-score cliques are appended to the cover (the result is compared as a multiset) and
   (b) which index `choice` returns, which the schedule resolves BY CONTENT: the r-th
   candidate in lexicographic order (r taken modulo the number of candidates).

   Scores are the IEEE-754 binary64 values the Python code accumulates (1.0/size added once
   per shared edge, round-to-nearest-even after the division and after every addition),
   represented exactly as rationals, because `min(r)` / `== min_r` compare those floats:
   exact rationals would tie 14/21 with 2/3 where the floats differ. *)
From Coq Require Import List Arith Bool ZArith QArith.
From GV Require Import Lib.Tree Lib.GraphE.
Import ListNotations.
Local Open Scope nat_scope.

(* ------------------------------------------------------------------ binary64 rounding *)
(* nearest binary64 (ties to even) of a positive rational in the normal range; 0 for q <= 0 *)
Definition fl_round (q : Q) : Q :=
  match Qnum q with
  | Zpos n =>
      let d := Qden q in
      let e0 := (Z.log2 (Zpos n) - Z.log2 (Zpos d) - 52)%Z in
      let n1 := (if e0 <? 0 then Z.shiftl (Zpos n) (- e0) else Zpos n)%Z in
      let d1 := (if e0 <? 0 then Zpos d else Z.shiftl (Zpos d) e0)%Z in
      (* n1/d1 = q / 2^e0 lies in (2^51, 2^54): one more step normalises into [2^52, 2^53) *)
      let '(n2, d2, e) :=
        (if n1 <? d1 * 2 ^ 52 then (2 * n1, d1, e0 - 1)
         else if d1 * 2 ^ 53 <=? n1 then (n1, 2 * d1, e0 + 1)
         else (n1, d1, e0))%Z in
      let m := (n2 / d2)%Z in
      let rem := (n2 - m * d2)%Z in
      let m' := (if (d2 <? 2 * rem) || ((d2 =? 2 * rem) && Z.odd m) then m + 1 else m)%Z in
      if (e <? 0)%Z then Qred (Qmake m' (Z.to_pos (2 ^ (- e)))) else inject_Z (m' * 2 ^ e)
  | _ => 0%Q
  end.

Definition fl_add (a b : Q) : Q := fl_round (a + b).
Definition fl_inv (size : nat) : Q := fl_round (Qmake 1 (Pos.of_nat size)).

(* r = 0.0; then k times r += 1.0/size *)
Fixpoint fsum (k : nat) (x : Q) : Q :=
  match k with
  | 0 => 0%Q
  | S k' => fl_add (fsum k' x) x
  end.

(* ------------------------------------------------------------------ limited_maximal_cliques *)
(* maximal cliques; those with more than m0 vertices are replaced by their m0-subsets; sorted
   per clique, de-duplicated (the C09 repair), canonical order *)
Definition limited (g : graph) (m0 : nat) : list clique :=
  sort_cl (flat_map (fun c => if Nat.ltb m0 (length c) then combs c m0 else [c]) (max_cliques g)).

(* ------------------------------------------------------------------ compute_scores *)
Definition subset2b (p : nat * nat) (n : clique) : bool := memb (fst p) n && memb (snd p) n.

(* is the vertex pair p of clique c also inside another listed clique? *)
Definition shared_pair (C : list clique) (c : clique) (p : nat * nat) : bool :=
  existsb (fun n => negb (list_eqb n c) && subset2b p n) C.

Definition shared_count (C : list clique) (c : clique) : nat :=
  length (filter (shared_pair C c) (pairs_of c)).

Definition binom2 (n : nat) : nat := Nat.div (n * (n - 1)) 2.

(* the float r[c] *)
Definition score (C : list clique) (c : clique) : Q :=
  if Nat.leb (length c) 2 then 0%Q
  else fsum (shared_count C c) (fl_inv (binom2 (length c))).

(* r[c] == 0: a float sum of positive terms is zero iff it has no term *)
Definition score_zero (C : list clique) (c : clique) : bool :=
  Nat.leb (length c) 2 || Nat.eqb (shared_count C c) 0.

Definition remove_cliques (g : graph) (EC : list clique) : graph := fold_left remove_clique EC g.

(* compute_scores + the filtering of C/ord/r + the removal of every cover member's edges *)
Definition absorb (g : graph) (EC : list clique) (C : list clique)
  : graph * list clique * list (clique * Q) :=
  let zs := filter (score_zero C) C in
  let ns := filter (fun c => negb (score_zero C c)) C in
  let EC' := EC ++ zs in
  (remove_cliques g EC', EC', map (fun c => (c, score C c)) ns).

(* ------------------------------------------------------------------ the greedy choice *)
Fixpoint qmin (l : list Q) (d : Q) : Q :=
  match l with
  | [] => d
  | x :: r => let m := qmin r d in if Qle_bool x m then x else m
  end.
Definition min_score (N : list (clique * Q)) : Q :=
  match N with [] => 0%Q | p :: r => qmin (map snd r) (snd p) end.

(* lowest score, then largest order; in lexicographic order (N is kept in that order) *)
Definition candidates (N : list (clique * Q)) : list clique :=
  let mn := min_score N in
  let low := map fst (filter (fun p => Qeq_bool (snd p) mn) N) in
  let mo := fold_right Nat.max 0 (map (@length nat) low) in
  filter (fun c => Nat.eqb (length c) mo) low.

(* status: 0 = the loop ended with an empty graph; 1 = fuel exhausted; 2 = ValueError
   (min() of an empty score list while edges remain) *)
Record outcome := mk_out { o_cover : list clique; o_graph : graph; o_status : nat;
                           o_trace : list (list clique) }.

Definition step_state (g : graph) (m0 : nat) (EC : list clique) (cli : clique) :=
  let g1 := remove_clique g cli in
  let C := filter (fun c => Nat.ltb 1 (length c)) (limited g1 m0) in
  absorb g1 (EC ++ [cli]) C.

(* the while loop; rs = the scripted ranks, one per round (0 when exhausted) *)
Fixpoint loop (fuel : nat) (m0 : nat) (g : graph) (EC : list clique) (N : list (clique * Q))
         (rs : list nat) (tr : list (list clique)) : outcome :=
  match g with
  | [] => mk_out EC g 0 (rev tr)
  | _ :: _ =>
      match fuel with
      | 0 => mk_out EC g 1 (rev tr)
      | S f =>
          let cands := candidates N in
          match nth_error cands (Nat.modulo (hd 0 rs) (length cands)) with
          | None => mk_out EC g 2 (rev tr)
          | Some cli =>
              let '(g2, EC2, N2) := step_state g m0 EC cli in
              loop f m0 g2 EC2 N2 (tl rs) (cands :: tr)
          end
      end
  end.

Definition eecc_run (g : graph) (m0 : nat) (rs : list nat) : outcome :=
  let '(g1, EC1, N1) := absorb g [] (limited g m0) in
  loop (S (length g)) m0 g1 EC1 N1 rs [].

(* every resolution of the tie-breaks at once *)
Fixpoint loop_all (fuel : nat) (m0 : nat) (g : graph) (EC : list clique) (N : list (clique * Q))
  : list (list clique * graph * nat) :=
  match g with
  | [] => [(EC, g, 0)]
  | _ :: _ =>
      match fuel with
      | 0 => [(EC, g, 1)]
      | S f =>
          match candidates N with
          | [] => [(EC, g, 2)]
          | cands =>
              flat_map (fun cli => let '(g2, EC2, N2) := step_state g m0 EC cli in
                                   loop_all f m0 g2 EC2 N2) cands
          end
      end
  end.

Definition eecc_all (g : graph) (m0 : nat) : list (list clique * graph * nat) :=
  let '(g1, EC1, N1) := absorb g [] (limited g m0) in
  loop_all (S (length g)) m0 g1 EC1 N1.

(* ------------------------------------------------------------------ the verified checker *)
Fixpoint nodupb (l : list nat) : bool :=
  match l with [] => true | x :: t => negb (memb x t) && nodupb t end.

(* duplicate-free, pairwise adjacent *)
Definition is_cliqueb (g : graph) (c : clique) : bool :=
  nodupb c && forallb (fun p => adjb g (fst p) (snd p)) (pairs_of c).

Definition member_okb (g : graph) (m0 : nat) (c : clique) : bool :=
  is_cliqueb g c && Nat.leb 2 (length c) && Nat.leb (length c) m0.

Definition count_cover (cover : list clique) (e : edge) : nat :=
  length (filter (subset2b e) cover).

Definition exact_cover_b (g : graph) (m0 : nat) (cover : list clique) : bool :=
  forallb (member_okb g m0) cover && forallb (fun e => Nat.eqb (count_cover cover e) 1) g.

(* same vertex set *)
Definition same_setb (a b : clique) : bool :=
  forallb (fun x => memb x b) a && forallb (fun x => memb x a) b.

Definition share_edgeb (a b : clique) : bool := existsb (fun p => subset2b p b) (pairs_of a).

(* every maximal clique with at most m0 vertices that shares no edge with another maximal
   clique is a member of the cover *)
Definition isolated_ok_b (g : graph) (m0 : nat) (cover : list clique) : bool :=
  let mc := max_cliques g in
  forallb (fun K =>
    implb (Nat.leb (length K) m0 && forallb (fun K' => list_eqb K' K || negb (share_edgeb K K')) mc)
          (existsb (same_setb K) cover)) mc.

(* ---- the same clause without enumerating maximal cliques (polynomial; Proofs/EeccFastP.v) ----
   On a loop-free graph a maximal clique K shares no edge with a different maximal clique exactly when no vertex
   outside K has two neighbours in K (every common neighbour of two members is a member); such a K is, for each
   of its edges {u,v}, the set {u,v} + common neighbours of u and v.  So there is one candidate per edge; each
   isolated maximal clique is examined once, at the edge joining its two smallest vertices. *)
(* neighbours of v as the edge list gives them (repeats possible when an edge is listed twice) *)
Definition nbrs (g : graph) (v : nat) : list nat :=
  flat_map (fun e => if Nat.eqb (fst e) v then [snd e] else if Nat.eqb (snd e) v then [fst e] else []) g.

(* adjacency table, one row per vertex, computed once *)
Definition adjtab (g : graph) : list (nat * list nat) := map (fun v => (v, nbrs g v)) (verts g).
Definition nb (tab : list (nat * list nat)) (v : nat) : list nat :=
  match find (fun p => Nat.eqb (fst p) v) tab with Some p => snd p | None => [] end.

(* u, v and their common neighbours, ascending (N = neighbour lists, vs = the ascending vertex list) *)
Definition cand (N : nat -> list nat) (vs : list nat) (u v : nat) : clique :=
  let Nu := N u in let Nv := N v in
  filter (fun w => Nat.eqb w u || Nat.eqb w v || (memb w Nu && memb w Nv)) vs.

Definition clique_fast (N : nat -> list nat) (K : clique) : bool :=
  forallb (fun a => let Na := N a in forallb (fun b => Nat.eqb a b || memb b Na) K) K.

(* no vertex outside K has two neighbours in K *)
Definition closed_fast (N : nat -> list nat) (vs : list nat) (K : clique) : bool :=
  forallb (fun w => memb w K || (let Nw := N w in Nat.leb (length (filter (fun a => memb a Nw) K)) 1)) vs.

(* K begins with the two ends of the edge *)
Definition first_two (K : clique) (u v : nat) : bool :=
  match K with
  | a :: b :: _ => Nat.eqb a (Nat.min u v) && Nat.eqb b (Nat.max u v)
  | _ => false
  end.

Definition isolated_ok_fast_b (g : graph) (m0 : nat) (cover : list clique) : bool :=
  let vs := verts g in
  let tab := adjtab g in
  let N := nb tab in
  forallb (fun e =>
    let K := cand N vs (fst e) (snd e) in
    implb (first_two K (fst e) (snd e) && Nat.leb (length K) m0 && clique_fast N K && closed_fast N vs K)
          (existsb (same_setb K) cover)) g.

Definition outcome_ok (g : graph) (m0 : nat) (o : list clique * graph * nat) : bool :=
  let '(cover, g', st) := o in
  Nat.eqb st 0 && negb (nonemptyb g') && exact_cover_b g m0 cover && isolated_ok_b g m0 cover.

(* ------------------------------------------------------------------ wire *)
(* c09_run  (edges m0 ranks iso)  ->  (status cover final_edges rounds max_cliques limited)
   iso = vertices of the working graph that carry no edge (left behind by an earlier get_EECC on the
   same object; empty for a graph built from edges).  What the Python code rejects:
   m0 = 0 with any vertex -> IndexError (code 3); m0 = 1 with an edge -> ValueError (code 2);
   an isolated vertex ends up as a singleton in the cover and the final sort key x[1] raises
   IndexError (code 3). *)
Definition c09_run (t : tree) : tree :=
  let g := norm_graph (t_pairs (t_nth 0 t)) in
  let m0 := t_nat (t_nth 1 t) in
  let rs := t_nats (t_nth 2 t) in
  let iso := t_nats (t_nth 3 t) in
  let run := let o := eecc_run g m0 rs in
             L [of_nat (o_status o); of_natss (o_cover o); of_pairs (o_graph o);
                L (map of_natss (o_trace o)); of_natss (max_cliques g); of_natss (limited g m0)] in
  match m0 with
  | 0 => if nonemptyb g || nonemptyb iso then t_err 3 else run
  | 1 => if nonemptyb g then t_err 2 else if nonemptyb iso then t_err 3 else run
  | _ => if nonemptyb iso then t_err 3 else run
  end.

(* c09_lim  (edges m0 iso)  ->  (find_cliques  limited_maximal_cliques), isolated vertices as singletons (m0 >= 1) *)
Definition c09_lim (t : tree) : tree :=
  let g := norm_graph (t_pairs (t_nth 0 t)) in
  let m0 := t_nat (t_nth 1 t) in
  let single := map (fun v => [v]) (t_nats (t_nth 2 t)) in
  L [of_natss (sort_cl (single ++ max_cliques g)); of_natss (sort_cl (single ++ limited g m0))].

(* c09_all  (edges m0)  ->  every outcome (status cover) over all tie-break sequences *)
Definition c09_all (t : tree) : tree :=
  let g := norm_graph (t_pairs (t_nth 0 t)) in
  let m0 := t_nat (t_nth 1 t) in
  L (map (fun o => L [of_nat (snd o); of_natss (fst (fst o))]) (eecc_all g m0)).

(* c09_check  (edges m0 cover has_edges_after)  ->  (exact_cover graph_empty isolated_intact) *)
Definition c09_check (t : tree) : tree :=
  let g := norm_graph (t_pairs (t_nth 0 t)) in
  let m0 := t_nat (t_nth 1 t) in
  let cover := t_natss (t_nth 2 t) in
  L [of_bool (exact_cover_b g m0 cover); of_bool (negb (t_bool (t_nth 3 t)));
     of_bool (isolated_ok_b g m0 cover)].

(* c09_check_cover  (edges m0 cover has_edges_after)  ->  (exact_cover graph_empty)
   the exact-cover clauses of c09_check alone: no maximal-clique enumeration is needed for them, so this entry also
   judges covers of graphs far beyond the reach of the brute-force model (Proofs/EeccWireP.v: its first answer is
   1 exactly when ExactCover holds for the simple graph of the edge list handed over, and its two answers are the
   first two of c09_check) *)
Definition c09_check_cover (t : tree) : tree :=
  let g := norm_graph (t_pairs (t_nth 0 t)) in
  let m0 := t_nat (t_nth 1 t) in
  let cover := t_natss (t_nth 2 t) in
  L [of_bool (exact_cover_b g m0 cover); of_bool (negb (t_bool (t_nth 3 t)))].

(* c09_check_full_fast  (edges m0 cover has_edges_after)  ->  (exact_cover graph_empty isolated_intact)
   all three clauses of c09_check, the third decided by isolated_ok_fast_b (no maximal-clique enumeration): judges
   covers of graphs far beyond the reach of the brute-force model (Proofs/EeccFastP.v: its answers are those of
   c09_check for every tree, and its third answer is 1 exactly when IsolatedIntact holds) *)
Definition c09_check_full_fast (t : tree) : tree :=
  let g := norm_graph (t_pairs (t_nth 0 t)) in
  let m0 := t_nat (t_nth 1 t) in
  let cover := t_natss (t_nth 2 t) in
  L [of_bool (exact_cover_b g m0 cover); of_bool (negb (t_bool (t_nth 3 t)));
     of_bool (isolated_ok_fast_b g m0 cover)].

(* c09_fl  (k order)  ->  the float score after k additions of 1.0/binom(order,2), as (num den) *)
Definition c09_fl (t : tree) : tree :=
  of_q (fsum (t_nat (t_nth 0 t)) (fl_inv (binom2 (t_nat (t_nth 1 t))))).
