(* Checker-only entry points of the generator unit (definitions only; proofs in Proofs/GenBigP.v).

   1. c01_check_results : the RESULTS of the build callbacks against the builders' specification.
      C01 says every emitted motif instance is "obtained by applying that topology's build callback"
      to the drawn stubs; clique_motif / cycle_motif / diamond_motif are anchored files of C01.  The
      harness logs (argument list, result) of every callback call; this checker accepts iff every
      logged result IS builder_of_code applied to the logged arguments (Gen.builder_of_code is the
      Gallina specification of the three library builders and of the synthetic callbacks of the
      correspondence).  A builder that remembers state between calls (a cached list that a caller
      extended in place) returns something else on the second call with equal arguments.

   2. c03_check_big : stub lists too long for unary naturals (tens of thousands of stubs).  The
      fast generator is run with random.shuffle scripted to a fixed, structured permutation per
      topology (optional reversal followed by a left rotation by r: linear time to apply here);
      the checker, over Z, takes jds, the sizes, the scripted permutations, the lists the shuffle
      entry point was handed (in call order) and the observed build-callback calls, and accepts iff
        - the shuffle entry point was called exactly once per topology, in topology order, each
          time on that topology's WHOLE stub list (vertex v repeated jds[v][k] times, vertex order),
          and no scripted answer is left over;
        - the callback calls are exactly, topology by topology, the consecutive size_k-chunks of
          the permuted stub list.
      GenBigP.c03_big_sound: acceptance implies that the observed calls are those of Gen.plan_fast
      under the schedule pis made of the scripted permutations (which satisfy PisOk), hence
      (GenC03P.placement_fast_nohs) the placement read off the calls is shuffle_all pis (all_stubs jds):
      the groups are the chunks of the ONE shuffled list. *)
From Coq Require Import List ZArith Bool Arith.
From GV Require Import Lib.Tree Model.Gen.
Import ListNotations.

(* ------------------------------------------------------------------ 1. callback results vs builder specification *)
Definition shape_eqb (a b : shape) : bool :=
  match a, b with
  | Bare a1 b1, Bare a2 b2 => Nat.eqb a1 a2 && Nat.eqb b1 b2
  | Edges e1, Edges e2 => pairs_eqb e1 e2
  | _, _ => false
  end.

Fixpoint results_okb (build : nat -> list nat -> res shape) (calls : list call)
         (results : list (nat * shape)) : bool :=
  match calls, results with
  | [], [] => true
  | c :: cs, r :: rs =>
      Nat.eqb (fst r) (fst c) &&
      match build (fst c) (snd c) with Ok sh => shape_eqb sh (snd r) | Err _ => false end &&
      results_okb build cs rs
  | _, _ => false
  end.

(* input: [builder codes; calls = list of [j; args]; results = list of [j; shape]] ; answer 1 / 0 *)
Definition c01_check_results (t : tree) : tree :=
  let codes := t_nats (t_nth 0 t) in
  let calls := map dec_call (t_list (t_nth 1 t)) in
  let results := map (fun x => (t_nat (t_nth 0 x), dec_shape (t_nth 1 x))) (t_list (t_nth 2 t)) in
  of_bool (results_okb (build_of_codes codes) calls results).

(* ------------------------------------------------------------------ 2. large stub lists, over Z *)
(* grouper / partition on any element type (Gen.chunks is the nat instance) *)
Fixpoint chunksP_aux {A : Type} (fuel n : nat) (l : list A) : list (list A) :=
  match fuel with
  | O => []
  | S f => match l with
           | [] => []
           | _ :: _ => firstn n l :: chunksP_aux f n (skipn n l)
           end
  end.
Definition chunksP {A : Type} (n : nat) (l : list A) : list (list A) := chunksP_aux (length l) n l.

(* the scripted permutations: optional reversal, then rotation to the left by r *)
Definition rotl {A : Type} (r : nat) (l : list A) : list A := skipn r l ++ firstn r l.
(* List.rev is quadratic; rev_append l [] is the same list (List.rev_alt) in linear time *)
Definition perm_apply {A : Type} (sp : bool * nat) (l : list A) : list A :=
  rotl (snd sp) (if fst sp then rev_append l [] else l).
(* ... as an answer of random.shuffle in the sense of Gen.arrange: the list of source positions *)
Definition pi_of (sp : bool * nat) (n : nat) : list nat := perm_apply sp (seq 0 n).

Fixpoint apply_specs {A : Type} (specs : list (bool * nat)) (sl : list (list A)) : list (list A) :=
  match sl with
  | [] => []
  | s :: sl' => perm_apply (hd (false, 0) specs) s :: apply_specs (tl specs) sl'
  end.
Fixpoint pis_of {A : Type} (specs : list (bool * nat)) (sl : list (list A)) : list (list nat) :=
  match sl with
  | [] => []
  | s :: sl' => pi_of (hd (false, 0) specs) (length s) :: pis_of (tl specs) sl'
  end.

Definition ncolsZ (jds : list (list Z)) : nat :=
  match jds with
  | [] => 0
  | r :: rs => fold_left Nat.min (map (@length Z) rs) (length r)
  end.
Definition colZ (k : nat) (jds : list (list Z)) : list Z := map (fun r => nth k r 0%Z) jds.
Fixpoint stubs_fromZ (v : Z) (c : list Z) : list Z :=
  match c with [] => [] | d :: c' => repeat v (Z.to_nat d) ++ stubs_fromZ (v + 1)%Z c' end.
Definition all_stubsZ (jds : list (list Z)) : list (list Z) :=
  map (fun k => stubs_fromZ 0%Z (colZ k jds)) (seq 0 (ncolsZ jds)).

(* the calls the fast generator must make on the (already shuffled) stub lists sl *)
Fixpoint plan_bigZ (k : nat) (sizes : list Z) (sl : list (list Z)) : option (list (nat * list Z)) :=
  match sl with
  | [] => Some []
  | s :: rest =>
      match nth_error sizes k with
      | Some n =>
          if Z.ltb 0 n
          then match plan_bigZ (S k) sizes rest with
               | Some cs => Some (map (fun g => (k, g)) (chunksP (Z.to_nat n) s) ++ cs)
               | None => None
               end
          else None
      | None => None
      end
  end.

Fixpoint zlists_eqb (a b : list (list Z)) : bool :=
  match a, b with
  | [], [] => true
  | x :: a', y :: b' => zlist_eqb x y && zlists_eqb a' b'
  | _, _ => false
  end.
Fixpoint zcalls_eqb (a b : list (nat * list Z)) : bool :=
  match a, b with
  | [], [] => true
  | x :: a', y :: b' => Nat.eqb (fst x) (fst y) && zlist_eqb (snd x) (snd y) && zcalls_eqb a' b'
  | _, _ => false
  end.

Definition c03_big_okb (sizes : list Z) (jds : list (list Z)) (specs : list (bool * nat))
           (shufs : list (list Z)) (left : Z) (calls : list (nat * list Z)) : bool :=
  let sl := all_stubsZ jds in
  zlists_eqb shufs sl && Nat.eqb (length specs) (length sl) && Z.eqb left 0 &&
  match plan_bigZ 0 sizes (apply_specs specs sl) with
  | Some cs => zcalls_eqb calls cs
  | None => false
  end.

(* input: [jds (rows); sizes; specs = list of [reverse? 0/1; r]; lists handed to random.shuffle, in call order;
           number of scripted answers left; calls = list of [k; args]] ; answer 1 / 0 *)
Definition c03_check_big (t : tree) : tree :=
  let jds := map t_zs (t_list (t_nth 0 t)) in
  let sizes := t_zs (t_nth 1 t) in
  let specs := map (fun x => (Z.eqb (t_z (t_nth 0 x)) 1, t_nat (t_nth 1 x))) (t_list (t_nth 2 t)) in
  let shufs := map t_zs (t_list (t_nth 3 t)) in
  let left := t_z (t_nth 4 t) in
  let calls := map (fun x => (t_nat (t_nth 0 x), t_zs (t_nth 1 x))) (t_list (t_nth 5 t)) in
  of_bool (c03_big_okb sizes jds specs shufs left calls).
