(* Model of gcmpy/tools/draw_set.py (class DrawSet).
   Definitions only; proofs live in Proofs/DrawSetP.v. *)
From Coq Require Import List ZArith Bool Arith.
From GV Require Import Lib.Tree.
Import ListNotations.

(* association list = the dict [_edge_hashmap] *)
Fixpoint lookup (m : list (Z * nat)) (k : Z) : option nat :=
  match m with
  | [] => None
  | (k', v) :: m' => if Z.eqb k k' then Some v else lookup m' k
  end.

Fixpoint mremove (m : list (Z * nat)) (k : Z) : list (Z * nat) :=
  match m with
  | [] => []
  | (k', v) :: m' => if Z.eqb k k' then mremove m' k else (k', v) :: mremove m' k
  end.

Definition mset (m : list (Z * nat)) (k : Z) (v : nat) := (k, v) :: mremove m k.

Fixpoint set_nth {A} (n : nat) (x : A) (l : list A) : list A :=
  match l, n with
  | [], _ => []
  | _ :: t, O => x :: t
  | h :: t, S n' => h :: set_nth n' x t
  end.

Record ds := mk_ds { edges : list Z; hm : list (Z * nat) }.

Definition ds_empty : ds := mk_ds [] [].

(* __contains__ *)
Definition ds_contains (s : ds) (e : Z) : bool :=
  match lookup (hm s) e with Some _ => true | None => false end.

(* add *)
Definition ds_add (s : ds) (e : Z) : ds :=
  if ds_contains s e then s
  else mk_ds (edges s ++ [e]) (mset (hm s) e (length (edges s))).

(* remove: None = the Python call raised (KeyError on the dict pop: state untouched;
   IndexError on the list pop is unreachable under the invariant). *)
Definition ds_remove (s : ds) (e : Z) : option ds :=
  match lookup (hm s) e with
  | None => None
  | Some p =>
      let hm1 := mremove (hm s) e in
      match rev (edges s) with
      | [] => None
      | lst :: r =>
          let es1 := rev r in
          if Nat.eqb p (length es1) then Some (mk_ds es1 hm1)
          else Some (mk_ds (set_nth p lst es1) (mset hm1 lst p))
      end
  end.

(* draw = random.choice(_edges): the oracle answers an index *)
Definition ds_draw (s : ds) (i : nat) : option Z := nth_error (edges s) i.
Definition ds_len (s : ds) : nat := length (edges s).
Definition ds_iter (s : ds) : list Z := edges s.

(* operations and observable outputs *)
Inductive op := OAdd (e : Z) | ORemove (e : Z) | ODraw (i : nat) | OContains (e : Z) | OLen | OIter.
Inductive out := RUnit | RErr | RElem (e : Z) | RBool (b : bool) | RNat (n : nat) | RList (l : list Z).

Definition step (s : ds) (o : op) : ds * out :=
  match o with
  | OAdd e => (ds_add s e, RUnit)
  | ORemove e => match ds_remove s e with Some s' => (s', RUnit) | None => (s, RErr) end
  | ODraw i => (s, match ds_draw s i with Some e => RElem e | None => RErr end)
  | OContains e => (s, RBool (ds_contains s e))
  | OLen => (s, RNat (ds_len s))
  | OIter => (s, RList (ds_iter s))
  end.

Fixpoint run (s : ds) (ops : list op) : ds * list out :=
  match ops with
  | [] => (s, [])
  | o :: ops' => let '(s1, r) := step s o in
                 let '(s2, rs) := run s1 ops' in (s2, r :: rs)
  end.

(* ---------- the plain-set specification ---------- *)
Definition aset := list Z.
Definition a_mem (l : aset) (e : Z) : bool := existsb (Z.eqb e) l.
Definition a_add (l : aset) (e : Z) : aset := if a_mem l e then l else e :: l.
Definition a_remove (l : aset) (e : Z) : aset := filter (fun x => negb (Z.eqb e x)) l.

(* ---------- wire format ---------- *)
Definition dec_op (t : tree) : op :=
  let a := t_z (t_nth 1 t) in
  match t_z (t_nth 0 t) with
  | 0%Z => OAdd a
  | 1%Z => ORemove a
  | 2%Z => ODraw (Z.to_nat a)
  | 3%Z => OContains a
  | 4%Z => OLen
  | _ => OIter
  end.

Definition enc_out (o : out) : tree :=
  match o with
  | RUnit => L [I 0]
  | RErr => L [I 1]
  | RElem e => L [I 2; I e]
  | RBool b => L [I 3; of_bool b]
  | RNat n => L [I 4; of_nat n]
  | RList l => L [I 5; of_zs l]
  end.

Definition enc_ds (s : ds) : tree :=
  L [of_zs (edges s); L (map (fun kv => L [I (fst kv); of_nat (snd kv)]) (hm s))].

(* run a history from the empty set; report after every step the output and the
   full internal state (list exactly, dict as pairs) *)
Fixpoint run_trace (s : ds) (ops : list op) : list tree :=
  match ops with
  | [] => []
  | o :: ops' => let '(s1, r) := step s o in L [enc_out r; enc_ds s1] :: run_trace s1 ops'
  end.

Definition c20_run (t : tree) : tree := L (run_trace ds_empty (map dec_op (t_list t))).

(* executable checker of an observed history against the plain-set specification:
   input = list of [op; out; state] as observed on the implementation. *)
Definition dec_out (t : tree) : out :=
  let a := t_nth 1 t in
  match t_z (t_nth 0 t) with
  | 0%Z => RUnit
  | 1%Z => RErr
  | 2%Z => RElem (t_z a)
  | 3%Z => RBool (t_bool a)
  | 4%Z => RNat (t_nat a)
  | _ => RList (t_zs a)
  end.

Fixpoint nodupb (l : list Z) : bool :=
  match l with [] => true | x :: t => negb (existsb (Z.eqb x) t) && nodupb t end.

Definition same_set (l1 l2 : list Z) : bool :=
  forallb (fun x => a_mem l2 x) l1 && forallb (fun x => a_mem l1 x) l2.

(* does output [r] of operation [o] agree with a plain set [l] (state before)? *)
Definition out_ok (l : aset) (o : op) (r : out) : bool :=
  match o, r with
  | OAdd _, RUnit => true
  | ORemove e, RUnit => a_mem l e
  | ORemove e, RErr => negb (a_mem l e)
  | ODraw i, RElem e => Nat.ltb i (length l) && a_mem l e
  | ODraw i, RErr => Nat.leb (length l) i
  | OContains e, RBool b => Bool.eqb b (a_mem l e)
  | OLen, RNat n => Nat.eqb n (length l)
  | OIter, RList it => nodupb it && same_set it l
  | _, _ => false
  end.

Definition a_step (l : aset) (o : op) : aset :=
  match o with
  | OAdd e => a_add l e
  | ORemove e => a_remove l e
  | _ => l
  end.

Fixpoint check_hist (l : aset) (h : list (op * out * list Z)) : bool :=
  match h with
  | [] => true
  | (o, r, es) :: h' =>
      let l' := a_step l o in
      out_ok l o r && nodupb es && same_set es l' && check_hist l' h'
  end.

Definition c20_check (t : tree) : tree :=
  of_bool (check_hist []
    (map (fun x => (dec_op (t_nth 0 x), dec_out (t_nth 1 x), t_zs (t_nth 2 x))) (t_list t))).
