(* Model of gcmpy/covers/mpcc.py (function MPCC) and the verified checker of property C10.
   Definitions only; proofs live in Proofs/MpccP.v.

   Python                                               model
   g = G.copy()                                         the working edge list [rem]
   cliques = list(nx.enumerate_all_cliques(g))          [all_cliques g] (as a set of sets; modelled, not verified)
   shuffle(cliques)                                     the schedule [sh]: the post-shuffle list as logged by the
                                                        scripted shuffle, validated by [valid_sched]
   cliques = sorted(cliques, key=len, reverse=True)     [sort_desc] (stable insertion sort, descending length)
   the acceptance loop                                  [greedy] = fold_left [step]
   the labelling loop with itertools.count(0)           [labels_from 0 cover]; last write wins = [label_of]   *)
From Coq Require Import List Arith Bool ZArith.
From GV Require Import Lib.Tree Lib.GraphM.
Import ListNotations.

(* `if len(c) > max_size and max_size > 0: continue`  -- within = the clique is NOT skipped *)
Definition within (ms n : nat) : bool := negb (Nat.ltb ms n && Nat.ltb 0 ms).

(* all pairs of c still present in the working copy *)
Definition accepts (rem : list edge) (c : list nat) : bool :=
  forallb (fun e => adj rem (fst e) (snd e)) (pairs c).

Definition mstate := (list edge * list (list nat))%type.   (* working edges, cover so far *)

Definition step (ms : nat) (st : mstate) (c : list nat) : mstate :=
  if within ms (length c) then
    if accepts (fst st) c then (del_edges (fst st) (pairs c), snd st ++ [c]) else st
  else st.

Definition greedy (ms : nat) (es : list edge) (order : list (list nat)) : mstate :=
  fold_left (step ms) order (es, []).

(* sorted(key=len, reverse=True): stable, descending length *)
Fixpoint insert_desc (x : list nat) (l : list (list nat)) : list (list nat) :=
  match l with
  | [] => [x]
  | y :: t => if Nat.leb (length y) (length x) then x :: y :: t else y :: insert_desc x t
  end.
Definition sort_desc (l : list (list nat)) : list (list nat) := fold_right insert_desc [] l.

(* label = (size, members, id)   <->   f"{len(c)}-{c}-{ID}" *)
Definition label := (nat * list nat * nat)%type.
Definition lab_size (l : label) : nat := fst (fst l).
Definition lab_mem (l : label) : list nat := snd (fst l).
Definition lab_id (l : label) : nat := snd l.

(* the writes of the labelling loop, in order; ids = position in the cover *)
Fixpoint labels_from (i : nat) (cover : list (list nat)) : list (edge * label) :=
  match cover with
  | [] => []
  | c :: t => map (fun e => (e, (length c, c, i))) (pairs c) ++ labels_from (S i) t
  end.

(* attribute of edge e after all the writes: the last write to e wins *)
Definition label_of (labs : list (edge * label)) (e : edge) : option label :=
  match find (fun p => eqe e (fst p)) (rev labs) with
  | Some p => Some (snd p)
  | None => None
  end.

(* observation of a covered graph: its node list, and one row per edge with its label *)
Definition row := (edge * option label)%type.
Record obs := mk_obs { o_nodes : list nat; o_rows : list row }.

Definition mpcc_order (sh : list (list nat)) : list (list nat) := sort_desc sh.
Definition mpcc_cover (g : graph) (ms : nat) (order : list (list nat)) : list (list nat) :=
  snd (greedy ms (g_edges g) order).
Definition rows_of_cover (g : graph) (cover : list (list nat)) : list row :=
  let labs := labels_from 0 cover in map (fun e => (e, label_of labs e)) (g_edges g).
(* the core, for an arbitrary processing order *)
Definition mpcc_core (g : graph) (ms : nat) (order : list (list nat)) : obs :=
  mk_obs (g_nodes g) (rows_of_cover g (mpcc_cover g ms order)).
(* MPCC under the schedule sh (post-shuffle clique list) *)
Definition mpcc (g : graph) (ms : nat) (sh : list (list nat)) : obs :=
  mpcc_core g ms (mpcc_order sh).

(* the schedule is an arrangement of all cliques of g: every entry is a clique of g, every clique of the
   model's own enumeration is present (as a set), and there are exactly as many entries *)
Definition valid_sched (g : graph) (sh : list (list nat)) : bool :=
  forallb (fun c => is_cliqueb g c && nonemptyb c) sh &&
  forallb (fun k => existsb (set_eqb k) sh) (all_cliques g) &&
  Nat.eqb (length sh) (length (all_cliques g)).

(* ------------------------------------------------------------------ the checker of C10 *)
Fixpoint list_eqb (a b : list nat) : bool :=
  match a, b with
  | [], [] => true
  | x :: a', y :: b' => Nat.eqb x y && list_eqb a' b'
  | _, _ => false
  end.
Definition label_eqb (a b : label) : bool :=
  Nat.eqb (lab_size a) (lab_size b) && list_eqb (lab_mem a) (lab_mem b) && Nat.eqb (lab_id a) (lab_id b).
Definition has_label (l : label) (r : row) : bool :=
  match snd r with Some l' => label_eqb l l' | None => false end.

(* 1. same vertices *)
Definition ck_nodes (g : graph) (o : obs) : bool :=
  forallb (fun v => memb v (g_nodes g)) (o_nodes o) && forallb (fun v => memb v (o_nodes o)) (g_nodes g) &&
  nodupb (o_nodes o).
(* 2. same edges, each listed once *)
Definition ck_edges (g : graph) (o : obs) : bool :=
  let es' := map fst (o_rows o) in
  forallb (fun e => adj (g_edges g) (fst e) (snd e)) es' && forallb (fun e => adj es' (fst e) (snd e)) (g_edges g) &&
  simpleb es'.
(* 3. every edge carries a label *)
Definition ck_labelled (o : obs) : bool :=
  forallb (fun r : row => match snd r with Some _ => true | None => false end) (o_rows o).
(* 4. per label: size = |members|, distinct members, size limit, rows with this label = pairs of members *)
Definition ck_label (ms : nat) (rows : list row) (l : label) : bool :=
  Nat.eqb (lab_size l) (length (lab_mem l)) && nodupb (lab_mem l) &&
  (Nat.eqb ms 0 || Nat.leb (lab_size l) ms) &&
  forallb (fun p => existsb (fun r => has_label l r && eqe (fst r) p) rows) (pairs (lab_mem l)) &&
  forallb (fun r => if has_label l r then inpairb (lab_mem l) (fst (fst r)) (snd (fst r)) else true) rows.
Definition ck_labels (ms : nat) (o : obs) : bool :=
  forallb (fun r : row => match snd r with Some l => ck_label ms (o_rows o) l | None => true end) (o_rows o).
(* 5. ids unique per clique *)
Definition ck_ids (o : obs) : bool :=
  forallb (fun r1 : row => forallb (fun r2 : row =>
     match snd r1, snd r2 with
     | Some l1, Some l2 => if Nat.eqb (lab_id l1) (lab_id l2) then label_eqb l1 l2 else true
     | _, _ => true
     end) (o_rows o)) (o_rows o).
(* 6. greedy-maximality: every clique (>= 2 vertices, within the limit) has an edge whose label is at least as large *)
Definition ck_greedy (g : graph) (ms : nat) (o : obs) : bool :=
  forallb (fun K =>
     if Nat.leb 2 (length K) && within ms (length K) then
       existsb (fun r : row =>
          match snd r with
          | Some l => inpairb K (fst (fst r)) (snd (fst r)) && Nat.leb (length K) (lab_size l)
          | None => false
          end) (o_rows o)
     else true) (cliques_on (g_edges g) (g_nodes g)).

Definition check_parts (g : graph) (ms : nat) (o : obs) : list bool :=
  [ck_nodes g o; ck_edges g o; ck_labelled o; ck_labels ms o; ck_ids o; ck_greedy g ms o].
Definition check (g : graph) (ms : nat) (o : obs) : bool :=
  ck_nodes g o && ck_edges g o && ck_labelled o && ck_labels ms o && ck_ids o && ck_greedy g ms o.

(* ------------------------------------------------------------------ wire format *)
Definition dec_graph (tn te : tree) : graph := mk_graph (t_nats tn) (t_pairs te).

Definition enc_label (ol : option label) : tree :=
  match ol with
  | None => L []
  | Some l => L [of_nat (lab_size l); of_nats (lab_mem l); of_nat (lab_id l)]
  end.
Definition dec_label (t : tree) : option label :=
  match t_list t with
  | [] => None
  | _ => Some (t_nat (t_nth 0 t), t_nats (t_nth 1 t), t_nat (t_nth 2 t))
  end.
Definition enc_row (r : row) : tree := L [of_nat (fst (fst r)); of_nat (snd (fst r)); enc_label (snd r)].
Definition dec_row (t : tree) : row := ((t_nat (t_nth 0 t), t_nat (t_nth 1 t)), dec_label (t_nth 2 t)).

(* c10_run (nodes edges max_size sched) = (0 cover rows) | error 1 (not a simple loop-free graph)
                                                       | error 2 (sched is not an arrangement of all cliques) *)
Definition c10_run (t : tree) : tree :=
  let g := dec_graph (t_nth 0 t) (t_nth 1 t) in
  let ms := t_nat (t_nth 2 t) in
  let sh := t_natss (t_nth 3 t) in
  if negb (valid_graph g) then t_err 1
  else if negb (valid_sched g sh) then t_err 2
  else
    let order := mpcc_order sh in
    let cover := mpcc_cover g ms order in
    L [I 0; of_natss cover; L (map enc_row (rows_of_cover g cover))].

(* c10_check (nodes edges max_size nodes_after rows_after) = (verdict part1 ... part6) | error 1 *)
Definition c10_check (t : tree) : tree :=
  let g := dec_graph (t_nth 0 t) (t_nth 1 t) in
  let ms := t_nat (t_nth 2 t) in
  let o := mk_obs (t_nats (t_nth 3 t)) (map dec_row (t_list (t_nth 4 t))) in
  if negb (valid_graph g) then t_err 1
  else L (map of_bool (check g ms o :: check_parts g ms o)).
