(* C19 — built-in degree distributions (gcmpy/distributions/{exponential,poisson,power_law,
   scale_free_cut_off}.py).  Definitions only.

   Part 1: the four laws over Coq's real numbers, exactly the formulas of the code, with the
           truncated normalisers (the loops of [zeta] / [polylog]: terms are added until the
           first one below the tolerance, that one included).
   Part 2: executable interval enclosures of the same formulas (Interval's computable
           I.exp / I.ln / I.mul / I.div / I.fromZ, 80 bits), including the truncation loop.
   Part 3: the checker [c19_eval] / [c19_check]: "the implementation's float (an exact dyadic
           rational) is non-negative and lies within the stated relative tolerance of the law".
           It is evaluated INSIDE Coq ([Eval vm_compute], cases file written by the harness);
           nothing of this file is extracted to OCaml (reals and Interval stay in Coq). *)
From Coq Require Import Reals ZArith List Bool QArith Qreals.
From Coquelicot Require Import Coquelicot.
From Interval Require Import Specific_bigint Specific_ops Float_full Interval Xreal Basic Sig.
From GV Require Import Lib.Tree.
Import ListNotations.

Module F := SpecificFloat BigIntRadix2.
Module I := FloatIntervalFull F.

(* ------------------------------------------------------------------ constants (exact) *)
(* tol = +1e-06 of the code IS this double (float.hex 0x1.0c6f7a0b5ed8dp-20) *)
Definition tolQ : Q := (4722366482869645 # 4722366482869645213696)%Q.
(* float comparisons at the break point are trusted to relative 2^-40 only *)
Definition fuzzQ : Q := (1 # 1099511627776)%Q.
Definition tol_loQ : Q := (tolQ * (1 - fuzzQ))%Q.
Definition tol_hiQ : Q := (tolQ * (1 + fuzzQ))%Q.
(* accepted distance between the float and the real-valued law: rel * |law| + abs *)
Definition relQ : Q := (1 # 68719476736)%Q.            (* 2^-36 ~ 1.5e-11 *)
Definition absQ : Q := (1 # (2 ^ 1000))%Q.

(* ------------------------------------------------------------------ Part 1: laws over R *)
Section RealLaws.
Local Open Scope R_scope.

Definition exponential_R (a : R) (k : nat) : R := (1 - exp (- a)) * exp (- a * INR k).

Definition poisson_R (m : R) (k : nat) : R := exp (- m) * m ^ k / INR (fact k).

(* k ** -s  (k >= 1) *)
Definition pl_term (s : R) (j : nat) : R := Rpower (INR j) (- s).
(* zk / k**s with zk = z^k *)
Definition co_term (s z : R) (j : nat) : R := z ^ j * Rpower (INR j) (- s).

(* partial sum  t 1 + ... + t K *)
Fixpoint psum (t : nat -> R) (K : nat) : R :=
  match K with O => 0 | S n => psum t n + t (S n) end.

Definition tolR : R := Q2R tolQ.
Definition tol_lo : R := Q2R tol_loQ.
Definition tol_hi : R := Q2R tol_hiQ.

(* K is where the loop `while 1: l += term; if abs(term) < tol: break; k += 1` stops *)
Definition is_break (t : nat -> R) (K : nat) : Prop :=
  (1 <= K)%nat /\ Rabs (t K) < tolR /\ forall j, (1 <= j < K)%nat -> tolR <= Rabs (t j).
(* the same with the comparison trusted to 2^-40 only (what a float evaluation can decide) *)
Definition near_break (t : nat -> R) (K : nat) : Prop :=
  (1 <= K)%nat /\ Rabs (t K) < tol_hi /\ forall j, (1 <= j < K)%nat -> tol_lo <= Rabs (t j).

(* the laws as the code computes them, K = number of terms in the normaliser *)
Definition power_law_R (s : R) (K k : nat) : R := pl_term s k / psum (pl_term s) K.
Definition cutoff_z (kappa : R) : R := exp (- 1 / kappa).
Definition cutoff_R (s kappa : R) (K k : nat) : R :=
  pl_term s k * exp (- INR k / kappa) / psum (co_term s (cutoff_z kappa)) K.

(* the named laws: zeta and the polylogarithm are the full series *)
Definition zeta (s : R) : R := Series (fun n => pl_term s (S n)).
Definition polylog (s z : R) : R := Series (fun n => co_term s z (S n)).
Definition power_law_exact (s : R) (k : nat) : R := pl_term s k / zeta s.
Definition cutoff_exact (s kappa : R) (k : nat) : R :=
  pl_term s k * exp (- INR k / kappa) / polylog s (cutoff_z kappa).

(* what the checker establishes about a float x *)
Definition relR : R := Q2R relQ.
Definition absR : R := Q2R absQ.
Definition near (x f : R) : Prop := Rabs (x - f) <= relR * Rabs f + absR.

Definition Spec_exponential (a : R) (k : nat) (x : R) : Prop := 0 <= x /\ near x (exponential_R a k).
Definition Spec_poisson (m : R) (k : nat) (x : R) : Prop := 0 <= x /\ near x (poisson_R m k).
Definition Spec_power_law (s : R) (k : nat) (x : R) : Prop :=
  0 <= x /\ exists K, near_break (pl_term s) K /\ near x (power_law_R s K k).
Definition Spec_cutoff (s kappa : R) (k : nat) (x : R) : Prop :=
  0 <= x /\ exists K, near_break (co_term s (cutoff_z kappa)) K /\ near x (cutoff_R s kappa K k).
End RealLaws.

(* ------------------------------------------------------------------ Part 2: enclosures *)
Definition prec : F.precision := F.PtoP 80.
Definition iZ (z : Z) : I.type := I.fromZ prec z.
Definition iQ (q : Q) : I.type := I.div prec (iZ (Qnum q)) (iZ (Zpos (Qden q))).

(* a <= b / a < b decided on enclosures (true = certain) *)
Definition i_le (A B : I.type) : bool :=
  match I.sign_large (I.sub prec A B) with Xlt | Xeq => true | _ => false end.
Definition i_lt (A B : I.type) : bool :=
  match I.sign_strict (I.sub prec A B) with Xlt => true | _ => false end.

Fixpoint zfact (n : nat) : Z := match n with O => 1%Z | S m => (Z.of_nat n * zfact m)%Z end.

Definition i_exponential (a : I.type) (k : nat) : I.type :=
  I.mul prec (I.sub prec (iZ 1) (I.exp prec (I.neg a)))
             (I.exp prec (I.neg (I.mul prec a (iZ (Z.of_nat k))))).

Definition i_poisson (m : I.type) (k : nat) : I.type :=
  I.div prec (I.mul prec (I.exp prec (I.neg m)) (I.power_int prec m (Z.of_nat k))) (iZ (zfact k)).

Definition i_pl_term (s : I.type) (j : nat) : I.type :=
  I.exp prec (I.neg (I.mul prec s (I.ln prec (iZ (Z.of_nat j))))).
Definition i_co_term (s z : I.type) (j : nat) : I.type :=
  I.mul prec (I.power_int prec z (Z.of_nat j)) (i_pl_term s j).
Definition i_cutoff_z (kappa : I.type) : I.type := I.exp prec (I.div prec (iZ (-1)) kappa).

Definition tol_lo_I : I.type := iQ tol_loQ.
Definition tol_hi_I : I.type := iQ tol_hiQ.

(* The truncation loop on enclosures.  At index j with acc = enclosure of t 1 + .. + t (j-1):
     A = "certainly tol_lo <= |t j|" (the code may go on), B = "certainly |t j| < tol_hi" (the code may
     stop).  Every index at which the code may stop is returned with the enclosure of the sum up
     to and including it; the loop ends at the first index where it must stop.  None = out of fuel or
     an index where neither is certain (never seen: the gap tol_hi - tol_lo is 2^40 times wider than
     the enclosures). *)
Fixpoint trunc_loop (term : nat -> I.type) (fuel j : nat) (acc : I.type)
         (cands : list (nat * I.type)) : option (list (nat * I.type)) :=
  match fuel with
  | O => None
  | S f =>
      let T := term j in
      let acc' := I.add prec acc T in
      let a := i_le tol_lo_I (I.abs T) in
      let b := i_lt (I.abs T) tol_hi_I in
      if b then
        if a then trunc_loop term f (S j) acc' ((j, acc') :: cands)
        else Some ((j, acc') :: cands)
      else if a then trunc_loop term f (S j) acc' cands
      else None
  end.

(* the fuel is a parameter everywhere (theorems hold for every fuel); the harness entry passes FUEL *)
Definition trunc (fuel : nat) (term : nat -> I.type) : option (list (nat * I.type)) :=
  trunc_loop term fuel 1 (iZ 0) [].
Definition FUEL : nat := 200000.

Definition i_power_law (s : I.type) (norm : I.type) (k : nat) : I.type :=
  I.div prec (i_pl_term s k) norm.
Definition i_cutoff (s kappa : I.type) (norm : I.type) (k : nat) : I.type :=
  I.div prec (I.mul prec (i_pl_term s k)
                         (I.exp prec (I.div prec (I.neg (iZ (Z.of_nat k))) kappa))) norm.

(* ------------------------------------------------------------------ Part 3: the checker *)
Definition rel_I : I.type := iQ relQ.
Definition abs_I : I.type := iQ absQ.

(* |x - f| <= rel * |f| + abs, certainly, for every x in X and f in E *)
Definition near_b (X E : I.type) : bool :=
  i_le (I.abs (I.sub prec X E)) (I.add prec (I.mul prec rel_I (I.abs E)) abs_I).
Definition nonneg_b (X : I.type) : bool := i_le (iZ 0) X.

Definition check_one (E : I.type) (x : Q) : bool :=
  let X := iQ x in nonneg_b X && near_b X E.
Definition check_any (Es : list I.type) (x : Q) : bool :=
  let X := iQ x in nonneg_b X && existsb (near_b X) Es.

Definition check_exponential (a : Q) (k : nat) (x : Q) : bool := check_one (i_exponential (iQ a) k) x.
Definition check_poisson (m : Q) (k : nat) (x : Q) : bool := check_one (i_poisson (iQ m) k) x.
(* the power laws: x may match the law for any of the admissible truncation indices *)
Definition check_power_law (s : Q) (cands : list (nat * I.type)) (k : nat) (x : Q) : bool :=
  check_any (map (fun c => i_power_law (iQ s) (snd c) k) cands) x.
Definition check_cutoff (s kappa : Q) (cands : list (nat * I.type)) (k : nat) (x : Q) : bool :=
  check_any (map (fun c => i_cutoff (iQ s) (iQ kappa) (snd c) k) cands) x.

Definition cands_power_law (fuel : nat) (s : Q) : option (list (nat * I.type)) := trunc fuel (i_pl_term (iQ s)).
Definition cands_cutoff (fuel : nat) (s kappa : Q) : option (list (nat * I.type)) :=
  trunc fuel (i_co_term (iQ s) (i_cutoff_z (iQ kappa))).

(* documented parameter ranges, decided exactly on the rationals *)
Definition Qlt_b (a b : Q) : bool := negb (Qle_bool b a).
Definition valid_exponential (a : Q) : bool := Qlt_b 0 a.
Definition valid_poisson (m : Q) : bool := Qlt_b 0 m.
Definition valid_power_law (s : Q) : bool := Qle_bool 2 s.
Definition valid_cutoff (s kappa : Q) : bool := Qle_bool 2 s && Qlt_b 0 kappa.

(* ---- batch interface used by the harness: one parameter setting, many (k, x) pairs.
   Output: status :: K_lo :: K_hi :: then for every pair  ok, mid_mantissa, mid_exponent
   (the midpoint m * 2^e of the enclosure of the law, for the 1e-9 correspondence comparison);
   status 0 ok, 2 truncation loop undecided / out of fuel, 4 parameters outside the documented range,
   5 unknown law.  Degrees outside the support give ok = -1 (the code raises). *)
Definition mid_ZZ (E : I.type) : list Z :=
  match F.toF (I.midpoint E) with
  | Basic.Float s m e => [if s then Z.neg m else Z.pos m; e]
  | Basic.Fzero => [0%Z; 0%Z]
  | Basic.Fnan => [0%Z; 1%Z]
  end.
Definition b2z (b : bool) : Z := if b then 1%Z else 0%Z.

Definition eval_cases (support_from : nat) (encl : nat -> Q -> I.type) (chk : nat -> Q -> bool)
           (cases : list (nat * Q)) : list Z :=
  flat_map (fun kx => let k := fst kx in
                      if Nat.ltb k support_from then [(-1)%Z; 0%Z; 0%Z]
                      else b2z (chk k (snd kx)) :: mid_ZZ (encl k (snd kx))) cases.
(* reported model value when several truncation indices are admissible: the enclosure the float
   matches if there is one (the float comparison at the break point is an oracle), else the first *)
Definition pick_encl (Es : list I.type) (x : Q) : I.type :=
  match find (near_b (iQ x)) Es with
  | Some E => E
  | None => hd I.nai Es
  end.

Definition c19_eval (law : Z) (params : list Q) (cases : list (nat * Q)) : list Z :=
  let p0 := nth 0 params 0%Q in
  let p1 := nth 1 params 0%Q in
  match law with
  | 0%Z => if valid_exponential p0
           then [0; 0; 0]%Z ++ eval_cases 0 (fun k _ => i_exponential (iQ p0) k) (check_exponential p0) cases
           else [4; 0; 0]%Z
  | 1%Z => if valid_poisson p0
           then [0; 0; 0]%Z ++ eval_cases 0 (fun k _ => i_poisson (iQ p0) k) (check_poisson p0) cases
           else [4; 0; 0]%Z
  | 2%Z => if valid_power_law p0 then
             match cands_power_law FUEL p0 with
             | Some ((Khi, N) :: rest) =>
                 [0%Z; Z.of_nat (fst (last rest (Khi, N))); Z.of_nat Khi]
                 ++ eval_cases 1 (fun k => pick_encl (map (fun c => i_power_law (iQ p0) (snd c) k) ((Khi, N) :: rest)))
                              (check_power_law p0 ((Khi, N) :: rest)) cases
             | _ => [2; 0; 0]%Z
             end
           else [4; 0; 0]%Z
  | 3%Z => if valid_cutoff p0 p1 then
             match cands_cutoff FUEL p0 p1 with
             | Some ((Khi, N) :: rest) =>
                 [0%Z; Z.of_nat (fst (last rest (Khi, N))); Z.of_nat Khi]
                 ++ eval_cases 1 (fun k => pick_encl (map (fun c => i_cutoff (iQ p0) (iQ p1) (snd c) k) ((Khi, N) :: rest)))
                              (check_cutoff p0 p1 ((Khi, N) :: rest)) cases
             | _ => [2; 0; 0]%Z
             end
           else [4; 0; 0]%Z
  | _ => [5; 0; 0]%Z
  end.

(* wire form: L [I law; L [q ..]; L [L [I k; q] ..]]  ->  L [I ..] *)
Definition c19_check (t : tree) : tree :=
  of_zs (c19_eval (t_z (t_nth 0 t)) (t_qs (t_nth 1 t))
                  (map (fun c => (t_nat (t_nth 0 c), t_q (t_nth 1 c))) (t_list (t_nth 2 t)))).
