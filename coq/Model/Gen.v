(* Model of the three generators
     gcmpy/gcm_algorithm/gcm_algorithm_fast.py            (GCMAlgorithmFast)
     gcmpy/gcm_algorithm/gcm_algorithm_network.py         (GCMAlgorithmNetwork = fast + conversion)
     gcmpy/gcm_algorithm/gcm_algorithm_custom_motifs.py   (GCMAlgorithmCustomMotifs)
     gcmpy/gcm_algorithm/gcm_algorithm_factory.py / _main.py (type dispatch)
     gcmpy/motif_generators/{clique,cycle,diamond}_motif.py
   Definitions only; proofs live in Proofs/GenP.v.

   A run of a generator is split in two layers:
     plan_*  : which build-callback calls are made, with which argument lists
               (depends on jds, sizes, motif indices and the shuffle answers only);
     emit_*  : the three edge-list columns obtained by running the callbacks
               (callbacks are a parameter [build]; the extracted entry points
               instantiate it with concrete builder codes).
   Exceptions of the real code are [Err code]; the first exception in the real
   execution order wins. *)
From Coq Require Import List ZArith Bool Arith Orders Mergesort.
From GV Require Import Lib.Tree.
Import ListNotations.

Inductive res (A : Type) : Type := Ok (a : A) | Err (code : Z).
Arguments Ok {A} a.
Arguments Err {A} code.

(* exception classes on the wire *)
Definition E_INDEX : Z := 1%Z.   (* IndexError *)
Definition E_VALUE : Z := 2%Z.   (* ValueError *)
Definition E_TYPE  : Z := 3%Z.   (* TypeError  *)
Definition E_UNSUP : Z := 9%Z.   (* configuration outside the modelled surface *)

(* ------------------------------------------------------------------ basics *)
Fixpoint sum (l : list nat) : nat := match l with [] => 0 | x :: t => x + sum t end.

Fixpoint count (v : nat) (l : list nat) : nat :=
  match l with [] => 0 | x :: t => (if Nat.eqb v x then 1 else 0) + count v t end.

Fixpoint memb (v : nat) (l : list nat) : bool :=
  match l with [] => false | x :: t => Nat.eqb v x || memb v t end.

Fixpoint nodupb (l : list nat) : bool :=
  match l with [] => true | x :: t => negb (memb x t) && nodupb t end.

Fixpoint list_eqb (a b : list nat) : bool :=
  match a, b with
  | [], [] => true
  | x :: a', y :: b' => Nat.eqb x y && list_eqb a' b'
  | _, _ => false
  end.

Fixpoint lists_eqb (a b : list (list nat)) : bool :=
  match a, b with
  | [], [] => true
  | x :: a', y :: b' => list_eqb x y && lists_eqb a' b'
  | _, _ => false
  end.

Fixpoint upd_nth {A} (n : nat) (x : A) (l : list A) : list A :=
  match l, n with
  | [], _ => []
  | _ :: t, O => x :: t
  | h :: t, S n' => h :: upd_nth n' x t
  end.

(* ------------------------------------------------------------------ stubs *)
(* zip( *jds ) truncates to the shortest row *)
Definition ncols (jds : list (list nat)) : nat :=
  match jds with
  | [] => 0
  | r :: rs => fold_left Nat.min (map (@length nat) rs) (length r)
  end.

Definition jd (jds : list (list nat)) (v k : nat) : nat := nth k (nth v jds []) 0.
Definition col (k : nat) (jds : list (list nat)) : list nat := map (fun r => nth k r 0) jds.

(* vertex v repeated c[v] times, in vertex order *)
Fixpoint stubs_from (v : nat) (c : list nat) : list nat :=
  match c with [] => [] | d :: c' => repeat v d ++ stubs_from (S v) c' end.

Definition stubs (jds : list (list nat)) (k : nat) : list nat := stubs_from 0 (col k jds).
Definition all_stubs (jds : list (list nat)) : list (list nat) := map (stubs jds) (seq 0 (ncols jds)).

(* random.shuffle with oracle answer pi:  l'[i] = l[pi[i]] *)
Definition arrange (pi l : list nat) : list nat := map (fun i => nth i l 0) pi.

Fixpoint shuffle_all (pis : list (list nat)) (sl : list (list nat)) : list (list nat) :=
  match sl with
  | [] => []
  | s :: sl' => arrange (hd [] pis) s :: shuffle_all (tl pis) sl'
  end.

(* grouper(l, n) / partition(l, n): consecutive groups of n, short last group, no fill *)
Fixpoint chunks_aux (fuel n : nat) (l : list nat) : list (list nat) :=
  match fuel with
  | O => []
  | S f => match l with
           | [] => []
           | _ :: _ => firstn n l :: chunks_aux f n (skipn n l)
           end
  end.
Definition chunks (n : nat) (l : list nat) : list (list nat) := chunks_aux (length l) n l.

(* ------------------------------------------------------------------ plans *)
(* one build-callback call: (index of the callback, argument list) *)
Definition call : Type := (nat * list nat)%type.
(* custom motifs: (motif type, one partition per orbit, in motif_indices order) *)
Definition ccall : Type := (nat * list (list nat))%type.

Definition flat_call (c : ccall) : call := (fst c, concat (snd c)).

(* fast generator: for k, k_list in enumerate(stubs): for vertices in grouper(k_list, sizes[k]) *)
Fixpoint plan_fast_from (k : nat) (sizes : list nat) (sl : list (list nat)) : list ccall * option Z :=
  match sl with
  | [] => ([], None)
  | s :: rest =>
      match nth_error sizes k with
      | None => ([], Some E_INDEX)
      | Some O => ([], Some E_VALUE)
      | Some n =>
          let (cs, e) := plan_fast_from (S k) sizes rest in
          (map (fun g => (k, [g])) (chunks n s) ++ cs, e)
      end
  end.

Definition plan_fast (sizes : list nat) (jds pis : list (list nat)) : list ccall * option Z :=
  plan_fast_from 0 sizes (shuffle_all pis (all_stubs jds)).

(* custom generator: partitions[i] = partition(stubs[i], sizes[i]); kept REVERSED so that
   list.pop() (take the last partition) is "take the head" *)
Fixpoint partitions_from (k : nat) (sizes : list nat) (sl : list (list nat))
  : res (list (list (list nat))) :=
  match sl with
  | [] => Ok []
  | s :: rest =>
      match nth_error sizes k with
      | None => Err E_INDEX
      | Some O => Err E_VALUE
      | Some n =>
          match partitions_from (S k) sizes rest with
          | Err e => Err e
          | Ok ps => Ok (rev (chunks n s) :: ps)
          end
      end
  end.

(* for index in motif_indexes: vertices.append(partitions[index].pop()) *)
Fixpoint pop_all (idxs : list nat) (parts : list (list (list nat)))
  : option (list (list nat) * list (list (list nat))) :=
  match idxs with
  | [] => Some ([], parts)
  | i :: idxs' =>
      match nth_error parts i with
      | Some (p :: ps) =>
          match pop_all idxs' (upd_nth i ps parts) with
          | Some (segs, parts') => Some (p :: segs, parts')
          | None => None
          end
      | _ => None
      end
  end.

(* for k in range(int(num_motifs)) *)
Fixpoint rounds (j : nat) (idxs : list nat) (c : nat) (parts : list (list (list nat)))
  : list ccall * option Z * list (list (list nat)) :=
  match c with
  | O => ([], None, parts)
  | S c' =>
      match pop_all idxs parts with
      | None => ([], Some E_INDEX, parts)
      | Some (segs, parts') =>
          let '(cs, e, p2) := rounds j idxs c' parts' in ((j, segs) :: cs, e, p2)
      end
  end.

(* for j, motif_indexes in enumerate(self._motif_indices) *)
Fixpoint plan_custom_from (j : nat) (mis : list (list nat)) (sizes lens : list nat)
         (parts : list (list (list nat))) : list ccall * option Z :=
  match mis with
  | [] => ([], None)
  | idxs :: rest =>
      match idxs with
      | [] => ([], Some E_INDEX)                      (* motif_indexes[0] *)
      | kk :: _ =>
          match nth_error lens kk, nth_error sizes kk with
          | Some len, Some n =>
              let '(cs, e, parts') := rounds j idxs (len / n) parts in
              match e with
              | Some x => (cs, Some x)
              | None =>
                  let (cs2, e2) := plan_custom_from (S j) rest sizes lens parts' in
                  (cs ++ cs2, e2)
              end
          | _, _ => ([], Some E_INDEX)                (* stubs[kk] *)
          end
      end
  end.

Definition plan_custom (sizes : list nat) (mis jds pis : list (list nat)) : list ccall * option Z :=
  let sl := shuffle_all pis (all_stubs jds) in
  match partitions_from 0 sizes sl with
  | Err e => ([], Some e)
  | Ok parts => plan_custom_from 0 mis sizes (map (@length nat) sl) parts
  end.

(* ------------------------------------------------------------------ callbacks *)
(* what a build callback returns: a bare edge (a 2-tuple of ints) or a sequence of edges *)
Inductive shape : Type := Bare (a b : nat) | Edges (es : list (nat * nat)).
Definition edges_of (sh : shape) : list (nat * nat) :=
  match sh with Bare a b => [(a, b)] | Edges es => es end.

(* itertools.combinations(vs, 2) *)
Fixpoint combos2 (l : list nat) : list (nat * nat) :=
  match l with [] => [] | x :: t => map (pair x) t ++ combos2 t end.

Definition clique_motif (l : list nat) : res shape := Ok (Edges (combos2 l)).

(* zip(vs, vs[1:]) + [(vs[0], vs[-1])] *)
Definition cycle_edges (l : list nat) : res (list (nat * nat)) :=
  match l with
  | [] => Err E_INDEX
  | x :: t => Ok (combine l t ++ [(x, last l x)])
  end.
Definition cycle_motif (l : list nat) : res shape :=
  match cycle_edges l with Ok es => Ok (Edges es) | Err e => Err e end.

Definition diamond_motif (l : list nat) : res shape :=
  match l with
  | [a; b; c; d] => Ok (Edges [(a, b); (b, c); (c, d); (a, d); (a, c); (b, d)])
  | _ => if Nat.ltb (length l) 4 then Err E_TYPE else Err E_VALUE
  end.

(* synthetic callbacks used by the correspondence *)
Definition bare_motif (l : list nat) : res shape :=
  match l with a :: b :: _ => Ok (Bare a b) | _ => Err E_INDEX end.
Definition path2_motif (l : list nat) : res shape :=
  match l with a :: b :: c :: _ => Ok (Edges [(a, b); (b, c)]) | _ => Err E_INDEX end.
Definition star_motif (l : list nat) : res shape :=
  match l with [] => Ok (Edges []) | x :: t => Ok (Edges (map (pair x) t)) end.
Definition none_motif (l : list nat) : res shape := Ok (Edges []).
(* a clique builder that drops self-loops: its edge COUNT varies from call to call
   (fewer edges whenever the drawn stubs repeat a vertex) *)
Definition clique_noloop_motif (l : list nat) : res shape :=
  Ok (Edges (filter (fun e => negb (Nat.eqb (fst e) (snd e))) (combos2 l))).

Definition builder_of_code (c : nat) (l : list nat) : res shape :=
  match c with
  | 0 => clique_motif l
  | 1 => cycle_motif l
  | 2 => diamond_motif l
  | 3 => bare_motif l
  | 4 => path2_motif l
  | 5 => star_motif l
  | 6 => none_motif l
  | 7 => path2_motif l      (* same edges, each edge a list instead of a tuple *)
  | 8 => clique_noloop_motif l
  | _ => Err E_UNSUP
  end.

(* self._build_functions[j](vertices) *)
Definition build_of_codes (codes : list nat) (j : nat) (l : list nat) : res shape :=
  match nth_error codes j with
  | None => Err E_INDEX
  | Some c => builder_of_code c l
  end.

(* ------------------------------------------------------------------ emission *)
(* the three parallel columns of LightWeightEdgeList *)
Definition cols : Type := (list (nat * nat) * list nat * list nat)%type.

(* fast: es = build(k)(group); edge_list.extend(es); topologies.extend([name_k]*len(es));
         id = next(gen); motif_id.extend([id]*len(es)) *)
Fixpoint emit_fast (build : nat -> list nat -> res shape) (names : list nat) (id : nat)
         (cs : list ccall) : res cols :=
  match cs with
  | [] => Ok ([], [], [])
  | (k, segs) :: cs' =>
      match build k (concat segs) with
      | Err e => Err e
      | Ok sh =>
          (* a bare edge returned as one tuple is re-packed into a one-element list (fix: commit in /repo) *)
          let es := edges_of sh in
          match nth_error names k with
          | None => Err E_INDEX
          | Some nm =>
              match emit_fast build names (S id) cs' with
              | Err e => Err e
              | Ok (ce, cn, ci) =>
                  Ok (es ++ ce, repeat nm (length es) ++ cn, repeat id (length es) ++ ci)
              end
          end
      end
  end.

(* custom (after the C02 repair): bare edge -> one row; otherwise one row per edge with
   the naming callback's list *)
Fixpoint emit_custom (build : nat -> list nat -> res shape) (names : list (list nat)) (id : nat)
         (cs : list ccall) : res cols :=
  match cs with
  | [] => Ok ([], [], [])
  | (j, segs) :: cs' =>
      match build j (concat segs) with
      | Err e => Err e
      | Ok sh =>
          match nth_error names j with
          | None => Err E_INDEX
          | Some nms =>
              match emit_custom build names (S id) cs' with
              | Err e => Err e
              | Ok (ce, cn, ci) =>
                  match sh with
                  | Bare a b => Ok ((a, b) :: ce, hd 0 nms :: cn, id :: ci)
                  | Edges es => Ok (es ++ ce, nms ++ cn, repeat id (length es) ++ ci)
                  end
              end
          end
      end
  end.

(* complete runs: (structured calls, columns); joint_degrees is jds itself *)
Definition finish (cs : list ccall) (e : option Z) (r : res cols) : res (list ccall * cols) :=
  match r with
  | Err x => Err x
  | Ok c => match e with Some x => Err x | None => Ok (cs, c) end
  end.

Definition gen_fast (build : nat -> list nat -> res shape) (sizes names : list nat)
           (jds pis : list (list nat)) : res (list ccall * cols) :=
  let (cs, e) := plan_fast sizes jds pis in finish cs e (emit_fast build names 0 cs).

Definition gen_custom (build : nat -> list nat -> res shape) (sizes : list nat)
           (names mis jds pis : list (list nat)) : res (list ccall * cols) :=
  let (cs, e) := plan_custom sizes mis jds pis in finish cs e (emit_custom build names 0 cs).

(* GCMAlgorithmTypes / factory / load_gcm_algorithm: 0 = fast, 1 = network, 2 = motifs.
   The network variant runs the fast generator and converts (conversion = C04's model);
   what C01/C02 speak about -- callback calls and edge rows -- is the fast generator's. *)
Definition gen_main (tag : nat) (build : nat -> list nat -> res shape) (sizes : list nat)
           (names mis jds pis : list (list nat)) : res (list ccall * cols) :=
  match tag with
  | 0 => gen_fast build sizes (map (hd 0) names) jds pis
  | 1 => gen_fast build sizes (map (hd 0) names) jds pis
  | 2 => gen_custom build sizes names mis jds pis
  | _ => Err E_TYPE
  end.

(* ------------------------------------------------------------------ C01: specification checker *)
Definition size_of (sizes : list nat) (i : nat) : nat := nth i sizes 0.
Definition seg_sizes (sizes idxs : list nat) : list nat := map (size_of sizes) idxs.

Fixpoint split_by (ns : list nat) (l : list nat) : list (list nat) :=
  match ns with [] => [] | n :: ns' => firstn n l :: split_by ns' (skipn n l) end.

Definition calls_of (j : nat) (calls : list call) : list call :=
  filter (fun c => Nat.eqb (fst c) j) calls.

(* the stubs of orbit number p of motif type j (orbit sizes from the configuration) *)
Definition seg_of (sizes idxs : list nat) (p : nat) (args : list nat) : list nat :=
  nth p (split_by (seg_sizes sizes idxs) args) [].
Definition slots (sizes idxs : list nat) (j p : nat) (calls : list call) : list nat :=
  concat (map (fun c => seg_of sizes idxs p (snd c)) (calls_of j calls)).

(* the fast / network generators are the configuration "every topology is its own motif" *)
Definition singleton_mis (n : nat) : list (list nat) := map (fun k => [k]) (seq 0 n).

(* hypotheses of C01 (handshake condition, well-formed configuration) *)
Definition validb (sizes : list nat) (mis jds : list (list nat)) : bool :=
  let T := ncols jds in
  forallb (fun r => Nat.eqb (length r) T) jds &&
  forallb (fun k => Nat.ltb k (length sizes) && Nat.ltb 0 (size_of sizes k)) (seq 0 T) &&
  forallb (fun idxs => match idxs with [] => false | _ => forallb (fun i => Nat.ltb i T) idxs end) mis &&
  nodupb (concat mis) &&
  forallb (fun k => memb k (concat mis)) (seq 0 T) &&
  forallb (fun i => Nat.eqb (Nat.modulo (sum (col i jds)) (size_of sizes i)) 0) (concat mis) &&
  forallb (fun idxs =>
     forallb (fun i => Nat.eqb (sum (col i jds) / size_of sizes i)
                               (sum (col (hd 0 idxs) jds) / size_of sizes (hd 0 idxs))) idxs) mis.

(* the property, on an observed run: calls (callback index, argument list), the
   joint_degrees field, and every vertex id that appears in an emitted edge *)
Definition c01_okb (sizes : list nat) (mis jds : list (list nat)) (calls : list call)
           (jds_out : list (list nat)) (verts : list nat) : bool :=
  let N := length jds in
  lists_eqb jds_out jds &&
  forallb (fun v => Nat.ltb v N) verts &&
  forallb (fun c => Nat.ltb (fst c) (length mis) &&
                    Nat.eqb (length (snd c)) (sum (seg_sizes sizes (nth (fst c) mis [])))) calls &&
  forallb (fun j => let idxs := nth j mis [] in
                    Nat.eqb (length (calls_of j calls))
                            (sum (col (hd 0 idxs) jds) / size_of sizes (hd 0 idxs)))
          (seq 0 (length mis)) &&
  forallb (fun j => let idxs := nth j mis [] in
     forallb (fun p => let i := nth p idxs 0 in
                       let sl := slots sizes idxs j p calls in
        forallb (fun v => Nat.ltb v N) sl &&
        forallb (fun v => Nat.eqb (count v sl) (jd jds v i)) (seq 0 N))
       (seq 0 (length idxs)))
    (seq 0 (length mis)).

(* every callback result only connects vertices of its own argument list (this is what keeps
   vertex ids inside 0..N-1 and ties the emitted edges to the drawn stubs) *)
Definition endpoints (es : list (nat * nat)) : list nat := flat_map (fun e => [fst e; snd e]) es.

Fixpoint closed_okb (calls : list call) (results : list (nat * shape)) : bool :=
  match calls, results with
  | [], [] => true
  | c :: cs, r :: rs =>
      Nat.eqb (fst r) (fst c) &&
      forallb (fun v => memb v (snd c)) (endpoints (edges_of (snd r))) &&
      closed_okb cs rs
  | _, _ => false
  end.

(* ------------------------------------------------------------------ C02: specification checker *)
(* one row of the edge list *)
Definition row : Type := ((nat * nat) * nat * nat)%type.
Definition r_edge (r : row) : nat * nat := fst (fst r).
Definition r_name (r : row) : nat := snd (fst r).
Definition r_id (r : row) : nat := snd r.

Definition pair_eqb (a b : nat * nat) : bool := Nat.eqb (fst a) (fst b) && Nat.eqb (snd a) (snd b).
Fixpoint pairs_eqb (a b : list (nat * nat)) : bool :=
  match a, b with
  | [], [] => true
  | x :: a', y :: b' => pair_eqb x y && pairs_eqb a' b'
  | _, _ => false
  end.

(* names prescribed for the rows of one motif: fast = the topology's name on every edge;
   custom = the single name for a bare edge, the naming callback's list otherwise *)
Definition expected_names (custom : bool) (names : list (list nat)) (j : nat) (sh : shape) : list nat :=
  let nms := nth j names [] in
  if custom then match sh with Bare _ _ => [hd 0 nms] | Edges _ => nms end
  else repeat (hd 0 nms) (length (edges_of sh)).

(* rows are the concatenation, in call order, of one block per callback call; a block
   carries exactly the callback's edges, the prescribed names and ONE id; non-empty
   blocks of different calls carry different ids *)
Fixpoint blocks_okb (custom : bool) (names : list (list nat)) (results : list (nat * shape))
         (rows : list row) (seen : list nat) : bool :=
  match results with
  | [] => match rows with [] => true | _ => false end
  | (j, sh) :: rest =>
      let es := edges_of sh in
      let n := length es in
      let blk := firstn n rows in
      pairs_eqb (map r_edge blk) es &&
      list_eqb (map r_name blk) (expected_names custom names j sh) &&
      match blk with
      | [] => blocks_okb custom names rest (skipn n rows) seen
      | r :: _ =>
          forallb (fun r' => Nat.eqb (r_id r') (r_id r)) blk &&
          negb (memb (r_id r) seen) &&
          blocks_okb custom names rest (skipn n rows) (r_id r :: seen)
      end
  end.

(* raw edge column: every entry must be a pair of non-negative ints *)
Definition is_pair_tree (t : tree) : bool :=
  match t with
  | L [I a; I b] => Z.leb 0 a && Z.leb 0 b
  | _ => false
  end.

Definition zip3 (ce : list (nat * nat)) (cn ci : list nat) : list row :=
  combine (combine ce cn) ci.

Definition c02_okb (custom : bool) (names : list (list nat)) (results : list (nat * shape))
           (ce_raw : list tree) (cn ci : list nat) : bool :=
  Nat.eqb (length ce_raw) (length cn) && Nat.eqb (length cn) (length ci) &&
  forallb is_pair_tree ce_raw &&
  blocks_okb custom names results (zip3 (map t_pair ce_raw) cn ci) [].

(* ------------------------------------------------------------------ C02 on LARGE outputs: the checker over Z *)
(* c02_okb works on unary naturals and compares every id with all ids seen before (quadratic): fine for the
   model-sized cases, useless for an edge list with 70000 motifs on 140000 vertices.  The same judgement over Z for
   the fast / network generator (one name per topology), linear in the rows plus ONE merge sort of the block ids:
   Proofs/GenC02P.v proves that whatever it accepts is accepted by c02_okb on the nat image of the columns, hence
   satisfies Spec_C02 (blocks in call order, each carrying its callback's edges, its topology's name and one id;
   ids of distinct blocks differ). *)
Module ZLe <: TotalLeBool.
  Definition t := Z.
  Definition leb := Z.leb.
  Theorem leb_total : forall x y, leb x y = true \/ leb y x = true.
  Proof.
    intros x y. unfold leb. destruct (Z.leb x y) eqn:E; [now left|right].
    apply Z.leb_le. apply Z.leb_gt in E. apply Z.lt_le_incl. exact E.
  Qed.
End ZLe.
Module ZSort := Sort ZLe.

Fixpoint strict_incr (l : list Z) : bool :=
  match l with
  | a :: (b :: _) as t => Z.ltb a b && strict_incr t
  | _ => true
  end.
(* no value occurs twice *)
Definition nodupz (l : list Z) : bool := strict_incr (ZSort.sort l).

Definition t_zpair (t : tree) : Z * Z := (t_z (t_nth 0 t), t_z (t_nth 1 t)).
Definition zpair_eqb (a b : Z * Z) : bool := Z.eqb (fst a) (fst b) && Z.eqb (snd a) (snd b).
Fixpoint zpairs_eqb (a b : list (Z * Z)) : bool :=
  match a, b with
  | [], [] => true
  | x :: a', y :: b' => zpair_eqb x y && zpairs_eqb a' b'
  | _, _ => false
  end.
Fixpoint zlist_eqb (a b : list Z) : bool :=
  match a, b with
  | [], [] => true
  | x :: a', y :: b' => Z.eqb x y && zlist_eqb a' b'
  | _, _ => false
  end.
Fixpoint same_len {A B : Type} (a : list A) (b : list B) : bool :=
  match a, b with
  | [], [] => true
  | _ :: a', _ :: b' => same_len a' b'
  | _, _ => false
  end.

(* one block per logged callback call (j = index of the callback, es = the edges it returned), in call order:
   the block's rows carry exactly es, the name of topology j and ONE non-negative id.
   Answer: the ids of the non-empty blocks, in call order (None = some block is wrong / rows left over) *)
Fixpoint blocks_okz (names : list Z) (results : list (nat * list (Z * Z)))
         (ce : list (Z * Z)) (cn ci : list Z) : option (list Z) :=
  match results with
  | [] => match ce, cn, ci with [], [], [] => Some [] | _, _, _ => None end
  | (j, es) :: rest =>
      let n := length es in
      if zpairs_eqb (firstn n ce) es && zlist_eqb (firstn n cn) (repeat (nth j names 0%Z) n)
         && same_len (firstn n ci) es
      then match firstn n ci with
           | [] => blocks_okz names rest (skipn n ce) (skipn n cn) (skipn n ci)
           | i :: tl =>
               if forallb (Z.eqb i) tl && Z.leb 0 i
               then match blocks_okz names rest (skipn n ce) (skipn n cn) (skipn n ci) with
                    | Some hs => Some (i :: hs)
                    | None => None
                    end
               else None
           end
      else None
  end.

Definition c02_okz (names : list Z) (results : list (nat * list (Z * Z)))
           (ce_raw : list tree) (cn ci : list Z) : bool :=
  same_len ce_raw cn && same_len cn ci && forallb is_pair_tree ce_raw &&
  match blocks_okz names results (map t_zpair ce_raw) cn ci with
  | Some heads => nodupz heads
  | None => false
  end.

(* ------------------------------------------------------------------ C03: sample space and checker *)
Fixpoint inserts (x : nat) (l : list nat) : list (list nat) :=
  match l with
  | [] => [[x]]
  | y :: t => (x :: l) :: map (cons y) (inserts x t)
  end.

Fixpoint perms (l : list nat) : list (list nat) :=
  match l with
  | [] => [[]]
  | x :: t => flat_map (inserts x) (perms t)
  end.

(* product space: one component per topology *)
Fixpoint prod_lists (ls : list (list (list nat))) : list (list (list nat)) :=
  match ls with
  | [] => [[]]
  | l :: rest => flat_map (fun a => map (cons a) (prod_lists rest)) l
  end.

(* all resolutions of the shuffles for jds: one position permutation per topology *)
Definition schedules (jds : list (list nat)) : list (list (list nat)) :=
  prod_lists (map (fun s => perms (seq 0 (length s))) (all_stubs jds)).

Fixpoint memlb (a : list nat) (l : list (list nat)) : bool :=
  match l with [] => false | x :: t => list_eqb a x || memlb a t end.
Fixpoint dedup (l : list (list nat)) : list (list nat) :=
  match l with [] => [] | x :: t => if memlb x t then dedup t else x :: dedup t end.
Fixpoint memllb (a : list (list nat)) (l : list (list (list nat))) : bool :=
  match l with [] => false | x :: t => lists_eqb a x || memllb a t end.

(* weighted count of a placement among the observations *)
Fixpoint wcount (t : list (list nat)) (obs : list (list (list nat) * nat)) : nat :=
  match obs with
  | [] => 0
  | (o, w) :: rest => (if lists_eqb t o then w else 0) + wcount t rest
  end.

(* all vertex-level placements: for every topology an arrangement of its stubs *)
Definition placement_space (jds : list (list nat)) : list (list (list nat)) :=
  prod_lists (map (fun s => dedup (perms s)) (all_stubs jds)).

(* the histogram is flat and complete over the placement space *)
Definition c03_okb (jds : list (list nat)) (obs : list (list (list nat) * nat)) : bool :=
  let space := placement_space jds in
  let W := sum (map snd obs) in
  let c := W / length space in
  Nat.ltb 0 c &&
  forallb (fun o => memllb (fst o) space) obs &&
  forallb (fun t => Nat.eqb (wcount t obs) c) space.

(* placement realised by a run: for every topology (orbit) i the stubs in slot order *)
Fixpoint posn (i : nat) (l : list nat) (p : nat) : option nat :=
  match l with [] => None | x :: t => if Nat.eqb x i then Some p else posn i t (S p) end.
(* (motif type j, position p) with nth p (nth j mis) = i; (0,0) if absent *)
Fixpoint where_from (i : nat) (m : list (list nat)) (j : nat) : nat * nat :=
  match m with
  | [] => (0, 0)
  | idxs :: rest => match posn i idxs 0 with Some p => (j, p) | None => where_from i rest (S j) end
  end.
Definition where_is (mis : list (list nat)) (i : nat) : nat * nat := where_from i mis 0.

Definition placement (sizes : list nat) (mis : list (list nat)) (T : nat) (calls : list call)
  : list (list nat) :=
  map (fun i => let (j, p) := where_is mis i in slots sizes (nth j mis []) j p calls) (seq 0 T).

(* ------------------------------------------------------------------ wire format *)
Definition enc_call (c : call) : tree := L [of_nat (fst c); of_nats (snd c)].
Definition dec_call (t : tree) : call := (t_nat (t_nth 0 t), t_nats (t_nth 1 t)).

Definition enc_out (r : res (list ccall * cols)) (jds : list (list nat)) : tree :=
  match r with
  | Err e => t_err e
  | Ok (cs, (ce, cn, ci)) =>
      L [L (map (fun c => enc_call (flat_call c)) cs); of_pairs ce; of_nats cn; of_nats ci; of_natss jds;
         of_natss (all_stubs jds)]
  end.

(* input: [tag; jds; sizes; builder codes; names (list of lists); motif_indices; pis] *)
Definition gen_run (t : tree) : tree :=
  let tag := t_nat (t_nth 0 t) in
  let jds := t_natss (t_nth 1 t) in
  let sizes := t_nats (t_nth 2 t) in
  let codes := t_nats (t_nth 3 t) in
  let names := t_natss (t_nth 4 t) in
  let mis := t_natss (t_nth 5 t) in
  let pis := t_natss (t_nth 6 t) in
  enc_out (gen_main tag (build_of_codes codes) sizes names mis jds pis) jds.

Definition c01_run := gen_run.
Definition c02_run := gen_run.

Definition dec_shape (t : tree) : shape :=
  match t_z (t_nth 0 t) with
  | 1%Z => Bare (t_nat (t_nth 1 t)) (t_nat (t_nth 2 t))
  | _ => Edges (t_pairs (t_nth 1 t))
  end.

(* input: [tag; jds; sizes; motif_indices; calls; jds_out; verts; results = list of [j; shape]]
   answer: 2 = hypotheses of C01 not met (nothing to check), 1 = property holds, 0 = violated *)
Definition c01_check (t : tree) : tree :=
  let tag := t_nat (t_nth 0 t) in
  let jds := t_natss (t_nth 1 t) in
  let sizes := t_nats (t_nth 2 t) in
  let mis := match tag with 2 => t_natss (t_nth 3 t) | _ => singleton_mis (ncols jds) end in
  let calls := map dec_call (t_list (t_nth 4 t)) in
  let jds_out := t_natss (t_nth 5 t) in
  let verts := t_nats (t_nth 6 t) in
  let results := map (fun x => (t_nat (t_nth 0 x), dec_shape (t_nth 1 x))) (t_list (t_nth 7 t)) in
  if validb sizes mis jds
  then of_bool (c01_okb sizes mis jds calls jds_out verts && closed_okb calls results)
  else I 2.

(* input: [tag; names; results = list of [j; shape]; edge column (raw); name column; id column] *)
Definition c02_check (t : tree) : tree :=
  let tag := t_nat (t_nth 0 t) in
  let names := t_natss (t_nth 1 t) in
  let results := map (fun x => (t_nat (t_nth 0 x), dec_shape (t_nth 1 x))) (t_list (t_nth 2 t)) in
  of_bool (c02_okb (Nat.eqb tag 2) names results (t_list (t_nth 3 t)) (t_nats (t_nth 4 t)) (t_nats (t_nth 5 t))).

(* checker-only entry for large outputs of the fast / network generator (no model run):
   input: [names = one name code per topology; results = list of [j; edges]; edge column (raw); name column; id column] *)
Definition c02_check_ids (t : tree) : tree :=
  let names := t_zs (t_nth 0 t) in
  let results := map (fun x => (t_nat (t_nth 0 x), map t_zpair (t_list (t_nth 1 x)))) (t_list (t_nth 1 t)) in
  of_bool (c02_okz names results (t_list (t_nth 2 t)) (t_zs (t_nth 3 t)) (t_zs (t_nth 4 t))).

(* C03 model side: the calls of the generator under EVERY schedule of the sample space.
   input: [tag; jds; sizes; codes; names; motif_indices] ; answer: list of call lists (or error) *)
Definition c03_run (t : tree) : tree :=
  let tag := t_nat (t_nth 0 t) in
  let jds := t_natss (t_nth 1 t) in
  let sizes := t_nats (t_nth 2 t) in
  let codes := t_nats (t_nth 3 t) in
  let names := t_natss (t_nth 4 t) in
  let mis := t_natss (t_nth 5 t) in
  L (map (fun pis =>
        match gen_main tag (build_of_codes codes) sizes names mis jds pis with
        | Err e => t_err e
        | Ok (cs, _) => L (map (fun c => enc_call (flat_call c)) cs)
        end) (schedules jds)).

(* hypotheses of C03 for the fast / network generator: a rectangular jds and a positive size per topology.
   NO handshake condition: grouper() hands a short last group to the callback as it is, so the calls still
   carry the whole shuffled stub list (GenC03P.placement_fast_nohs) and the uniformity theorems, which hold
   for every jds, apply.  (The custom generator pops the short partition first and drops a full one: there
   the placement cannot be read off the calls, the handshake condition stays a hypothesis.) *)
Definition validb_nohs (sizes : list nat) (jds : list (list nat)) : bool :=
  let T := ncols jds in
  forallb (fun r => Nat.eqb (length r) T) jds &&
  forallb (fun k => Nat.ltb k (length sizes) && Nat.ltb 0 (size_of sizes k)) (seq 0 T).

(* input: [tag; jds; sizes; motif_indices; observations = list of [calls; weight]]
   answer: 2 = hypotheses not met, 1 = histogram flat and complete, 0 = not *)
Definition c03_check (t : tree) : tree :=
  let tag := t_nat (t_nth 0 t) in
  let jds := t_natss (t_nth 1 t) in
  let sizes := t_nats (t_nth 2 t) in
  let mis := match tag with 2 => t_natss (t_nth 3 t) | _ => singleton_mis (ncols jds) end in
  let obs := map (fun x => (placement sizes mis (ncols jds) (map dec_call (t_list (t_nth 0 x))),
                            t_nat (t_nth 1 x))) (t_list (t_nth 4 t)) in
  let hyp := match tag with 2 => validb sizes mis jds | _ => validb_nohs sizes jds end in
  if hyp then of_bool (c03_okb jds obs) else I 2.
