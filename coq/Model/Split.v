(* Model of gcmpy/joint_degree/joint_degree_loaders/joint_degree_split_degree.py
   (JointDegreeSplitDegree) and joint_degree_delta.py (JointDegreeDelta), together with
   JointDegree.normalise_jdd.  Definitions only; proofs live in Proofs/SplitP.v.

   The dict [_jdd] is an insertion-ordered association list with Python's update
   semantics ([upsert]: an existing key keeps its position and gets the new value).
   Floats are exact rationals; arithmetic is reduced ([radd], [rmul], [rdiv] of
   Lib/QSumS.v: same value up to ==) so that the extracted code stays fast.
   [fp] is a look-up table.  Python exceptions are [Err code]. *)
From Coq Require Import List ZArith QArith Qabs Bool Arith.
From GV Require Import Lib.Tree Lib.QSumS.
Import ListNotations.

Definition key := list nat.
Definition dict := list (key * Q).

Inductive res (A : Type) : Type :=
| Ok (a : A)
| Err (code : Z).
Arguments Ok {A} a.
Arguments Err {A} code.

Definition E_ZERODIV : Z := 1.   (* ZeroDivisionError *)
Definition E_INDEX : Z := 2.     (* IndexError *)

(* ---------- get_valid_joint_degrees(k, T) : the recursive generator ---------- *)
(* T == 1 -> [k]; else for i in range(0, k // T + 1): for row in rec(k - i*T, T-1): row + [i].
   T = 0 is the ZeroDivisionError of [k // 0]; it is intercepted in [resolve]. *)
Fixpoint valid (T k : nat) : list key :=
  match T with
  | O => []
  | S T' =>
      match T' with
      | O => [[k]]
      | S _ => flat_map (fun i => map (fun row => row ++ [i]) (valid T' (k - i * T)))
                        (seq 0 (k / T + 1))
      end
  end.

(* number of edges a joint degree uses: sum_i (i+1) * jd_i  (the member of the i-th
   clique topology consumes i edges; positions are 0-based in the code) *)
Fixpoint wsum_from (s : nat) (jd : key) : nat :=
  match jd with
  | [] => O
  | x :: r => s * x + wsum_from (S s) r
  end.
Definition wsum (jd : key) : nat := wsum_from 1 jd.

(* ---------- calc_prob_of_joint_degree ---------- *)
Fixpoint qpow (q : Q) (n : nat) : Q :=
  match n with O => 1%Q | S n' => (q * qpow q n')%Q end.

Fixpoint weight_from (s : nat) (probs : list Q) (jd : key) : Q :=
  match probs, jd with
  | p :: ps, x :: r => (qpow p (s * x) * weight_from (S s) ps r)%Q
  | _, _ => 1%Q
  end.
Definition weight (probs : list Q) (jd : key) : Q := weight_from 1 probs jd.

(* ---------- the dict ---------- *)
Fixpoint key_eqb (a b : key) : bool :=
  match a, b with
  | [], [] => true
  | x :: a', y :: b' => Nat.eqb x y && key_eqb a' b'
  | _, _ => false
  end.

Fixpoint upsert (d : dict) (k : key) (v : Q) : dict :=
  match d with
  | [] => [(k, v)]
  | (k', v') :: r => if key_eqb k k' then (k', v) :: r else (k', v') :: upsert r k v
  end.

Definition memb (k : key) (l : list key) : bool := existsb (key_eqb k) l.

Fixpoint nodupb (l : list key) : bool :=
  match l with [] => true | x :: r => negb (memb x r) && nodupb r end.

(* ---------- resolve_degree(k, prob_overall_k) ---------- *)
Definition resolve (probs : list Q) (d : dict) (k : nat) (pk : Q) : res dict :=
  match probs with
  | [] => Err E_ZERODIV                      (* k // 0 *)
  | _ :: _ =>
      let vt := valid (length probs) k in
      let ws := map (weight probs) vt in
      let tot := rsum ws in
      match vt with
      | [] => Ok d                          (* unreachable (valid is never empty); kept faithful *)
      | _ :: _ =>
          if Qeq_bool tot 0 then Err E_ZERODIV   (* probabilities[i] /= total *)
          else Ok (fold_left (fun d' jw => upsert d' (fst jw) (rmul pk (rdiv (snd jw) tot)))
                             (combine vt ws) d)
      end
  end.

Definition pure_key (M k : nat) : key := k :: repeat O (M - 1).

Fixpoint loop (f : dict -> nat -> res dict) (ks : list nat) (d : dict) : res dict :=
  match ks with
  | [] => Ok d
  | k :: r => match f d k with Ok d' => loop f r d' | Err c => Err c end
  end.

(* JointDegree.normalise_jdd *)
Definition normalise (d : dict) : res dict :=
  match d with
  | [] => Ok []
  | _ :: _ =>
      let s := rsum (map snd d) in
      if Qeq_bool s 0 then Err E_ZERODIV
      else Ok (map (fun kv => (fst kv, rdiv (snd kv) s)) d)
  end.

Section Gen.
  (* [sp k] = "degree k is split among the topologies":
     split-degree loader: always; delta loader: only at the target degree.
     [M] = len(motif_sizes) (used by the delta loader only), T = length probs. *)
  Variable sp : nat -> bool.
  Variable M : nat.
  Variable probs : list Q.
  Variable fp : nat -> Q.
  Variables lo hi : nat.

  Definition T : nat := length probs.
  Definition krange : list nat := seq lo (hi - lo).      (* range(lo, hi) *)

  (* body of the loop of create_jdd *)
  Definition step (d : dict) (k : nat) : res dict :=
    if sp k then resolve probs d k (fp k)
    else match M with
         | O => Err E_INDEX                    (* zeros = []; zeros[0] = k *)
         | S _ => Ok (upsert d (pure_key M k) (fp k))
         end.

  Definition create : res dict :=
    match loop step krange [] with
    | Ok d => normalise d
    | Err c => Err c
    end.

  (* ---------- the mathematical objects of the property ---------- *)
  Definition W (k : nat) : Q := qsum (map (weight probs) (valid T k)).   (* W_k *)
  Definition F : Q := qsum (map fp krange).                              (* sum_k' fp k' *)
  Definition share (k : nat) (jd : key) : Q :=
    if sp k then (weight probs jd / W k)%Q else 1%Q.
  Definition keys_k (k : nat) : list key := if sp k then valid T k else [pure_key M k].
  Definition raw_block (k : nat) : dict := map (fun jd => (jd, (fp k * share k jd)%Q)) (keys_k k).
  Definition raw : dict := flat_map raw_block krange.
  Definition final : dict := map (fun kv => (fst kv, (snd kv / F)%Q)) raw.

  (* total mass the table [d] gives to the joint degrees that use k edges *)
  Definition mass (d : dict) (k : nat) : Q :=
    qsum (map snd (filter (fun kv => Nat.eqb (wsum (fst kv)) k) d)).

  Definition in_range (k : nat) : bool := Nat.leb lo k && Nat.ltb k hi.

  Definition admissibleb (k : nat) (jd : key) : bool :=
    if sp k then Nat.eqb (length jd) T && Nat.eqb (wsum jd) k
    else key_eqb jd (pure_key M k).

  (* the inputs the code accepts (no exception): *)
  Definition hyp_ok : bool :=
    forallb (fun k => if sp k then negb (Nat.eqb T 0) && negb (Qeq_bool (W k) 0)
                      else negb (Nat.eqb M 0)) krange
    && negb (Qeq_bool F 0).

  (* ---------- the verified checker (runs on the implementation's table) ---------- *)
  Definition qle_abs (x eps : Q) : bool := Qle_bool (Qabs x) eps.

  Definition check_keys (ks : list key) : bool :=
    nodupb ks
    && forallb (fun jd => in_range (wsum jd) && admissibleb (wsum jd) jd) ks
    && forallb (fun k => forallb (fun jd => memb jd ks) (keys_k k)) krange.

  Definition check_mass (eps : Q) (d : dict) : bool :=
    forallb (fun k => qle_abs (mass d k - fp k / F) eps) krange.

  Definition check_within (eps : Q) (d : dict) : bool :=
    forallb (fun kv => qle_abs (snd kv - fp (wsum (fst kv)) / F * share (wsum (fst kv)) (fst kv)) eps) d.

  Definition check_total (eps : Q) (d : dict) : bool :=
    qle_abs (qsum (map snd d) - 1) eps.

  Definition check (eps : Q) (d : dict) : bool :=
    check_keys (map fst d) && check_mass eps d && check_within eps d && check_total eps d.
End Gen.

(* ---------- the two loaders ---------- *)
Definition sp_split : nat -> bool := fun _ => true.
Definition sp_delta (target : Z) : nat -> bool := fun k => Z.eqb (Z.of_nat k) target.

Definition create_split (probs : list Q) (fp : nat -> Q) (lo hi : nat) : res dict :=
  create sp_split 0 probs fp lo hi.
Definition create_delta (target : Z) (M : nat) (probs : list Q) (fp : nat -> Q) (lo hi : nat) : res dict :=
  create (sp_delta target) M probs fp lo hi.

(* ---------- wire format ----------
   input  : [mode; probs; M; lo; hi; target; fps]   mode 0 = split-degree, 1 = delta;
            probs, fps lists of [num den]; fps = [fp lo; ...; fp (hi-1)] (0 elsewhere)
   output : [0; [[key; [num den]] ...]] | [-1; code] *)
Definition table_fp (lo : nat) (fps : list Q) : nat -> Q :=
  fun k => if Nat.ltb k lo then 0%Q else nth (k - lo) fps 0%Q.

Definition mode_sp (mode : Z) (target : Z) : nat -> bool :=
  if Z.eqb mode 0 then sp_split else sp_delta target.

Definition enc_dict (d : dict) : tree :=
  L (map (fun kv => L [of_nats (fst kv); of_q (snd kv)]) d).

Definition dec_dict (t : tree) : dict :=
  map (fun x => (t_nats (t_nth 0 x), t_q (t_nth 1 x))) (t_list t).

Definition c07_run (t : tree) : tree :=
  let mode := t_z (t_nth 0 t) in
  let probs := t_qs (t_nth 1 t) in
  let M := t_nat (t_nth 2 t) in
  let lo := t_nat (t_nth 3 t) in
  let hi := t_nat (t_nth 4 t) in
  let target := t_z (t_nth 5 t) in
  let fps := t_qs (t_nth 6 t) in
  match create (mode_sp mode target) M probs (table_fp lo fps) lo hi with
  | Ok d => L [I 0; enc_dict d]
  | Err c => t_err c
  end.

(* checker: input = the run input followed by [eps] and the observed table;
   answer 1 = the property holds on the table (within eps), 0 = it does not,
   2 = the input is outside the hypotheses (the code raises there). *)
Definition c07_check (t : tree) : tree :=
  let mode := t_z (t_nth 0 t) in
  let probs := t_qs (t_nth 1 t) in
  let M := t_nat (t_nth 2 t) in
  let lo := t_nat (t_nth 3 t) in
  let hi := t_nat (t_nth 4 t) in
  let target := t_z (t_nth 5 t) in
  let fps := t_qs (t_nth 6 t) in
  let eps := t_q (t_nth 7 t) in
  let d := dec_dict (t_nth 8 t) in
  let sp := mode_sp mode target in
  let fp := table_fp lo fps in
  if hyp_ok sp M probs fp lo hi then of_bool (check sp M probs fp lo hi eps d) else I 2.
