(* Model of the degree-distribution algebra:
     gcmpy/tools/average_joint_degree_from_jdd.py   (mean)
     gcmpy/tools/joint_excess_from_jdd.py           (forward: excess distributions of a jdd)
     gcmpy/tools/joint_degree_from_excess.py        (invert_single, rescale / merge / renormalise)
     gcmpy/tools/joint_excess_from_ejk.py           (row sums of mixing matrices)
     gcmpy/tools/joint_excess_joint_degree_matrices.py (splitting matrix keys into halves)
     gcmpy/tools/joint_degree_distribution_from_network.py
   Definitions only; proofs live in Proofs/AlgebraP.v.
   A Python dict is an association list in insertion order with distinct keys ([dict], Lib/QSumM.v).
   Exceptions: Err 1 = IndexError, 2 = ZeroDivisionError, 3 = TypeError, 4 = KeyError. *)
From Coq Require Import List ZArith QArith Qabs Bool Arith.
From GV Require Import Lib.Tree Lib.QSumM Model.Mixing.
Import ListNotations.
Local Open Scope Q_scope.

Inductive res (A : Type) : Type := Ok (a : A) | Err (code : Z).
Arguments Ok {A} a.
Arguments Err {A} code.

Definition kq (i : nat) (k : key) : Q := inject_Z (knth i k).

(* ---------- mean joint degree ---------- *)
Fixpoint add_row (avgs : list Q) (k : key) (p : Q) : list Q :=
  match avgs, k with
  | a :: avgs', x :: k' => Qred (a + inject_Z x * p) :: add_row avgs' k' p
  | _, _ => avgs
  end.
Definition first_len (P : dict) : nat := match P with [] => 0%nat | (k, _) :: _ => length k end.
Definition mean_raw (P : dict) : list Q :=
  fold_left (fun a kp => add_row a (fst kp) (snd kp)) P (repeat 0 (first_len P)).
(* joint_degrees[0] on an empty dict, jd[index] on a tuple shorter than the first one *)
Definition mean_err (P : dict) : bool :=
  match P with [] => true | _ => existsb (fun k => Nat.ltb (length k) (first_len P)) (dkeys P) end.
Definition mean (P : dict) : res (list Q) := if mean_err P then Err 1 else Ok (mean_raw P).

(* ---------- forward: excess distribution of every topology ---------- *)
Definition has_pos (i : nat) (P : dict) : bool := existsb (fun k => Z.ltb 0 (knth i k)) (dkeys P).
Definition forward_i (P : dict) (avg : Q) (i : nat) : dict :=
  map (fun kp => (kdec i (fst kp), Qred (kq i (fst kp) * snd kp / avg)))
      (filter (fun kp => Z.ltb 0 (knth i (fst kp))) P).
Definition forward (P : dict) : res (list dict) :=
  if mean_err P then Err 1
  else
    let avgs := mean_raw P in
    let idx := seq 0 (first_len P) in
    if existsb (fun i => Qeq_bool (nth i avgs 0) 0 && has_pos i P) idx then Err 2
    else Ok (map (fun i => forward_i P (nth i avgs 0) i) idx).

(* ---------- invert_single ---------- *)
Definition inv_term (i : nat) (e : key * Q) : Q := snd e / inject_Z (knth i (fst e) + 1).
Fixpoint inv_scan (qk : dict) (i : nat) : option Z :=
  match qk with
  | [] => None
  | (k, _) :: qk' =>
      if Nat.leb (length k) i then Some 1%Z
      else if Z.eqb (knth i k + 1) 0 then Some 2%Z
      else inv_scan qk' i
  end.
Definition invert_single (qk : dict) (i : nat) : res dict :=
  match inv_scan qk i with
  | Some c => Err c
  | None =>
      let bottom := Qred (qsum (map (inv_term i) qk)) in
      match qk with
      | [] => Ok []
      | _ => if Qeq_bool bottom 0 then Err 2
             else Ok (map (fun e => (kinc i (fst e), Qred (inv_term i e / bottom))) qk)
      end
  end.

(* ---------- dicts keyed by topology name ---------- *)
Fixpoint nget {A} (m : list (nat * A)) (n : nat) : option A :=
  match m with [] => None | (n', a) :: m' => if Nat.eqb n n' then Some a else nget m' n end.
Fixpoint nset {A} (m : list (nat * A)) (n : nat) (a : A) : list (nat * A) :=
  match m with
  | [] => [(n, a)]
  | (n', b) :: m' => if Nat.eqb n n' then (n', a) :: m' else (n', b) :: nset m' n a
  end.

(* observations_from_dict *)
Fixpoint observations (qks : list (nat * dict)) (its : list (nat * nat)) (acc : list (nat * dict))
  : res (list (nat * dict)) :=
  match its with
  | [] => Ok acc
  | (i, name) :: its' =>
      match nget qks name with
      | None => Err 4
      | Some qk =>
          match invert_single qk i with
          | Err c => Err c
          | Ok d => observations qks its' (nset acc name d)
          end
      end
  end.

Definition common_keys (obs : list (nat * dict)) : list key :=
  match obs with
  | [] => []
  | (_, d) :: rest => filter (fun k => forallb (fun o => dmem (snd o) k) rest) (dkeys d)
  end.

(* scale every observation except the reference one so that it agrees with it on [ck] *)
Fixpoint scale_obs (base : Q) (ck : key) (ref : nat) (obs : list (nat * dict)) : res (list (nat * dict)) :=
  match obs with
  | [] => Ok []
  | (t, d) :: obs' =>
      if Nat.eqb ref t then
        match scale_obs base ck ref obs' with Err c => Err c | Ok r => Ok ((t, d) :: r) end
      else
        let x := dgetq d ck in
        if Qeq_bool x 0 then Err 2
        else match scale_obs base ck ref obs' with
             | Err c => Err c
             | Ok r => Ok ((t, dmapv (fun v => Qred (v * (base / x))) d) :: r)
             end
  end.

Definition merge (obs : list (nat * dict)) : dict :=
  fold_left (fun P o => dupdate P (snd o)) obs [].

Definition renormalise (P : dict) : res dict :=
  let total := Qred (qsum (dvals P)) in
  match P with
  | [] => Ok []
  | _ => if Qeq_bool total 0 then Err 2 else Ok (dmapv (fun v => Qred (v / total)) P)
  end.

(* the part after the choice of the common key *)
Definition invert_with (obs : list (nat * dict)) (ref : nat) (ck : key) : res dict :=
  match nget obs ref with
  | None => Err 4
  | Some dref =>
      match scale_obs (dgetq dref ck) ck ref obs with
      | Err c => Err c
      | Ok sc => renormalise (merge sc)
      end
  end.

(* get_joint_degree_distribution; the arbitrary [common_keys[0]] (hash order of a set) is the
   schedule: the result is reported for EVERY common key *)
Definition invert_all (qks : list (nat * dict)) (names : list nat) : res (list (key * res dict)) :=
  match observations qks (enum_from 0 names) [] with
  | Err c => Err c
  | Ok obs =>
      match names with
      | [] => Err 3
      | ref :: _ =>
          match common_keys obs with
          | [] => Err 3
          | cks => Ok (map (fun ck => (ck, invert_with obs ref ck)) cks)
          end
      end
  end.

(* convert_list_qks_to_dict, then the inversion: forward and back *)
Definition qks_of_list (names : list nat) (qs : list dict) : list (nat * dict) :=
  fold_left (fun acc nd => nset acc (fst nd) (snd nd)) (combine names qs) [].
Definition roundtrip (P : dict) (names : list nat) : res (list (key * res dict)) :=
  match forward P with
  | Err c => Err c
  | Ok qs => invert_all (qks_of_list names qs) names
  end.

(* ---------- row sums of mixing matrices ---------- *)
Definition row_terms (ejk : dict) (keys : list key) : list (key * Q) :=
  flat_map (fun l => flat_map (fun r => if dmem ejk (l ++ r) then [(l, dgetq ejk (l ++ r))] else []) keys) keys.
Fixpoint rows_loop (ejks : matrices) (xk : list (nat * list key)) : res matrices :=
  match ejks with
  | [] => Ok []
  | (name, ejk) :: ejks' =>
      match nget xk name with
      | None => Err 4
      | Some keys =>
          match rows_loop ejks' xk with
          | Err c => Err c
          | Ok r => Ok ((name, dacc [] (row_terms ejk keys)) :: r)
          end
      end
  end.
Definition excess_from_ejk (ejks : matrices) (xk : list (nat * list key)) : res matrices :=
  if negb (Nat.eqb (length ejks) (length xk)) then Err 3 else rows_loop ejks xk.

(* get_excess_degree_keys: both halves of every matrix key *)
Definition halves (k : key) : list key := [firstn (Nat.div2 (length k)) k; skipn (Nat.div2 (length k)) k].
Definition xkeys_from_ejks (ejks : matrices) : list (nat * list key) :=
  map (fun nm => (fst nm, kdedup (flat_map halves (dkeys (snd nm))))) ejks.

(* ---------- empirical joint degree distribution of a network ---------- *)
Definition jdd_from_network (g : net) : dict :=
  dacc [] (map (fun k => (k, 1 / nq (length (jds g)))) (jds g)).

(* the two sides of the network identity *)
Definition net_rows (g : net) (names : list nat) : res matrices :=
  excess_from_ejk (snd (get_ejks g names [])) (xkeys g names).
Definition net_forward (g : net) : res (list dict) := forward (jdd_from_network g).

(* ================= specifications (closed forms) ================= *)
Definition mean_spec (P : dict) (i : nat) : Q := qsum (map (fun kp => kq i (fst kp) * snd kp) P).
Definition spec_forward_i (P : dict) (i : nat) : dict :=
  map (fun kp => (kdec i (fst kp), kq i (fst kp) * snd kp / mean_spec P i))
      (filter (fun kp => Z.ltb 0 (knth i (fst kp))) P).
Definition knonzero (k : key) : bool := existsb (fun x => negb (Z.eqb x 0)) k.
Definition nonzero_mass (P : dict) : Q := qsum (dvals (filter (fun kp => knonzero (fst kp)) P)).
Definition spec_inverse (P : dict) : dict :=
  map (fun kp => (fst kp, snd kp / nonzero_mass P)) (filter (fun kp => knonzero (fst kp)) P).
Definition spec_rows (M : dict) (keys : list key) : dict :=
  map (fun a => (a, qsum (map (fun b => dgetq M (a ++ b)) keys)))
      (filter (fun a => existsb (fun b => dmem M (a ++ b)) keys) keys).
(* number of vertices annotated k *)
Definition vcount (g : net) (k : key) : nat := length (filter (keqb k) (jds g)).
Definition col_sum (g : net) (i : nat) : Z := fold_right Z.add 0%Z (map (knth i) (jds g)).
Definition spec_network_i (g : net) (i : nat) : dict :=
  map (fun a => (a, inject_Z (knth i a + 1) * nq (vcount g (kinc i a)) / inject_Z (col_sum g i)))
      (xkeys_i g i).

(* ---------- validity ---------- *)
Definition valid_jddb (P : dict) : bool :=
  negb (Nat.eqb (length P) 0)
  && knodupb (dkeys P)
  && forallb (fun k => Nat.eqb (length k) (first_len P) && forallb (Z.leb 0) k) (dkeys P).
(* hypotheses of the inversion theorem *)
Definition inv_hypb (P : dict) : bool :=
  valid_jddb P
  && forallb (fun v => negb (Qle_bool v 0)) (dvals P)
  && existsb (fun k => forallb (Z.ltb 0) k) (dkeys P)
  && negb (Nat.eqb (first_len P) 0).
(* clean annotation: the t-degree of v is c * jd_v[i], c > 0 *)
Definition tdeg (g : net) (t : nat) (v : nat) : nat := deg (edges_of t (edges g)) v.
Definition clean_forb (g : net) (i t c : nat) : bool :=
  negb (Nat.eqb c 0)
  && forallb (fun v => Z.eqb (Z.of_nat (tdeg g t v)) (Z.of_nat c * knth i (jd_of g v))) (seq 0 (length (jds g))).

(* ---------- verified checkers of observations ---------- *)
Fixpoint check_dicts (eps : Q) (spec : nat -> dict) (i : nat) (obs : list dict) : bool :=
  match obs with
  | [] => true
  | d :: obs' => dict_closeb eps d (spec i) && check_dicts eps spec (S i) obs'
  end.

(* forward: every q_i within eps of k_i P(k)/<k_i>, and summing to 1 *)
Definition mean_ok (P : dict) : bool :=
  forallb (fun i => negb (Qeq_bool (mean_spec P i) 0) || negb (has_pos i P)) (seq 0 (first_len P)).
Definition sum_one_b (eps : Q) (P : dict) (i : nat) (q : dict) : bool :=
  negb (has_pos i P) || qcloseb (eps * nq (length q)) (qsum (dvals q)) 1.
Fixpoint check_sums (eps : Q) (P : dict) (i : nat) (obs : list dict) : bool :=
  match obs with [] => true | d :: obs' => sum_one_b eps P i d && check_sums eps P (S i) obs' end.
Definition check_forwardb (eps : Q) (P : dict) (obs : list dict) : bool :=
  valid_jddb P && mean_ok P
  && Nat.eqb (length obs) (first_len P)
  && check_dicts eps (spec_forward_i P) 0 obs
  && check_sums eps P 0 obs.

Fixpoint check_means (eps : Q) (P : dict) (i : nat) (obs : list Q) : bool :=
  match obs with [] => true | x :: obs' => qcloseb eps x (mean_spec P i) && check_means eps P (S i) obs' end.
Definition check_meanb (eps : Q) (P : dict) (obs : list Q) : bool :=
  valid_jddb P && Nat.eqb (length obs) (first_len P) && check_means eps P 0 obs.

Definition check_inverseb (eps : Q) (P : dict) (obs : dict) : bool :=
  inv_hypb P && dict_closeb eps obs (spec_inverse P).

Definition check_rowsb (eps : Q) (M : dict) (keys : list key) (obs : dict) : bool :=
  knodupb keys && dict_closeb eps obs (spec_rows M keys).

(* the key lists derived from a matrix: exactly the two halves of every matrix key, each once *)
Definition check_splitb (M : dict) (obs : list key) : bool :=
  keyset_eqb obs (kdedup (flat_map halves (dkeys M))).

(* empirical joint degree distribution: P(k) = #{v : jd v = k} / N on exactly the occurring tuples *)
Definition spec_jdd (g : net) : dict :=
  map (fun k => (k, nq (vcount g k) / nq (length (jds g)))) (kdedup (jds g)).
Definition check_jddb (eps : Q) (g : net) (obs : dict) : bool := dict_closeb eps obs (spec_jdd g).

(* network identity: both routes give the closed form (a_i+1) #{v : jd v = a+e_i} / sum_v jd_v[i] *)
Fixpoint check_net (eps : Q) (g : net) (its : list (nat * nat)) (cs : list nat)
         (rows : matrices) (fwd : list dict) : bool :=
  match its, cs, rows, fwd with
  | [], [], [], [] => true
  | (i, name) :: its', c :: cs', (name', r) :: rows', f :: fwd' =>
      Nat.eqb name name' && clean_forb g i name c
      && negb (Z.eqb (col_sum g i) 0)
      && dict_closeb eps r (spec_network_i g i)
      && dict_closeb eps f (spec_network_i g i)
      && check_net eps g its' cs' rows' fwd'
  | _, _, _, _ => false
  end.
Definition check_networkb (eps : Q) (g : net) (names cs : list nat) (rows : matrices) (fwd : list dict) : bool :=
  valid_netb (length names) g && nnodupb names && negb (Nat.eqb (length (jds g)) 0)
  && forallb (fun k => forallb (Z.leb 0) k) (jds g)
  && check_net eps g (enum_from 0 names) cs rows fwd.

(* ---------- wire format ---------- *)
Definition of_res {A} (f : A -> tree) (r : res A) : tree :=
  match r with Ok a => L [I 0; f a] | Err c => t_err c end.
Definition of_dicts (l : list dict) : tree := L (map of_dict l).
Definition t_dicts (t : tree) : list dict := map t_dict (t_list t).

(* input: [op; args...] *)
Definition c14_run (t : tree) : tree :=
  let a := t_nth 1 t in
  let b := t_nth 2 t in
  match t_z (t_nth 0 t) with
  | 0%Z => of_res of_dicts (forward (t_dict a))
  | 1%Z => of_res of_qs (mean (t_dict a))
  | 2%Z => of_res of_dict (invert_single (t_dict a) (t_nat b))
  | 3%Z => of_res (fun l => L (map (fun cr => L [of_key (fst cr); of_res of_dict (snd cr)]) l))
                  (invert_all (t_mats a) (t_nats b))
  | 4%Z => of_res of_mats (excess_from_ejk (t_mats a) (t_keyss b))
  | 5%Z => of_keyss (xkeys_from_ejks (t_mats a))
  | 6%Z => of_dict (jdd_from_network (t_net a (L [])))
  | 7%Z => let g := t_net (t_nth 2 t) (t_nth 3 t) in
           L [of_res of_mats (net_rows g (t_nats a)); of_res of_dicts (net_forward g)]
  | 8%Z => of_res (fun l => L (map (fun cr => L [of_key (fst cr); of_res of_dict (snd cr)]) l))
                  (roundtrip (t_dict a) (t_nats b))
  | _ => t_err 0
  end.

(* input: [mode; eps; ...] *)
Definition c14_check (t : tree) : tree :=
  let eps := t_q (t_nth 1 t) in
  let a := t_nth 2 t in
  let b := t_nth 3 t in
  match t_z (t_nth 0 t) with
  | 0%Z => of_bool (check_forwardb eps (t_dict a) (t_dicts b))
  | 1%Z => of_bool (check_meanb eps (t_dict a) (t_qs b))
  | 2%Z => of_bool (check_inverseb eps (t_dict a) (t_dict b))
  | 3%Z => of_bool (check_rowsb eps (t_dict a) (map t_key (t_list b)) (t_dict (t_nth 4 t)))
  | 4%Z => let g := t_net b (t_nth 4 t) in
           of_bool (check_networkb eps g (t_nats a) (t_nats (t_nth 5 t)) (t_mats (t_nth 6 t)) (t_dicts (t_nth 7 t)))
  | 5%Z => of_bool (check_splitb (t_dict a) (map t_key (t_list b)))
  | 6%Z => of_bool (check_jddb eps (t_net a (L [])) (t_dict b))
  | _ => of_bool false
  end.
