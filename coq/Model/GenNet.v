(* Model of gcmpy/gcm_algorithm/gcm_algorithm_network.py as a COMPOSITION:
     GCMAlgorithmNetwork.random_clustered_graph(jds)
       = EdgeListToNetwork.convert(GCMAlgorithmFast(params).random_clustered_graph(jds))
   i.e. Conv.to_network applied to the edge list of Gen.gen_fast (audit-1 finding F2: Gen.v and
   Conv.v were never composed).  Definitions only; proofs in Proofs/GenNetP.v. *)
From Coq Require Import List ZArith Bool Arith.
From GV Require Import Lib.Tree Model.Gen Model.Conv.
Import ListNotations.

(* LightWeightEdgeList with joint_degrees = jds and the three columns of the fast generator *)
Definition el_of_cols (jds : list (list nat)) (c : Gen.cols) : Conv.elist :=
  match c with (ce, cn, ci) => Conv.mk_elist jds ce cn ci end.

(* the callback calls are those of the fast generator; the result is the annotated network *)
Definition gen_network (build : nat -> list nat -> res shape) (sizes names : list nat)
           (jds pis : list (list nat)) : res (list ccall * Conv.net) :=
  match gen_fast build sizes names jds pis with
  | Err e => Err e
  | Ok (cs, c) => Ok (cs, Conv.to_network (el_of_cols jds c))
  end.

(* wire entry point: input as Gen.gen_run ([tag; jds; sizes; builder codes; names; motif_indices; pis];
   tag and motif_indices are ignored: this IS the network variant);
   output: the error, or [callback calls; annotated network (Conv.enc_net)] *)
Definition c01_net_run (t : tree) : tree :=
  let jds := t_natss (t_nth 1 t) in
  let sizes := t_nats (t_nth 2 t) in
  let codes := t_nats (t_nth 3 t) in
  let names := t_natss (t_nth 4 t) in
  let pis := t_natss (t_nth 6 t) in
  match gen_network (build_of_codes codes) sizes (map (hd 0) names) jds pis with
  | Err e => t_err e
  | Ok (cs, g) => L [L (map (fun c => enc_call (flat_call c)) cs); Conv.enc_net g]
  end.
