(* Model of gcmpy/tools/markov_chain_monte_carlo_rewiring.py (class
   MarkovChainMonteCarloRewiring): get_all_edges, is_edge_choice_suitable,
   swap_condition, the apply step of rewire(), rewire() itself as a state machine on a
   flat oracle stream, the constructor's default limits; plus the verified checkers of
   C11 (structure invariant) and C12 (only allowed pairings are created).
   Definitions only; proofs live in Proofs/McmcP.v. *)
From Coq Require Import List ZArith QArith Bool Arith Orders Mergesort.
From GV Require Import Lib.Tree Model.DrawSet.
Import ListNotations.
Local Open Scope Z_scope.

(* verified merge sort of the standard library on Z (used by the checkers only) *)
Module ZOrder <: TotalLeBool.
  Definition t := Z.
  Definition leb := Z.leb.
  Theorem leb_total : forall x y, leb x y = true \/ leb y x = true.
  Proof.
    intros x y. unfold leb. destruct (Z.leb_spec x y) as [H|H]; [left; reflexivity|right].
    apply Z.leb_le. apply Z.lt_le_incl. exact H.
  Qed.
End ZOrder.
Module ZSort := Sort ZOrder.

(* ------------------------------------------------------------------ networks *)
(* an edge of the networkx graph: end points normalised (ea <= eb), topology = index
   into the ordered list of topology names, motif id *)
Record edge := mkE { ea : Z; eb : Z; et : nat; em : Z }.

Definition norm (a b : Z) : Z * Z := if a <=? b then (a, b) else (b, a).
Definition mk_edge (a b : Z) (t : nat) (m : Z) : edge :=
  mkE (fst (norm a b)) (snd (norm a b)) t m.

(* G.edges[a, b] / G.has_edge(a, b): either orientation *)
Definition is_pair (a b : Z) (e : edge) : bool :=
  (ea e =? fst (norm a b)) && (eb e =? snd (norm a b)).
Definition find_edge (es : list edge) (a b : Z) : option edge := find (is_pair a b) es.
Definition has_edge (es : list edge) (a b : Z) : bool := existsb (is_pair a b) es.

Definition touches (u : Z) (e : edge) : bool := (ea e =? u) || (eb e =? u).
Definition other (u : Z) (e : edge) : Z := if ea e =? u then eb e else ea e.

(* get_all_edges(G, u0, e): the edges at u0 carrying the motif id m, as the list of their
   other end points (the real list is [(u0, x) for x in ...]); order = model order, the
   networkx adjacency order is an oracle answer validated with [permb] *)
Definition corner_edges (es : list edge) (u : Z) (m : Z) : list edge :=
  filter (fun e => touches u e && (em e =? m)) es.
Definition corner (es : list edge) (u : Z) (m : Z) : list Z :=
  map (other u) (corner_edges es u m).

Definition memz (l : list Z) (x : Z) : bool := existsb (Z.eqb x) l.
Definition permb (l1 l2 : list Z) : bool :=
  Nat.eqb (length l1) (length l2) && nodupb l1 && forallb (memz l2) l1.

(* the edge records of a corner given as other-end-points; None = G.edges[e] KeyError *)
Fixpoint attrs (es : list edge) (u : Z) (c : list Z) : option (list edge) :=
  match c with
  | [] => Some []
  | x :: c' =>
      match find_edge es u x, attrs es u c' with
      | Some e, Some r => Some (e :: r)
      | _, _ => None
      end
  end.

(* ------------------------------------------------------------------ suitability *)
Definition countn (t : nat) (l : list nat) : nat := length (filter (Nat.eqb t) l).
Definition topo_eq (l0 l1 : list nat) : bool :=
  forallb (fun t => Nat.eqb (countn t l0) (countn t l1)) (l0 ++ l1).

Fixpoint zip_all {A} (f : A -> A -> bool) (l0 l1 : list A) : bool :=
  match l0, l1 with
  | x :: r0, y :: r1 => f x y && zip_all f r0 r1
  | _, _ => true
  end.

(* is_edge_choice_suitable(G, u0, v0, e0s, e1s) on the edge records a0, a1 of the corners *)
Definition suitable (es : list edge) (u0 v0 : Z) (a0 a1 : list edge) : bool :=
  Nat.eqb (length a0) (length a1)
  && topo_eq (map et a0) (map et a1)
  && zip_all (fun e0 e1 => negb (em e0 =? em e1)) a0 a1
  && match a0, a1 with
     | f0 :: _, f1 :: _ =>
         negb (existsb (fun e => touches u0 e && (em e =? em f1)) es)
         && negb (existsb (fun e => touches v0 e && (em e =? em f0)) es)
         && forallb (fun e0 =>
              forallb (fun e1 =>
                if Nat.eqb (et e1) (et e0)
                then negb (has_edge es u0 (other v0 e1) || has_edge es v0 (other u0 e0))
                else true) a1) a0
     | _, _ => false
     end.

(* ------------------------------------------------------------------ swap condition *)
Definition target := list (list (list Z * Q)).   (* per topology index: (key, weight) items *)

Fixpoint zs_eqb (k1 k2 : list Z) : bool :=
  match k1, k2 with
  | [], [] => true
  | x :: r1, y :: r2 => (x =? y) && zs_eqb r1 r2
  | _, _ => false
  end.

Fixpoint klookup (m : list (list Z * Q)) (k : list Z) : option Q :=
  match m with
  | [] => None
  | (k', q) :: m' => if zs_eqb k k' then Some q else klookup m' k
  end.
Definition tlookup (tg : target) (t : nat) (k : list Z) : option Q := klookup (nth t tg []) k.

Definition jd_of (nodes : list (list Z)) (v : Z) : list Z := nth (Z.to_nat v) nodes [].

(* jd[index] -= 1 ; None = IndexError *)
Fixpoint dec_nth (t : nat) (l : list Z) : option (list Z) :=
  match l, t with
  | [], _ => None
  | x :: r, O => Some (x - 1 :: r)
  | x :: r, S t' => match dec_nth t' r with Some r' => Some (x :: r') | None => None end
  end.
Definition exk (nodes : list (list Z)) (t : nat) (v : Z) : option (list Z) := dec_nth t (jd_of nodes v).

(* error codes = exception classes *)
Definition E_MCMC : Z := 1.      (* ErrorMarkovChainMonteCarloRewiring *)
Definition E_KEY : Z := 2.       (* KeyError *)
Definition E_INDEX : Z := 3.     (* IndexError *)
Definition E_NX : Z := 4.        (* networkx.NetworkXError *)
Definition E_PROTOCOL : Z := 9.  (* oracle answer invalid (not an exception of the code) *)

(* lst.pop() from hashmap_e1s[topology]: the LAST remaining e1 of that topology.
   [rem] is kept reversed, so it is the first match. *)
Fixpoint pop_topo (t : nat) (rem : list edge) : option (edge * list edge) :=
  match rem with
  | [] => None
  | e :: r => if Nat.eqb (et e) t then Some (e, r)
              else match pop_topo t r with Some (x, r') => Some (x, e :: r') | None => None end
  end.

Inductive numres :=
| NumFalse                      (* silent return False *)
| NumErr (c : Z)
| NumOk (props : list edge) (top : Q).

(* the numerator loop. props accumulate in call order (u0,v1) then (v0,u1) per pair. *)
Fixpoint num_loop (fixed : bool) (nodes : list (list Z)) (tg : target) (u0 v0 : Z) (all1 : list edge)
         (a0 : list edge) (rem : list edge) (props : list edge) (top : Q) : numres :=
  match a0 with
  | [] => NumOk props top
  | e0 :: a0' =>
      let t := et e0 in
      match pop_topo t rem with
      | None => NumErr (if existsb (fun e => Nat.eqb (et e) t) all1 then E_MCMC else E_KEY)
      | Some (e1, rem') =>
          let u1 := other u0 e0 in
          let v1 := other v0 e1 in
          (* append_proposal_edges(G, u0, old, (u0, v1)) / (G, v0, old, (v0, u1)): the new edge inherits
             topology and motif id from [old].  /repo passes old = e0 for (u0,v1) and old = e1 for (v0,u1)
             (fixed = false: the ids are crossed, open finding C11b); the repaired code passes e1 / e0. *)
          let props' := props ++ (if fixed
                                  then [mk_edge u0 v1 (et e1) (em e1); mk_edge v0 u1 (et e0) (em e0)]
                                  else [mk_edge u0 v1 (et e0) (em e0); mk_edge v0 u1 (et e1) (em e1)]) in
          match exk nodes t u0, exk nodes t u1, exk nodes t v0, exk nodes t v1 with
          | Some ku0, Some ku1, Some kv0, Some kv1 =>
              let u0v1 := ku0 ++ kv1 in
              let v0u1 := kv0 ++ ku1 in
              let starting := [ku0 ++ ku1; ku1 ++ ku0; kv0 ++ kv1; kv1 ++ kv0] in
              if existsb (zs_eqb u0v1) starting && existsb (zs_eqb v0u1) starting then NumFalse
              else match tlookup tg t u0v1, tlookup tg t v0u1 with
                   | Some x, Some y =>
                       let top' := Qmult top (Qmult x y) in
                       if Qeq_bool top' (0#1) then NumFalse
                       else num_loop fixed nodes tg u0 v0 all1 a0' rem' props' top'
                   | _, _ => NumFalse
                   end
          | _, _, _, _ => NumErr E_INDEX
          end
      end
  end.

Inductive denres := DenFalse | DenErr (c : Z) | DenOk (bot : Q).

Fixpoint den_loop (nodes : list (list Z)) (tg : target) (u0 v0 : Z)
         (a0 a1 : list edge) (bot : Q) : denres :=
  match a0, a1 with
  | e0 :: a0', e1 :: a1' =>
      let lt := et e0 in
      let rt := et e1 in
      match exk nodes lt u0, exk nodes lt (other u0 e0) with
      | Some ku0, Some ku1 =>
          match exk nodes rt v0, exk nodes rt (other v0 e1) with
          | Some kv0, Some kv1 =>
              match tlookup tg lt (ku0 ++ ku1), tlookup tg rt (kv0 ++ kv1) with
              | Some x, Some y => den_loop nodes tg u0 v0 a0' a1' (Qmult bot (Qmult x y))
              | _, _ => DenFalse
              end
          | _, _ => DenErr E_INDEX
          end
      | _, _ => DenErr E_INDEX
      end
  | _, _ => DenOk bot
  end.

Inductive pre :=
| PFalse
| PErr (c : Z)
| PNeed (props : list edge) (top bot : Q).   (* random.random() is called next *)

(* swap_condition up to the call of random.random() *)
Definition swap_pre (fixed : bool) (nodes : list (list Z)) (tg : target) (u0 v0 : Z) (a0 a1 : list edge) : pre :=
  match num_loop fixed nodes tg u0 v0 a1 a0 (rev a1) [] (1#1) with
  | NumFalse => PFalse
  | NumErr c => PErr c
  | NumOk props top =>
      match den_loop nodes tg u0 v0 a0 a1 (1#1) with
      | DenFalse => PFalse
      | DenErr c => PErr c
      | DenOk bot => if Qeq_bool bot (0#1) then PErr E_MCMC else PNeed props top bot
      end
  end.

(* value > random.random() *)
Definition accepts (top bot r : Q) : bool := negb (Qle_bool (Qdiv top bot) r).

(* ------------------------------------------------------------------ apply *)
Definition enc (M : Z) (e : edge) : Z := ea e * M + eb e.

Inductive res (A : Type) := Ok (x : A) | Err (c : Z).
Arguments Ok {A} x.
Arguments Err {A} c.

Fixpoint add_props (M : Z) (es : list edge) (d : ds) (props : list edge) : res (list edge * ds) :=
  match props with
  | [] => Ok (es, d)
  | p :: r =>
      if has_edge es (ea p) (eb p) then Err E_MCMC
      else add_props M (es ++ [p]) (ds_add d (enc M p)) r
  end.

Definition remove_edge (es : list edge) (a b : Z) : list edge :=
  filter (fun e => negb (is_pair a b e)) es.

(* for e0, e1 in zip(u_edges, v_edges): remove e0, remove e1 (graph first for both, then
   the draw set for both: the error class can only differ when the mirror is broken) *)
Fixpoint remove_olds (M : Z) (es : list edge) (d : ds) (u0 v0 : Z) (c0 c1 : list Z)
  : res (list edge * ds) :=
  match c0, c1 with
  | u1 :: c0', v1 :: c1' =>
      if has_edge es u0 u1 then
        let es1 := remove_edge es u0 u1 in
        if has_edge es1 v0 v1 then
          let es2 := remove_edge es1 v0 v1 in
          match ds_remove d (enc M (mk_edge u0 u1 O 0)) with
          | None => Err E_KEY
          | Some d1 =>
              match ds_remove d1 (enc M (mk_edge v0 v1 O 0)) with
              | None => Err E_KEY
              | Some d2 => remove_olds M es2 d2 u0 v0 c0' c1'
              end
          end
        else Err E_NX
      else Err E_NX
  | _, _ => Ok (es, d)
  end.

Definition apply_swap (M : Z) (nE : nat) (es : list edge) (d : ds) (u0 v0 : Z)
           (c0 c1 : list Z) (props : list edge) : res (list edge * ds) :=
  match add_props M es d props with
  | Err c => Err c
  | Ok (es1, d1) =>
      match remove_olds M es1 d1 u0 v0 c0 c1 with
      | Err c => Err c
      | Ok (es2, d2) => if Nat.eqb (length es2) nE then Ok (es2, d2) else Err E_MCMC
      end
  end.

(* ------------------------------------------------------------------ rewire *)
Inductive ev := EDraw (i : nat) | ECorner (c : list Z) | ERandom (r : Q).

Record st := mkS { s_es : list edge; s_ds : ds; s_cc : nat }.

Inductive phase :=
| PhOuter
| PhCorner0 (e0 : edge)
| PhInner (e0 : edge) (c0 : list Z) (sc : nat)
| PhCorner1 (e0 : edge) (c0 : list Z) (sc : nat) (e1 : edge)
| PhRandom (u0 v0 : Z) (c0 c1 : list Z) (props : list edge) (top bot : Q).

Inductive status := Finished | Exhausted | Failed (c : Z).

Inductive next :=
| Go (ph : phase) (s : st) (accepted : bool)
| Halt (r : status) (s : st) (accepted : bool).

Record cfg := mkC { c_nodes : list (list Z); c_target : target; c_slimit : nat; c_climit : nat;
                    c_nE : nat; c_fixed : bool }.
Definition c_M (C : cfg) : Z := Z.of_nat (length (c_nodes C)).

(* top of the outer while loop *)
Definition enter_outer (C : cfg) (s : st) (acc : bool) : next :=
  if Nat.leb (s_cc s) (c_climit C) then
    match edges (s_ds s) with
    | [] => Halt (Failed E_INDEX) s acc          (* random.choice([]) *)
    | _ => Go PhOuter s acc
    end
  else Halt Finished s acc.

(* top of the inner while loop; leaving it with sc > limit always hits the `continue` *)
Definition enter_inner (C : cfg) (s : st) (e0 : edge) (c0 : list Z) (sc : nat) : next :=
  if Nat.leb sc (c_slimit C) then Go (PhInner e0 c0 sc) s false
  else enter_outer C s false.

Definition find_key (M : Z) (es : list edge) (k : Z) : option edge :=
  find (fun e => enc M e =? k) es.

Definition draw_edge (C : cfg) (s : st) (i : nat) : res edge :=
  match ds_draw (s_ds s) i with
  | None => Err E_PROTOCOL
  | Some k => match find_key (c_M C) (s_es s) k with
              | Some e => Ok e
              | None => Err E_KEY
              end
  end.

Definition step (C : cfg) (ph : phase) (s : st) (e : ev) : next :=
  match ph, e with
  | PhOuter, EDraw i =>
      match draw_edge C s i with
      | Ok e0 => Go (PhCorner0 e0) s false
      | Err c => Halt (Failed c) s false
      end
  | PhCorner0 e0, ECorner c =>
      if permb c (corner (s_es s) (ea e0) (em e0)) then enter_inner C s e0 c O
      else Halt (Failed E_PROTOCOL) s false
  | PhInner e0 c0 sc, EDraw j =>
      match draw_edge C s j with
      | Ok e1 => if Nat.eqb (et e1) (et e0) then Go (PhCorner1 e0 c0 sc e1) s false
                 else Go (PhInner e0 c0 sc) s false
      | Err c => Halt (Failed c) s false
      end
  | PhCorner1 e0 c0 sc e1, ECorner c1 =>
      if permb c1 (corner (s_es s) (ea e1) (em e1)) then
        let u0 := ea e0 in
        let v0 := ea e1 in
        match attrs (s_es s) u0 c0, attrs (s_es s) v0 c1 with
        | Some a0, Some a1 =>
            if suitable (s_es s) u0 v0 a0 a1 then
              (* break *)
              if Nat.leb (c_slimit C) sc then enter_outer C s false
              else match swap_pre (c_fixed C) (c_nodes C) (c_target C) u0 v0 a0 a1 with
                   | PFalse => enter_outer C s false
                   | PErr c => Halt (Failed c) s false
                   | PNeed props top bot => Go (PhRandom u0 v0 c0 c1 props top bot) s false
                   end
            else enter_inner C s e0 c0 (S sc)
        | _, _ => Halt (Failed E_KEY) s false
        end
      else Halt (Failed E_PROTOCOL) s false
  | PhRandom u0 v0 c0 c1 props top bot, ERandom r =>
      if accepts top bot r then
        match apply_swap (c_M C) (c_nE C) (s_es s) (s_ds s) u0 v0 c0 c1 props with
        | Ok (es', d') => enter_outer C (mkS es' d' (S (s_cc s))) true
        | Err c => Halt (Failed c) s false
        end
      else enter_outer C s false
  | _, _ => Halt (Failed E_PROTOCOL) s false
  end.

(* the run: one oracle answer per transition; returns the final status and state and the
   list of states right after each accepted swap *)
Fixpoint run (C : cfg) (evs : list ev) (ph : phase) (s : st) : status * st * list st :=
  match evs with
  | [] => (Exhausted, s, [])
  | e :: evs' =>
      match step C ph s e with
      | Go ph' s' acc =>
          let '(r, sf, tr) := run C evs' ph' s' in
          (r, sf, if acc then s' :: tr else tr)
      | Halt r s' acc => (r, s', if acc then [s'] else [])
      end
  end.

Definition init_ds (M : Z) (es : list edge) : ds := fold_left (fun d e => ds_add d (enc M e)) es ds_empty.

Definition rewire (C : cfg) (es0 : list edge) (evs : list ev) : status * st * list st :=
  let s0 := mkS es0 (init_ds (c_M C) es0) O in
  match enter_outer C s0 false with
  | Go ph s _ => run C evs ph s
  | Halt r s _ => (r, s, [])
  end.

(* constructor defaults *)
Definition default_climit (es : list edge) : nat := 10 * length es.
Definition default_slimit : nat := 25.
Definition mk_cfg (fixed : bool) (nodes : list (list Z)) (tg : target) (es0 : list edge)
           (sl cl : option nat) : cfg :=
  mkC nodes tg (match sl with Some n => n | None => default_slimit end)
      (match cl with Some n => n | None => default_climit es0 end) (length es0) fixed.

(* ------------------------------------------------------------------ C11: the invariant, executable *)
Definition key (e : edge) : Z * Z := (ea e, eb e).
Definition pair_eqb (p q : Z * Z) : bool := (fst p =? fst q) && (snd p =? snd q).

Fixpoint zss_eqb (l1 l2 : list (list Z)) : bool :=
  match l1, l2 with
  | [], [] => true
  | x :: r1, y :: r2 => zs_eqb x y && zss_eqb r1 r2
  | _, _ => false
  end.

(* well-formed simple graph on the vertices 0 .. N-1: end points in range and normalised (so no
   self-loop), no vertex pair twice (the sorted codes a*N+b increase strictly) *)
Fixpoint strict_inc (l : list Z) : bool :=
  match l with
  | x :: r => match r with y :: _ => (x <? y) && strict_inc r | [] => true end
  | [] => true
  end.
Definition wf_edge (N : Z) (e : edge) : bool := (0 <=? ea e) && (ea e <? eb e) && (eb e <? N).
Definition wfb (N : Z) (es : list edge) : bool :=
  forallb (wf_edge N) es && strict_inc (ZSort.sort (map (enc N) es)).

(* stubs: (vertex, topology) one per edge end; tdeg = per-vertex per-topology degree *)
Definition stubs (es : list edge) : list (Z * nat) :=
  flat_map (fun e => [(ea e, et e); (eb e, et e)]) es.
Definition stub_eqb (p q : Z * nat) : bool := (fst p =? fst q) && Nat.eqb (snd p) (snd q).
Definition count_stub (s : Z * nat) (l : list (Z * nat)) : nat := length (filter (stub_eqb s) l).
Definition tdeg (es : list edge) (v : Z) (t : nat) : nat := count_stub (v, t) (stubs es).
(* labels: (motif id, topology) one per edge; class_count = number of edges of topology t in label class m *)
Definition labels (es : list edge) : list (Z * nat) := map (fun e => (em e, et e)) es.
Definition class_count (es : list edge) (m : Z) (t : nat) : nat := count_stub (m, t) (labels es).
(* executable multiset equality of two lists of (Z, nat) pairs whose second components are below K:
   the sorted codes x*K+t agree *)
Definition topo_bound (es : list edge) : nat := S (fold_right Nat.max O (map et es)).
Definition stub_code (K : Z) (s : Z * nat) : Z := fst s * K + Z.of_nat (snd s).
Definition pairs_eqb (K : nat) (l l0 : list (Z * nat)) : bool :=
  forallb (fun s => Nat.ltb (snd s) K) l
  && zs_eqb (ZSort.sort (map (stub_code (Z.of_nat K)) l)) (ZSort.sort (map (stub_code (Z.of_nat K)) l0)).
Definition degrees_eqb (es0 es : list edge) : bool := pairs_eqb (topo_bound es0) (stubs es) (stubs es0).
Definition classes_eqb (es0 es : list edge) : bool := pairs_eqb (topo_bound es0) (labels es) (labels es0).

(* the edges of motif m as (pair, topology) *)
Definition motif_edges (es : list edge) (m : Z) : list edge := filter (fun e => em e =? m) es.
Definition shape_item := (Z * Z * nat)%type.
Definition item_of (e : edge) : shape_item := (ea e, eb e, et e).
Definition item_eqb (x y : shape_item) : bool :=
  (fst (fst x) =? fst (fst y)) && (snd (fst x) =? snd (fst y)) && Nat.eqb (snd x) (snd y).
Definition mem_item (l : list shape_item) (x : shape_item) : bool := existsb (item_eqb x) l.

Fixpoint dedup (l : list Z) : list Z :=
  match l with
  | [] => []
  | x :: r => if memz r x then dedup r else x :: dedup r
  end.
Definition verts (es : list edge) : list Z := dedup (flat_map (fun e => [ea e; eb e]) es).

(* a renaming as an association list; identity outside *)
Fixpoint rho_app (rho : list (Z * Z)) (x : Z) : Z :=
  match rho with
  | [] => x
  | (a, b) :: r => if x =? a then b else rho_app r x
  end.
Definition rename_item (f : Z -> Z) (e : edge) : shape_item :=
  (fst (norm (f (ea e)) (f (eb e))), snd (norm (f (ea e)) (f (eb e))), et e).

Fixpoint removez (y : Z) (l : list Z) : list Z :=
  match l with
  | [] => []
  | x :: r => if x =? y then removez y r else x :: removez y r
  end.
(* all injective assignments dom -> cod *)
Fixpoint assigns (dom cod : list Z) : list (list (Z * Z)) :=
  match dom with
  | [] => [[]]
  | x :: dom' => flat_map (fun y => map (cons (x, y)) (assigns dom' (removez y cod))) cod
  end.

Definition same_items (l1 l2 : list shape_item) : bool :=
  forallb (mem_item l2) l1 && forallb (mem_item l1) l2.

(* motif m of es has the shape of motif m of es0: some injective renaming of the vertices
   of the old motif maps its edge set (with topologies) onto the new one *)
Definition shape_ok (es0 es : list edge) (m : Z) : bool :=
  let E0 := motif_edges es0 m in
  let E1 := map item_of (motif_edges es m) in
  existsb (fun rho => same_items (map (rename_item (rho_app rho)) E0) E1)
          (assigns (verts E0) (verts (motif_edges es m))).

Fixpoint uniq (l : list Z) : list Z :=
  match l with
  | x :: r => match r with y :: _ => if x =? y then uniq r else x :: uniq r | [] => [x] end
  | [] => []
  end.
Definition ids (es : list edge) : list Z := uniq (ZSort.sort (map em es)).

(* the hard clauses: vertices and annotations, simple graph, edge count, per-vertex per-topology
   degrees, per-label-class per-topology edge counts *)
Definition check_hard (nodes0 : list (list Z)) (es0 : list edge) (nodes : list (list Z)) (es : list edge) : bool :=
  zss_eqb nodes nodes0
  && wfb (Z.of_nat (length nodes)) es
  && Nat.eqb (length es) (length es0)
  && degrees_eqb es0 es
  && classes_eqb es0 es.
(* the shape clause: every label class still carries a motif of the original shape *)
Definition check_shape (es0 es : list edge) : bool :=
  zs_eqb (ids es) (ids es0) && forallb (shape_ok es0 es) (ids es0).
Definition check_inv (nodes0 : list (list Z)) (es0 : list edge) (nodes : list (list Z)) (es : list edge) : bool :=
  check_hard nodes0 es0 nodes es && check_shape es0 es.

(* which hard conjunct fails first (diagnostics only): 0 = all hold *)
Definition why_hard (nodes0 : list (list Z)) (es0 : list edge) (nodes : list (list Z)) (es : list edge) : Z :=
  if negb (zss_eqb nodes nodes0) then 1
  else if negb (wfb (Z.of_nat (length nodes)) es) then 2
  else if negb (Nat.eqb (length es) (length es0)) then 3
  else if negb (degrees_eqb es0 es) then 4
  else if negb (classes_eqb es0 es) then 7
  else 0.

(* ------------------------------------------------------------------ C12: allowed pairings *)
Definition qpos (q : Q) : bool := negb (Qle_bool q (0#1)).

(* the pairing of edge e has positive weight in the target of its topology (the code tests the
   focal-vertex-first orientation; a stored edge does not remember which end was focal, so either
   orientation counts: targets are mixing matrices, i.e. symmetric) *)
Definition qpos_opt (o : option Q) : bool := match o with Some q => qpos q | None => false end.
Definition allowed (nodes : list (list Z)) (tg : target) (e : edge) : bool :=
  match exk nodes (et e) (ea e), exk nodes (et e) (eb e) with
  | Some ka, Some kb => qpos_opt (tlookup tg (et e) (ka ++ kb)) || qpos_opt (tlookup tg (et e) (kb ++ ka))
  | _, _ => false
  end.

Definition created (es es' : list edge) : list edge :=
  filter (fun e => negb (has_edge es (ea e) (eb e))) es'.

Definition step_allowed (nodes : list (list Z)) (tg : target) (es es' : list edge) : bool :=
  forallb (allowed nodes tg) (created es es').

Fixpoint chain_allowed (nodes : list (list Z)) (tg : target) (es : list edge) (gs : list (list edge)) : bool :=
  match gs with
  | [] => true
  | es' :: r => step_allowed nodes tg es es' && chain_allowed nodes tg es' r
  end.

(* pi(g) = product over edges of the target weight of the edge's key (orientation: smaller
   vertex first); None when a key is missing *)
Definition weight (nodes : list (list Z)) (tg : target) (e : edge) : option Q :=
  match exk nodes (et e) (ea e), exk nodes (et e) (eb e) with
  | Some ka, Some kb => tlookup tg (et e) (ka ++ kb)
  | _, _ => None
  end.

(* ------------------------------------------------------------------ wire format *)
Definition dec_edge (t : tree) : edge :=
  mk_edge (t_z (t_nth 0 t)) (t_z (t_nth 1 t)) (t_nat (t_nth 2 t)) (t_z (t_nth 3 t)).
Definition dec_edges (t : tree) : list edge := map dec_edge (t_list t).
Definition dec_nodes (t : tree) : list (list Z) := map t_zs (t_list t).
Definition dec_item (t : tree) : list Z * Q := (t_zs (t_nth 0 t), t_q (t_nth 1 t)).
Definition dec_target (t : tree) : target := map (fun x => map dec_item (t_list x)) (t_list t).
Definition dec_opt_nat (t : tree) : option nat :=
  match t_list t with [] => None | x :: _ => Some (t_nat x) end.
Definition dec_ev (t : tree) : ev :=
  match t_z (t_nth 0 t) with
  | 0 => EDraw (t_nat (t_nth 1 t))
  | 1 => ECorner (t_zs (t_nth 1 t))
  | _ => ERandom (t_q (t_nth 1 t))
  end.

Definition enc_edge (e : edge) : tree := L [I (ea e); I (eb e); of_nat (et e); I (em e)].
Definition enc_edges (l : list edge) : tree := L (map enc_edge l).
Definition enc_status (r : status) : tree :=
  match r with
  | Finished => L [I 0]
  | Exhausted => L [I 1]
  | Failed c => L [I 2; I c]
  end.
Definition enc_st (s : st) : tree := L [enc_edges (s_es s); of_zs (edges (s_ds s)); of_nat (s_cc s)].

(* c11_run [nodes; edges (G.edges() order); target; slimit?; climit?; events; fixed]
   -> [status; final state; accepted states; [slimit; climit]] *)
Definition c11_run (t : tree) : tree :=
  let nodes := dec_nodes (t_nth 0 t) in
  let es0 := dec_edges (t_nth 1 t) in
  let C := mk_cfg (t_bool (t_nth 6 t)) nodes (dec_target (t_nth 2 t)) es0 (dec_opt_nat (t_nth 3 t))
                  (dec_opt_nat (t_nth 4 t)) in
  let '(r, sf, tr) := rewire C es0 (map dec_ev (t_list (t_nth 5 t))) in
  L [enc_status r; enc_st sf; L (map enc_st tr); L [of_nat (c_slimit C); of_nat (c_climit C)]].
Definition c12_run (t : tree) : tree := c11_run t.

(* method level: [nodes; edges; target; queries; fixed], query = [u0; v0; c0; c1; r]
   -> per query [suitable; kind; top; bot; props; decision]   kind 0 False, 1 need random, 2 error *)
Definition enc_pre (p : pre) (r : Q) : list tree :=
  match p with
  | PFalse => [I 0; of_q (0#1); of_q (0#1); L []; I 0]
  | PErr c => [I 2; I c; of_q (0#1); L []; I 0]
  | PNeed props top bot => [I 1; of_q top; of_q bot; enc_edges props; of_bool (accepts top bot r)]
  end.
Definition mcmc_methods (t : tree) : tree :=
  let nodes := dec_nodes (t_nth 0 t) in
  let es := dec_edges (t_nth 1 t) in
  let tg := dec_target (t_nth 2 t) in
  L (map (fun q =>
        let u0 := t_z (t_nth 0 q) in
        let v0 := t_z (t_nth 1 q) in
        match attrs es u0 (t_zs (t_nth 2 q)), attrs es v0 (t_zs (t_nth 3 q)) with
        | Some a0, Some a1 =>
            L (of_bool (suitable es u0 v0 a0 a1)
                 :: enc_pre (swap_pre (t_bool (t_nth 4 t)) nodes tg u0 v0 a0 a1) (t_q (t_nth 4 q)))
        | _, _ => t_err E_KEY
        end) (t_list (t_nth 3 t))).

(* corners as the model computes them: [edges; queries [u; m]] -> per query the corner *)
Definition mcmc_corners (t : tree) : tree :=
  let es := dec_edges (t_nth 0 t) in
  L (map (fun q => of_zs (corner es (t_z (t_nth 0 q)) (t_z (t_nth 1 q)))) (t_list (t_nth 1 t))).

Fixpoint first_bad (nodes0 : list (list Z)) (es0 : list edge) (gs : list (list (list Z) * list edge)) (i : Z) : Z * Z :=
  match gs with
  | [] => (-1, 0)
  | (n, es) :: r => if check_hard nodes0 es0 n es then first_bad nodes0 es0 r (i + 1)
                    else (i, why_hard nodes0 es0 n es)
  end.
Fixpoint first_bad_shape (es0 : list edge) (gs : list (list (list Z) * list edge)) (i : Z) : Z :=
  match gs with
  | [] => -1
  | (_, es) :: r => if check_shape es0 es then first_bad_shape es0 r (i + 1) else i
  end.
Definition edge_eqb (e f : edge) : bool :=
  (ea e =? ea f) && (eb e =? eb f) && Nat.eqb (et e) (et f) && (em e =? em f).
Fixpoint edges_eqb (l1 l2 : list edge) : bool :=
  match l1, l2 with
  | [], [] => true
  | x :: r1, y :: r2 => edge_eqb x y && edges_eqb r1 r2
  | _, _ => false
  end.
(* the network object handed to the constructor, re-read after rewire(): exactly as before
   (both listings are sent in the same canonical order) *)
Definition unchanged (nodes0 : list (list Z)) (es0 : list edge) (nodes1 : list (list Z)) (es1 : list edge) : bool :=
  zss_eqb nodes1 nodes0 && edges_eqb es1 es0.

(* c11_check [nodes0; edges0; graphs; input-after], graph = [nodes; edges]
   -> [i; why; j]  i = index of the first graph violating a hard clause or -1 (why = the clause;
      6 = the input object was modified), j = index of the first graph violating the shape clause or -1 *)
Definition c11_check (t : tree) : tree :=
  let nodes0 := dec_nodes (t_nth 0 t) in
  let es0 := dec_edges (t_nth 1 t) in
  let gs := map (fun g => (dec_nodes (t_nth 0 g), dec_edges (t_nth 1 g))) (t_list (t_nth 2 t)) in
  let after := t_nth 3 t in
  let j := first_bad_shape es0 gs 0 in
  if unchanged nodes0 es0 (dec_nodes (t_nth 0 after)) (dec_edges (t_nth 1 after)) then
    let '(i, w) := first_bad nodes0 es0 gs 0 in L [I i; I w; I j]
  else L [I 0; I 6; I j].

(* c12_check [nodes; target; edges0; graphs (edge lists)] -> 1 iff every created edge is allowed *)
Definition c12_check (t : tree) : tree :=
  of_bool (chain_allowed (dec_nodes (t_nth 0 t)) (dec_target (t_nth 1 t)) (dec_edges (t_nth 2 t))
             (map dec_edges (t_list (t_nth 3 t)))).

(* method level: the proposals the implementation produced for an accepted swap, applied to the
   network by the model's apply step, must again satisfy the invariant / be allowed pairings.
   c11_check_swap [nodes; edges; u0; v0; c0; c1; props] -> [hard ok; why; shape ok] (why >= 10: apply failed) *)
Definition swap_result (t : tree) : res (list edge * ds) :=
  let nodes := dec_nodes (t_nth 0 t) in
  let es := dec_edges (t_nth 1 t) in
  let M := Z.of_nat (length nodes) in
  apply_swap M (length es) es (init_ds M es) (t_z (t_nth 2 t)) (t_z (t_nth 3 t))
             (t_zs (t_nth 4 t)) (t_zs (t_nth 5 t)) (dec_edges (t_nth 6 t)).
Definition c11_check_swap (t : tree) : tree :=
  let nodes := dec_nodes (t_nth 0 t) in
  let es := dec_edges (t_nth 1 t) in
  match swap_result t with
  | Ok (es', _) => L [of_bool (check_hard nodes es nodes es'); I (why_hard nodes es nodes es');
                      of_bool (check_shape es es')]
  | Err c => L [I 0; I (10 + c); I 0]
  end.
(* c12_check_swap [nodes; edges; u0; v0; c0; c1; props; target] *)
Definition c12_check_swap (t : tree) : tree :=
  let nodes := dec_nodes (t_nth 0 t) in
  let es := dec_edges (t_nth 1 t) in
  match swap_result t with
  | Ok (es', _) => of_bool (step_allowed nodes (dec_target (t_nth 7 t)) es es')
  | Err c => I 0
  end.

(* ------------------------------------------------------------------ C12: the Metropolis ratio *)
(* pi(g) = product over the edges of the target weight of the edge's pairing (0 when missing) *)
Definition wq (nodes : list (list Z)) (tg : target) (e : edge) : Q :=
  match weight nodes tg e with Some q => q | None => 0#1 end.
Definition prodw (nodes : list (list Z)) (tg : target) (l : list edge) : Q :=
  fold_right (fun e acc => Qmult (wq nodes tg e) acc) (1#1) l.
(* numerator = product over the proposal edges, denominator = product over the removed corner edges *)
Definition ratio_ok (nodes : list (list Z)) (tg : target) (olds props : list edge) (top bot : Q) : bool :=
  Qeq_bool top (prodw nodes tg props) && Qeq_bool bot (prodw nodes tg olds).

(* c12_ratio_check [nodes; edges; u0; v0; c0; c1; props; target; top; bot] *)
Definition c12_ratio_check (t : tree) : tree :=
  let nodes := dec_nodes (t_nth 0 t) in
  let es := dec_edges (t_nth 1 t) in
  match attrs es (t_z (t_nth 2 t)) (t_zs (t_nth 4 t)), attrs es (t_z (t_nth 3 t)) (t_zs (t_nth 5 t)) with
  | Some a0, Some a1 =>
      of_bool (ratio_ok nodes (dec_target (t_nth 7 t)) (a0 ++ a1) (dec_edges (t_nth 6 t))
                        (t_q (t_nth 8 t)) (t_q (t_nth 9 t)))
  | _, _ => I 0
  end.
