(* Model of JointDegree.sample_jds_from_jdd / handshaking_lemma (gcmpy/joint_degree/joint_degree.py), C05,
   and of CPython's random.choices selection rule (bisect of the cumulative weights at random()*total).
   Definitions only; proofs live in Proofs/SampleP.v. *)
From Coq Require Import List ZArith QArith Bool Arith.
From GV Require Import Lib.Tree Lib.QSumL.
Import ListNotations.
Local Open Scope nat_scope.

Notation jd := (list Z) (only parsing).
Notation jdseq := (list (list Z)) (only parsing).

Inductive sres (A : Type) : Type := SOk (a : A) | SErr (code : Z).
Arguments SOk {A} a.
Arguments SErr {A} code.
Definition SE_Index : Z := 1.
Definition SE_ZeroDiv : Z := 2.
Definition SE_Value : Z := 3.

Definition col (i : nat) (jds : jdseq) : list Z := map (fun r => nth i r 0%Z) jds.

(* zip( *jds ): as many columns as the shortest row *)
Definition ncols (jds : jdseq) : nat :=
  match jds with
  | [] => 0
  | r :: t => fold_left Nat.min (map (@length Z) t) (length r)
  end.

(* ntops = list(map(sum, zip( *jds ))) -- taken ONCE, from the un-patched sequence *)
Definition col_sums (jds : jdseq) : list Z := map (fun i => zsum (col i jds)) (seq 0 (ncols jds)).

Fixpoint upd {A} (n : nat) (f : A -> A) (l : list A) : list A :=
  match l, n with
  | [], _ => []
  | h :: t, O => f h :: t
  | h :: t, S n' => h :: upd n' f t
  end.

(* t = list(jds[j]); t[i] += 1; jds[j] = tuple(t) *)
Definition bump (i j : nat) (jds : jdseq) : jdseq := upd j (upd i Z.succ) jds.

(* number of stubs the code adds to a column of sum S for motif size s:
   if S % s != 0: range(s - S % s) *)
Definition need (s tot : Z) : nat :=
  if Z.eqb (tot mod s) 0 then 0 else Z.to_nat (s - tot mod s).

(* [a] single stubs in column [i], each at the next randrange answer; returns the log of patched rows *)
Fixpoint patch (i a : nat) (jds : jdseq) (rs : list nat) : jdseq * list nat * list (nat * nat) :=
  match a with
  | O => (jds, rs, [])
  | S a' =>
      let j := hd 0 rs in
      let '(out, rs', lg) := patch i a' (bump i j jds) (tl rs) in
      (out, rs', (i, j) :: lg)
  end.

(* for i, ntop in enumerate(ntops): ... self._motif_sizes[i] ... *)
Fixpoint hs_loop (i : nat) (ntops sizes : list Z) (jds : jdseq) (rs : list nat)
  : sres (jdseq * list (nat * nat)) :=
  match ntops with
  | [] => SOk (jds, [])
  | tot :: ntops' =>
      match sizes with
      | [] => SErr SE_Index
      | s :: sizes' =>
          if Z.eqb s 0 then SErr SE_ZeroDiv
          else
            let '(jds', rs', lg) := patch i (need s tot) jds rs in
            match hs_loop (Datatypes.S i) ntops' sizes' jds' rs' with
            | SOk (out, lg') => SOk (out, lg ++ lg')
            | SErr e => SErr e
            end
      end
  end.

Definition handshake (sizes : list Z) (jds : jdseq) (rs : list nat) : sres (jdseq * list (nat * nat)) :=
  hs_loop 0 (col_sums jds) sizes jds rs.

(* the sequence random.choices returns for the oracle's index answers *)
Definition drawn (keys : list jd) (draws : list nat) : jdseq := map (fun i => nth i keys []) draws.

(* the question put to the oracle: choices(population=keys, weights=values, k=N) *)
Definition choices_call (keys : list jd) (weights : list Q) (N : nat) := (keys, weights, N).

Definition sample (keys : list jd) (sizes : list Z) (draws rs : list nat)
  : sres (jdseq * list (nat * nat)) :=
  handshake sizes (drawn keys draws) rs.

(* ====================================================================== *)
(* CPython random.choices: cum = accumulate(weights); total = cum[-1];
   index = bisect_right(cum, random()*total, 0, n-1) = number of j < n-1 with cum_j <= x *)
Fixpoint accumulate (acc : Q) (ws : list Q) : list Q :=
  match ws with
  | [] => []
  | w :: t => (acc + w)%Q :: accumulate (acc + w)%Q t
  end.

Definition bisect_count (cum : list Q) (x : Q) : nat :=
  length (filter (fun c => Qle_bool c x) (removelast cum)).

Definition choices_rule (ws : list Q) (r : Q) : sres nat :=
  match ws with
  | [] => SErr SE_Index                                 (* cum_weights[-1] on an empty list *)
  | _ :: _ =>
      let cum := accumulate 0%Q ws in
      let total := last cum 0%Q in
      if Qle_bool total 0%Q then SErr SE_Value
      else SOk (bisect_count cum (r * total)%Q)
  end.

(* ====================================================================== *)
(* specification side: what a returned sequence must satisfy w.r.t. the drawn one *)

Definition added (s tot : Z) : Z := ((s - tot mod s) mod s)%Z.

Definition zlist_eqb (a b : list Z) : bool :=
  Nat.eqb (length a) (length b) && forallb (fun xy => Z.eqb (fst xy) (snd xy)) (combine a b).

Definition keys_eqb (a b : list jd) : bool :=
  Nat.eqb (length a) (length b) && forallb (fun xy => zlist_eqb (fst xy) (snd xy)) (combine a b).

Definition qlist_eqb (a b : list Q) : bool :=
  Nat.eqb (length a) (length b) && forallb (fun xy => Qeq_bool (fst xy) (snd xy)) (combine a b).

(* clause 1: the oracle was asked (keys, weights, N) and answered N valid indices *)
Definition call_ok (keys : list jd) (weights : list Q) (N : nat)
           (pop : list jd) (wts : list Q) (k : nat) (idxs : list nat) : bool :=
  keys_eqb pop keys && qlist_eqb wts weights && Nat.eqb k N && Nat.eqb (length idxs) N
  && forallb (fun i => Nat.ltb i (length keys)) idxs.

(* clause 2: N rows, same shape, non-negative, never below the drawn entry *)
Definition rows_ok (N : nat) (inn out : jdseq) : bool :=
  Nat.eqb (length out) N && Nat.eqb (length inn) N
  && forallb (fun io => Nat.eqb (length (fst io)) (length (snd io))
                        && forallb (fun xy => Z.leb (fst xy) (snd xy) && Z.leb 0 (fst xy)) (combine (fst io) (snd io)))
             (combine inn out).

(* clause 3: per topology the number of added stubs is (s - S mod s) mod s and the new total is divisible *)
Definition cols_ok (sizes : list Z) (inn out : jdseq) : bool :=
  forallb (fun is_ => let i := fst is_ in let s := snd is_ in
                      let t0 := zsum (col i inn) in let t1 := zsum (col i out) in
                      Z.eqb (t1 - t0) (added s t0) && Z.eqb (t1 mod s) 0)
          (combine (seq 0 (length sizes)) sizes).

(* clause 4: every randrange call asked for range(0, N), answered inside it, and row v gained exactly as
   many stubs as there are calls answering v *)
Definition count_nat (v : nat) (l : list nat) : nat := length (filter (Nat.eqb v) l).

Definition log_ok (N : nat) (inn out : jdseq) (rlog : list (Z * Z * nat)) : bool :=
  forallb (fun c => Z.eqb (fst (fst c)) 0 && Z.eqb (snd (fst c)) (Z.of_nat N) && Nat.ltb (snd c) N) rlog
  && forallb (fun v => Z.eqb (zsum (nth v out []) - zsum (nth v inn []))
                             (Z.of_nat (count_nat v (map snd rlog))))
             (seq 0 N).

Definition shape_ok (sizes : list Z) (keys : list jd) : bool :=
  forallb (fun s => Z.ltb 0 s) sizes
  && forallb (fun k => Nat.eqb (length k) (length sizes) && forallb (Z.leb 0) k) keys.

Definition sample_check (keys : list jd) (weights : list Q) (sizes : list Z) (N : nat)
           (pop : list jd) (wts : list Q) (k : nat) (idxs : list nat)
           (rlog : list (Z * Z * nat)) (out : jdseq) : bool :=
  let inn := drawn keys idxs in
  shape_ok sizes keys
  && call_ok keys weights N pop wts k idxs
  && rows_ok N inn out
  && cols_ok sizes inn out
  && log_ok N inn out rlog.

(* the same, clause by clause (diagnostics for the harness) *)
Definition sample_clauses (keys : list jd) (weights : list Q) (sizes : list Z) (N : nat)
           (pop : list jd) (wts : list Q) (k : nat) (idxs : list nat)
           (rlog : list (Z * Z * nat)) (out : jdseq) : list bool :=
  let inn := drawn keys idxs in
  [shape_ok sizes keys; call_ok keys weights N pop wts k idxs; rows_ok N inn out;
   cols_ok sizes inn out; log_ok N inn out rlog].

(* ====================================================================== *)
(* wire *)
Definition t_jds (t : tree) : jdseq := map t_zs (t_list t).
Definition of_jds (j : jdseq) : tree := L (map of_zs j).
Definition of_log (l : list (nat * nat)) : tree := L (map (fun p => L [of_nat (fst p); of_nat (snd p)]) l).

(* c05_run [keys; weights; sizes; N; draws; rs] ->
   [0; [keys; weights; N]; drawn; out; log of (column,row)] | error *)
Definition c05_run (t : tree) : tree :=
  let keys := t_jds (t_nth 0 t) in
  let weights := t_qs (t_nth 1 t) in
  let sizes := t_zs (t_nth 2 t) in
  let N := t_nat (t_nth 3 t) in
  let draws := t_nats (t_nth 4 t) in
  let rs := t_nats (t_nth 5 t) in
  match sample keys sizes draws rs with
  | SOk (out, lg) =>
      L [I 0; L [of_jds keys; of_qs weights; of_nat N]; of_jds (drawn keys draws); of_jds out; of_log lg]
  | SErr e => t_err e
  end.

(* c05_check [keys; weights; sizes; N; [pop; wts; k; idxs]; rlog = list of [a; b; answer]; out] *)
Definition c05_check (t : tree) : tree :=
  let c := t_nth 4 t in
  let keys := t_jds (t_nth 0 t) in
  let weights := t_qs (t_nth 1 t) in
  let sizes := t_zs (t_nth 2 t) in
  let N := t_nat (t_nth 3 t) in
  let pop := t_jds (t_nth 0 c) in
  let wts := t_qs (t_nth 1 c) in
  let k := t_nat (t_nth 2 c) in
  let idxs := t_nats (t_nth 3 c) in
  let rlog := map (fun x => (t_z (t_nth 0 x), t_z (t_nth 1 x), t_nat (t_nth 2 x))) (t_list (t_nth 5 t)) in
  let out := t_jds (t_nth 6 t) in
  L (of_bool (sample_check keys weights sizes N pop wts k idxs rlog out)
     :: map of_bool (sample_clauses keys weights sizes N pop wts k idxs rlog out)).

(* c05_choices [weights; r] -> [0; index] | error : CPython's selection rule *)
Definition c05_choices (t : tree) : tree :=
  match choices_rule (t_qs (t_nth 0 t)) (t_q (t_nth 1 t)) with
  | SOk i => L [I 0; of_nat i]
  | SErr e => t_err e
  end.
