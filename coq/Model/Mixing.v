(* Model of gcmpy/tools/joint_excess_joint_degree.py (class JointExcessJointDegree, an
   object with state [_num_edges]), gcmpy/tools/joint_excess_degree.py
   (JointExcessDegree.get_ejk) and the part of joint_excess_joint_degree_matrices.py the
   extractor fills.  Definitions only; proofs live in Proofs/MixingP.v. *)
From Coq Require Import List ZArith QArith Qabs Bool Arith.
From GV Require Import Lib.Tree Lib.QSumM.
Import ListNotations.
Local Open Scope Q_scope.

(* ---------- annotated networks ----------
   vertices are 0 .. length jds - 1, [nth v jds] is the 'joint_degree' annotation of v,
   an edge is (u, v, topology-name); topology names are abstract labels (nat codes). *)
Definition edge := (nat * nat * nat)%type.
Definition eu (e : edge) : nat := fst (fst e).
Definition ev (e : edge) : nat := snd (fst e).
Definition etop (e : edge) : nat := snd e.
Record net := mk_net { jds : list key; edges : list edge }.

Definition jd_of (g : net) (v : nat) : key := nth v (jds g) [].

(* k[i] -= 1 / k[i] += 1 on a tuple *)
Fixpoint kdec (i : nat) (k : key) : key :=
  match k, i with
  | [], _ => []
  | x :: t, O => (x - 1)%Z :: t
  | x :: t, S i' => x :: kdec i' t
  end.
Fixpoint kinc (i : nat) (k : key) : key :=
  match k, i with
  | [], _ => []
  | x :: t, O => (x + 1)%Z :: t
  | x :: t, S i' => x :: kinc i' t
  end.
Definition knth (i : nat) (k : key) : Z := nth i k 0%Z.

Definition edges_of (t : nat) (es : list edge) : list edge := filter (fun e => Nat.eqb (etop e) t) es.

(* ---------- the per-topology edge counter (the object's state) ---------- *)
Definition counter := list (nat * nat).
Fixpoint cnt_get (c : counter) (t : nat) : nat :=
  match c with [] => 0%nat | (t', n) :: c' => if Nat.eqb t t' then n else cnt_get c' t end.
Fixpoint cnt_incr (c : counter) (t : nat) : counter :=
  match c with
  | [] => [(t, 1%nat)]
  | (t', n) :: c' => if Nat.eqb t t' then (t', S n) :: c' else (t', n) :: cnt_incr c' t
  end.
(* count_edge_types: [self._num_edges = {}] and then one increment per edge.  The old
   counter [c] is the state the method starts from; the reset discards it. *)
Definition count_edge_types (c : counter) (es : list edge) : counter :=
  let c0 : counter := [] in fold_left cnt_incr (map etop es) c0.

(* ---------- get_ejk ---------- *)
Definition nq (n : nat) : Q := inject_Z (Z.of_nat n).

(* what one edge adds: 1/E on a self-paired class, 1/(2E) on both ordered keys otherwise *)
Definition contrib (exf : nat -> key) (E : Q) (e : edge) : list (key * Q) :=
  let k1 := exf (eu e) ++ exf (ev e) in
  let k2 := exf (ev e) ++ exf (eu e) in
  if keqb k1 k2 then [(k1, 1 / E)] else [(k1, (1 # 2) / E); (k2, (1 # 2) / E)].

Definition exc (g : net) (i : nat) (v : nat) : key := kdec i (jd_of g v).

Definition get_ejk (g : net) (c : counter) (i : nat) (name : nat) : dict :=
  dacc [] (flat_map (contrib (exc g i) (nq (cnt_get c name))) (edges_of name (edges g))).

Fixpoint enum_from {A} (n : nat) (l : list A) : list (nat * A) :=
  match l with [] => [] | x :: t => (n, x) :: enum_from (S n) t end.

Definition matrices := list (nat * dict).

(* get_ejks: recount, then one matrix per (index, name) *)
Definition get_ejks (g : net) (names : list nat) (c : counter) : counter * matrices :=
  let c' := count_edge_types c (edges g) in
  (c', map (fun it => (snd it, get_ejk g c' (fst it) (snd it))) (enum_from 0 names)).

(* n successive calls on one object *)
Fixpoint run_calls (g : net) (names : list nat) (c : counter) (n : nat) : list matrices :=
  match n with
  | O => []
  | S n' => let r := get_ejks g names c in snd r :: run_calls g names (fst r) n'
  end.

(* ---------- excess degree keys (constructor) ---------- *)
Definition xkeys_i (g : net) (i : nat) : list key :=
  kdedup (map (kdec i) (filter (fun k => Z.ltb 0 (knth i k)) (kdedup (jds g)))).
Definition xkeys (g : net) (names : list nat) : list (nat * list key) :=
  map (fun it => (snd it, xkeys_i g (fst it))) (enum_from 0 names).
(* jd[i] raises IndexError when an annotation is shorter than the list of names *)
Definition short_annotation (g : net) (names : list nat) : bool :=
  existsb (fun k => Nat.ltb (length k) (length names)) (jds g).

(* ---------- overall-degree variant ---------- *)
Definition deg (es : list edge) (v : nat) : nat :=
  fold_right (fun e n => ((if Nat.eqb (eu e) v then 1 else 0) + (if Nat.eqb (ev e) v then 1 else 0) + n)%nat) 0%nat es.
Definition pexc (es : list edge) (v : nat) : key := [(Z.of_nat (deg es v) - 1)%Z].
Definition contrib_plain (exf : nat -> key) (E : Q) (e : edge) : list (key * Q) :=
  [(exf (eu e) ++ exf (ev e), (1 # 2) / E); (exf (ev e) ++ exf (eu e), (1 # 2) / E)].
Definition plain_ejk (es : list edge) : dict :=
  dacc [] (flat_map (contrib_plain (pexc es) (nq (length es))) es).

(* ---------- specification: counting ordered edge ends ---------- *)
Definition b2n (b : bool) : nat := if b then 1%nat else 0%nat.
(* number of ordered ends (x, partner y) of the edges [es] with own excess a, partner excess b *)
Definition ends_count (exf : nat -> key) (es : list edge) (a b : key) : nat :=
  fold_right (fun e n => (b2n (keqb (exf (eu e)) a && keqb (exf (ev e)) b)
                          + b2n (keqb (exf (ev e)) a && keqb (exf (eu e)) b) + n)%nat) 0%nat es.
(* number of ends with own excess a *)
Definition own_count (exf : nat -> key) (es : list edge) (a : key) : nat :=
  fold_right (fun e n => (b2n (keqb (exf (eu e)) a) + b2n (keqb (exf (ev e)) a) + n)%nat) 0%nat es.
Definition pair_keys (exf : nat -> key) (es : list edge) : list key :=
  kdedup (flat_map (fun e => [exf (eu e) ++ exf (ev e); exf (ev e) ++ exf (eu e)]) es).
Definition spec_val (T : nat) (exf : nat -> key) (es : list edge) (k : key) : Q :=
  nq (ends_count exf es (firstn T k) (skipn T k)) / nq (2 * length es).
Definition spec_mix (T : nat) (exf : nat -> key) (es : list edge) : dict :=
  map (fun k => (k, spec_val T exf es k)) (pair_keys exf es).

(* row sum of a matrix: all entries whose first half is a *)
Definition rowsum (T : nat) (m : dict) (a : key) : Q :=
  qsum (map snd (filter (fun kv => keqb (firstn T (fst kv)) a) m)).

(* ---------- validity of an input ---------- *)
Definition valid_netb (T : nat) (g : net) : bool :=
  forallb (fun k => Nat.eqb (length k) T) (jds g)
  && forallb (fun e => Nat.ltb (eu e) (length (jds g)) && Nat.ltb (ev e) (length (jds g))) (edges g).

(* ---------- verified checker of an observation ---------- *)
Definition keyset_eqb (l1 l2 : list key) : bool :=
  knodupb l1 && forallb (fun k => kmem k l2) l1 && forallb (fun k => kmem k l1) l2.

Fixpoint check_mats (eps : Q) (T : nat) (g : net) (its : list (nat * nat)) (obs : matrices) : bool :=
  match its, obs with
  | [], [] => true
  | (i, name) :: its', (name', m) :: obs' =>
      Nat.eqb name name'
      && dict_closeb eps m (spec_mix T (exc g i) (edges_of name (edges g)))
      && check_mats eps T g its' obs'
  | _, _ => false
  end.

(* exact equality (as rationals) of two observed families of matrices *)
Fixpoint mats_eqb (a b : matrices) : bool :=
  match a, b with
  | [], [] => true
  | (n1, m1) :: a', (n2, m2) :: b' => Nat.eqb n1 n2 && dict_closeb 0 m1 m2 && mats_eqb a' b'
  | _, _ => false
  end.

Fixpoint check_xkeys (g : net) (its : list (nat * nat)) (obs : list (nat * list key)) : bool :=
  match its, obs with
  | [], [] => true
  | (i, name) :: its', (name', ks) :: obs' =>
      Nat.eqb name name' && keyset_eqb ks (xkeys_i g i) && check_xkeys g its' obs'
  | _, _ => false
  end.

Fixpoint nnodupb (l : list nat) : bool :=
  match l with [] => true | x :: t => negb (existsb (Nat.eqb x) t) && nnodupb t end.

(* observation: the matrices returned by each of the successive calls, the excess keys,
   the overall-degree matrix *)
Definition c13_checkb (eps : Q) (g : net) (names : list nat)
           (calls : list matrices) (xk : list (nat * list key)) (plain : dict) : bool :=
  let T := length names in
  valid_netb T g && nnodupb names
  && negb (Nat.eqb (length calls) 0)
  && forallb (check_mats eps T g (enum_from 0 names)) calls
  && forallb (mats_eqb (hd [] calls)) calls
  && check_xkeys g (enum_from 0 names) xk
  && dict_closeb eps plain (spec_mix 1 (pexc (edges g)) (edges g)).

(* The same judgement with the tuple length T as a parameter: annotations may have MORE components
   than topology names were requested (T >= length names); the matrices of the requested topologies
   are still keyed by the full excess tuples (2T components). *)
Definition c13_checkb_T (eps : Q) (T : nat) (g : net) (names : list nat)
           (calls : list matrices) (xk : list (nat * list key)) (plain : dict) : bool :=
  Nat.leb (length names) T
  && valid_netb T g && nnodupb names
  && negb (Nat.eqb (length calls) 0)
  && forallb (check_mats eps T g (enum_from 0 names)) calls
  && forallb (mats_eqb (hd [] calls)) calls
  && check_xkeys g (enum_from 0 names) xk
  && dict_closeb eps plain (spec_mix 1 (pexc (edges g)) (edges g)).

(* T = the common length of the annotations (the first one's; [valid_netb] checks the others);
   a network without vertices has no tuples: any T >= length names does *)
Definition ann_len (g : net) (names : list nat) : nat :=
  match jds g with [] => length names | k :: _ => length k end.

Definition c13_checkb_gen (eps : Q) (g : net) (names : list nat)
           (calls : list matrices) (xk : list (nat * list key)) (plain : dict) : bool :=
  c13_checkb_T eps (ann_len g names) g names calls xk plain.

(* ---------- wire format ---------- *)
Definition t_key (t : tree) : key := t_zs t.
Definition t_edge (t : tree) : edge := (t_nat (t_nth 0 t), t_nat (t_nth 1 t), t_nat (t_nth 2 t)).
Definition t_net (tj te : tree) : net := mk_net (map t_key (t_list tj)) (map t_edge (t_list te)).
Definition t_dict (t : tree) : dict := map (fun x => (t_key (t_nth 0 x), t_q (t_nth 1 x))) (t_list t).
Definition t_mats (t : tree) : matrices := map (fun x => (t_nat (t_nth 0 x), t_dict (t_nth 1 x))) (t_list t).
Definition t_keyss (t : tree) : list (nat * list key) :=
  map (fun x => (t_nat (t_nth 0 x), map t_key (t_list (t_nth 1 x)))) (t_list t).
Definition of_key (k : key) : tree := of_zs k.
Definition of_dict (m : dict) : tree := L (map (fun kv => L [of_key (fst kv); of_q (snd kv)]) m).
Definition of_mats (ms : matrices) : tree := L (map (fun nm => L [of_nat (fst nm); of_dict (snd nm)]) ms).
Definition of_keyss (l : list (nat * list key)) : tree :=
  L (map (fun nk => L [of_nat (fst nk); L (map of_key (snd nk))]) l).

(* input: [names; jds; edges; ncalls]
   output: IndexError, or [calls; excess keys; overall-degree matrix] *)
Definition c13_run (t : tree) : tree :=
  let names := t_nats (t_nth 0 t) in
  let g := t_net (t_nth 1 t) (t_nth 2 t) in
  let n := t_nat (t_nth 3 t) in
  if short_annotation g names then t_err 1
  else L [L (map of_mats (run_calls g names [] n)); of_keyss (xkeys g names); of_dict (plain_ejk (edges g))].

(* input: [names; jds; edges; eps; observed calls; observed excess keys; observed overall matrix] *)
Definition c13_check (t : tree) : tree :=
  let names := t_nats (t_nth 0 t) in
  let g := t_net (t_nth 1 t) (t_nth 2 t) in
  (* = c13_checkb whenever the annotations have exactly [length names] components
     (Proofs/MixingGenP.v: c13_checkb_gen_old_domain) *)
  of_bool (c13_checkb_gen (t_q (t_nth 3 t)) g names
             (map t_mats (t_list (t_nth 4 t))) (t_keyss (t_nth 5 t)) (t_dict (t_nth 6 t))).
