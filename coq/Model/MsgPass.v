(* Model of gcmpy/message_passing/message_passing.py (class MessagePassing, with the label parsing
   of message_passing_mixin.py) on top of Model/AutoEq.v.  Definitions only.

   A cover-labelled network is given by
     - its node list (G.nodes()),
     - its edge list in SWEEP ORDER with orientation, each edge with the ID of its cover label
       (G.edges() order: an oracle answer logged by the harness),
     - the motif table: ID -> (vertex list, edge list) as written in the labels.
   H maps (vertex, motif ID) to a rational ("_H_tau"). *)
From Coq Require Import List ZArith QArith Bool Arith.
From GV Require Import Lib.Tree Lib.PolyRefl15 Lib.Graph15 Model.AutoEq.
Import ListNotations.
Local Open Scope nat_scope.

Record motif := mk_motif { m_id : nat; m_verts : list nat; m_edges : list edge }.
Record net := mk_net {
  n_nodes : list nat;
  n_sweep : list (nat * nat * nat);      (* (i, j, motif ID) in G.edges() order *)
  n_motifs : list motif }.

Definition empty_motif : motif := mk_motif 0 [] [].
Definition find_motif (nt : net) (id : nat) : motif :=
  match find (fun m => Nat.eqb (m_id m) id) (n_motifs nt) with Some m => m | None => empty_motif end.

(* resolve_equation: H = nx.Graph(); H.add_edges_from(edges): nodes in order of first appearance *)
Definition nodes_of_edges (es : list edge) : list nat :=
  fold_left (fun acc e => addv (snd e) (addv (fst e) acc)) es [].
Definition motif_graph (m : motif) : graph := (nodes_of_edges (m_edges m), m_edges m).

(* neighbours of j in the network, each with the motif ID of the connecting edge *)
Definition nbrs_lab (nt : net) (j : nat) : list (nat * nat) :=
  flat_map (fun e => let '(a, b, id) := e in
                     if Nat.eqb a j then [(b, id)] else if Nat.eqb b j then [(a, id)] else [])
           (n_sweep nt).
(* distinct IDs, first occurrences (the done_motifs bookkeeping) *)
Fixpoint nodup_ids (l : list nat) (done : list nat) : list nat :=
  match l with
  | [] => []
  | x :: t => if memb x done then nodup_ids t done else x :: nodup_ids t (x :: done)
  end.
(* motifs of j reached through a neighbour outside the vertex list [vm] of the current motif *)
Definition others (nt : net) (j : nat) (vm : list nat) : list nat :=
  nodup_ids (map snd (filter (fun p => negb (memb (fst p) vm)) (nbrs_lab nt j))) [].
(* all motifs of i (final average) *)
Definition ids_at (nt : net) (i : nat) : list nat := nodup_ids (map snd (nbrs_lab nt i)) [].

Definition Hmap := nat -> nat -> Q.
Definition H0 : Hmap := fun _ _ => (1 # 2)%Q.
Definition upd (H : Hmap) (v m : nat) (x : Q) : Hmap :=
  fun v' m' => if Nat.eqb v' v && Nat.eqb m' m then x else H v' m'.

(* prods[j] *)
Definition u_of (nt : net) (H : Hmap) (vm : list nat) : nat -> Q :=
  fun j => qprod (map (H j) (others nt j vm)).

Section MP.
  (* the per-motif equation, possibly with state (the evaluator's caches) *)
  Context {S : Type} (eqn : S -> mname -> graph -> nat -> Q -> (nat -> Q) -> Q * S).

  (* calculate_H_tau(focal, label) *)
  Definition calc (nt : net) (phi : Q) (hs : Hmap * S) (focal id : nat) : Hmap * S :=
    let m := find_motif nt id in
    let r := eqn (snd hs) (focal, id) (motif_graph m) focal phi (u_of nt (fst hs) (m_verts m)) in
    (upd (fst hs) focal id (fst r), snd r).

  (* one pass over G.edges() *)
  Definition sweep (nt : net) (phi : Q) (hs : Hmap * S) : Hmap * S :=
    fold_left (fun hs e => let '(i, j, id) := e in calc nt phi (calc nt phi hs i id) j id)
              (n_sweep nt) hs.
  Fixpoint sweeps (T : nat) (nt : net) (phi : Q) (hs : Hmap * S) : Hmap * S :=
    match T with 0 => hs | Datatypes.S t => sweeps t nt phi (sweep nt phi hs) end.

  Definition outer_sum (nt : net) (H : Hmap) : Q :=
    qsum (map (fun i => qprod (map (H i) (ids_at nt i))) (n_nodes nt)).
  Definition result (nt : net) (H : Hmap) : Q :=
    (1 - outer_sum nt H / inject_Z (Z.of_nat (length (n_nodes nt))))%Q.

  (* theoretical(phi) on an object whose evaluator is in state st; _H_tau is reset *)
  Definition mp_query (nt : net) (T : nat) (st : S) (phi : Q) : Q * S :=
    let hs := sweeps T nt phi (H0, st) in (result nt (fst hs), snd hs).

  (* a history of queries on one object *)
  Fixpoint mp_history (nt : net) (T : nat) (st : S) (phis : list Q) : list Q :=
    match phis with
    | [] => []
    | phi :: rest => let r := mp_query nt T st phi in fst r :: mp_history nt T (snd r) rest
    end.
End MP.

(* the equations *)
Definition eqn_fresh (_ : unit) (_ : mname) (g : graph) (r : nat) (phi : Q) (u : nat -> Q) : Q * unit :=
  (auto_q g r phi u, tt).
Definition eqn_spec (_ : unit) (_ : mname) (g : graph) (r : nat) (phi : Q) (u : nat -> Q) : Q * unit :=
  (expectation g r phi u, tt).
Definition eqn_cached (A : alg Q) (st : caches) (name : mname) (g : graph) (r : nat) (phi : Q) (u : nat -> Q)
  : Q * caches :=
  let o := auto_step A st name g r phi u in
  (match fst o with Some x => x | None => 0%Q end, snd o).
(* the spec equation with reduced sums (what the checker computes) *)
Definition eqn_spec_r (_ : unit) (_ : mname) (g : graph) (r : nat) (phi : Q) (u : nat -> Q) : Q * unit :=
  (exact_gen alg_qr g r phi u, tt).

(* THE MODEL of MessagePassing(G, iterations=T).theoretical(phi), fresh object *)
Definition mp_model (nt : net) (T : nat) (phi : Q) : Q := fst (mp_query eqn_fresh nt T tt phi).
(* THE SPEC: the same iteration with the exact expectation as per-motif equation *)
Definition mp_spec (nt : net) (T : nat) (phi : Q) : Q := fst (mp_query eqn_spec nt T tt phi).
(* the object with its evaluator caches, queried repeatedly *)
Definition mp_object (nt : net) (T : nat) (phis : list Q) : list Q :=
  mp_history (eqn_cached alg_q) nt T caches_empty phis.

(* well-formedness the theorems need: every swept edge is an edge of its motif's graph
   (so the focal vertex is a vertex of the graph handed to the evaluator) *)
Definition sweep_okb (nt : net) : bool :=
  forallb (fun e => let '(i, j, id) := e in
                    let ns := g_nodes (motif_graph (find_motif nt id)) in
                    memb i ns && memb j ns) (n_sweep nt).

(* ---------------------------------------------------------------- *)
(* wire format *)
Definition t_motif (t : tree) : motif :=
  mk_motif (t_nat (t_nth 0 t)) (t_nats (t_nth 1 t)) (t_pairs (t_nth 2 t)).
Definition t_net (t : tree) : net :=
  mk_net (t_nats (t_nth 0 t))
         (map (fun x => (t_nat (t_nth 0 x), t_nat (t_nth 1 x), t_nat (t_nth 2 x))) (t_list (t_nth 1 t)))
         (map t_motif (t_list (t_nth 2 t))).

(* labels consistent enough for the model to speak: swept edges belong to their motif, motif
   vertex list = vertices of its edges, every motif graph well formed, at least one node *)
Definition net_okb (nt : net) : bool :=
  sweep_okb nt
  && forallb (fun m => wf_graph (motif_graph m) && same_setb (m_verts m) (g_nodes (motif_graph m))) (n_motifs nt)
  && forallb (fun e => let '(i, j, id) := e in
                       let es := m_edges (find_motif nt id) in edge_mem (i, j) es || edge_mem (j, i) es)
             (n_sweep nt)
  && negb (Nat.eqb (length (n_nodes nt)) 0).

(* c17_run: [net-nodes; sweep; motifs; T; (phi ...)] -> values of the successive queries on one
   object (evaluator caches threaded through, reduced arithmetic) *)
Definition c17_run (t : tree) : tree :=
  let nt := t_net t in
  if negb (net_okb nt) then t_err 1
  else L (map of_q (mp_history (eqn_cached alg_qr) nt (t_nat (t_nth 3 t)) caches_empty (t_qs (t_nth 4 t)))).

(* THE VERIFIED CHECKER.  input [nodes; sweep; motifs; T; ((phi value) ...)] where value is the
   exact rational of the float the implementation returned for that query (in call order).
   Accepts iff for every query
     |value - mp_spec| <= tol,  0 <= phi <= 1 -> -tol <= value <= 1 + tol,  phi = 0 /\ T >= 1 -> |value| <= tol,
   for every two queries  0 <= phi <= phi' <= 1 -> value <= value' + 2 tol,
   and every (motif, focal) equation of the network is the exact expectation (polynomial identity). *)
Definition tol : Q := (1 # 1000000000)%Q.
Definition spec_r (nt : net) (T : nat) (phi : Q) : Q := fst (mp_query eqn_spec_r nt T tt phi).
Definition query_okb (nt : net) (T : nat) (pv : Q * Q) : bool :=
  let '(phi, v) := pv in
  let s := spec_r nt T phi in
  Qle_bool (v - s) tol && Qle_bool (s - v) tol
  && (if Qle_bool 0 phi && Qle_bool phi 1 then Qle_bool (- tol) v && Qle_bool v (1 + tol) else true)
  && (if Qeq_bool phi 0 && negb (Nat.eqb T 0) then Qle_bool v tol && Qle_bool (- v) tol else true).
Definition mono_okb (pvs : list (Q * Q)) : bool :=
  forallb (fun a => forallb (fun b => if Qle_bool 0 (fst a) && Qle_bool (fst a) (fst b) && Qle_bool (fst b) 1
                                      then Qle_bool (snd a) (snd b + tol + tol) else true)
                            pvs) pvs.
Definition motifs_okb (nt : net) : bool :=
  forallb (fun e => let '(i, j, id) := e in
                    let g := motif_graph (find_motif nt id) in
                    peq (auto_expr g i) (exact_expr g i) && peq (auto_expr g j) (exact_expr g j))
          (n_sweep nt).
(* the cover precondition (motifs pairwise share at most one vertex, label vertex lists complete), seen from
   every vertex v of every swept motif: a labelled neighbour of v lies in the motif's vertex list exactly when
   the connecting edge belongs to that motif *)
Definition cover_ok_atb (nt : net) (j id : nat) : bool :=
  forallb (fun p => Bool.eqb (memb (fst p) (m_verts (find_motif nt id))) (Nat.eqb (snd p) id)) (nbrs_lab nt j).
Definition cover_okb (nt : net) : bool :=
  forallb (fun e => let '(i, j, id) := e in
                    forallb (fun v => cover_ok_atb nt v id) (g_nodes (motif_graph (find_motif nt id))))
          (n_sweep nt).
Definition c17_checkb (nt : net) (T : nat) (pvs : list (Q * Q)) : bool :=
  forallb (query_okb nt T) pvs && mono_okb pvs.
Definition t_pvs (t : tree) : list (Q * Q) := map (fun x => (t_q (t_nth 0 x), t_q (t_nth 1 x))) (t_list t).
Definition c17_check (t : tree) : tree :=
  let nt := t_net t in
  of_bool (net_okb nt && c17_checkb nt (t_nat (t_nth 3 t)) (t_pvs (t_nth 4 t))).
Definition c17_check_motifs (t : tree) : tree := of_bool (motifs_okb (t_net t) && cover_okb (t_net t)).

(* ---------------------------------------------------------------- *)
(* THE INDEPENDENT, TABLE-BASED SPECIFICATION (growth 2, audit finding C17-M2).
   "The motifs containing a vertex" is read off the MOTIF TABLE (the membership lists m_verts), never off
   adjacency / edge labels: nbrs_lab, others, ids_at, u_of are NOT used below.  The sweep list is used only for
   the ORDER of the updates.  Proofs/MsgPassT.v proves model = spec = object = this, under table_okb. *)
Local Open Scope Q_scope.
(* IDs of the table's motifs whose membership list contains v *)
Definition motifs_of (nt : net) (v : nat) : list nat :=
  map m_id (filter (fun m => memb v (m_verts m)) (n_motifs nt)).
(* u_j for the update of motif id: product over the motifs nu <> id that contain j of H(j, nu) *)
Definition u_table (nt : net) (H : Hmap) (id : nat) : nat -> Q :=
  fun j => qprod (map (H j) (filter (fun x => negb (Nat.eqb x id)) (motifs_of nt j))).
(* H(i, id) := E_{motif id, root i}[ prod over the other vertices j of i's component of u_j ] *)
Definition step_T (nt : net) (phi : Q) (H : Hmap) (i id : nat) : Hmap :=
  upd H i id (expectation (motif_graph (find_motif nt id)) i phi (u_table nt H id)).
Definition sweep_T (nt : net) (phi : Q) (H : Hmap) : Hmap :=
  fold_left (fun H e => let '(i, j, id) := e in step_T nt phi (step_T nt phi H i id) j id) (n_sweep nt) H.
Fixpoint sweeps_T (T : nat) (nt : net) (phi : Q) (H : Hmap) : Hmap :=
  match T with 0%nat => H | Datatypes.S t => sweeps_T t nt phi (sweep_T nt phi H) end.
(* 1 - (1/N) * sum over the vertices i of the product over the motifs tau containing i of H_T(i, tau) *)
Definition mp_table (nt : net) (T : nat) (phi : Q) : Q :=
  1 - (1 / inject_Z (Z.of_nat (length (n_nodes nt))))
      * qsum (map (fun i => qprod (map (sweeps_T T nt phi H0 i) (motifs_of nt i))) (n_nodes nt)).
Local Close Scope Q_scope.

(* the motif table is exactly the cover that labels the edges:
   (i) the IDs of the table are pairwise distinct (no shadowed entry);
   (ii) every edge of every table motif occurs in the network, in either orientation, labelled with that
        motif's ID (no phantom motif; every member vertex has an incident edge labelled with the motif) *)
Definition sweep_has (nt : net) (a b id : nat) : bool :=
  existsb (fun e => let '(i, j, id') := e in
                    Nat.eqb id' id && ((Nat.eqb i a && Nat.eqb j b) || (Nat.eqb i b && Nat.eqb j a)))
          (n_sweep nt).
Definition table_okb (nt : net) : bool :=
  nodupb (map m_id (n_motifs nt))
  && forallb (fun m => forallb (fun e => sweep_has nt (fst e) (snd e) (m_id m)) (m_edges m)) (n_motifs nt).
(* the cover precondition as the method states it, on the TABLE alone: two motifs with different IDs share at most
   one vertex (any two distinct vertices of the first are not both vertices of the second).  Stronger than
   cover_okb (Proofs/MsgPassT.v: net_okb + pairwise_okb -> cover_okb), which only looks at adjacent vertices. *)
Definition share_le1b (a b : list nat) : bool :=
  forallb (fun v => forallb (fun w => Nat.eqb v w || negb (memb v b && memb w b)) a) a.
Definition pairwise_okb (nt : net) : bool :=
  forallb (fun m1 => forallb (fun m2 => Nat.eqb (m_id m1) (m_id m2) || share_le1b (m_verts m1) (m_verts m2))
                             (n_motifs nt)) (n_motifs nt).
(* all preconditions of the table-based theorems, run on every case *)
Definition c17_check_table (t : tree) : tree :=
  of_bool (table_okb (t_net t) && cover_okb (t_net t) && net_okb (t_net t) && pairwise_okb (t_net t)).
