(* Removal followed by re-insertion (C20): the structure represents the same plain set again,
   with the same length, from ANY state representing a plain set. *)
From Coq Require Import List ZArith Bool Arith Lia Permutation.
From GV Require Import Lib.Tree Model.DrawSet Proofs.DrawSetP.
Import ListNotations.

Theorem remove_then_add s l e : R s l -> In e l ->
  exists s1, ds_remove s e = Some s1 /\
    R s1 (a_remove l e) /\ ds_contains s1 e = false /\ ds_len s1 + 1 = ds_len s /\
    R (ds_add s1 e) (a_add (a_remove l e) e) /\
    (forall x, In x (edges (ds_add s1 e)) <-> In x l) /\
    ds_len (ds_add s1 e) = ds_len s.
Proof.
  intros HR He.
  assert (Hes : In e (edges s)) by (destruct HR as [_ [_ H]]; apply H; exact He).
  destruct (remove_present s e (proj1 HR) Hes) as [s1 Hs1].
  exists s1. split; [exact Hs1|].
  pose proof (step_refines s l (ORemove e) HR) as [HR1 _].
  cbn [step] in HR1. rewrite Hs1 in HR1. cbn [fst a_step] in HR1.
  pose proof (step_refines s1 _ (OAdd e) HR1) as [HR2 _]. cbn [step fst a_step] in HR2.
  assert (Hmem : forall x, In x (edges (ds_add s1 e)) <-> In x l).
  { intros x. destruct HR2 as [_ [_ H2]]. rewrite H2, a_add_In, a_remove_In.
    destruct (Z.eq_dec x e) as [->|Hne]; [tauto|]. tauto. }
  assert (Hnc : ds_contains s1 e = false).
  { destruct (ds_contains s1 e) eqn:E; [|reflexivity].
    apply (contains_In s1 e (proj1 HR1)) in E. destruct HR1 as [_ [_ H1]]. apply H1 in E.
    apply a_remove_In in E. destruct E as [_ E]. contradiction. }
  assert (Hlen : ds_len (ds_add s1 e) = ds_len s).
  { unfold ds_len. pose proof (proj1 (proj1 HR)) as Hnd. pose proof (proj1 (proj1 HR2)) as Hnd2.
    pose proof (proj2 (proj2 HR)) as Hsl.
    apply Nat.le_antisymm; apply NoDup_incl_length; auto; intros x Hx.
    - apply Hsl. apply Hmem. exact Hx.
    - apply Hmem. apply Hsl. exact Hx. }
  assert (Hlen1 : ds_len s1 + 1 = ds_len s).
  { rewrite <- Hlen. unfold ds_len, ds_add. rewrite Hnc. cbn [edges]. rewrite app_length. reflexivity. }
  repeat split; try assumption; try (apply HR1); try (apply HR2); apply Hmem.
Qed.
