(* C16 growth: the exponential-formula recurrence [cross] (the checker's reference for n >= 8) COUNTS the
   connected labelled graphs: cross n k = brute n k for every n >= 1 and k >= 0.
   1. coefficient semantics of the list-polynomial operations (padd_c, pscale_c, pmul_c, ppow_c);
   2. the counting identity  C(s_n, k) = sum_kappa C(n-1, kappa) sum_i brute(kappa+1, i) C(s_{n-kappa-1}, k-i)
      (all k-edge graphs on n vertices, classified by the vertex set of the root's component) -- obtained with
      the same regrouping lemmas as the clique identity, with the indicator of |T| = k as the weight;
   3. strong induction on n. *)
From Coq Require Import List ZArith QArith Qpower Bool Arith Lia Qfield.
From GV Require Import Lib.Tree Lib.Graph16 Lib.PolyRefl16 Model.QCount Model.CliqueEq
                       Proofs.QCountP Proofs.CliqueEqP Proofs.CycleGen Proofs.QQGen Proofs.CliqueGen.
Import ListNotations.
Local Open Scope Z_scope.

(* ================================================================== 1. coefficients *)
Lemma zsum_app a b : zsum (a ++ b) = zsum a + zsum b.
Proof. unfold zsum. induction a as [|x a IH]; cbn [app fold_right]; [reflexivity|]. rewrite IH. ring. Qed.

Lemma zsum_zero {A} (f : A -> Z) l : (forall a, In a l -> f a = 0) -> zsum (map f l) = 0.
Proof.
  induction l as [|a l IH]; intros H; [reflexivity|]. cbn [map]. change (zsum (?x :: ?t)) with (x + zsum t).
  rewrite (H a) by (left; reflexivity). rewrite IH; [reflexivity|]. intros b Hb. apply H. right. exact Hb.
Qed.

Lemma zsum_ext {A} (f g : A -> Z) l : (forall a, In a l -> f a = g a) -> zsum (map f l) = zsum (map g l).
Proof. intros H. f_equal. apply map_ext_in. exact H. Qed.

Lemma nth_nil_Z k : nth k (@nil Z) 0 = 0.
Proof. destruct k; reflexivity. Qed.

Lemma nth_padd_c : forall a b k, nth k (padd_c a b) 0 = nth k a 0 + nth k b 0.
Proof.
  induction a as [|x a IH]; intros b k.
  - cbn [padd_c]. rewrite nth_nil_Z. lia.
  - destruct b as [|y b]; cbn [padd_c]; [rewrite nth_nil_Z; lia|].
    destruct k; cbn [nth]; [reflexivity | apply IH].
Qed.

Lemma nth_pscale_c c : forall a k, nth k (pscale_c c a) 0 = c * nth k a 0.
Proof.
  induction a as [|x a IH]; intros k; [cbn [pscale_c map]; rewrite nth_nil_Z; lia|].
  destruct k; cbn [pscale_c map nth]; [reflexivity | apply IH].
Qed.

Lemma nth_pmul_c : forall a b k,
  nth k (pmul_c a b) 0 = zsum (map (fun i => nth i a 0 * nth (k - i) b 0) (seq 0 (S k))).
Proof.
  induction a as [|x a IH]; intros b k.
  - cbn [pmul_c]. rewrite nth_nil_Z. symmetry. apply zsum_zero. intros i _. rewrite nth_nil_Z. lia.
  - cbn [pmul_c]. rewrite nth_padd_c, nth_pscale_c.
    change (seq 0 (S k)) with (0%nat :: seq 1 k). cbn [map]. change (zsum (?h :: ?t)) with (h + zsum t).
    cbn [nth]. rewrite Nat.sub_0_r. f_equal.
    rewrite <- seq_shift, map_map. destruct k as [|k]; [reflexivity|].
    cbn [nth]. rewrite IH. apply zsum_ext. intros i _. reflexivity.
Qed.

Lemma nth_fold_padd {A} (f : A -> list Z) l k :
  nth k (fold_right padd_c [] (map f l)) 0 = zsum (map (fun j => nth k (f j) 0) l).
Proof.
  induction l as [|a l IH]; [cbn; apply nth_nil_Z|].
  cbn [map fold_right]. rewrite nth_padd_c, IH. reflexivity.
Qed.

Lemma Cn_0 n : Cn n 0 = 1.
Proof. destruct n; reflexivity. Qed.

Lemma Cn_SS n k : Cn (S n) (S k) = Cn n k + Cn n (S k).
Proof. reflexivity. Qed.

Lemma nth_ppow_11 : forall N k, nth k (ppow_c [1; 1] N) 0 = Cn N k.
Proof.
  induction N as [|N IH]; intros k.
  - cbn [ppow_c]. destruct k as [|[|k]]; reflexivity.
  - cbn [ppow_c]. rewrite nth_pmul_c. destruct k as [|[|k]].
    + cbn [seq map zsum fold_right nth Nat.sub]. rewrite IH, !Cn_0. ring.
    + cbn [seq map zsum fold_right nth Nat.sub]. rewrite !IH, Cn_SS. ring.
    + change (seq 0 (S (S (S k)))) with (0%nat :: 1%nat :: seq 2 (S k)). cbn [map].
      change (zsum (?h :: ?h' :: ?t)) with (h + (h' + zsum t)).
      rewrite zsum_zero.
      * cbn [nth Nat.sub]. rewrite !IH, Cn_SS. ring.
      * intros i Hi. apply in_seq in Hi. destruct i as [|[|i]]; try lia.
        replace (nth (S (S i)) [1; 1] 0) with 0 by (destruct i; reflexivity). lia.
Qed.

Lemma nth_Gpoly m k : nth k (Gpoly m) 0 = Cn (length (all_edges m)) k.
Proof.
  unfold Gpoly. rewrite nth_ppow_11. f_equal. rewrite <- all_edges_length. apply Nat2Z.id.
Qed.

(* ---- the rows of the recurrence *)
Definition crow (n : nat) : list Z := nth (n - 1) (cross_rows n) [].

Lemma crow_S N :
  crow (S N) =
  padd_c (Gpoly (S N))
    (pscale_c (-1)
       (fold_right padd_c []
          (map (fun j => pscale_c (Cn N (j - 1)) (pmul_c (crow j) (Gpoly (S N - j)))) (seq 1 N)))).
Proof.
  unfold crow at 1. cbn [cross_rows]. cbv zeta.
  replace (S N - 1)%nat with N by lia.
  rewrite app_nth2 by (rewrite cross_rows_length; lia). rewrite cross_rows_length, Nat.sub_diag. cbn [nth].
  f_equal. f_equal. f_equal. apply map_ext_in. intros j Hj. apply in_seq in Hj.
  replace (S N - 1)%nat with N by lia. f_equal. f_equal.
  unfold crow. apply cross_rows_prefix. lia.
Qed.

Lemma cross_crow n k : (1 <= n)%nat -> 0 <= k -> cross n k = nth (Z.to_nat k) (crow n) 0.
Proof. intros Hn Hk. unfold cross, crow. destruct (Z.ltb_spec k 0); [lia | reflexivity]. Qed.

(* coefficient k of row n: the recurrence in Cauchy-product form *)
Lemma crow_coeff N k :
  nth k (crow (S N)) 0 =
  Cn (length (all_edges (S N))) k
  - zsum (map (fun j => Cn N (j - 1) *
                        zsum (map (fun i => nth i (crow j) 0 * Cn (length (all_edges (S N - j))) (k - i))
                                  (seq 0 (S k))))
              (seq 1 N)).
Proof.
  rewrite crow_S, nth_padd_c, nth_pscale_c, nth_Gpoly, nth_fold_padd.
  assert (E : forall a b, a + -1 * b = a - b) by (intros; lia). rewrite E. f_equal.
  apply zsum_ext. intros j _. rewrite nth_pscale_c, nth_pmul_c. f_equal.
  apply zsum_ext. intros i _. rewrite nth_Gpoly. reflexivity.
Qed.

(* ================================================================== 2. the counting identity *)
Local Open Scope Q_scope.

Lemma combs_length {A} : forall (l : list A) k, Z.of_nat (length (combs k l)) = Cn (length l) k.
Proof.
  induction l as [|x t IH]; intros k.
  - destruct k; reflexivity.
  - destruct k as [|k]; [cbn [combs length]; rewrite Cn_0; reflexivity|].
    cbn [combs length]. rewrite app_length, map_length, Nat2Z.inj_add, !IH. reflexivity.
Qed.

Lemma qsum_const_count {A} (l : list A) : qsum (map (fun _ => 1) l) == inject_Z (Z.of_nat (length l)).
Proof.
  induction l as [|a l IH]; [reflexivity|]. cbn [map length]. change (qsum (?x :: ?t)) with (x + qsum t).
  rewrite IH, inject_S. ring.
Qed.

Lemma qsum_pick_seq (g : nat -> Q) c N :
  qsum (map (fun p => bq (Nat.eqb p c) * g p) (seq 0 N)) == if (c <? N)%nat then g c else 0.
Proof.
  induction N as [|N IH]; [reflexivity|].
  rewrite seq_S, map_app, qsum_app, IH. cbn [Nat.add map]. change (qsum [?x]) with (x + 0).
  destruct (Nat.ltb_spec c N), (Nat.ltb_spec c (S N)), (Nat.eqb_spec N c); try lia; unfold bq; subst; ring.
Qed.

Lemma qsum_seq_extend (h : nat -> Q) N M :
  (forall i, (N <= i)%nat -> h i == 0) -> qsum (map h (seq 0 (N + M))) == qsum (map h (seq 0 N)).
Proof.
  intros H. rewrite seq_app, map_app, qsum_app. rewrite (qsum_zero h (seq (0 + N) M)); [ring|].
  intros i Hi. apply in_seq in Hi. apply H. lia.
Qed.

(* sublists of size k, as a weighted sum over all sublists *)
Lemma sized_sum {A} (g : list A -> Q) l k :
  qsum (map (fun T => bq (Nat.eqb (length T) k) * g T) (subseqs l)) == qsum (map g (combs k l)).
Proof.
  rewrite subseqs_by_size.
  rewrite (qsum_map_ext _ (fun k' => bq (Nat.eqb k' k) * qsum (map g (combs k' l)))).
  - rewrite qsum_pick_seq. destruct (Nat.ltb_spec k (S (length l))); [reflexivity|].
    rewrite combs_too_many by lia. reflexivity.
  - intros k' _. rewrite <- qsum_scale. apply qsum_map_ext. intros T HT. apply combs_spec in HT.
    rewrite (proj2 HT). reflexivity.
Qed.

(* sublists keeping none of the b-elements = sublists of the filtered list *)
Lemma avoid_sum {A} (b : A -> bool) : forall l (h : nat -> Q),
  qsum (map (fun T => h (length T) * bq (nilb (filter b T))) (subseqs l)) ==
  qsum (map (fun T => h (length T)) (subseqs (filter (fun a => negb (b a)) l))).
Proof.
  induction l as [|x t IH]; intros h.
  - cbn. unfold bq. ring.
  - cbn [subseqs filter]. rewrite map_app, qsum_app, map_map. cbn [length filter].
    destruct (b x); cbn [negb].
    + rewrite qsum_zero by (intros; unfold bq, nilb; ring). rewrite (IH h). ring.
    + rewrite (IH (fun a => h (S a))), (IH h). cbn [subseqs]. rewrite map_app, qsum_app, map_map. reflexivity.
Qed.

(* Cauchy product from the indicator form *)
Lemma conv_sum (f g : nat -> Q) A B k :
  (forall i, (A < i)%nat -> f i == 0) -> (forall p, (B < p)%nat -> g p == 0) ->
  qsum (map (fun i => f i * qsum (map (fun p => bq (Nat.eqb (i + p) k) * g p) (seq 0 (S B)))) (seq 0 (S A))) ==
  qsum (map (fun i => f i * g (k - i)%nat) (seq 0 (S k))).
Proof.
  intros Hf Hg.
  set (h := fun i => f i * (if (i <=? k)%nat then g (k - i)%nat else 0)).
  rewrite (qsum_map_ext _ h).
  2:{ intros i _. unfold h. apply Qmult_comp; [reflexivity|].
      destruct (Nat.leb_spec i k).
      - rewrite (qsum_map_ext _ (fun p => bq (Nat.eqb p (k - i)) * g p)).
        + rewrite qsum_pick_seq. destruct (Nat.ltb_spec (k - i) (S B)); [reflexivity|].
          rewrite Hg by lia. reflexivity.
        + intros p _. replace (Nat.eqb (i + p) k) with (Nat.eqb p (k - i)); [reflexivity|].
          destruct (Nat.eqb_spec p (k - i)), (Nat.eqb_spec (i + p) k); try reflexivity; lia.
      - apply qsum_zero. intros p _. destruct (Nat.eqb_spec (i + p) k); [lia|]. unfold bq. ring. }
  rewrite <- (qsum_seq_extend h (S A) (S k)).
  2:{ intros i Hi. unfold h. rewrite Hf by lia. ring. }
  rewrite Nat.add_comm, (qsum_seq_extend h (S k) (S A)).
  2:{ intros i Hi. unfold h. destruct (Nat.leb_spec i k); [lia | ring]. }
  apply qsum_map_ext. intros i Hi. apply in_seq in Hi. unfold h.
  destruct (Nat.leb_spec i k); [reflexivity | lia].
Qed.

(* ---- number of k-edge graphs on tau vertices whose root component is C' *)
Section CompCount.
Variable tau : nat.
Hypothesis Htau : (1 <= tau)%nat.
Variable C : list nat.
Hypothesis HC : subl C (seq 1 (tau - 1)).
Variable k : nat.

Let E := all_edges tau.
Let K := length (Cr C).
Let Ein := filter (ein C) E.
Let Er := filter (fun e => negb (ein C e)) E.
Let Eo := filter (fun e => negb (ebd C e)) Er.

Lemma Eo_length : length Eo = length (all_edges (tau - K)).
Proof.
  pose proof (filter_partition_length (ebd C) Er) as P1. fold Eo in P1.
  unfold Er in P1 at 1. rewrite (ebd_rest C E) in P1. unfold E in P1 at 1.
  rewrite (boundary_count tau Htau C HC) in P1.
  pose proof (filter_partition_length (ein C) E) as P2. fold Ein in P2. fold Er in P2.
  pose proof (Ein_length tau Htau C HC) as P3. fold E in P3. fold Ein in P3. fold K in P3.
  pose proof (all_edges_len2 tau) as Q1. fold E in Q1.
  pose proof (all_edges_len2 K) as Q2. pose proof (all_edges_len2 (tau - K)) as Q3.
  assert (HK : (K <= tau)%nat).
  { unfold K. pose proof (subl_length _ _ (Cr_subl tau Htau C HC)) as Hl. rewrite seq_length in Hl. exact Hl. }
  change (S (length C)) with K in P1.
  set (d := (tau - K)%nat) in *. assert (Ht : tau = (K + d)%nat) by lia.
  generalize dependent (length Eo). generalize dependent (length Er). generalize dependent (length Ein).
  generalize dependent (length E). generalize dependent (length (all_edges K)).
  generalize dependent (length (all_edges d)). clearbody d. clear -Ht. intros. subst tau. nia.
Qed.

Lemma comp_count :
  qsum (map (fun T => bq (Nat.eqb (length T) k) * bq (leqb C (comp tau T))) (subseqs E)) ==
  qsum (map (fun i => inject_Z (brute K i) * inject_Z (Cn (length (all_edges (tau - K))) (k - i)))
            (seq 0 (S k))).
Proof.
  set (F := fun S1 S2 : list edge =>
              bq (connectedb (Cr C) S1) * (bq (Nat.eqb (length S1 + length S2) k) * bq (nilb (filter (ebd C) S2)))).
  rewrite (qsum_map_ext _ (fun T => F (filter (ein C) T) (filter (fun e => negb (ein C e)) T))).
  2:{ intros T HT. apply subseqs_spec in HT.
      assert (HTin : edges_in (seq 0 tau) T).
      { eapply edges_in_incl; [apply subl_incl, HT | apply all_edges_in]. }
      rewrite (comp_indicator tau Htau C HC T HTin). unfold F. rewrite ebd_rest, filter_partition_length.
      destruct (nilb (filter (ebd C) T)), (connectedb (Cr C) (filter (ein C) T)); unfold bq; cbn [andb]; ring. }
  rewrite split2. fold Ein. fold Er. unfold F.
  (* inner sum over the edges not inside C' *)
  set (g := fun p => inject_Z (Cn (length Eo) p)).
  rewrite (qsum_map_ext _ (fun S1 => bq (connectedb (Cr C) S1) *
             qsum (map (fun p => bq (Nat.eqb (length S1 + p) k) * g p) (seq 0 (S (length Eo)))))).
  2:{ intros S1 _. rewrite qsum_scale. apply Qmult_comp; [reflexivity|].
      rewrite (avoid_sum (ebd C) Er (fun p => bq (Nat.eqb (length S1 + p) k))). fold Eo.
      rewrite subseqs_by_size. apply qsum_map_ext. intros p _.
      rewrite (qsum_map_ext _ (fun _ => bq (Nat.eqb (length S1 + p) k) * 1)).
      - rewrite qsum_scale, qsum_const_count, combs_length. reflexivity.
      - intros S2 HS2. apply combs_spec in HS2. rewrite (proj2 HS2). ring. }
  (* outer sum, by the number of edges inside C' *)
  rewrite subseqs_by_size.
  set (f := fun i => inject_Z (brute K i)).
  rewrite (qsum_map_ext _ (fun i => f i *
             qsum (map (fun p => bq (Nat.eqb (i + p) k) * g p) (seq 0 (S (length Eo)))))).
  2:{ intros i _. unfold f, K. rewrite <- (count_in tau Htau C HC i). fold E. fold Ein.
      rewrite <- qsum_count, <- qsum_scale_r. apply qsum_map_ext. intros S1 HS1.
      apply combs_spec in HS1. rewrite (proj2 HS1). reflexivity. }
  rewrite (conv_sum f g (length Ein) (length Eo) k).
  - unfold f, g. rewrite Eo_length. reflexivity.
  - intros i Hi. unfold f, brute. rewrite combs_too_many; [reflexivity|].
    unfold Ein, E in Hi. rewrite (Ein_length tau Htau C HC) in Hi. exact Hi.
  - intros p Hp. unfold g. rewrite Cn_gt by exact Hp. reflexivity.
Qed.

End CompCount.

(* THE COUNTING IDENTITY: all k-edge graphs on n vertices, by the vertex set of the root's component *)
Theorem count_identity n k : (1 <= n)%nat ->
  inject_Z (Cn (length (all_edges n)) k) ==
  qsum (map (fun kappa => inject_Z (Cn (n - 1) kappa) *
                          qsum (map (fun i => inject_Z (brute (S kappa) i) *
                                              inject_Z (Cn (length (all_edges (n - S kappa))) (k - i)))
                                    (seq 0 (S k))))
            (seq 0 n)).
Proof.
  intros Hn. set (E := all_edges n). set (V1 := seq 1 (n - 1)).
  rewrite <- combs_length, <- qsum_const_count, <- (sized_sum (fun _ => 1) E k).
  (* pick the component, swap *)
  rewrite (qsum_map_ext _ (fun T => qsum (map (fun C => bq (Nat.eqb (length T) k) * bq (leqb C (comp n T))) (subseqs V1)))).
  2:{ intros T _. rewrite qsum_scale. unfold comp. fold V1.
      rewrite (qsum_map_ext _ (fun C => bq (leqb C (filter (fun v => same_comp (labels (seq 0 n) T) 0 v) V1)) * 1))
        by (intros; ring).
      rewrite (pick_filter _ V1 (fun _ => 1) (seq_NoDup _ _)). reflexivity. }
  rewrite qsum_swap. cbv beta.
  set (c := fun kappa => qsum (map (fun i => inject_Z (brute (S kappa) i) *
                                           inject_Z (Cn (length (all_edges (n - S kappa))) (k - i))) (seq 0 (S k)))).
  rewrite (qsum_map_ext _ (fun C => c (length C))).
  2:{ intros C HCin. apply subseqs_spec in HCin. unfold E. rewrite (comp_count n Hn C HCin k). reflexivity. }
  rewrite subseqs_by_size. unfold V1 at 2. rewrite seq_length. replace (S (n - 1)) with n by lia.
  apply qsum_map_ext. intros kappa _.
  rewrite (qsum_map_ext _ (fun _ => c kappa * 1)).
  - rewrite qsum_scale, qsum_const_count, combs_length. unfold V1. rewrite seq_length. fold (c kappa). ring.
  - intros C HCin. apply combs_spec in HCin. rewrite (proj2 HCin). ring.
Qed.

(* ================================================================== 3. cross = brute *)
Lemma inject_zsum {A} (f : A -> Z) l : inject_Z (zsum (map f l)) == qsum (map (fun a => inject_Z (f a)) l).
Proof.
  induction l as [|a l IH]; [reflexivity|]. cbn [map]. change (zsum (?x :: ?t)) with (x + zsum t)%Z.
  change (qsum (?x :: ?t)) with (x + qsum t). rewrite inject_Z_plus, IH. reflexivity.
Qed.

Lemma Cn_diag n : Cn n n = 1%Z.
Proof. induction n as [|n IH]; [reflexivity|]. rewrite Cn_SS, IH, Cn_gt by lia. reflexivity. Qed.

(* the counting identity over Z *)
Lemma count_identity_Z n k : (1 <= n)%nat ->
  Cn (length (all_edges n)) k =
  zsum (map (fun kappa => Cn (n - 1) kappa *
                          zsum (map (fun i => brute (S kappa) i * Cn (length (all_edges (n - S kappa))) (k - i))
                                    (seq 0 (S k))))%Z
            (seq 0 n)).
Proof.
  intros Hn. apply inject_Z_injective. rewrite (count_identity n k Hn), inject_zsum.
  apply qsum_map_ext. intros kappa _. rewrite inject_Z_mult, inject_zsum.
  apply Qmult_comp; [reflexivity|]. apply qsum_map_ext. intros i _. rewrite inject_Z_mult. reflexivity.
Qed.

Local Open Scope Z_scope.

Theorem crow_brute : forall n, (1 <= n)%nat -> forall k, nth k (crow n) 0 = brute n k.
Proof.
  induction n as [n IHn] using lt_wf_ind. intros Hn k.
  destruct n as [|N]; [lia|].
  rewrite crow_coeff.
  pose proof (count_identity_Z (S N) k Hn) as HC.
  replace (S N - 1)%nat with N in HC by lia.
  rewrite (seq_S N 0), map_app, zsum_app in HC. cbn [Nat.add map] in HC.
  change (zsum [?x]) with (x + 0) in HC.
  (* the last class: the component is everything *)
  assert (Hlast : zsum (map (fun i => brute (S N) i * Cn (length (all_edges (S N - S N))) (k - i)) (seq 0 (S k)))
                  = brute (S N) k).
  { rewrite Nat.sub_diag. change (length (all_edges 0)) with 0%nat.
    rewrite (seq_S k 0), map_app, zsum_app. cbn [Nat.add map]. change (zsum [?x]) with (x + 0).
    rewrite Nat.sub_diag. change (Cn 0 0) with 1.
    rewrite zsum_zero; [ring|]. intros i Hi. apply in_seq in Hi.
    replace (k - i)%nat with (S (k - i - 1)) by lia. cbn [Cn]. ring. }
  rewrite Hlast, Cn_diag in HC.
  (* the other classes are the recurrence's correction terms *)
  assert (Hsum : zsum (map (fun j => Cn N (j - 1) *
                        zsum (map (fun i => nth i (crow j) 0 * Cn (length (all_edges (S N - j))) (k - i))
                                  (seq 0 (S k)))) (seq 1 N)) =
                 zsum (map (fun kappa => Cn N kappa *
                        zsum (map (fun i => brute (S kappa) i * Cn (length (all_edges (S N - S kappa))) (k - i))
                                  (seq 0 (S k)))) (seq 0 N))).
  { rewrite <- seq_shift, map_map. apply zsum_ext. intros kappa Hk. apply in_seq in Hk.
    replace (S kappa - 1)%nat with kappa by lia. f_equal.
    apply zsum_ext. intros i _. rewrite (IHn (S kappa)) by lia. reflexivity. }
  rewrite Hsum. lia.
Qed.

(* GENERAL: the exponential-formula recurrence the checker uses for n >= 8 is the number of connected labelled
   graphs with n vertices and k edges, for every n >= 1 and every k >= 0 *)
Theorem cross_eq_brute : forall n k, (1 <= n)%nat -> 0 <= k -> cross n k = brute n (Z.to_nat k).
Proof. intros n k Hn Hk. rewrite cross_crow by assumption. apply crow_brute, Hn. Qed.

(* consequences of the bounded comparison Q = cross (reflection) *)
Theorem Q_count_upto_12 : forall n k, (1 <= n <= 12)%nat -> 0 <= k <= tri (Z.of_nat n) ->
  Qv n k = brute n (Z.to_nat k).
Proof. intros n k Hn Hk. rewrite (Q_cross_upto_12 n k Hn Hk). apply cross_eq_brute; lia. Qed.

Theorem Q_count_from_cross_grid N : cross_grid N = true ->
  forall n k, (1 <= n <= N)%nat -> 0 <= k <= tri (Z.of_nat n) -> Qv n k = brute n (Z.to_nat k).
Proof.
  intros H n k Hn Hk. rewrite (cross_grid_lift N H n k Hn Hk). apply cross_eq_brute; lia.
Qed.

(* the clique identity for tau <= 12, heterogeneous H, via the regrouping theorem *)
Theorem clique_identity_upto_12 : forall tau, (2 <= tau <= 12)%nat ->
  forall (phi : Q) (Hs : list Q), length Hs = (tau - 1)%nat ->
    (clique_val tau phi Hs == exact_val (seq 0 tau) (all_edges tau) 0 phi (fun v => nth (v - 1) Hs 0%Q))%Q.
Proof. exact (clique_identity_from_Q_count 12 Q_count_upto_12). Qed.

(* the checker's verdict on a count is a statement about the true count for EVERY n (not only n <= bmax) *)
Theorem check_count_sound_all bmax n k r : (1 <= n)%nat -> 0 <= k ->
  check_count bmax n k r = true -> r = brute n (Z.to_nat k).
Proof.
  intros Hn Hk H. unfold check_count, count_spec in H. apply Z.eqb_eq in H.
  destruct (Z.ltb_spec k 0); [lia|].
  destruct (n <=? Nat.min bmax 7)%nat; [exact H | rewrite H; apply cross_eq_brute; assumption].
Qed.

Theorem check_row_sound_all bmax n rs : (1 <= n)%nat ->
  check_row bmax n rs = true ->
  forall k, 0 <= k <= tri (Z.of_nat n) -> nth (Z.to_nat k) rs 0 = brute n (Z.to_nat k).
Proof.
  intros Hn H k Hk. rewrite (check_row_sound bmax n rs H k Hk). unfold count_spec.
  destruct (Z.ltb_spec k 0); [lia|].
  destruct (n <=? Nat.min bmax 7)%nat; [reflexivity | apply cross_eq_brute; lia].
Qed.
