(* C09, the unbounded theorem: for EVERY loop-free graph, every m0 >= 2 and every tie-break
   schedule the model of get_EECC ends normally with an empty working graph and an exact cover.
   Invariant of the greedy loop: the cover members are cliques of the input within the bound, the
   working graph is a subgraph of the input, and every input edge is either still in the working
   graph and in no member, or gone (in both orientations) and in exactly one member; the candidate
   list consists of cliques of the CURRENT working graph that together contain every remaining edge. *)
From Coq Require Import List Arith Bool Lia Sorted QArith.
From GV Require Import Lib.Tree Lib.GraphE Model.Eecc Proofs.EeccP.
Import ListNotations.
Local Open Scope nat_scope.

Definition loopless (g : graph) : Prop := forall e, In e g -> fst e <> snd e.

(* ------------------------------------------------------------------ subsequences, k-subsets *)
Lemma subseq_trans : forall {A} (b c : list A), subseq b c -> forall a, subseq a b -> subseq a c.
Proof.
  intros A b c H. induction H as [l | x b l H IH | x b l H IH]; intros a Ha.
  - inversion Ha; subst. constructor.
  - inversion Ha; subst.
    + constructor.
    + apply sub_take. apply IH. assumption.
    + apply sub_skip. apply IH. assumption.
  - apply sub_skip. apply IH. exact Ha.
Qed.

Lemma subseq_length : forall {A} (a l : list A), subseq a l -> length a <= length l.
Proof. intros A a l H. induction H; cbn [length]; lia. Qed.

Lemma combs_sound : forall l k s, In s (combs l k) -> subseq s l /\ length s = k.
Proof.
  induction l as [| x r IH]; intros k s H; destruct k as [| k']; cbn [combs] in H.
  - destruct H as [H | []]. subst. split; [constructor | reflexivity].
  - destruct H.
  - destruct H as [H | []]. subst. split; [constructor | reflexivity].
  - apply in_app_or in H. destruct H as [H | H].
    + apply in_map_iff in H. destruct H as [s' [E Hs']]. subst. destruct (IH _ _ Hs') as [H1 H2].
      split; [constructor; exact H1 | cbn [length]; lia].
    + destruct (IH _ _ H) as [H1 H2]. split; [constructor; exact H1 | exact H2].
Qed.

Lemma combs_complete : forall l s, subseq s l -> forall k, length s = k -> In s (combs l k).
Proof.
  intros l s H. induction H as [l | x a l H IH | x a l H IH]; intros k Hk.
  - cbn [length] in Hk. subst k. destruct l; cbn [combs]; left; reflexivity.
  - cbn [length] in Hk. subst k. cbn [combs]. apply in_or_app. left. apply in_map. apply IH. reflexivity.
  - destruct k as [| k'].
    + destruct a; [| discriminate]. cbn [combs]. left. reflexivity.
    + cbn [combs]. apply in_or_app. right. apply IH. exact Hk.
Qed.

Lemma firstn_subseq : forall {A} k (l : list A), subseq (firstn k l) l.
Proof.
  intros A. induction k as [| k IH]; intros l; [constructor |].
  destruct l; cbn [firstn]; constructor. apply IH.
Qed.

Lemma subseq_extend : forall {A} (r l : list A), subseq r l -> forall k, length r <= k <= length l ->
  exists s, subseq r s /\ subseq s l /\ length s = k.
Proof.
  intros A r l H. induction H as [l | x a l H IH | x a l H IH]; intros k Hk; cbn [length] in Hk.
  - exists (firstn k l). split; [constructor |]. split; [apply firstn_subseq | apply firstn_length_le; lia].
  - destruct k as [| k']; [lia |]. destruct (IH k') as [s [H1 [H2 H3]]]; [lia |].
    exists (x :: s). split; [constructor; exact H1 |]. split; [constructor; exact H2 | cbn [length]; lia].
  - destruct (Nat.le_gt_cases k (length l)) as [Hle | Hgt].
    + destruct (IH k) as [s [H1 [H2 H3]]]; [lia |]. exists s. split; [exact H1 |]. split; [constructor; exact H2 | exact H3].
    + exists (x :: l). split; [constructor; exact H |]. split; [apply subseq_refl | cbn [length]; lia].
Qed.

Lemma In_subseq1 : forall {A} (x : A) l, In x l -> subseq [x] l.
Proof.
  intros A x. induction l as [| y l IH]; intros H; [destruct H |].
  destruct H as [H | H]; [subst; constructor; constructor | constructor; apply IH; exact H].
Qed.

Lemma pair_subseq : forall (l : list nat) u v, In u l -> In v l -> u <> v ->
  exists r, subseq r l /\ In u r /\ In v r /\ length r = 2.
Proof.
  induction l as [| x l IH]; intros u v Hu Hv Hne; [destruct Hu |].
  destruct Hu as [Hu | Hu]; destruct Hv as [Hv | Hv]; subst.
  - contradiction.
  - exists [u; v]. split; [constructor; apply In_subseq1; exact Hv |]. cbn. auto.
  - exists [v; u]. split; [constructor; apply In_subseq1; exact Hu |]. cbn. auto.
  - destruct (IH u v Hu Hv Hne) as [r [H1 H2]]. exists r. split; [constructor; exact H1 | exact H2].
Qed.

(* ------------------------------------------------------------------ sort_cl *)
Lemma insert_lex_In : forall c l x, In x (insert_lex c l) <-> x = c \/ In x l.
Proof.
  intros c. induction l as [| d r IH]; intros x; cbn [insert_lex].
  - cbn. intuition.
  - destruct (lex_ltb c d); cbn [In]; [intuition |]. rewrite IH. intuition.
Qed.

Lemma insert_lex_NoDup : forall c l, ~ In c l -> NoDup l -> NoDup (insert_lex c l).
Proof.
  intros c. induction l as [| d r IH]; intros Hc Hnd; cbn [insert_lex].
  - constructor; [intros [] | constructor].
  - destruct (lex_ltb c d); [constructor; assumption |].
    inversion Hnd as [| ? ? Hd Hr]; subst. constructor.
    + intros Hin. apply insert_lex_In in Hin. destruct Hin as [Hin | Hin]; [| contradiction].
      apply Hc. left. exact Hin.
    + apply IH; [| exact Hr]. intros Hin. apply Hc. right. exact Hin.
Qed.

Lemma existsb_list_eqb : forall c l, existsb (list_eqb c) l = true <-> In c l.
Proof.
  intros c l. rewrite existsb_exists. split.
  - intros [x [Hx E]]. apply list_eqb_spec in E. subst. exact Hx.
  - intros H. exists c. split; [exact H | apply list_eqb_spec; reflexivity].
Qed.

Lemma insert_cl_In : forall c l x, In x (insert_cl c l) <-> x = c \/ In x l.
Proof.
  intros c l x. unfold insert_cl. destruct (existsb (list_eqb c) l) eqn:E.
  - apply existsb_list_eqb in E. split; [auto |]. intros [H | H]; [subst; exact E | exact H].
  - apply insert_lex_In.
Qed.

Lemma insert_cl_NoDup : forall c l, NoDup l -> NoDup (insert_cl c l).
Proof.
  intros c l H. unfold insert_cl. destruct (existsb (list_eqb c) l) eqn:E; [exact H |].
  apply insert_lex_NoDup; [| exact H]. intros Hin. apply existsb_list_eqb in Hin. rewrite Hin in E. discriminate.
Qed.

Lemma sort_cl_In : forall l x, In x (sort_cl l) <-> In x l.
Proof.
  induction l as [| c l IH]; intros x; cbn [sort_cl fold_right]; [reflexivity |].
  fold (sort_cl l). rewrite insert_cl_In, IH. cbn [In]. intuition.
Qed.

Lemma sort_cl_NoDup : forall l, NoDup (sort_cl l).
Proof.
  induction l as [| c l IH]; cbn [sort_cl fold_right]; [constructor |]. apply insert_cl_NoDup. exact IH.
Qed.

(* ------------------------------------------------------------------ the clique list *)
Lemma limited_In : forall g m0 c, In c (limited g m0) <->
  exists K, In K (max_cliques g) /\ ((m0 < length K /\ In c (combs K m0)) \/ (length K <= m0 /\ c = K)).
Proof.
  intros g m0 c. unfold limited. rewrite sort_cl_In, in_flat_map. split.
  - intros [K [HK Hc]]. exists K. split; [exact HK |]. destruct (Nat.ltb_spec m0 (length K)) as [Hl | Hl].
    + left. split; assumption.
    + right. destruct Hc as [Hc | []]. split; [exact Hl | symmetry; exact Hc].
  - intros [K [HK [[Hl Hc] | [Hl Hc]]]]; exists K; (split; [exact HK |]).
    + apply Nat.ltb_lt in Hl. rewrite Hl. exact Hc.
    + apply Nat.ltb_ge in Hl. rewrite Hl. left. symmetry. exact Hc.
Qed.

Lemma adj_edge : forall g a b, adj g a b <-> exists e, In e g /\ (e = (a, b) \/ e = (b, a)).
Proof.
  intros g a b. unfold adj. split.
  - intros [H | H]; [exists (a, b) | exists (b, a)]; auto.
  - intros [e [He [E | E]]]; subst; auto.
Qed.

Lemma edge_adj : forall g e, In e g -> adj g (fst e) (snd e).
Proof. intros g [a b] H. left. exact H. Qed.

Lemma max_clique_len2 : forall g K, loopless g -> max_clique g K -> 2 <= length K.
Proof.
  intros g K Hl [Hne [[Hnd Hp] [Hv Hmx]]].
  destruct K as [| k [| k2 K']]; [contradiction | | cbn [length]; lia].
  exfalso. destruct (Hv k (or_introl eq_refl)) as [e [He Hk]].
  assert (Hadj : exists w, w <> k /\ adj g w k).
  { pose proof (Hl e He) as Hne'. destruct e as [a b]. cbn [fst snd] in *. destruct Hk as [Hk | Hk]; subst.
    - exists b. split; [intros E; apply Hne'; symmetry; exact E | right; exact He].
    - exists a. split; [exact Hne' | left; exact He]. }
  destruct Hadj as [w [Hwk Ha]].
  destruct (Hmx w) as [u [Hu Hna]].
  - apply (adj_vertex g w k Ha).
  - intros [H | []]. apply Hwk. symmetry. exact H.
  - destruct Hu as [Hu | []]. subst. contradiction.
Qed.

Lemma sub_clique : forall g K c, is_clique g K -> subseq c K -> is_clique g c.
Proof.
  intros g K c [Hnd Hp] Hs. split; [eapply subseq_NoDup; eassumption |].
  intros u v Hu Hv Hne. apply Hp; try assumption; eapply subseq_In; eassumption.
Qed.

Lemma limited_sound : forall g m0 c, loopless g -> 2 <= m0 -> In c (limited g m0) ->
  is_clique g c /\ 2 <= length c <= m0 /\ subseq c (verts g).
Proof.
  intros g m0 c Hl Hm Hc. apply limited_In in Hc. destruct Hc as [K [HK Hc]].
  destruct (max_cliques_sound g K HK) as [HmK HsK]. pose proof HmK as [_ [HcK _]].
  destruct Hc as [[Hlen Hc] | [Hlen Hc]].
  - apply combs_sound in Hc. destruct Hc as [Hs Hn].
    split; [eapply sub_clique; eassumption |]. split; [lia |]. eapply subseq_trans; eassumption.
  - subst c. split; [exact HcK |]. split; [| exact HsK]. pose proof (max_clique_len2 g K Hl HmK). lia.
Qed.

Lemma argmax_length : forall (l : list clique), l <> [] -> exists x, In x l /\ forall y, In y l -> length y <= length x.
Proof.
  induction l as [| c r IH]; intros Hne; [contradiction |].
  destruct r as [| c' r'].
  - exists c. split; [left; reflexivity |]. intros y [Hy | []]. subst. lia.
  - destruct IH as [x [Hx Hmax]]; [discriminate |].
    destruct (Nat.le_gt_cases (length c) (length x)) as [Hle | Hgt].
    + exists x. split; [right; exact Hx |]. intros y [Hy | Hy]; [subst; exact Hle | apply Hmax; exact Hy].
    + exists c. split; [left; reflexivity |]. intros y [Hy | Hy]; [subst; lia |]. specialize (Hmax y Hy). lia.
Qed.

Lemma forallb_false_ex : forall {A} (f : A -> bool) l, forallb f l = false -> exists x, In x l /\ f x = false.
Proof.
  intros A f. induction l as [| x r IH]; cbn [forallb]; intros H; [discriminate |].
  destruct (f x) eqn:Fx.
  - cbn in H. destruct (IH H) as [y [Hy Fy]]. exists y. split; [right; exact Hy | exact Fy].
  - exists x. split; [left; reflexivity | exact Fx].
Qed.

(* every edge lies in a maximal clique *)
Lemma extend_to_max : forall g u v, adj g u v -> u <> v ->
  exists K, In K (max_cliques g) /\ In u K /\ In v K.
Proof.
  intros g u v Ha Hne.
  pose (A := cliques_of g (verts g)).
  pose (B := filter (fun c => memb u c && memb v c) A).
  assert (HndV : NoDup (verts g)) by (apply asc_NoDup; apply verts_asc).
  destruct (adj_vertex g u v Ha) as [Hvu Hvv].
  assert (HB : B <> []).
  { assert (Hin : In (filter (fun x => memb x [u; v]) (verts g)) B).
    { unfold B. apply filter_In. split.
      - apply cliques_of_complete; [exact HndV |]. intros a b Ha' Hb' Hab.
        destruct Ha' as [Ha' | [Ha' | []]]; destruct Hb' as [Hb' | [Hb' | []]]; subst; try contradiction;
          [exact Ha | apply adj_sym; exact Ha].
      - apply andb_true_iff. split; apply memb_In; apply filter_In.
        + split; [apply verts_spec; exact Hvu | apply memb_In; left; reflexivity].
        + split; [apply verts_spec; exact Hvv | apply memb_In; right; left; reflexivity]. }
    intros E. rewrite E in Hin. destruct Hin. }
  destruct (argmax_length B HB) as [K [HK Hmax]].
  unfold B in HK. apply filter_In in HK. destruct HK as [HKA HKuv].
  apply andb_true_iff in HKuv. destruct HKuv as [HuK HvK]. apply memb_In in HuK. apply memb_In in HvK.
  destruct (cliques_of_sound g (verts g) K HKA) as [HsK HpK].
  assert (HndK : NoDup K) by (eapply subseq_NoDup; eassumption).
  exists K. split; [| split; assumption].
  unfold max_cliques. apply filter_In. split; [exact HKA |]. apply andb_true_iff. split.
  - destruct K; [destruct HuK | reflexivity].
  - apply maximalb_spec. intros w Hw Hnw.
    destruct (forallb (adjb g w) K) eqn:F.
    + exfalso. rewrite forallb_adjb in F.
      pose (R := filter (fun x => memb x (w :: K)) (verts g)).
      assert (HsR : same_set R (w :: K)).
      { intros x. unfold R. rewrite filter_In, memb_In. split; [intros [_ H]; exact H |].
        intros H. split; [| exact H]. destruct H as [H | H].
        - subst. apply verts_spec. exact Hw.
        - eapply subseq_In; eassumption. }
      assert (HRB : In R B).
      { unfold B. apply filter_In. split.
        - unfold R. apply cliques_of_complete; [exact HndV |]. intros a b Ha' Hb' Hab.
          destruct Ha' as [Ha' | Ha']; destruct Hb' as [Hb' | Hb']; subst.
          + contradiction.
          + apply F. exact Hb'.
          + apply adj_sym. apply F. exact Ha'.
          + apply HpK; assumption.
        - apply andb_true_iff. split; apply memb_In; apply HsR; right; assumption. }
      specialize (Hmax R HRB).
      assert (HndR : NoDup R) by (eapply subseq_NoDup; [apply filter_subseq | exact HndV]).
      assert (HndwK : NoDup (w :: K)) by (constructor; assumption).
      rewrite (same_set_length R (w :: K) HndR HndwK HsR) in Hmax. cbn [length] in Hmax. lia.
    + destruct (forallb_false_ex _ _ F) as [x [Hx Fx]]. exists x. split; [exact Hx |].
      intros Hax. apply adjb_spec in Hax. rewrite Hax in Fx. discriminate.
Qed.

Lemma limited_covers : forall g m0 e, loopless g -> 2 <= m0 -> In e g ->
  exists c, In c (limited g m0) /\ covers e c.
Proof.
  intros g m0 e Hl Hm He. pose proof (Hl e He) as Hne. pose proof (edge_adj g e He) as Ha.
  destruct (extend_to_max g (fst e) (snd e) Ha Hne) as [K [HK [HuK HvK]]].
  destruct (Nat.le_gt_cases (length K) m0) as [Hle | Hgt].
  - exists K. split; [| split; assumption]. apply limited_In. exists K. split; [exact HK |]. right. split; [exact Hle | reflexivity].
  - destruct (pair_subseq K (fst e) (snd e) HuK HvK Hne) as [r [Hr [Hur [Hvr Hlr]]]].
    destruct (subseq_extend r K Hr m0) as [s [H1 [H2 H3]]]; [lia |].
    exists s. split.
    + apply limited_In. exists K. split; [exact HK |]. left. split; [exact Hgt |]. apply combs_complete; assumption.
    + split; eapply subseq_In; eassumption.
Qed.

(* a 2-vertex member of the list shares its edge with no other member *)
Lemma limited_two_isolated : forall g m0 c n, loopless g -> 2 <= m0 ->
  In c (limited g m0) -> In n (limited g m0) -> length c <= 2 -> n <> c -> ~ share_edge c n.
Proof.
  intros g m0 c n Hl Hm Hc Hn Hlen Hne [u [v [Huv [Huc [Hvc [Hun Hvn]]]]]].
  destruct (limited_sound g m0 c Hl Hm Hc) as [[Hndc Hpc] [Hlc Hsc]].
  destruct (limited_sound g m0 n Hl Hm Hn) as [[Hndn Hpn] [Hln Hsn]].
  assert (HndV : NoDup (verts g)) by (apply asc_NoDup; apply verts_asc).
  assert (Hcuv : forall x, In x c -> x = u \/ x = v).
  { intros x Hx. destruct (Nat.eq_dec x u) as [E | E]; [left; exact E |].
    destruct (Nat.eq_dec x v) as [E' | E']; [right; exact E' |]. exfalso.
    assert (Hincl : incl [x; u; v] c) by (intros y [Hy | [Hy | [Hy | []]]]; subst; assumption).
    assert (Hnd3 : NoDup [x; u; v]).
    { constructor; [intros [H | [H | []]]; congruence |]. constructor; [intros [H | []]; congruence |].
      constructor; [intros [] | constructor]. }
    pose proof (NoDup_incl_length Hnd3 Hincl) as H3. cbn [length] in H3. lia. }
  destruct (forallb (fun x => memb x c) n) eqn:F.
  - (* n is inside c: same set, hence the same list *)
    apply Hne. eapply subseq_same_set; [exact HndV | exact Hsn | exact Hsc |].
    rewrite forallb_forall in F. intros x. split; [intros Hx; apply memb_In; apply F; exact Hx |].
    intros Hx. destruct (Hcuv x Hx); subst; assumption.
  - destruct (forallb_false_ex _ _ F) as [w [Hwn Hwc]]. apply memb_false in Hwc.
    (* n has a third vertex w: then m0 >= 3 and c is a maximal clique, but w is adjacent to all of c *)
    assert (Hn3 : 3 <= length n).
    { assert (Hincl : incl [w; u; v] n) by (intros y [Hy | [Hy | [Hy | []]]]; subst; assumption).
      assert (Hnd3 : NoDup [w; u; v]).
      { constructor; [intros [H | [H | []]]; subst; contradiction |]. constructor; [intros [H | []]; congruence |].
        constructor; [intros [] | constructor]. }
      pose proof (NoDup_incl_length Hnd3 Hincl) as H3. cbn [length] in H3. exact H3. }
    apply limited_In in Hc. destruct Hc as [K [HK [[HlK HcK] | [HlK HcK]]]].
    + apply combs_sound in HcK. lia.
    + subst K. destruct (max_cliques_sound g c HK) as [[_ [_ [_ Hmx]]] _].
      destruct (Hmx w) as [x [Hx Hnax]].
      * apply verts_spec. eapply subseq_In; eassumption.
      * exact Hwc.
      * apply Hnax. apply Hpn; [exact Hwn | destruct (Hcuv x Hx); subst; assumption |].
        intros E. subst. contradiction.
Qed.

(* ------------------------------------------------------------------ removal of cliques *)
Lemma covers_swap : forall a b m, covers (a, b) m <-> covers (b, a) m.
Proof. intros a b m. unfold covers. cbn [fst snd]. tauto. Qed.

Lemma remove_clique_In : forall g c e, In e (remove_clique g c) <-> In e g /\ ~ covers e c.
Proof.
  intros g c e. unfold remove_clique. rewrite filter_In, negb_true_iff. split.
  - intros [H1 H2]. split; [exact H1 |]. intros Hc. apply subset2b_spec in Hc. unfold subset2b in Hc.
    rewrite Hc in H2. discriminate.
  - intros [H1 H2]. split; [exact H1 |]. destruct (memb (fst e) c && memb (snd e) c) eqn:E; [| reflexivity].
    exfalso. apply H2. apply subset2b_spec. exact E.
Qed.

Lemma remove_cliques_In : forall EC g e, In e (remove_cliques g EC) <-> In e g /\ forall m, In m EC -> ~ covers e m.
Proof.
  unfold remove_cliques. induction EC as [| c EC IH]; intros g e; cbn [fold_left].
  - split; [intros H; split; [exact H | intros m []] | intros [H _]; exact H].
  - rewrite IH, remove_clique_In. split.
    + intros [[H1 H2] H3]. split; [exact H1 |]. intros m [Hm | Hm]; [subst; exact H2 | apply H3; exact Hm].
    + intros [H1 H2]. split; [split; [exact H1 | apply H2; left; reflexivity] |]. intros m Hm. apply H2. right. exact Hm.
Qed.

Lemma filter_length_le : forall {A} (f : A -> bool) l, length (filter f l) <= length l.
Proof. intros A f. induction l as [| x r IH]; cbn [filter length]; [lia |]. destruct (f x); cbn [length]; lia. Qed.

Lemma filter_length_lt : forall {A} (f : A -> bool) l x, In x l -> f x = false -> length (filter f l) < length l.
Proof.
  intros A f. induction l as [| y r IH]; intros x Hx Fx; [destruct Hx |]. cbn [filter length].
  destruct Hx as [Hx | Hx].
  - subst. rewrite Fx. pose proof (filter_length_le f r). lia.
  - specialize (IH x Hx Fx). destruct (f y); cbn [length]; lia.
Qed.

Lemma remove_cliques_length : forall EC g, length (remove_cliques g EC) <= length g.
Proof.
  unfold remove_cliques. induction EC as [| c EC IH]; intros g; cbn [fold_left]; [lia |].
  eapply Nat.le_trans; [apply IH |]. unfold remove_clique. apply filter_length_le.
Qed.

(* ------------------------------------------------------------------ counting *)
Lemma count_cover_app : forall A B e, count_cover (A ++ B) e = count_cover A e + count_cover B e.
Proof. intros A B e. unfold count_cover. rewrite filter_app, app_length. reflexivity. Qed.

Lemma count_cover_zero : forall Z e, count_cover Z e = 0 <-> forall z, In z Z -> ~ covers e z.
Proof.
  intros Z e. unfold count_cover. induction Z as [| z Z IH]; cbn [filter].
  - split; [intros _ z [] | reflexivity].
  - destruct (subset2b e z) eqn:S.
    + cbn [length]. split; [lia |]. intros H. exfalso. apply (H z); [left; reflexivity | apply subset2b_spec; exact S].
    + rewrite IH. split.
      * intros H x [Hx | Hx]; [subst; intros Hc; apply subset2b_spec in Hc; rewrite Hc in S; discriminate | apply H; exact Hx].
      * intros H x Hx. apply H. right. exact Hx.
Qed.

Lemma count_cover_cons : forall z Z e, count_cover (z :: Z) e = (if subset2b e z then 1 else 0) + count_cover Z e.
Proof. intros z Z e. unfold count_cover. cbn [filter]. destruct (subset2b e z); reflexivity. Qed.

Lemma covers_share : forall e z z', fst e <> snd e -> covers e z -> covers e z' -> share_edge z z'.
Proof. intros e z z' Hne [H1 H2] [H3 H4]. exists (fst e), (snd e). auto. Qed.

Lemma count_one_of : forall Z e z, NoDup Z -> (forall a b, In a Z -> In b Z -> a <> b -> ~ share_edge a b) ->
  fst e <> snd e -> In z Z -> covers e z -> count_cover Z e = 1.
Proof.
  induction Z as [| z0 Z IH]; intros e z Hnd Hpw Hne Hz Hc; [destruct Hz |].
  inversion Hnd as [| ? ? Hz0 HndZ]; subst. rewrite count_cover_cons. destruct Hz as [Hz | Hz].
  - subst z0. apply subset2b_spec in Hc as Hs. rewrite Hs.
    assert (H0 : count_cover Z e = 0).
    { apply count_cover_zero. intros z' Hz' Hc'. apply (Hpw z z'); [left; reflexivity | right; exact Hz' | | eapply covers_share; eassumption].
      intros E. subst. contradiction. }
    lia.
  - assert (Hs : subset2b e z0 = false).
    { destruct (subset2b e z0) eqn:S; [| reflexivity]. exfalso. apply subset2b_spec in S.
      apply (Hpw z0 z); [left; reflexivity | right; exact Hz | | eapply covers_share; eassumption].
      intros E. subst. contradiction. }
    rewrite Hs. rewrite (IH e z); try assumption; [reflexivity |].
    intros a b Ha Hb. apply Hpw; right; assumption.
Qed.

(* ------------------------------------------------------------------ scores *)
Lemma shared_count_zero : forall C c n, NoDup c -> shared_count C c = 0 -> In n C -> n <> c -> ~ share_edge c n.
Proof.
  intros C c n Hnd H0 Hn Hne Hsh. unfold shared_count in H0.
  apply (share_edgeb_spec c n Hnd) in Hsh. unfold share_edgeb in Hsh. apply existsb_exists in Hsh.
  destruct Hsh as [p [Hp Hs]].
  assert (Hin : In p (filter (shared_pair C c) (pairs_of c))).
  { apply filter_In. split; [exact Hp |]. unfold shared_pair. apply existsb_exists. exists n. split; [exact Hn |].
    rewrite Hs. destruct (list_eqb n c) eqn:E; [apply list_eqb_spec in E; contradiction | reflexivity]. }
  destruct (filter (shared_pair C c) (pairs_of c)); [destruct Hin | discriminate].
Qed.

(* ------------------------------------------------------------------ invariants *)
Record Inv0 (m0 : nat) (g0 g : graph) (EC : list clique) : Prop := {
  i_members : forall m, In m EC -> is_clique g0 m /\ 2 <= length m <= m0;
  i_sub : forall e, In e g -> In e g0;
  i_count : forall e, In e g0 ->
      (In e g /\ count_cover EC e = 0) \/ (~ adj g (fst e) (snd e) /\ count_cover EC e = 1) }.

Record Cands (m0 : nat) (g : graph) (C : list clique) : Prop := {
  c_nodup : NoDup C;
  c_clique : forall c, In c C -> is_clique g c /\ 2 <= length c <= m0;
  c_cover : forall e, In e g -> exists c, In c C /\ covers e c;
  c_small : forall c n, In c C -> In n C -> length c <= 2 -> n <> c -> ~ share_edge c n }.

Record InvN (m0 : nat) (g : graph) (N : list (clique * Q)) : Prop := {
  n_clique : forall c, In c (map fst N) -> is_clique g c /\ 2 <= length c <= m0;
  n_cover : forall e, In e g -> exists c, In c (map fst N) /\ covers e c }.

Lemma limited_Cands : forall g m0, loopless g -> 2 <= m0 -> Cands m0 g (limited g m0).
Proof.
  intros g m0 Hl Hm. constructor.
  - unfold limited. apply sort_cl_NoDup.
  - intros c Hc. destruct (limited_sound g m0 c Hl Hm Hc) as [H1 [H2 _]]. split; assumption.
  - intros e He. apply limited_covers; assumption.
  - intros c n Hc Hn Hlen Hne. eapply limited_two_isolated; eassumption.
Qed.

Lemma filter_all : forall {A} (f : A -> bool) l, (forall x, In x l -> f x = true) -> filter f l = l.
Proof.
  intros A f. induction l as [| x r IH]; intros H; cbn [filter]; [reflexivity |].
  rewrite (H x (or_introl eq_refl)). f_equal. apply IH. intros y Hy. apply H. right. exact Hy.
Qed.

Lemma limited_filter : forall g m0, loopless g -> 2 <= m0 ->
  filter (fun c => Nat.ltb 1 (length c)) (limited g m0) = limited g m0.
Proof.
  intros g m0 Hl Hm. apply filter_all. intros c Hc. destruct (limited_sound g m0 c Hl Hm Hc) as [_ [H2 _]].
  apply Nat.ltb_lt. lia.
Qed.

Lemma adj_mono : forall g g' a b, (forall e, In e g -> In e g') -> adj g a b -> adj g' a b.
Proof. intros g g' a b H [Ha | Ha]; [left | right]; apply H; exact Ha. Qed.

Lemma is_clique_mono : forall g g' c, (forall e, In e g -> In e g') -> is_clique g c -> is_clique g' c.
Proof. intros g g' c H [Hnd Hp]. split; [exact Hnd |]. intros u v Hu Hv Hne. eapply adj_mono; [exact H | apply Hp; assumption]. Qed.

(* edges still in the working graph are in no cover member *)
Lemma inv_uncovered : forall m0 g0 g EC e, Inv0 m0 g0 g EC -> In e g -> forall m, In m EC -> ~ covers e m.
Proof.
  intros m0 g0 g EC e HI He. destruct (i_count _ _ _ _ HI e (i_sub _ _ _ _ HI e He)) as [[_ H0] | [Hna _]].
  - apply count_cover_zero. exact H0.
  - exfalso. apply Hna. apply edge_adj. exact He.
Qed.

(* choosing any candidate keeps the state invariant and removes at least one edge *)
Lemma choose_inv : forall m0 g0 g EC N cli, loopless g0 -> Inv0 m0 g0 g EC -> InvN m0 g N -> In cli (map fst N) ->
  Inv0 m0 g0 (remove_clique g cli) (EC ++ [cli]) /\ length (remove_clique g cli) < length g.
Proof.
  intros m0 g0 g EC N cli Hl HI HN Hcli.
  destruct (n_clique _ _ _ HN cli Hcli) as [[Hnd Hp] Hlen].
  split.
  - constructor.
    + intros m Hm. apply in_app_or in Hm. destruct Hm as [Hm | [Hm | []]].
      * apply (i_members _ _ _ _ HI). exact Hm.
      * subst m. split; [| exact Hlen]. eapply is_clique_mono; [apply (i_sub _ _ _ _ HI) | split; assumption].
    + intros e He. apply remove_clique_In in He. apply (i_sub _ _ _ _ HI). apply He.
    + intros e He. pose proof (Hl e He) as Hne. rewrite count_cover_app.
      assert (Hc1 : count_cover [cli] e = if subset2b e cli then 1 else 0)
        by (rewrite count_cover_cons; unfold count_cover; cbn; lia).
      destruct (i_count _ _ _ _ HI e He) as [[Hin H0] | [Hna H1]].
      * destruct (subset2b e cli) eqn:S.
        -- right. split; [| lia]. intros Ha. apply adj_edge in Ha. destruct Ha as [e' [He' E]].
           apply remove_clique_In in He'. destruct He' as [_ Hnc]. apply Hnc. apply subset2b_spec in S.
           destruct E as [E | E]; subst e'; [exact S |]. apply covers_swap. exact S.
        -- left. split; [| lia]. apply remove_clique_In. split; [exact Hin |]. intros Hc. apply subset2b_spec in Hc.
           rewrite Hc in S. discriminate.
      * right. split.
        -- intros Ha. apply Hna. eapply adj_mono; [| exact Ha]. intros x Hx. apply remove_clique_In in Hx. apply Hx.
        -- destruct (subset2b e cli) eqn:S; [| lia]. exfalso. apply subset2b_spec in S. destruct S as [S1 S2].
           apply Hna. apply Hp; assumption.
  - (* cli has two adjacent vertices: their edge disappears *)
    destruct cli as [| a [| b r]]; cbn [length] in Hlen; try lia.
    assert (Hab : a <> b) by (inversion Hnd as [| ? ? Hx _]; subst; intros E; subst; apply Hx; left; reflexivity).
    assert (Ha : adj g a b) by (apply Hp; [left; reflexivity | right; left; reflexivity | exact Hab]).
    apply adj_edge in Ha. destruct Ha as [e [He E]].
    unfold remove_clique. apply (filter_length_lt _ g e He). apply negb_false_iff.
    assert (Hc : covers e (a :: b :: r)).
    { destruct E; subst e; unfold covers; cbn [fst snd]; split; cbn; auto. }
    apply subset2b_spec in Hc. exact Hc.
Qed.

Lemma score_zero_no_share : forall m0 g C z n, Cands m0 g C -> In z C -> score_zero C z = true ->
  In n C -> n <> z -> ~ share_edge z n.
Proof.
  intros m0 g C z n HC Hz Hs Hn Hne. unfold score_zero in Hs. apply orb_true_iff in Hs. destruct Hs as [Hs | Hs].
  - apply Nat.leb_le in Hs. apply (c_small _ _ _ HC z n); assumption.
  - apply Nat.eqb_eq in Hs. destruct (c_clique _ _ _ HC z Hz) as [[Hnd _] _]. eapply shared_count_zero; eassumption.
Qed.

Lemma absorb_inv : forall m0 g0 g EC C, loopless g0 -> Inv0 m0 g0 g EC -> Cands m0 g C ->
  Inv0 m0 g0 (fst (fst (absorb g EC C))) (snd (fst (absorb g EC C))) /\
  InvN m0 (fst (fst (absorb g EC C))) (snd (absorb g EC C)) /\
  length (fst (fst (absorb g EC C))) <= length g.
Proof.
  intros m0 g0 g EC C Hl HI HC. unfold absorb. cbn [fst snd].
  set (Z := filter (score_zero C) C).
  set (NS := filter (fun c => negb (score_zero C c)) C).
  assert (HZ : forall z, In z Z -> In z C /\ score_zero C z = true) by (intros z Hz; apply filter_In in Hz; exact Hz).
  assert (HNS : forall c, In c NS -> In c C /\ score_zero C c = false).
  { intros c Hc. apply filter_In in Hc. destruct Hc as [H1 H2]. apply negb_true_iff in H2. split; assumption. }
  assert (HndZ : NoDup Z) by (apply NoDup_filter; apply (c_nodup _ _ _ HC)).
  assert (Hpw : forall a b, In a Z -> In b Z -> a <> b -> ~ share_edge a b).
  { intros a b Ha Hb Hab. destruct (HZ a Ha) as [HaC Hsa]. destruct (HZ b Hb) as [HbC _].
    eapply score_zero_no_share; try eassumption. intros E. apply Hab. symmetry. exact E. }
  assert (Hg' : forall e, In e (remove_cliques g (EC ++ Z)) <-> In e g /\ forall z, In z Z -> ~ covers e z).
  { intros e. rewrite remove_cliques_In. split.
    - intros [H1 H2]. split; [exact H1 |]. intros z Hz. apply H2. apply in_or_app. right. exact Hz.
    - intros [H1 H2]. split; [exact H1 |]. intros m Hm. apply in_app_or in Hm. destruct Hm as [Hm | Hm].
      + eapply inv_uncovered; eassumption.
      + apply H2. exact Hm. }
  split; [| split].
  - constructor.
    + intros m Hm. apply in_app_or in Hm. destruct Hm as [Hm | Hm]; [apply (i_members _ _ _ _ HI); exact Hm |].
      destruct (HZ m Hm) as [HmC _]. destruct (c_clique _ _ _ HC m HmC) as [Hcl Hlen].
      split; [| exact Hlen]. eapply is_clique_mono; [apply (i_sub _ _ _ _ HI) | exact Hcl].
    + intros e He. apply Hg' in He. apply (i_sub _ _ _ _ HI). apply He.
    + intros e He. pose proof (Hl e He) as Hne. rewrite count_cover_app.
      destruct (i_count _ _ _ _ HI e He) as [[Hin H0] | [Hna H1]].
      * destruct (existsb (subset2b e) Z) eqn:Ex.
        -- apply existsb_exists in Ex. destruct Ex as [z [Hz Hs]]. apply subset2b_spec in Hs.
           right. split; [| rewrite (count_one_of Z e z HndZ Hpw Hne Hz Hs); lia].
           intros Ha. apply adj_edge in Ha. destruct Ha as [e' [He' E]]. apply Hg' in He'. destruct He' as [_ Hnc].
           apply (Hnc z Hz). destruct E as [E | E]; subst e'; [exact Hs | apply covers_swap; exact Hs].
        -- assert (Hz0 : forall z, In z Z -> ~ covers e z).
           { intros z Hz Hc. apply subset2b_spec in Hc.
             assert (existsb (subset2b e) Z = true) by (apply existsb_exists; exists z; split; assumption). congruence. }
           left. split; [apply Hg'; split; assumption |]. apply count_cover_zero in Hz0. lia.
      * right. split.
        -- intros Ha. apply Hna. eapply adj_mono; [| exact Ha]. intros x Hx. apply Hg' in Hx. apply Hx.
        -- assert (Hz0 : count_cover Z e = 0).
           { apply count_cover_zero. intros z Hz [Hc1 Hc2]. apply Hna. destruct (HZ z Hz) as [HzC _].
             destruct (c_clique _ _ _ HC z HzC) as [[_ Hp] _]. apply Hp; assumption. }
           lia.
  - assert (Hmap : map fst (map (fun c => (c, score C c)) NS) = NS).
    { rewrite map_map. cbn [fst]. apply map_id. }
    constructor; rewrite Hmap.
    + intros c Hc. destruct (HNS c Hc) as [HcC Hsc]. destruct (c_clique _ _ _ HC c HcC) as [[Hnd Hp] Hlen].
      split; [| exact Hlen]. split; [exact Hnd |]. intros a b Ha Hb Hab.
      pose proof (Hp a b Ha Hb Hab) as Hadj. apply adj_edge in Hadj. destruct Hadj as [e' [He' E]].
      apply adj_edge. exists e'. split; [| exact E]. apply Hg'. split; [exact He' |].
      intros z Hz Hcz. destruct (HZ z Hz) as [HzC Hsz].
      apply (score_zero_no_share m0 g C z c HC HzC Hsz HcC).
      * intros E'. subst. congruence.
      * exists a, b. assert (Hza : In a z /\ In b z).
        { destruct E as [E | E]; subst e'; destruct Hcz as [H1 H2]; cbn [fst snd] in *; auto. }
        destruct Hza. auto.
    + intros e He. apply Hg' in He. destruct He as [He Hnz]. destruct (c_cover _ _ _ HC e He) as [c [Hc Hcov]].
      exists c. split; [| exact Hcov]. unfold NS. apply filter_In. split; [exact Hc |]. apply negb_true_iff.
      destruct (score_zero C c) eqn:S; [| reflexivity]. exfalso. apply (Hnz c); [| exact Hcov].
      unfold Z. apply filter_In. split; assumption.
  - apply remove_cliques_length.
Qed.

(* ------------------------------------------------------------------ the tie-break candidates *)
Lemma candidates_sub : forall N c, In c (candidates N) -> In c (map fst N).
Proof.
  intros N c H. unfold candidates in H. apply filter_In in H. destruct H as [H _].
  apply in_map_iff in H. destruct H as [p [E Hp]]. apply filter_In in Hp. destruct Hp as [Hp _].
  apply in_map_iff. exists p. split; assumption.
Qed.

Lemma qmin_In : forall l d, In (qmin l d) (d :: l).
Proof.
  induction l as [| x r IH]; intros d; cbn [qmin]; [left; reflexivity |].
  destruct (Qle_bool x (qmin r d)); [right; left; reflexivity |].
  destruct (IH d) as [H | H]; [left; exact H | right; right; exact H].
Qed.

Lemma max_attained : forall (l : list clique), l <> [] ->
  exists c, In c l /\ length c = fold_right Nat.max 0 (map (@length nat) l).
Proof.
  induction l as [| c r IH]; intros Hne; [contradiction |]. cbn [map fold_right].
  destruct r as [| c' r'].
  - exists c. split; [left; reflexivity |]. cbn. lia.
  - destruct IH as [x [Hx Hm]]; [discriminate |].
    destruct (Nat.max_spec (length c) (fold_right Nat.max 0 (map (@length nat) (c' :: r')))) as [[Hlt E] | [Hle E]]; rewrite E.
    + exists x. split; [right; exact Hx | exact Hm].
    + exists c. split; [left; reflexivity | reflexivity].
Qed.

Lemma candidates_nonempty : forall N, N <> [] -> candidates N <> [].
Proof.
  intros N HN. unfold candidates.
  set (mn := min_score N).
  set (low := map fst (filter (fun p => Qeq_bool (snd p) mn) N)).
  assert (Hlow : low <> []).
  { destruct N as [| p r]; [contradiction |].
    assert (Hin : In mn (map snd (p :: r))).
    { unfold mn, min_score. cbn [map]. apply qmin_In. }
    apply in_map_iff in Hin. destruct Hin as [q [Eq Hq]].
    assert (Hq' : In (fst q) low).
    { unfold low. apply in_map. apply filter_In. split; [exact Hq |]. rewrite Eq. apply Qeq_bool_iff. reflexivity. }
    intros E. rewrite E in Hq'. destruct Hq'. }
  destruct (max_attained low Hlow) as [c [Hc Hm]].
  intros E.
  assert (Hin : In c (filter (fun c0 => Nat.eqb (length c0) (fold_right Nat.max 0 (map (@length nat) low))) low)).
  { apply filter_In. split; [exact Hc | apply Nat.eqb_eq; exact Hm]. }
  rewrite E in Hin. destruct Hin.
Qed.

(* ------------------------------------------------------------------ the loop *)
Lemma loopless_sub : forall g g', loopless g' -> (forall e, In e g -> In e g') -> loopless g.
Proof. intros g g' H Hs e He. apply H. apply Hs. exact He. Qed.

Lemma loop_inv : forall fuel m0 g0 g EC N rs tr, loopless g0 -> 2 <= m0 ->
  Inv0 m0 g0 g EC -> InvN m0 g N -> length g < fuel ->
  let o := loop fuel m0 g EC N rs tr in
  o_status o = 0 /\ o_graph o = [] /\ Inv0 m0 g0 [] (o_cover o).
Proof.
  induction fuel as [| f IH]; intros m0 g0 g EC N rs tr Hl Hm HI HN Hf; [lia |].
  destruct g as [| e g']; [cbn [loop o_status o_graph o_cover]; auto |].
  cbn [loop].
  assert (HNne : N <> []).
  { destruct (n_cover _ _ _ HN e (or_introl eq_refl)) as [c [Hc _]]. intros E. subst N. destruct Hc. }
  pose proof (candidates_nonempty N HNne) as Hcne.
  destruct (nth_error (candidates N) (hd 0 rs mod length (candidates N))) as [cli |] eqn:Hn.
  - assert (Hcli : In cli (map fst N)) by (apply candidates_sub; eapply nth_error_In; exact Hn).
    destruct (choose_inv m0 g0 (e :: g') EC N cli Hl HI HN Hcli) as [HI1 Hlt].
    unfold step_state.
    set (g1 := remove_clique (e :: g') cli) in *.
    assert (Hl1 : loopless g1) by (eapply loopless_sub; [exact Hl | apply (i_sub _ _ _ _ HI1)]).
    rewrite (limited_filter g1 m0 Hl1 Hm).
    pose proof (absorb_inv m0 g0 g1 (EC ++ [cli]) (limited g1 m0) Hl HI1 (limited_Cands g1 m0 Hl1 Hm)) as [HI2 [HN2 Hle]].
    destruct (absorb g1 (EC ++ [cli]) (limited g1 m0)) as [[g2 EC2] N2]. cbn [fst snd] in *.
    apply IH; try assumption. cbn [length] in *. lia.
  - exfalso. apply nth_error_None in Hn.
    assert (length (candidates N) <> 0) by (destruct (candidates N); [contradiction | discriminate]).
    pose proof (Nat.mod_upper_bound (hd 0 rs) (length (candidates N)) H). lia.
Qed.

Lemma inv_final_cover : forall m0 g EC, Inv0 m0 g [] EC -> ExactCover g m0 EC.
Proof.
  intros m0 g EC HI. split; [apply (i_members _ _ _ _ HI) |].
  intros e He. destruct (i_count _ _ _ _ HI e He) as [[[] _] | [_ H1]].
  unfold count_cover in H1. apply count_one_spec in H1. eapply exactly_one_ext; [| exact H1].
  intros x. apply subset2b_spec.
Qed.

Theorem eecc_exact_cover : forall g m0 rs, loopless g -> 2 <= m0 ->
  let o := eecc_run g m0 rs in
  o_status o = 0 /\ o_graph o = [] /\ ExactCover g m0 (o_cover o).
Proof.
  intros g m0 rs Hl Hm. unfold eecc_run.
  assert (HI0 : Inv0 m0 g g []).
  { constructor; [intros m [] | auto |]. intros e He. left. split; [exact He | reflexivity]. }
  pose proof (absorb_inv m0 g g [] (limited g m0) Hl HI0 (limited_Cands g m0 Hl Hm)) as [HI1 [HN1 Hle]].
  destruct (absorb g [] (limited g m0)) as [[g1 EC1] N1]. cbn [fst snd] in *.
  destruct (loop_inv (S (length g)) m0 g g1 EC1 N1 rs [] Hl Hm HI1 HN1) as [H1 [H2 H3]]; [lia |].
  cbv zeta. split; [exact H1 |]. split; [exact H2 |]. apply inv_final_cover. exact H3.
Qed.

(* ------------------------------------------------------------------ isolated maximal cliques are returned intact *)
Lemma loop_cover_incl : forall fuel m0 g EC N rs tr m,
  In m EC -> In m (o_cover (loop fuel m0 g EC N rs tr)).
Proof.
  induction fuel as [| f IH]; intros m0 g EC N rs tr m Hm; destruct g as [| e g']; cbn [loop o_cover]; try exact Hm.
  destruct (nth_error (candidates N) (hd 0 rs mod length (candidates N))) as [cli |]; [| exact Hm].
  unfold step_state, absorb. cbv zeta. apply IH. apply in_or_app. left. apply in_or_app. left. exact Hm.
Qed.

Theorem eecc_isolated_intact : forall g m0 rs, loopless g -> 2 <= m0 ->
  IsolatedIntact g m0 (o_cover (eecc_run g m0 rs)).
Proof.
  intros g m0 rs Hl Hm K HK Hlen Hiso.
  destruct (max_cliques_complete g K HK) as [K' [HK' Hs]].
  destruct (max_cliques_sound g K' HK') as [HmK' HsubK'].
  assert (HndV : NoDup (verts g)) by (apply asc_NoDup; apply verts_asc).
  assert (HndK' : NoDup K') by (destruct HmK' as [_ [[H _] _]]; exact H).
  assert (HndK : NoDup K) by (destruct HK as [_ [[H _] _]]; exact H).
  assert (HlenK' : length K' <= m0) by (rewrite (same_set_length K' K HndK' HndK Hs); exact Hlen).
  assert (HinC : In K' (limited g m0)).
  { apply limited_In. exists K'. split; [exact HK' |]. right. split; [exact HlenK' | reflexivity]. }
  assert (Hz : score_zero (limited g m0) K' = true).
  { unfold score_zero. apply orb_true_iff. right. apply Nat.eqb_eq. unfold shared_count.
    destruct (filter (shared_pair (limited g m0) K') (pairs_of K')) as [| p ps] eqn:F; [reflexivity |]. exfalso.
    assert (Hp : In p (filter (shared_pair (limited g m0) K') (pairs_of K'))) by (rewrite F; left; reflexivity).
    apply filter_In in Hp. destruct Hp as [Hp Hsh]. unfold shared_pair in Hsh. apply existsb_exists in Hsh.
    destruct Hsh as [n [Hn Hb]]. apply andb_true_iff in Hb. destruct Hb as [Hne Hsub].
    apply negb_true_iff in Hne. apply subset2b_spec in Hsub. destruct p as [a b]. destruct Hsub as [Han Hbn].
    cbn [fst snd] in *. destruct (pairs_of_In _ _ _ Hp) as [HaK HbK].
    pose proof (pairs_of_neq _ _ _ HndK' Hp) as Hab.
    apply limited_In in Hn. destruct Hn as [K2 [HK2 Hn]].
    destruct (max_cliques_sound g K2 HK2) as [HmK2 HsubK2].
    assert (Hn2 : forall x, In x n -> In x K2).
    { destruct Hn as [[_ Hn] | [_ Hn]]; [| subst; auto]. apply combs_sound in Hn. destruct Hn as [Hn _].
      intros x Hx. eapply subseq_In; eassumption. }
    assert (Hsh : share_edge K K2).
    { exists a, b. split; [exact Hab |]. split; [apply Hs; exact HaK |]. split; [apply Hs; exact HbK |].
      split; apply Hn2; assumption. }
    assert (E : K2 = K').
    { eapply subseq_same_set; [exact HndV | exact HsubK2 | exact HsubK' |].
      intros x. rewrite (Hiso K2 HmK2 Hsh x). symmetry. apply Hs. }
    subst K2. destruct Hn as [[Hgt _] | [_ Hn]]; [lia |]. subst n.
    assert (list_eqb K' K' = true) by (apply list_eqb_spec; reflexivity). congruence. }
  exists K'. split; [| exact Hs].
  unfold eecc_run, absorb. cbv zeta. apply loop_cover_incl. cbn [app]. apply filter_In. split; assumption.
Qed.
