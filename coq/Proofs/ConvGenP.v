(* C04 growth (audit finding F5): what [check_roundtrip] means, the back conversion of EVERY
   well-formed edge list (repeated / reversed pairs and self-loops allowed), and the error lemma. *)
From Coq Require Import List ZArith Bool Arith Lia Permutation.
From GV Require Import Lib.Tree Model.Conv Proofs.ConvP.
Import ListNotations.

(* ================= (a) soundness / completeness of check_roundtrip ================= *)
Lemma row_eqb_eq a b : row_eqb a b = true -> a = b.
Proof.
  destruct a as [e [x y]], b as [e' [x' y']]. unfold row_eqb. cbn.
  rewrite !andb_true_iff. intros [[H1 H2] H3].
  destruct (edge_eqb_spec e e'); [|discriminate]. apply Nat.eqb_eq in H2, H3. subst. reflexivity.
Qed.

Lemma mem_row_In r l : existsb (row_eqb r) l = true <-> In r l.
Proof.
  rewrite existsb_exists. split.
  - intros [y [Hy E]]. apply row_eqb_eq in E. subst. exact Hy.
  - intros H. exists r. split; [exact H|apply row_eqb_refl].
Qed.

Lemma list_jd_eqb_iff a b : list_jd_eqb a b = true <-> a = b.
Proof. split; [apply list_jd_eqb_eq|intros ->; apply list_jd_eqb_refl]. Qed.

(* same joint degree sequence, same number of rows, same SET of normalised annotated rows *)
Definition Roundtrip_same (el el' : elist) : Prop :=
  el_jds el = el_jds el' /\
  length (nrows el) = length (nrows el') /\
  (forall r, In r (nrows el) <-> In r (nrows el')).

Theorem check_roundtrip_iff el el' : check_roundtrip el el' = true <-> Roundtrip_same el el'.
Proof.
  unfold check_roundtrip, Roundtrip_same.
  rewrite !andb_true_iff, list_jd_eqb_iff, Nat.eqb_eq, !forallb_forall. split.
  - intros [[[H1 H2] H3] H4]. split; [exact H1|]. split; [exact H2|].
    intros r. split; intros Hr; apply mem_row_In; [apply H3|apply H4]; exact Hr.
  - intros [H1 [H2 H3]]. repeat split; try assumption.
    + intros r Hr. apply mem_row_In. apply H3. exact Hr.
    + intros r Hr. apply mem_row_In. apply H3. exact Hr.
Qed.

Corollary check_roundtrip_sound el el' : check_roundtrip el el' = true -> Roundtrip_same el el'.
Proof. apply check_roundtrip_iff. Qed.

(* a permutation of the normalised rows is always accepted *)
Lemma check_roundtrip_perm el el' :
  el_jds el = el_jds el' -> Permutation (nrows el) (nrows el') -> check_roundtrip el el' = true.
Proof.
  intros Hj Hp. apply check_roundtrip_iff. split; [exact Hj|]. split.
  - apply Permutation_length. exact Hp.
  - intros r. split; apply Permutation_in; [exact Hp|apply Permutation_sym; exact Hp].
Qed.

Lemma map_fst_nrows el : map fst (nrows el) = map norm (map fst (rows el)).
Proof. unfold nrows. rewrite !map_map. reflexivity. Qed.

Lemma simple_nrows_NoDup el : simple_el el = true -> NoDup (map fst (nrows el)).
Proof.
  intros Hs. destruct (simple_el_unpack el Hs) as [Hnd [_ [Hl1 Hl2]]].
  rewrite map_fst_nrows, (rows_fst el Hl1 Hl2). exact Hnd.
Qed.

(* for a simple list the checker decides exactly: same jds and the normalised annotated rows are a
   permutation of each other (so in particular el' has no repeated pair either) *)
Theorem check_roundtrip_simple_iff el el' : simple_el el = true ->
  (check_roundtrip el el' = true <-> el_jds el = el_jds el' /\ Permutation (nrows el) (nrows el')).
Proof.
  intros Hs. split.
  - intros H. apply check_roundtrip_iff in H. destruct H as [H1 [H2 H3]]. split; [exact H1|].
    apply NoDup_Permutation_bis.
    + apply (NoDup_map_inv fst). apply simple_nrows_NoDup. exact Hs.
    + rewrite H2. apply le_n.
    + intros r Hr. apply H3. exact Hr.
  - intros [H1 H2]. apply check_roundtrip_perm; assumption.
Qed.

(* the judge of the real back conversion accepts what the modelled back conversion returns *)
Corollary roundtrip_simple_checked el el' :
  simple_el el = true -> to_edgelist (to_network el) = Some el' -> check_roundtrip el el' = true.
Proof.
  intros Hs H. rewrite (roundtrip_el el Hs) in H. injection H as <-. apply roundtrip_check.
Qed.

(* ================= (b) the back conversion of every well-formed list ================= *)
(* parallel columns, every vertex below N; repeated / reversed pairs and self-loops allowed *)
Definition wf_el (el : elist) : bool :=
  forallb (fun v => Nat.ltb v (length (el_jds el))) (endpoints (el_edges el))
  && Nat.eqb (length (el_names el)) (length (el_edges el))
  && Nat.eqb (length (el_ids el)) (length (el_edges el)).

Lemma wf_el_unpack el : wf_el el = true ->
  (forall v, In v (endpoints (el_edges el)) -> v < length (el_jds el)) /\
  length (el_names el) = length (el_edges el) /\ length (el_ids el) = length (el_edges el).
Proof.
  unfold wf_el. rewrite !andb_true_iff. intros [[H2 H3] H4]. split.
  - intros v Hv. rewrite forallb_forall in H2. apply Nat.ltb_lt. apply H2. exact Hv.
  - split; apply Nat.eqb_eq; assumption.
Qed.

Lemma simple_wf el : simple_el el = true -> wf_el el = true.
Proof.
  unfold simple_el, wf_el. rewrite !andb_true_iff. intros [[[_ H2] H3] H4]. repeat split; assumption.
Qed.

(* --- lastmatch --- *)
Lemma lastmatch_some_in {V} (p : edge -> bool) (l : list (edge * V)) acc v :
  lastmatch p l acc = Some v -> acc = Some v \/ exists k, In (k, v) l /\ p k = true.
Proof.
  revert acc. induction l as [|[k1 v1] l IH]; intros acc; cbn.
  - intros H. left. exact H.
  - intros H. apply IH in H. destruct H as [H|[k [Hin Hp]]].
    + cbn in H. destruct (p k1) eqn:E.
      * injection H as ->. right. exists k1. split; [left; reflexivity|exact E].
      * left. exact H.
    + right. exists k. split; [right; exact Hin|exact Hp].
Qed.

Lemma lastmatch_acc_some {V} (p : edge -> bool) (l : list (edge * V)) x :
  exists v, lastmatch p l (Some x) = Some v.
Proof.
  revert x. induction l as [|[k1 v1] l IH]; intros x; cbn.
  - exists x. reflexivity.
  - destruct (p k1); apply IH.
Qed.

Lemma lastmatch_exists_some {V} (p : edge -> bool) (l : list (edge * V)) acc :
  (exists k v, In (k, v) l /\ p k = true) -> exists v, lastmatch p l acc = Some v.
Proof.
  revert acc. induction l as [|[k1 v1] l IH]; intros acc [k [v [Hin Hp]]]; cbn.
  - destruct Hin.
  - destruct Hin as [[= -> ->]|Hin].
    + rewrite Hp. apply lastmatch_acc_some.
    + apply IH. exists k, v. split; assumption.
Qed.

Lemma final_attr_lastmatch el ne :
  final_attr el ne = lastmatch (fun x => edge_eqb ne (norm x)) (build_dict (rows el)) None.
Proof. unfold final_attr, apply_dict. rewrite (dict_get_fold norm). reflexivity. Qed.

Lemma build_dict_in {V} (rs : list (edge * V)) k v : In (k, v) (build_dict rs) -> In (k, v) rs.
Proof.
  intros H. unfold build_dict in H.
  destruct (in_fold_dict (fun x => x) _ _ _ _ H) as [[k0 [Hin ->]]|[]]. exact Hin.
Qed.

Lemma build_dict_keys {V} (rs : list (edge * V)) k :
  In k (map fst rs) -> exists v, In (k, v) (build_dict rs).
Proof.
  intros H.
  assert (Hk : In k (map fst (build_dict rs))).
  { unfold build_dict. apply (keys_fold (fun x => x)). left. rewrite map_id. exact H. }
  apply in_map_iff in Hk. destruct Hk as [[k' v'] [Hk' Hin']]. cbn in Hk'. subst k'. exists v'. exact Hin'.
Qed.

(* the attribute the network holds for a pair is the attribute of one of the rows naming that pair *)
Lemma final_attr_in el ne a : final_attr el ne = Some a -> In a (occurrences el ne).
Proof.
  rewrite final_attr_lastmatch. intros H. apply lastmatch_some_in in H.
  destruct H as [H|[k [Hin Hp]]]; [discriminate|]. apply build_dict_in in Hin.
  unfold occurrences. apply in_map_iff. exists (k, a). split; [reflexivity|].
  apply filter_In. split; [exact Hin|]. cbn. rewrite edge_eqb_sym. exact Hp.
Qed.

(* ... and every pair named by some row holds one *)
Lemma final_attr_some el k : In k (map fst (rows el)) -> exists a, final_attr el (norm k) = Some a.
Proof.
  intros Hk. rewrite final_attr_lastmatch. apply lastmatch_exists_some.
  destruct (build_dict_keys _ _ Hk) as [v Hv]. exists k, v. split; [exact Hv|apply edge_eqb_refl].
Qed.

Lemma occurrences_in_nrows el e a : In a (occurrences el e) -> In (e, a) (nrows el).
Proof.
  unfold occurrences, nrows. intros H. apply in_map_iff in H. destruct H as [[k v] [Hv Hin]]. cbn in Hv. subst v.
  apply filter_In in Hin. destruct Hin as [Hin Hp]. cbn in Hp.
  destruct (edge_eqb_spec (norm k) e) as [<-|]; [|discriminate].
  apply in_map_iff. exists (k, a). split; [reflexivity|exact Hin].
Qed.

(* --- nodes: only "every vertex below N" is needed --- *)
Lemma nodes_below el :
  (forall v, In v (endpoints (el_edges el)) -> v < length (el_jds el)) ->
  node_jds (n_nodes (to_network el)) (length (n_nodes (to_network el))) 0 = Some (el_jds el).
Proof.
  intros Hv.
  set (N := length (el_jds el)).
  set (l := nodup_nat (seq 0 N ++ endpoints (el_edges el))).
  assert (Hmem : forall v, In v l <-> v < N).
  { intros v. unfold l. rewrite nodup_nat_In, in_app_iff, in_seq. split.
    - intros [H|H]; [lia|apply Hv; exact H].
    - intros H. left. lia. }
  assert (Hndl : NoDup l) by apply nodup_nat_NoDup.
  assert (Hlen : length l = N).
  { rewrite <- (seq_length N 0). apply Permutation_length. apply NoDup_Permutation.
    - exact Hndl.
    - apply seq_NoDup.
    - intros v. rewrite Hmem, in_seq. lia. }
  assert (Hfst : map fst (n_nodes (to_network el)) = l) by apply to_network_nodes.
  assert (Hlen' : length (n_nodes (to_network el)) = N).
  { rewrite <- Hlen, <- Hfst, map_length. reflexivity. }
  rewrite Hlen'. rewrite (node_jds_ok _ (el_jds el) N 0).
  - unfold N. rewrite map_nth_seq. reflexivity.
  - rewrite Hfst. exact Hndl.
  - intros i Hi. unfold to_network. cbn [n_nodes]. apply in_map_iff. exists i. split.
    + fold N. rewrite (proj2 (Nat.ltb_lt i N)) by lia. reflexivity.
    + apply Hmem. lia.
Qed.

(* --- edges --- *)
Lemma edge_cols_total (es : list (edge * option (nat * nat))) :
  (forall e, ~ In (e, None) es) ->
  exists rs, edge_cols es = Some rs /\ es = map (fun r => (fst r, Some (snd r))) rs.
Proof.
  induction es as [|[e [a|]] es IH]; intros H.
  - exists []. split; reflexivity.
  - destruct IH as [rs [H1 H2]]. { intros e' Hin. apply (H e'). right. exact Hin. }
    exists ((e, a) :: rs). cbn. rewrite H1. split; [reflexivity|]. cbn. rewrite <- H2. reflexivity.
  - exfalso. apply (H e). left. reflexivity.
Qed.

Lemma n_edges_final el :
  n_edges (to_network el) = map (fun e => (e, final_attr el e)) (nodup_edges (map norm (el_edges el))).
Proof. reflexivity. Qed.

Lemma rows_of_cols (rs : list (edge * (nat * nat))) :
  combine (map fst rs) (combine (map (fun r => fst (snd r)) rs) (map (fun r => snd (snd r)) rs)) = rs.
Proof. induction rs as [|[e [a b]] rs IH]; cbn; [reflexivity|]. rewrite IH. reflexivity. Qed.

(* the precise description of the returned list *)
Theorem roundtrip_general el : wf_el el = true ->
  exists el', to_edgelist (to_network el) = Some el' /\
    el_jds el' = el_jds el /\
    el_edges el' = nodup_edges (map norm (el_edges el)) /\
    length (el_names el') = length (el_edges el') /\
    length (el_ids el') = length (el_edges el') /\
    (forall e a, In (e, a) (rows el') <-> (In e (el_edges el') /\ final_attr el e = Some a)).
Proof.
  intros Hwf. destruct (wf_el_unpack el Hwf) as [Hv [Hl1 Hl2]].
  destruct (edge_cols_total (n_edges (to_network el))) as [rs [Hrs Hes]].
  { intros e Hin. rewrite n_edges_final in Hin. apply in_map_iff in Hin.
    destruct Hin as [e' [[= -> Hf] Hin]]. apply (proj1 (nodup_edges_In _ _)) in Hin.
    apply in_map_iff in Hin. destruct Hin as [e0 [<- Hin0]].
    destruct (final_attr_some el e0) as [a Ha]; [rewrite (rows_fst el Hl1 Hl2); exact Hin0|]. congruence. }
  unfold to_edgelist. rewrite (nodes_below el Hv), Hrs. eexists. split; [reflexivity|].
  cbn [el_jds el_edges el_names el_ids].
  assert (Hfst : map fst rs = nodup_edges (map norm (el_edges el))).
  { rewrite <- to_network_edges, Hes, map_map. reflexivity. }
  split; [reflexivity|]. split; [exact Hfst|]. split; [rewrite !map_length; reflexivity|].
  split; [rewrite !map_length; reflexivity|].
  intros e a. unfold rows. cbn [el_edges el_names el_ids]. rewrite rows_of_cols, Hfst.
  assert (Hiff : In (e, a) rs <-> In (e, Some a) (n_edges (to_network el))).
  { rewrite Hes. rewrite in_map_iff. split.
    - intros H. exists (e, a). split; [reflexivity|exact H].
    - intros [[e' a'] [[= -> ->] H]]. exact H. }
  rewrite Hiff, n_edges_final, in_map_iff. split.
  - intros [e' [[= -> Hf] Hin]]. split; [exact Hin|exact Hf].
  - intros [Hin Hf]. exists e. split; [rewrite Hf; reflexivity|exact Hin].
Qed.

(* ... and what it means: one row per unordered pair of the list, normalised orientation, carrying the
   attribute the network holds for the pair, which is the attribute of one of the rows naming it *)
Definition Spec_back (el el' : elist) : Prop :=
  el_jds el' = el_jds el /\
  length (el_names el') = length (el_edges el') /\
  length (el_ids el') = length (el_edges el') /\
  map fst (rows el') = el_edges el' /\
  NoDup (el_edges el') /\
  (forall e, In e (el_edges el') <-> (norm e = e /\ exists e0, In e0 (el_edges el) /\ norm e0 = e)) /\
  (forall e a, In (e, a) (rows el') <-> (In e (el_edges el') /\ final_attr el e = Some a)) /\
  (forall r, In r (rows el') -> In r (nrows el)) /\
  (forall e a r, In (e, a) (rows el') -> occurrences el e = [r] -> a = r).

Theorem roundtrip_general_spec el : wf_el el = true ->
  exists el', to_edgelist (to_network el) = Some el' /\ Spec_back el el'.
Proof.
  intros Hwf. destruct (roundtrip_general el Hwf) as [el' [H0 [H1 [H2 [H3 [H4 H5]]]]]].
  exists el'. split; [exact H0|]. unfold Spec_back.
  split; [exact H1|]. split; [exact H3|]. split; [exact H4|].
  split; [apply rows_fst; assumption|].
  split; [rewrite H2; apply nodup_edges_NoDup|].
  split.
  { intros e. rewrite H2, nodup_edges_In, in_map_iff. split.
    - intros [e0 [<- Hin]]. split; [apply norm_idem|]. exists e0. split; [exact Hin|reflexivity].
    - intros [_ [e0 [Hin He]]]. exists e0. split; assumption. }
  split; [exact H5|].
  split.
  { intros [e a] Hin. apply H5 in Hin. destruct Hin as [_ Hf].
    apply occurrences_in_nrows. apply final_attr_in. exact Hf. }
  intros e a r Hin Hocc. apply H5 in Hin. destruct Hin as [_ Hf].
  rewrite (final_attr_once el e r Hocc) in Hf. congruence.
Qed.

(* a pair whose rows all carry the same attribute keeps it, however often it is repeated *)
Lemma spec_back_agree el el' e a b :
  Spec_back el el' -> In (e, a) (rows el') -> (forall x, In x (occurrences el e) -> x = b) -> a = b.
Proof.
  intros [_ [_ [_ [_ [_ [_ [H5 _]]]]]]] Hin Hall. apply H5 in Hin. destruct Hin as [_ Hf].
  apply Hall. apply final_attr_in. exact Hf.
Qed.

(* ================= (c) the error lemma ================= *)
Lemma node_jds_fail (nodes : list (nat * option jd)) n k i :
  k <= i < k + n ->
  (forall d, find (fun p => Nat.eqb (fst p) i) nodes <> Some (i, Some d)) ->
  node_jds nodes n k = None.
Proof.
  revert k. induction n as [|n IH]; intros k Hi Hf; [lia|]. cbn.
  destruct (find (fun p => Nat.eqb (fst p) k) nodes) as [[k' [d|]]|] eqn:E; try reflexivity.
  assert (Hk' : k' = k).
  { apply find_some in E. destruct E as [_ E]. cbn in E. apply Nat.eqb_eq in E. exact E. }
  subst k'.
  destruct (Nat.eq_dec i k) as [->|Hne].
  - exfalso. apply (Hf d). exact E.
  - rewrite (IH (S k)); [reflexivity|lia|exact Hf].
Qed.

Lemma find_key_in (nodes : list (nat * option jd)) i p :
  find (fun p => Nat.eqb (fst p) i) nodes = Some p -> In p nodes /\ fst p = i.
Proof. intros H. apply find_some in H. destruct H as [H1 H2]. split; [exact H1|apply Nat.eqb_eq; exact H2]. Qed.

(* when an edge names a vertex >= N, the back conversion raises (the model's KeyError value) *)
Theorem back_conversion_error el v :
  In v (endpoints (el_edges el)) -> length (el_jds el) <= v -> to_edgelist (to_network el) = None.
Proof.
  intros Hin Hge.
  set (N := length (el_jds el)).
  assert (Hnone : node_jds (n_nodes (to_network el)) (length (n_nodes (to_network el))) 0 = None).
  { apply (node_jds_fail _ _ 0 N).
    - split; [lia|]. rewrite Nat.add_0_l.
      (* the node list has at least N+1 distinct entries *)
      rewrite <- (map_length fst (n_nodes (to_network el))), to_network_nodes. fold N.
      assert (Hle : length (v :: seq 0 N) <= length (nodup_nat (seq 0 N ++ endpoints (el_edges el)))).
      { apply NoDup_incl_length.
        - constructor; [|apply seq_NoDup]. intros H. apply in_seq in H. lia.
        - intros x [<-|Hx]; apply nodup_nat_In; apply in_or_app; [right; exact Hin|left; exact Hx]. }
      cbn [length] in Hle. rewrite seq_length in Hle. lia.
    - intros d Hf. apply find_key_in in Hf. destruct Hf as [Hf _].
      unfold to_network in Hf. cbn [n_nodes] in Hf. apply in_map_iff in Hf.
      destruct Hf as [w [[= -> Ha] _]]. fold N in Ha. rewrite Nat.ltb_irrefl in Ha. discriminate. }
  unfold to_edgelist. rewrite Hnone. reflexivity.
Qed.

Corollary c04_run_error t v :
  In v (endpoints (el_edges (dec_elist t))) -> length (el_jds (dec_elist t)) <= v ->
  c04_run t = L [enc_net (to_network (dec_elist t)); t_err 1].
Proof. intros H1 H2. unfold c04_run. rewrite (back_conversion_error _ v H1 H2). reflexivity. Qed.
