(* Proofs about the split-degree / delta loader model (Model/Split.v). *)
From Coq Require Import List ZArith QArith Qabs Bool Arith Lia Setoid Morphisms FinFun.
From GV Require Import Lib.Tree Lib.QSumS Model.Split.
Import ListNotations.
Local Open Scope nat_scope.

(* ================================================================== *)
(* 1. the recursive generator                                          *)
(* ================================================================== *)

Lemma wsum_from_app s a b :
  wsum_from s (a ++ b) = wsum_from s a + wsum_from (s + length a) b.
Proof.
  revert s. induction a as [|x a IH]; intros s; cbn [wsum_from app length].
  - rewrite Nat.add_0_r. reflexivity.
  - rewrite IH. replace (S s + length a) with (s + S (length a)) by lia. lia.
Qed.

Lemma wsum_from_zeros s n : wsum_from s (repeat 0 n) = 0.
Proof. revert s. induction n as [|n IH]; intros s; cbn [repeat wsum_from]; [reflexivity|]. rewrite IH. lia. Qed.

Lemma wsum_pure_key M k : wsum (pure_key M k) = k.
Proof. unfold wsum, pure_key. cbn [wsum_from]. rewrite wsum_from_zeros. lia. Qed.

Lemma length_pure_key M k : M <> 0 -> length (pure_key M k) = M.
Proof. intros HM. unfold pure_key. cbn [length]. rewrite repeat_length. lia. Qed.

Lemma valid_SS T' k :
  valid (S (S T')) k =
  flat_map (fun i => map (fun row => row ++ [i]) (valid (S T') (k - i * S (S T'))))
           (seq 0 (k / S (S T') + 1)).
Proof. reflexivity. Qed.

Lemma div_bound i k t : t <> 0 -> (i < k / t + 1 <-> i * t <= k).
Proof.
  intros Ht. split; intros H.
  - assert (i <= k / t) by lia.
    pose proof (Nat.mul_div_le k t Ht). nia.
  - assert (i <= k / t); [|lia]. apply Nat.div_le_lower_bound; [exact Ht|lia].
Qed.

(* valid_spec: the generator enumerates exactly the vectors of length T using k edges *)
Lemma valid_spec T k jd :
  T <> 0 -> (In jd (valid T k) <-> length jd = T /\ wsum jd = k).
Proof.
  destruct T as [|T']; [congruence|]. intros _. revert k jd.
  induction T' as [|T' IH]; intros k jd.
  - cbn [valid In]. split.
    + intros [<-|[]]. unfold wsum. cbn. split; lia.
    + intros [Hl Hw]. destruct jd as [|x [|y r]]; cbn in Hl; try lia.
      unfold wsum in Hw. cbn in Hw. left. f_equal. lia.
  - rewrite valid_SS, in_flat_map. split.
    + intros [i [Hi Hrow]]. apply in_map_iff in Hrow. destruct Hrow as [row [<- Hrow]].
      apply in_seq in Hi. apply IH in Hrow. destruct Hrow as [Hl Hw].
      assert (Hik : i * S (S T') <= k) by (apply div_bound; lia).
      split.
      * rewrite app_length. cbn [length]. lia.
      * unfold wsum in *. rewrite wsum_from_app. cbn [wsum_from]. rewrite Hw, Hl. lia.
    + intros [Hl Hw].
      destruct (exists_last (l := jd)) as [row [i Hjd]]; [intros ->; cbn in Hl; lia|].
      subst jd. rewrite app_length in Hl. cbn [length] in Hl.
      unfold wsum in Hw. rewrite wsum_from_app in Hw. cbn [wsum_from] in Hw.
      assert (Hlr : length row = S T') by lia. rewrite Hlr in Hw.
      exists i. split.
      * apply in_seq. split; [lia|]. cbn [plus]. apply div_bound; lia.
      * apply in_map_iff. exists row. split; [reflexivity|]. apply IH. split; [exact Hlr|].
        unfold wsum. lia.
Qed.

Lemma valid_NoDup T k : NoDup (valid T k).
Proof.
  destruct T as [|T']; [constructor|]. revert k.
  induction T' as [|T' IH]; intros k.
  - cbn. constructor; [intros []|constructor].
  - rewrite valid_SS.
    apply NoDup_flat_map_sep with (h := fun jd : key => last jd 0).
    + apply seq_NoDup.
    + intros i _. apply Injective_map_NoDup; [|apply IH].
      intros a b Hab. apply app_inv_tail in Hab. exact Hab.
    + intros i jd _ Hjd. apply in_map_iff in Hjd. destruct Hjd as [row [<- _]].
      apply last_last.
Qed.

Lemma valid_keys_disjoint T k k' jd :
  k <> k' -> In jd (valid T k) -> ~ In jd (valid T k').
Proof.
  intros Hne H H'. destruct T as [|T']; [exact H|].
  apply valid_spec in H; [|congruence]. apply valid_spec in H'; [|congruence].
  destruct H as [_ H], H' as [_ H']. congruence.
Qed.

Lemma valid_wsum T k jd : In jd (valid T k) -> wsum jd = k.
Proof.
  destruct T as [|T']; [intros []|]. intros H. apply valid_spec in H; [tauto|congruence].
Qed.

Lemma valid_has_pure T k : T <> 0 -> In (pure_key T k) (valid T k).
Proof.
  intros HT. apply valid_spec; [exact HT|]. split; [apply length_pure_key; exact HT|apply wsum_pure_key].
Qed.

Lemma valid_nonempty T k : T <> 0 -> valid T k <> [].
Proof. intros HT Hnil. pose proof (valid_has_pure T k HT) as H. rewrite Hnil in H. exact H. Qed.

(* ================================================================== *)
(* 2. the dict: upsert on fresh keys is concatenation                  *)
(* ================================================================== *)

Lemma key_eqb_eq a b : key_eqb a b = true <-> a = b.
Proof.
  revert b. induction a as [|x a IH]; intros [|y b]; cbn [key_eqb]; try (split; [discriminate|congruence]).
  - tauto.
  - rewrite andb_true_iff, Nat.eqb_eq, IH. split; [intros [-> ->]; reflexivity|intros [= -> ->]; tauto].
Qed.

Lemma key_eqb_refl a : key_eqb a a = true.
Proof. apply key_eqb_eq. reflexivity. Qed.

Lemma key_eqb_neq a b : a <> b -> key_eqb a b = false.
Proof. intros H. destruct (key_eqb a b) eqn:E; [apply key_eqb_eq in E; contradiction|reflexivity]. Qed.

Lemma memb_In k l : memb k l = true <-> In k l.
Proof.
  unfold memb. rewrite existsb_exists. split.
  - intros [x [Hx E]]. apply key_eqb_eq in E. subst. exact Hx.
  - intros H. exists k. split; [exact H|apply key_eqb_refl].
Qed.

Lemma nodupb_NoDup l : nodupb l = true <-> NoDup l.
Proof.
  induction l as [|x r IH]; cbn [nodupb].
  - split; [constructor|reflexivity].
  - rewrite andb_true_iff, negb_true_iff, IH. split.
    + intros [Hm Hr]. constructor; [|exact Hr]. intros Hin. apply memb_In in Hin. congruence.
    + intros H. inversion H as [|x' r' Hn Hr]; subst. split; [|exact Hr].
      destruct (memb x r) eqn:E; [apply memb_In in E; contradiction|reflexivity].
Qed.

Lemma upsert_fresh d k v : ~ In k (map fst d) -> upsert d k v = d ++ [(k, v)].
Proof.
  induction d as [|[k' v'] r IH]; intros Hn; cbn [upsert app]; [reflexivity|].
  cbn [map fst In] in Hn. rewrite key_eqb_neq by (intros ->; apply Hn; left; reflexivity).
  rewrite IH; [reflexivity|]. intros H. apply Hn. right. exact H.
Qed.

Lemma fold_upsert_fresh (h : Q -> Q) (g : key -> Q) (l : list key) (d : dict) :
  NoDup l -> (forall x, In x l -> ~ In x (map fst d)) ->
  fold_left (fun d' jw => upsert d' (fst jw) (h (snd jw))) (map (fun jd => (jd, g jd)) l) d
  = d ++ map (fun jd => (jd, h (g jd))) l.
Proof.
  revert d. induction l as [|x l IH]; intros d Hnd Hfresh; cbn [map fold_left].
  - rewrite app_nil_r. reflexivity.
  - inversion Hnd as [|x' l' Hx Hl]; subst. cbn [fst snd].
    rewrite upsert_fresh by (apply Hfresh; left; reflexivity).
    rewrite IH.
    + rewrite <- app_assoc. reflexivity.
    + exact Hl.
    + intros y Hy. rewrite map_app, in_app_iff. cbn [map fst In]. intros [H|[H|[]]].
      * apply (Hfresh y); [right; exact Hy|exact H].
      * subst. contradiction.
Qed.

Lemma combine_map_self {A B} (f : A -> B) (l : list A) :
  combine l (map f l) = map (fun x => (x, f x)) l.
Proof. induction l as [|x l IH]; cbn; [reflexivity|]. rewrite IH. reflexivity. Qed.

Lemma map_flat_map' {A B C} (g : B -> C) (f : A -> list B) l :
  map g (flat_map f l) = flat_map (fun a => map g (f a)) l.
Proof. induction l as [|a r IH]; cbn [flat_map map]; [reflexivity|]. rewrite map_app, IH. reflexivity. Qed.

(* dictionaries up to == on the values *)
Definition dict_eq (d1 d2 : dict) : Prop :=
  Forall2 (fun a b => fst a = fst b /\ (snd a == snd b)%Q) d1 d2.

Lemma dict_eq_keys d1 d2 : dict_eq d1 d2 -> map fst d1 = map fst d2.
Proof. induction 1 as [|a b l1 l2 [Hk _] _ IH]; cbn; [reflexivity|]. rewrite Hk, IH. reflexivity. Qed.

Lemma dict_eq_vals d1 d2 : dict_eq d1 d2 -> Forall2 Qeq (map snd d1) (map snd d2).
Proof. induction 1 as [|a b l1 l2 [_ Hv] _ IH]; cbn; constructor; assumption. Qed.

Lemma dict_eq_In d1 d2 jd v :
  dict_eq d1 d2 -> In (jd, v) d1 -> exists v', In (jd, v') d2 /\ (v == v')%Q.
Proof.
  induction 1 as [|a b l1 l2 [Hk Hv] _ IH]; intros Hin; [contradiction|].
  destruct Hin as [->|Hin].
  - destruct b as [k' v']. cbn in Hk, Hv. subst k'. exists v'. split; [left; reflexivity|exact Hv].
  - destruct (IH Hin) as [v' [H1 H2]]. exists v'. split; [right; exact H1|exact H2].
Qed.

Lemma dict_eq_filter (p : key -> bool) d1 d2 :
  dict_eq d1 d2 ->
  dict_eq (filter (fun kv => p (fst kv)) d1) (filter (fun kv => p (fst kv)) d2).
Proof.
  induction 1 as [|a b l1 l2 [Hk Hv] _ IH]; cbn [filter]; [constructor|].
  rewrite Hk. destruct (p (fst b)); [constructor; [split; assumption|exact IH]|exact IH].
Qed.

Lemma dict_eq_app a b c d : dict_eq a b -> dict_eq c d -> dict_eq (a ++ c) (b ++ d).
Proof. apply Forall2_app. Qed.

Lemma dict_eq_map_same {A} (f g : A -> key * Q) l :
  (forall x, In x l -> fst (f x) = fst (g x) /\ (snd (f x) == snd (g x))%Q) ->
  dict_eq (map f l) (map g l).
Proof.
  induction l as [|x l IH]; intros H; cbn [map]; constructor.
  - apply H. left. reflexivity.
  - apply IH. intros y Hy. apply H. right. exact Hy.
Qed.

Lemma dict_eq_flat_map {A} (f g : A -> dict) l :
  (forall x, In x l -> dict_eq (f x) (g x)) -> dict_eq (flat_map f l) (flat_map g l).
Proof.
  induction l as [|x l IH]; intros H; cbn [flat_map]; [constructor|].
  apply dict_eq_app; [apply H; left; reflexivity|]. apply IH. intros y Hy. apply H. right. exact Hy.
Qed.

Lemma dict_eq_map_both (f g : key * Q -> key * Q) d1 d2 :
  dict_eq d1 d2 ->
  (forall a b, fst a = fst b -> (snd a == snd b)%Q -> fst (f a) = fst (g b) /\ (snd (f a) == snd (g b))%Q) ->
  dict_eq (map f d1) (map g d2).
Proof.
  intros H Hfg. induction H as [|a b l1 l2 [Hk Hv] _ IH]; cbn [map]; constructor; [|exact IH].
  apply Hfg; assumption.
Qed.

(* ================================================================== *)
(* 3. resolve_degree / the loop of create_jdd / normalise_jdd          *)
(* ================================================================== *)

Lemma match_nonempty {A B} (l : list A) (x y : B) :
  l <> [] -> match l with [] => x | _ :: _ => y end = y.
Proof. destruct l; [congruence|reflexivity]. Qed.

Lemma resolve_unfold probs d k pk :
  probs <> [] ->
  resolve probs d k pk =
  match valid (length probs) k with
  | [] => Ok d
  | _ :: _ =>
      if Qeq_bool (rsum (map (weight probs) (valid (length probs) k))) 0 then Err E_ZERODIV
      else Ok (fold_left (fun d' jw => upsert d' (fst jw)
                 (rmul pk (rdiv (snd jw) (rsum (map (weight probs) (valid (length probs) k))))))
               (combine (valid (length probs) k) (map (weight probs) (valid (length probs) k))) d)
  end.
Proof. destruct probs; [congruence|reflexivity]. Qed.

Lemma length_nonnil {A} (l : list A) : length l <> 0 -> l <> [].
Proof. destruct l; cbn; congruence. Qed.

Lemma resolve_fresh probs d k pk :
  T probs <> 0 -> ~ (W probs k == 0)%Q ->
  (forall jd, In jd (valid (T probs) k) -> ~ In jd (map fst d)) ->
  resolve probs d k pk =
  Ok (d ++ map (fun jd => (jd, rmul pk (rdiv (weight probs jd)
                                 (rsum (map (weight probs) (valid (T probs) k))))))
               (valid (T probs) k)).
Proof.
  unfold T, W. intros HT HW Hfresh.
  rewrite resolve_unfold by (apply length_nonnil; exact HT).
  rewrite match_nonempty by (apply valid_nonempty; exact HT).
  destruct (Qeq_bool (rsum (map (weight probs) (valid (length probs) k))) 0) eqn:E.
  - exfalso. apply HW. apply Qeq_bool_eq in E. rewrite <- rsum_eq. exact E.
  - rewrite combine_map_self.
    rewrite (fold_upsert_fresh
               (fun w => rmul pk (rdiv w (rsum (map (weight probs) (valid (length probs) k)))))
               (weight probs)).
    + reflexivity.
    + apply valid_NoDup.
    + exact Hfresh.
Qed.

Lemma resolve_zero_W probs d k pk :
  T probs <> 0 -> (W probs k == 0)%Q -> resolve probs d k pk = Err E_ZERODIV.
Proof.
  unfold T, W. intros HT HW.
  rewrite resolve_unfold by (apply length_nonnil; exact HT).
  rewrite match_nonempty by (apply valid_nonempty; exact HT).
  destruct (Qeq_bool (rsum (map (weight probs) (valid (length probs) k))) 0) eqn:E; [reflexivity|].
  exfalso. apply Qeq_bool_neq in E. apply E. rewrite rsum_eq. exact HW.
Qed.

Lemma resolve_no_topology d k pk : resolve [] d k pk = Err E_ZERODIV.
Proof. reflexivity. Qed.

Section GenP.
  Variable sp : nat -> bool.
  Variable M : nat.
  Variable probs : list Q.
  Variable fp : nat -> Q.
  Variables lo hi : nat.

  Local Notation T := (T probs).
  Local Notation krange := (krange lo hi).
  Local Notation W := (W probs).
  Local Notation F := (F fp lo hi).
  Local Notation share := (share sp probs).
  Local Notation keys_k := (keys_k sp M probs).
  Local Notation raw_block := (raw_block sp M probs fp).
  Local Notation raw := (raw sp M probs fp lo hi).
  Local Notation final := (final sp M probs fp lo hi).
  Local Notation step := (step sp M probs fp).
  Local Notation create := (create sp M probs fp lo hi).

  (* the inputs the code accepts *)
  Definition HypK (k : nat) : Prop :=
    if sp k then T <> 0 /\ ~ (W k == 0)%Q else M <> 0.
  Definition Hyp : Prop := (forall k, In k krange -> HypK k) /\ ~ (F == 0)%Q.

  Lemma in_krange k : In k krange <-> lo <= k < hi.
  Proof. unfold Split.krange. rewrite in_seq. lia. Qed.

  Lemma krange_NoDup : NoDup krange.
  Proof. apply seq_NoDup. Qed.

  Lemma keys_k_wsum k jd : In jd (keys_k k) -> wsum jd = k.
  Proof.
    unfold Split.keys_k. destruct (sp k).
    - apply valid_wsum.
    - intros [<-|[]]. apply wsum_pure_key.
  Qed.

  Lemma keys_k_NoDup k : NoDup (keys_k k).
  Proof.
    unfold Split.keys_k. destruct (sp k); [apply valid_NoDup|]. constructor; [intros []|constructor].
  Qed.

  (* what one iteration appends, as the model computes it *)
  Definition model_block (k : nat) : dict :=
    if sp k then
      map (fun jd => (jd, rmul (fp k) (rdiv (weight probs jd) (rsum (map (weight probs) (valid T k))))))
          (valid T k)
    else [(pure_key M k, fp k)].

  Lemma model_block_keys k : map fst (model_block k) = keys_k k.
  Proof.
    unfold model_block, Split.keys_k. destruct (sp k); [|reflexivity].
    rewrite map_map. cbn [fst]. apply map_id.
  Qed.

  Lemma step_fresh d k :
    HypK k -> (forall jd, In jd (keys_k k) -> ~ In jd (map fst d)) ->
    step d k = Ok (d ++ model_block k).
  Proof.
    unfold HypK, Split.step, model_block, Split.keys_k. destruct (sp k).
    - intros [HT HW] Hfresh. apply resolve_fresh; assumption.
    - intros HM Hfresh. destruct M as [|M']; [congruence|].
      rewrite upsert_fresh; [reflexivity|]. apply Hfresh. left. reflexivity.
  Qed.

  Lemma loop_fresh ks d :
    NoDup ks -> (forall k, In k ks -> HypK k) ->
    (forall k jd, In k ks -> In jd (keys_k k) -> ~ In jd (map fst d)) ->
    loop step ks d = Ok (d ++ flat_map model_block ks).
  Proof.
    revert d. induction ks as [|k ks IH]; intros d Hnd Hhyp Hfresh; cbn [loop flat_map].
    - rewrite app_nil_r. reflexivity.
    - inversion Hnd as [|k' ks' Hk Hks]; subst.
      rewrite step_fresh.
      + rewrite IH.
        * rewrite <- app_assoc. reflexivity.
        * exact Hks.
        * intros k' Hk'. apply Hhyp. right. exact Hk'.
        * intros k' jd Hk' Hjd. rewrite map_app, in_app_iff, model_block_keys. intros [H|H].
          -- apply (Hfresh k' jd); [right; exact Hk'|exact Hjd|exact H].
          -- apply keys_k_wsum in Hjd. apply keys_k_wsum in H. apply Hk. congruence.
      + apply Hhyp. left. reflexivity.
      + intros jd Hjd. apply (Hfresh k jd); [left; reflexivity|exact Hjd].
  Qed.

  Lemma share_sum k : In k krange -> HypK k -> (qsum (map (share k) (keys_k k)) == 1)%Q.
  Proof.
    intros _. unfold HypK, Split.share, Split.keys_k. destruct (sp k).
    - intros [_ HW]. rewrite (qsum_map_div (W k) (weight probs)). fold (W k).
      field. exact HW.
    - intros _. cbn. ring.
  Qed.

  Lemma model_block_eq k : dict_eq (model_block k) (raw_block k).
  Proof.
    unfold model_block, Split.raw_block, Split.keys_k, Split.share. destruct (sp k).
    - apply dict_eq_map_same. intros jd _. cbn [fst snd]. split; [reflexivity|].
      rewrite rmul_eq, rdiv_eq, rsum_eq. reflexivity.
    - cbn [map]. constructor; [|constructor]. cbn [fst snd]. split; [reflexivity|ring].
  Qed.

  Lemma raw_block_sum k : In k krange -> HypK k -> (qsum (map snd (raw_block k)) == fp k)%Q.
  Proof.
    intros Hk Hh. unfold Split.raw_block. rewrite map_map. cbn [snd].
    rewrite (qsum_map_scale (fp k) (share k)). rewrite share_sum by assumption. ring.
  Qed.

  Lemma raw_sum : (forall k, In k krange -> HypK k) -> (qsum (map snd raw) == F)%Q.
  Proof.
    intros Hh. unfold Split.raw, Split.F. rewrite qsum_flat_map.
    apply qsum_map_ext. intros k Hk. apply raw_block_sum; [exact Hk|apply Hh; exact Hk].
  Qed.

  (* the whole of create_jdd under the hypotheses: no exception, the table is [final] *)
  Lemma create_ok : Hyp -> exists d, create = Ok d /\ dict_eq d final.
  Proof.
    intros [Hh HF]. unfold Split.create.
    rewrite loop_fresh; [|apply krange_NoDup|exact Hh|intros k jd _ _ []].
    cbn [app].
    assert (Heq : dict_eq (flat_map model_block krange) raw).
    { unfold Split.raw. apply dict_eq_flat_map. intros k _. apply model_block_eq. }
    assert (Hs : (rsum (map snd (flat_map model_block krange)) == F)%Q).
    { rewrite rsum_eq. rewrite (qsum_Forall2 _ _ (dict_eq_vals _ _ Heq)). apply raw_sum. exact Hh. }
    unfold normalise. destruct (flat_map model_block krange) as [|kv mr] eqn:Em.
    - exists []. split; [reflexivity|]. unfold Split.final. inversion Heq. constructor.
    - destruct (Qeq_bool (rsum (map snd (kv :: mr))) 0) eqn:E.
      + exfalso. apply HF. apply Qeq_bool_eq in E. rewrite <- Hs. exact E.
      + eexists. split; [reflexivity|]. unfold Split.final.
        apply dict_eq_map_both; [exact Heq|].
        intros a b Hk Hv. cbn [fst snd]. split; [exact Hk|]. rewrite rdiv_eq, Hs, Hv. reflexivity.
  Qed.

  (* ================================================================== *)
  (* 4. the property (Spec) and the model's table                        *)
  (* ================================================================== *)

  Definition admissible (k : nat) (jd : key) : Prop :=
    if sp k then length jd = T /\ wsum jd = k else jd = pure_key M k.

  (* exact form *)
  Definition SpecX (d : dict) : Prop :=
    NoDup (map fst d) /\
    (forall jd, In jd (map fst d) <-> (lo <= wsum jd < hi /\ admissible (wsum jd) jd)) /\
    (forall k, lo <= k < hi -> (mass d k == fp k / F)%Q) /\
    (forall jd v, In (jd, v) d -> (v == fp (wsum jd) / F * share (wsum jd) jd)%Q) /\
    (qsum (map snd d) == 1)%Q.

  (* the same within a tolerance (what can be asked of floating point) *)
  Definition Spec (eps : Q) (d : dict) : Prop :=
    NoDup (map fst d) /\
    (forall jd, In jd (map fst d) <-> (lo <= wsum jd < hi /\ admissible (wsum jd) jd)) /\
    (forall k, lo <= k < hi -> (Qabs (mass d k - fp k / F) <= eps)%Q) /\
    (forall jd v, In (jd, v) d -> (Qabs (v - fp (wsum jd) / F * share (wsum jd) jd) <= eps)%Q) /\
    (Qabs (qsum (map snd d) - 1) <= eps)%Q.

  Lemma keys_k_admissible k jd : HypK k -> (In jd (keys_k k) <-> admissible k jd).
  Proof.
    unfold HypK, Split.keys_k, admissible. destruct (sp k).
    - intros [HT _]. apply valid_spec. exact HT.
    - intros _. cbn [In]. split; [intros [<-|[]]; reflexivity|intros ->; left; reflexivity].
  Qed.

  Lemma raw_block_keys k : map fst (raw_block k) = keys_k k.
  Proof. unfold Split.raw_block. rewrite map_map. cbn [fst]. apply map_id. Qed.

  Lemma final_keys : map fst final = flat_map keys_k krange.
  Proof.
    unfold Split.final. rewrite map_map. cbn [fst]. unfold Split.raw. rewrite map_flat_map'.
    apply flat_map_ext. intros k. apply raw_block_keys.
  Qed.

  Lemma allkeys_NoDup : NoDup (flat_map keys_k krange).
  Proof.
    apply NoDup_flat_map_sep with (h := wsum).
    - apply krange_NoDup.
    - intros k _. apply keys_k_NoDup.
    - intros k jd _. apply keys_k_wsum.
  Qed.

  Lemma allkeys_In jd :
    (forall k, In k krange -> HypK k) ->
    (In jd (flat_map keys_k krange) <-> (lo <= wsum jd < hi /\ admissible (wsum jd) jd)).
  Proof.
    intros Hh. rewrite in_flat_map. split.
    - intros [k [Hk Hjd]]. pose proof (keys_k_wsum k jd Hjd) as Hw. subst k.
      split; [apply in_krange; exact Hk|]. apply keys_k_admissible; [apply Hh; exact Hk|exact Hjd].
    - intros [Hr Ha]. exists (wsum jd). apply in_krange in Hr. split; [exact Hr|].
      apply keys_k_admissible; [apply Hh; exact Hr|exact Ha].
  Qed.

  Lemma final_In jd v :
    In (jd, v) final ->
    exists k, In k krange /\ In jd (keys_k k) /\ v = (fp k * share k jd / F)%Q.
  Proof.
    unfold Split.final, Split.raw. intros H. apply in_map_iff in H. destruct H as [[jd0 v0] [E H]].
    cbn [fst snd] in E. injection E as -> <-.
    apply in_flat_map in H. destruct H as [k [Hk H]]. unfold Split.raw_block in H.
    apply in_map_iff in H. destruct H as [jd1 [E H]]. injection E as -> <-.
    exists k. split; [exact Hk|]. split; [exact H|reflexivity].
  Qed.

  Lemma final_blocks :
    final = flat_map (fun k => map (fun kv => (fst kv, (snd kv / F)%Q)) (raw_block k)) krange.
  Proof. unfold Split.final, Split.raw. apply map_flat_map'. Qed.

  Lemma mass_final k :
    (forall k, In k krange -> HypK k) -> In k krange -> (mass final k == fp k / F)%Q.
  Proof.
    intros Hh Hk. unfold mass. rewrite final_blocks.
    rewrite (filter_blocks (fun kv : key * Q => Nat.eqb (wsum (fst kv)) k)
               (fun k => map (fun kv => (fst kv, (snd kv / F)%Q)) (raw_block k)) krange k).
    - rewrite map_map. cbn [snd]. rewrite (qsum_map_div F snd).
      rewrite raw_block_sum; [reflexivity|exact Hk|apply Hh; exact Hk].
    - apply krange_NoDup.
    - exact Hk.
    - intros x Hx. apply in_map_iff in Hx. destruct Hx as [kv [<- Hkv]]. cbn [fst].
      apply Nat.eqb_eq. apply keys_k_wsum. rewrite <- raw_block_keys. apply in_map. exact Hkv.
    - intros a x _ Hne Hx. apply in_map_iff in Hx. destruct Hx as [kv [<- Hkv]]. cbn [fst].
      apply Nat.eqb_neq. intros Hw. apply Hne. rewrite <- Hw. symmetry.
      apply keys_k_wsum. rewrite <- raw_block_keys. apply in_map. exact Hkv.
  Qed.

  Lemma total_final : Hyp -> (qsum (map snd final) == 1)%Q.
  Proof.
    intros [Hh HF]. unfold Split.final. rewrite map_map. cbn [snd].
    rewrite (qsum_map_div F snd). rewrite raw_sum by exact Hh. field. exact HF.
  Qed.

  Lemma SpecX_of_final d : Hyp -> dict_eq d final -> SpecX d.
  Proof.
    intros HH Heq. pose proof HH as [Hh HF].
    pose proof (dict_eq_keys _ _ Heq) as Hkeys. rewrite final_keys in Hkeys.
    unfold SpecX. rewrite Hkeys. split; [apply allkeys_NoDup|].
    split; [intros jd; apply allkeys_In; exact Hh|].
    split; [|split].
    - intros k Hk. apply in_krange in Hk.
      rewrite <- (mass_final k Hh Hk). unfold mass.
      apply qsum_Forall2. apply dict_eq_vals.
      apply (dict_eq_filter (fun jd => Nat.eqb (wsum jd) k)). exact Heq.
    - intros jd v Hin. destruct (dict_eq_In _ _ _ _ Heq Hin) as [v' [Hin' Hv]].
      apply final_In in Hin'. destruct Hin' as [k [Hk [Hjd ->]]].
      rewrite (keys_k_wsum k jd Hjd). rewrite Hv. unfold Qdiv. ring.
    - rewrite <- (total_final HH). apply qsum_Forall2. apply dict_eq_vals. exact Heq.
  Qed.

  (* THE MODEL THEOREM: on every input the code accepts, create_jdd raises nothing and the
     table it leaves satisfies the property exactly *)
  Theorem create_spec : Hyp -> exists d, create = Ok d /\ SpecX d.
  Proof.
    intros HH. destruct (create_ok HH) as [d [Hc Heq]].
    exists d. split; [exact Hc|]. apply SpecX_of_final; assumption.
  Qed.

  Lemma qabs_eq_le a b eps : (a == b)%Q -> (0 <= eps)%Q -> (Qabs (a - b) <= eps)%Q.
  Proof.
    intros Hab He. setoid_replace (a - b)%Q with 0%Q by (rewrite Hab; ring). cbn. exact He.
  Qed.

  Lemma qabs_le0_eq a b : (Qabs (a - b) <= 0)%Q -> (a == b)%Q.
  Proof.
    intros H. apply Qabs_Qle_condition in H. destruct H as [H1 H2].
    assert (Hz : (a - b == 0)%Q) by (apply Qle_antisym; [exact H2|exact H1]).
    setoid_replace a with ((a - b) + b)%Q by ring. rewrite Hz. ring.
  Qed.

  Lemma SpecX_Spec eps d : (0 <= eps)%Q -> SpecX d -> Spec eps d.
  Proof.
    intros He (H1 & H2 & H3 & H4 & H5). unfold Spec.
    split; [exact H1|]. split; [exact H2|]. split; [|split].
    - intros k Hk. apply qabs_eq_le; [apply H3; exact Hk|exact He].
    - intros jd v Hin. apply qabs_eq_le; [apply H4; exact Hin|exact He].
    - apply qabs_eq_le; assumption.
  Qed.

  Lemma Spec0_SpecX d : Spec 0 d <-> SpecX d.
  Proof.
    split; [|apply SpecX_Spec; apply Qle_refl].
    intros (H1 & H2 & H3 & H4 & H5). unfold SpecX.
    split; [exact H1|]. split; [exact H2|]. split; [|split].
    - intros k Hk. apply qabs_le0_eq. apply H3. exact Hk.
    - intros jd v Hin. apply qabs_le0_eq. apply H4. exact Hin.
    - apply qabs_le0_eq. exact H5.
  Qed.

  (* ================================================================== *)
  (* 5. the verified checker                                             *)
  (* ================================================================== *)

  Lemma in_range_iff k : in_range lo hi k = true <-> lo <= k < hi.
  Proof. unfold in_range. rewrite andb_true_iff, Nat.leb_le, Nat.ltb_lt. tauto. Qed.

  Lemma admissibleb_iff k jd : admissibleb sp M probs k jd = true <-> admissible k jd.
  Proof.
    unfold admissibleb, admissible. destruct (sp k).
    - rewrite andb_true_iff, !Nat.eqb_eq. tauto.
    - apply key_eqb_eq.
  Qed.

  Lemma qle_abs_iff x eps : qle_abs x eps = true <-> (Qabs x <= eps)%Q.
  Proof. unfold qle_abs. apply Qle_bool_iff. Qed.

  Lemma check_keys_iff ks :
    (forall k, In k krange -> HypK k) ->
    (check_keys sp M probs lo hi ks = true <->
     NoDup ks /\ (forall jd, In jd ks <-> (lo <= wsum jd < hi /\ admissible (wsum jd) jd))).
  Proof.
    intros Hh. unfold check_keys. rewrite !andb_true_iff, nodupb_NoDup, !forallb_forall. split.
    - intros [[Hnd Hk] Hall]. split; [exact Hnd|]. intros jd. split.
      + intros Hin. specialize (Hk jd Hin). apply andb_true_iff in Hk. destruct Hk as [Hr Ha].
        split; [apply in_range_iff; exact Hr|apply admissibleb_iff; exact Ha].
      + intros [Hr Ha]. apply in_krange in Hr. specialize (Hall _ Hr).
        rewrite forallb_forall in Hall. apply memb_In. apply Hall.
        apply keys_k_admissible; [apply Hh; exact Hr|exact Ha].
    - intros [Hnd Hiff]. split; [split; [exact Hnd|]|].
      + intros jd Hin. apply Hiff in Hin. destruct Hin as [Hr Ha]. apply andb_true_iff.
        split; [apply in_range_iff; exact Hr|apply admissibleb_iff; exact Ha].
      + intros k Hk. apply forallb_forall. intros jd Hjd. apply memb_In. apply Hiff.
        rewrite (keys_k_wsum k jd Hjd). split; [apply in_krange; exact Hk|].
        apply keys_k_admissible; [apply Hh; exact Hk|exact Hjd].
  Qed.

  Lemma check_mass_iff eps d :
    check_mass fp lo hi eps d = true <->
    (forall k, lo <= k < hi -> (Qabs (mass d k - fp k / F) <= eps)%Q).
  Proof.
    unfold check_mass. rewrite forallb_forall. split.
    - intros H k Hk. apply qle_abs_iff. apply H. apply in_krange. exact Hk.
    - intros H k Hk. apply qle_abs_iff. apply H. apply in_krange. exact Hk.
  Qed.

  Lemma check_within_iff eps d :
    check_within sp probs fp lo hi eps d = true <->
    (forall jd v, In (jd, v) d -> (Qabs (v - fp (wsum jd) / F * share (wsum jd) jd) <= eps)%Q).
  Proof.
    unfold check_within. rewrite forallb_forall. split.
    - intros H jd v Hin. apply qle_abs_iff. apply (H (jd, v) Hin).
    - intros H [jd v] Hin. apply qle_abs_iff. cbn [fst snd]. apply H. exact Hin.
  Qed.

  (* the checker decides the Spec (for every tolerance), on every input the code accepts *)
  Theorem check_iff eps d :
    (forall k, In k krange -> HypK k) ->
    (check sp M probs fp lo hi eps d = true <-> Spec eps d).
  Proof.
    intros Hh. unfold check, Spec.
    rewrite !andb_true_iff, (check_keys_iff _ Hh), check_mass_iff, check_within_iff.
    unfold check_total. rewrite qle_abs_iff. tauto.
  Qed.

  (* the model's table passes the checker, for every tolerance >= 0 *)
  Theorem create_check eps :
    Hyp -> (0 <= eps)%Q -> exists d, create = Ok d /\ check sp M probs fp lo hi eps d = true.
  Proof.
    intros HH He. destruct (create_spec HH) as [d [Hc Hs]]. exists d. split; [exact Hc|].
    apply check_iff; [apply HH|]. apply SpecX_Spec; assumption.
  Qed.

  Lemma Qeq_bool_false_iff x y : Qeq_bool x y = false <-> ~ (x == y)%Q.
  Proof.
    split; [apply Qeq_bool_neq|]. intros H. destruct (Qeq_bool x y) eqn:E; [|reflexivity].
    apply Qeq_bool_eq in E. contradiction.
  Qed.

  Lemma hyp_ok_iff : hyp_ok sp M probs fp lo hi = true <-> Hyp.
  Proof.
    unfold hyp_ok, Hyp. rewrite andb_true_iff, forallb_forall, negb_true_iff, Qeq_bool_false_iff.
    assert (Hk : forall k,
      (if sp k then negb (Nat.eqb T 0) && negb (Qeq_bool (W k) 0) else negb (Nat.eqb M 0)) = true
      <-> HypK k).
    { intros k. unfold HypK. destruct (sp k).
      - rewrite andb_true_iff, !negb_true_iff, Nat.eqb_neq, Qeq_bool_false_iff. tauto.
      - rewrite negb_true_iff, Nat.eqb_neq. tauto. }
    split; intros [H1 H2]; (split; [|exact H2]); intros k Hin; apply Hk; apply H1; exact Hin.
  Qed.
End GenP.

Lemma create_spec_inv sp M probs fp lo hi d :
  Hyp sp M probs fp lo hi -> create sp M probs fp lo hi = Ok d -> SpecX sp M probs fp lo hi d.
Proof.
  intros HH Hc. destruct (create_spec sp M probs fp lo hi HH) as [d' [Hc' Hs]].
  rewrite Hc in Hc'. injection Hc' as ->. exact Hs.
Qed.

(* ================================================================== *)
(* 6. the split-degree loader                                          *)
(* ================================================================== *)

Definition HypSplit (probs : list Q) (fp : nat -> Q) (lo hi : nat) : Prop :=
  T probs <> 0 /\ (forall k, lo <= k < hi -> ~ (W probs k == 0)%Q) /\ ~ (F fp lo hi == 0)%Q.

Lemma HypSplit_Hyp probs fp lo hi : HypSplit probs fp lo hi -> Hyp sp_split 0 probs fp lo hi.
Proof.
  intros (HT & HW & HF). split; [|exact HF]. intros k Hk. unfold HypK, sp_split.
  split; [exact HT|]. apply HW. apply in_krange. exact Hk.
Qed.

Lemma split_no_exception probs fp lo hi :
  HypSplit probs fp lo hi -> exists d, create_split probs fp lo hi = Ok d.
Proof.
  intros HH. destruct (create_spec _ _ _ _ _ _ (HypSplit_Hyp _ _ _ _ HH)) as [d [Hc _]].
  exists d. exact Hc.
Qed.

Lemma split_keys probs fp lo hi d :
  HypSplit probs fp lo hi -> create_split probs fp lo hi = Ok d ->
  NoDup (map fst d) /\
  (forall jd, In jd (map fst d) <-> (length jd = T probs /\ lo <= wsum jd < hi)).
Proof.
  intros HH Hc. destruct (create_spec_inv _ _ _ _ _ _ _ (HypSplit_Hyp _ _ _ _ HH) Hc) as (H1 & H2 & _).
  split; [exact H1|]. intros jd. rewrite H2. unfold admissible, sp_split. tauto.
Qed.

Lemma split_mass probs fp lo hi d :
  HypSplit probs fp lo hi -> create_split probs fp lo hi = Ok d ->
  forall k, lo <= k < hi -> (mass d k == fp k / F fp lo hi)%Q.
Proof.
  intros HH Hc. destruct (create_spec_inv _ _ _ _ _ _ _ (HypSplit_Hyp _ _ _ _ HH) Hc) as (_ & _ & H3 & _).
  exact H3.
Qed.

Lemma split_within probs fp lo hi d :
  HypSplit probs fp lo hi -> create_split probs fp lo hi = Ok d ->
  forall jd v, In (jd, v) d ->
    (v == fp (wsum jd) / F fp lo hi * (weight probs jd / W probs (wsum jd)))%Q.
Proof.
  intros HH Hc. destruct (create_spec_inv _ _ _ _ _ _ _ (HypSplit_Hyp _ _ _ _ HH) Hc) as (_ & _ & _ & H4 & _).
  exact H4.
Qed.

Lemma split_total probs fp lo hi d :
  HypSplit probs fp lo hi -> create_split probs fp lo hi = Ok d -> (qsum (map snd d) == 1)%Q.
Proof.
  intros HH Hc. destruct (create_spec_inv _ _ _ _ _ _ _ (HypSplit_Hyp _ _ _ _ HH) Hc) as (_ & _ & _ & _ & H5).
  exact H5.
Qed.

(* ================================================================== *)
(* 7. the delta loader                                                 *)
(* ================================================================== *)

Definition HypDelta (target : Z) (M : nat) (probs : list Q) (fp : nat -> Q) (lo hi : nat) : Prop :=
  (forall k, lo <= k < hi -> Z.of_nat k <> target -> M <> 0) /\
  (forall k, lo <= k < hi -> Z.of_nat k = target -> T probs <> 0 /\ ~ (W probs k == 0)%Q) /\
  ~ (F fp lo hi == 0)%Q.

Lemma sp_delta_true target k : sp_delta target k = true <-> Z.of_nat k = target.
Proof. unfold sp_delta. apply Z.eqb_eq. Qed.

Lemma sp_delta_false target k : sp_delta target k = false <-> Z.of_nat k <> target.
Proof. unfold sp_delta. apply Z.eqb_neq. Qed.

Lemma HypDelta_Hyp target M probs fp lo hi :
  HypDelta target M probs fp lo hi -> Hyp (sp_delta target) M probs fp lo hi.
Proof.
  intros (HM & HT & HF). split; [|exact HF]. intros k Hk. apply in_krange in Hk. unfold HypK.
  destruct (sp_delta target k) eqn:E.
  - apply HT; [exact Hk|]. apply sp_delta_true. exact E.
  - apply (HM k); [exact Hk|]. apply sp_delta_false. exact E.
Qed.

Lemma delta_no_exception target M probs fp lo hi :
  HypDelta target M probs fp lo hi -> exists d, create_delta target M probs fp lo hi = Ok d.
Proof.
  intros HH. destruct (create_spec _ _ _ _ _ _ (HypDelta_Hyp _ _ _ _ _ _ HH)) as [d [Hc _]].
  exists d. exact Hc.
Qed.

Lemma delta_spec target M probs fp lo hi d :
  HypDelta target M probs fp lo hi -> create_delta target M probs fp lo hi = Ok d ->
  NoDup (map fst d) /\
  (forall jd, In jd (map fst d) -> lo <= wsum jd < hi) /\
  (* away from the target: the only key using k edges is (k,0,...,0), its value is fp k / F *)
  (forall k, lo <= k < hi -> Z.of_nat k <> target ->
     (forall jd, (In jd (map fst d) /\ wsum jd = k) <-> jd = pure_key M k) /\
     (forall v, In (pure_key M k, v) d -> (v == fp k / F fp lo hi)%Q)) /\
  (* at the target: all splits, each with its share *)
  (forall k, lo <= k < hi -> Z.of_nat k = target ->
     (forall jd, (In jd (map fst d) /\ wsum jd = k) <-> (length jd = T probs /\ wsum jd = k)) /\
     (forall jd v, In (jd, v) d -> wsum jd = k ->
        (v == fp k / F fp lo hi * (weight probs jd / W probs k))%Q)) /\
  (forall k, lo <= k < hi -> (mass d k == fp k / F fp lo hi)%Q) /\
  (qsum (map snd d) == 1)%Q.
Proof.
  intros HH Hc.
  destruct (create_spec_inv _ _ _ _ _ _ _ (HypDelta_Hyp _ _ _ _ _ _ HH) Hc) as (H1 & H2 & H3 & H4 & H5).
  split; [exact H1|]. split; [intros jd Hin; apply H2 in Hin; tauto|].
  split; [|split; [|split; [exact H3|exact H5]]].
  - intros k Hk Hne. apply sp_delta_false in Hne. split.
    + intros jd. rewrite H2. unfold admissible. split.
      * intros [[_ Ha] Hw]. rewrite Hw, Hne in Ha. exact Ha.
      * intros ->. rewrite wsum_pure_key, Hne. tauto.
    + intros v Hin. specialize (H4 _ _ Hin). rewrite wsum_pure_key in H4. unfold share in H4.
      rewrite Hne in H4. rewrite H4. ring.
  - intros k Hk He. apply sp_delta_true in He. split.
    + intros jd. rewrite H2. unfold admissible. split.
      * intros [[_ Ha] Hw]. rewrite Hw, He in Ha. split; [apply Ha|exact Hw].
      * intros [Hl Hw]. rewrite Hw, He. tauto.
    + intros jd v Hin Hw. specialize (H4 _ _ Hin). rewrite Hw in H4. unfold share in H4.
      rewrite He in H4. exact H4.
Qed.

(* target outside the range: no split at all, whatever probs is (even no topology) *)
Lemma dict_eq_trans a b c : dict_eq a b -> dict_eq b c -> dict_eq a c.
Proof.
  intros Hab. revert c. induction Hab as [|x y l1 l2 [Hk Hv] _ IH]; intros c Hbc; inversion Hbc; subst.
  - constructor.
  - constructor; [|apply IH; assumption].
    match goal with H : _ /\ _ |- _ => destruct H as [Hk' Hv'] end.
    split; [congruence|]. rewrite Hv. exact Hv'.
Qed.

Lemma pure_blocks sp M probs fp (c : Q) l :
  (forall k, In k l -> sp k = false) ->
  dict_eq (flat_map (fun k => map (fun kv : key * Q => (fst kv, (snd kv / c)%Q)) (raw_block sp M probs fp k)) l)
          (map (fun k => (pure_key M k, (fp k / c)%Q)) l).
Proof.
  induction l as [|k l IH]; intros Hsp; [constructor|].
  cbn [flat_map map]. unfold raw_block at 1, keys_k, share.
  rewrite (Hsp k (or_introl eq_refl)). cbn [map app fst snd]. constructor.
  - cbn [fst snd]. split; [reflexivity|]. unfold Qdiv. ring.
  - apply IH. intros k' Hk'. apply Hsp. right. exact Hk'.
Qed.

Lemma delta_target_outside target M probs fp lo hi :
  (forall k, lo <= k < hi -> Z.of_nat k <> target) -> M <> 0 -> ~ (F fp lo hi == 0)%Q ->
  exists d, create_delta target M probs fp lo hi = Ok d /\
            dict_eq d (map (fun k => (pure_key M k, (fp k / F fp lo hi)%Q)) (seq lo (hi - lo))).
Proof.
  intros Hout HM HF.
  assert (HH : HypDelta target M probs fp lo hi).
  { split; [intros; exact HM|]. split; [|exact HF]. intros k Hk He. exfalso. apply (Hout k Hk He). }
  destruct (create_ok _ _ _ _ _ _ (HypDelta_Hyp _ _ _ _ _ _ HH)) as [d [Hc Heq]].
  exists d. split; [exact Hc|]. eapply dict_eq_trans; [exact Heq|].
  rewrite final_blocks. apply pure_blocks.
  intros k Hk. apply sp_delta_false. apply Hout. apply in_krange. exact Hk.
Qed.

(* ================================================================== *)
(* 8. the exception branch: the model raises exactly outside [Hyp]     *)
(* ================================================================== *)

Lemma resolve_T0 probs d k pk : T probs = 0 -> resolve probs d k pk = Err E_ZERODIV.
Proof. destruct probs; [reflexivity|discriminate]. Qed.

Lemma loop_app f a b d :
  loop f (a ++ b) d = match loop f a d with Ok d' => loop f b d' | Err c => Err c end.
Proof.
  revert d. induction a as [|k a IH]; intros d; cbn [loop app]; [reflexivity|].
  destruct (f d k); [apply IH|reflexivity].
Qed.

Lemma NoDup_app_l {A} (a b : list A) : NoDup (a ++ b) -> NoDup a.
Proof.
  induction a as [|x a IH]; cbn [app]; intros H; [constructor|].
  inversion H as [|x' l' Hx Hl]; subst. constructor; [|apply IH; exact Hl].
  intros Hin. apply Hx. apply in_app_iff. left. exact Hin.
Qed.

Lemma first_failure {A} (P : A -> Prop) (l : list A) :
  (forall x, P x \/ ~ P x) ->
  (forall x, In x l -> P x) \/
  (exists pre x post, l = pre ++ x :: post /\ (forall y, In y pre -> P y) /\ ~ P x).
Proof.
  intros Hdec. induction l as [|a l IH].
  - left. intros x [].
  - destruct (Hdec a) as [Ha|Ha].
    + destruct IH as [IH|[pre [x [post [E [Hpre Hx]]]]]].
      * left. intros x [<-|Hx]; [exact Ha|apply IH; exact Hx].
      * right. exists (a :: pre), x, post. split; [rewrite E; reflexivity|].
        split; [|exact Hx]. intros y [<-|Hy]; [exact Ha|apply Hpre; exact Hy].
    + right. exists [], a, l. split; [reflexivity|]. split; [intros y []|exact Ha].
Qed.

Section Errors.
  Variable sp : nat -> bool.
  Variable M : nat.
  Variable probs : list Q.
  Variable fp : nat -> Q.
  Variables lo hi : nat.

  Definition err_class (k : nat) : Z := if sp k then E_ZERODIV else E_INDEX.

  Lemma HypK_dec k : HypK sp M probs k \/ ~ HypK sp M probs k.
  Proof.
    unfold HypK. destruct (sp k).
    - destruct (Nat.eq_dec (T probs) 0) as [HT|HT]; [right; tauto|].
      destruct (Qeq_dec (W probs k) 0) as [HW|HW]; [right; tauto|left; tauto].
    - destruct (Nat.eq_dec M 0); [right; tauto|left; assumption].
  Qed.

  Lemma step_err d k :
    ~ HypK sp M probs k -> step sp M probs fp d k = Err (err_class k).
  Proof.
    unfold HypK, step, err_class. destruct (sp k).
    - intros Hn. destruct (Nat.eq_dec (T probs) 0) as [HT|HT]; [apply resolve_T0; exact HT|].
      destruct (Qeq_dec (W probs k) 0) as [HW|HW]; [apply resolve_zero_W; assumption|].
      exfalso. apply Hn. split; assumption.
    - intros Hn. destruct M as [|M']; [reflexivity|]. exfalso. apply Hn. congruence.
  Qed.

  (* the first degree outside the hypotheses decides the exception class *)
  Lemma create_err_first pre k0 post :
    krange lo hi = pre ++ k0 :: post ->
    (forall k, In k pre -> HypK sp M probs k) -> ~ HypK sp M probs k0 ->
    create sp M probs fp lo hi = Err (err_class k0).
  Proof.
    intros E Hpre Hk0. unfold create. rewrite E, loop_app.
    rewrite loop_fresh.
    - cbn [loop app]. rewrite step_err by exact Hk0. reflexivity.
    - pose proof (krange_NoDup lo hi) as Hnd. rewrite E in Hnd. apply NoDup_app_l in Hnd. exact Hnd.
    - exact Hpre.
    - intros k jd _ _ [].
  Qed.

  Lemma keys_k_inhabited k : HypK sp M probs k -> exists jd, In jd (keys_k sp M probs k).
  Proof.
    unfold HypK, keys_k. destruct (sp k).
    - intros [HT _]. exists (pure_key (T probs) k). apply valid_has_pure. exact HT.
    - intros _. exists (pure_key M k). left. reflexivity.
  Qed.

  Lemma model_blocks_keys l :
    map fst (flat_map (model_block sp M probs fp) l) = flat_map (keys_k sp M probs) l.
  Proof. rewrite map_flat_map'. apply flat_map_ext. intros k. apply model_block_keys. Qed.

  (* all degrees fine but the degree function sums to zero: normalise_jdd divides by zero *)
  Lemma create_err_F :
    (forall k, In k (krange lo hi) -> HypK sp M probs k) -> lo < hi -> (F fp lo hi == 0)%Q ->
    create sp M probs fp lo hi = Err E_ZERODIV.
  Proof.
    intros Hh Hlt HF. unfold create.
    rewrite loop_fresh; [|apply krange_NoDup|exact Hh|intros k jd _ _ []].
    cbn [app].
    assert (Heq : dict_eq (flat_map (model_block sp M probs fp) (krange lo hi)) (raw sp M probs fp lo hi)).
    { unfold raw. apply dict_eq_flat_map. intros k _. apply model_block_eq. }
    assert (Hs : (rsum (map snd (flat_map (model_block sp M probs fp) (krange lo hi))) == 0)%Q).
    { rewrite rsum_eq. rewrite (qsum_Forall2 _ _ (dict_eq_vals _ _ Heq)).
      rewrite raw_sum by exact Hh. exact HF. }
    unfold normalise.
    destruct (flat_map (model_block sp M probs fp) (krange lo hi)) as [|kv mr] eqn:Em.
    - exfalso. assert (Hlo : In lo (krange lo hi)) by (apply in_krange; lia).
      destruct (keys_k_inhabited lo (Hh lo Hlo)) as [jd Hjd].
      assert (Hin : In jd (flat_map (keys_k sp M probs) (krange lo hi))).
      { apply in_flat_map. exists lo. split; assumption. }
      rewrite <- model_blocks_keys, Em in Hin. exact Hin.
    - apply Qeq_bool_iff in Hs. rewrite Hs. reflexivity.
  Qed.

  (* converse of create_ok: a table is returned only on the inputs of [Hyp] (or the empty range) *)
  Theorem create_ok_only_if d :
    create sp M probs fp lo hi = Ok d -> hi <= lo \/ Hyp sp M probs fp lo hi.
  Proof.
    intros Hc. destruct (le_lt_dec hi lo) as [Hle|Hlt]; [left; exact Hle|right].
    destruct (first_failure (HypK sp M probs) (krange lo hi) HypK_dec)
      as [Hall|[pre [k0 [post [E [Hpre Hk0]]]]]].
    - split; [exact Hall|]. intros HF. rewrite (create_err_F Hall Hlt HF) in Hc. discriminate.
    - rewrite (create_err_first pre k0 post E Hpre Hk0) in Hc. discriminate.
  Qed.

  Lemma create_empty_range : hi <= lo -> create sp M probs fp lo hi = Ok [].
  Proof.
    intros Hle. unfold create, krange. replace (hi - lo) with 0 by lia. reflexivity.
  Qed.
End Errors.

(* the malformed stream of the split-degree loader: every failure is a ZeroDivisionError *)
Lemma split_zero_division probs fp lo hi :
  lo < hi ->
  (T probs = 0 \/ (exists k, lo <= k < hi /\ (W probs k == 0)%Q) \/ (F fp lo hi == 0)%Q) ->
  create_split probs fp lo hi = Err E_ZERODIV.
Proof.
  intros Hlt Hbad. unfold create_split.
  destruct (first_failure (HypK sp_split 0 probs) (krange lo hi) (HypK_dec sp_split 0 probs fp))
    as [Hall|[pre [k0 [post [E [Hpre Hk0]]]]]].
  - destruct Hbad as [HT|[[k [Hk HW]]|HF]].
    + exfalso. assert (Hlo : In lo (krange lo hi)) by (apply in_krange; lia).
      destruct (Hall lo Hlo) as [HT' _]. contradiction.
    + exfalso. apply in_krange in Hk. destruct (Hall k Hk) as [_ HW']. contradiction.
    + apply create_err_F; assumption.
  - rewrite (create_err_first sp_split 0 probs fp lo hi pre k0 post E Hpre Hk0). reflexivity.
Qed.

(* ================================================================== *)
(* 9. boolean forms of the hypotheses; the wire-level checker          *)
(* ================================================================== *)

Lemma HypSplit_iff probs fp lo hi :
  lo < hi -> (hyp_ok sp_split 0 probs fp lo hi = true <-> HypSplit probs fp lo hi).
Proof.
  intros Hlt. rewrite hyp_ok_iff. split; [|apply HypSplit_Hyp].
  intros [Hh HF]. split; [|split; [|exact HF]].
  - assert (Hlo : In lo (krange lo hi)) by (apply in_krange; lia). apply (Hh lo Hlo).
  - intros k Hk. apply in_krange in Hk. apply (Hh k Hk).
Qed.

Lemma HypDelta_iff target M probs fp lo hi :
  hyp_ok (sp_delta target) M probs fp lo hi = true <-> HypDelta target M probs fp lo hi.
Proof.
  rewrite hyp_ok_iff. split; [|apply HypDelta_Hyp].
  intros [Hh HF]. split; [|split; [|exact HF]].
  - intros k Hk Hne. apply in_krange in Hk. specialize (Hh k Hk). unfold HypK in Hh.
    apply sp_delta_false in Hne. rewrite Hne in Hh. exact Hh.
  - intros k Hk He. apply in_krange in Hk. specialize (Hh k Hk). unfold HypK in Hh.
    apply sp_delta_true in He. rewrite He in Hh. exact Hh.
Qed.

(* what an answer 1 of the extracted checker means *)
Lemma c07_check_sound t :
  c07_check t = I 1%Z ->
  let mode := t_z (t_nth 0 t) in
  let probs := t_qs (t_nth 1 t) in
  let M := t_nat (t_nth 2 t) in
  let lo := t_nat (t_nth 3 t) in
  let hi := t_nat (t_nth 4 t) in
  let target := t_z (t_nth 5 t) in
  let fp := table_fp lo (t_qs (t_nth 6 t)) in
  let eps := t_q (t_nth 7 t) in
  let d := dec_dict (t_nth 8 t) in
  Hyp (mode_sp mode target) M probs fp lo hi /\
  Spec (mode_sp mode target) M probs fp lo hi eps d.
Proof.
  unfold c07_check. cbv zeta.
  destruct (hyp_ok _ _ _ _ _ _) eqn:E; [|discriminate].
  destruct (check _ _ _ _ _ _ _ _) eqn:C; cbn [of_bool]; [|discriminate].
  intros _. apply hyp_ok_iff in E. split; [exact E|]. apply check_iff; [apply E|exact C].
Qed.

Lemma c07_check_complete t :
  let mode := t_z (t_nth 0 t) in
  let probs := t_qs (t_nth 1 t) in
  let M := t_nat (t_nth 2 t) in
  let lo := t_nat (t_nth 3 t) in
  let hi := t_nat (t_nth 4 t) in
  let target := t_z (t_nth 5 t) in
  let fp := table_fp lo (t_qs (t_nth 6 t)) in
  let eps := t_q (t_nth 7 t) in
  let d := dec_dict (t_nth 8 t) in
  Hyp (mode_sp mode target) M probs fp lo hi ->
  Spec (mode_sp mode target) M probs fp lo hi eps d ->
  c07_check t = I 1%Z.
Proof.
  cbv zeta. intros HH HS. unfold c07_check. cbv zeta.
  pose proof HH as HH'. apply hyp_ok_iff in HH'. rewrite HH'.
  apply check_iff in HS; [|apply HH]. rewrite HS. reflexivity.
Qed.

(* ================================================================== *)
(* 10. corollaries: literal proportionality; W_k > 0 for probabilities *)
(* ================================================================== *)

(* two splits of the same degree share its mass in proportion to their weights *)
Lemma split_proportional probs fp lo hi d :
  HypSplit probs fp lo hi -> create_split probs fp lo hi = Ok d ->
  forall jd1 v1 jd2 v2, In (jd1, v1) d -> In (jd2, v2) d -> wsum jd1 = wsum jd2 ->
    (v1 * weight probs jd2 == v2 * weight probs jd1)%Q.
Proof.
  intros HH Hc jd1 v1 jd2 v2 H1 H2 Hw.
  rewrite (split_within _ _ _ _ _ HH Hc _ _ H1), (split_within _ _ _ _ _ HH Hc _ _ H2), Hw.
  unfold Qdiv. ring.
Qed.

Lemma qpow_nonneg q n : (0 <= q)%Q -> (0 <= qpow q n)%Q.
Proof.
  intros Hq. induction n as [|n IH]; cbn [qpow]; [discriminate|]. apply Qmult_le_0_compat; assumption.
Qed.

Lemma qpow_pos q n : (0 < q)%Q -> (0 < qpow q n)%Q.
Proof.
  intros Hq. induction n as [|n IH]; cbn [qpow]; [reflexivity|]. apply Qmult_lt_0_compat; assumption.
Qed.

Lemma weight_from_nonneg s probs jd : Forall (fun p => 0 <= p)%Q probs -> (0 <= weight_from s probs jd)%Q.
Proof.
  intros Hp. revert s jd. induction Hp as [|p ps Hp0 _ IH]; intros s jd; [cbn; discriminate|].
  destruct jd as [|x r]; cbn [weight_from]; [discriminate|].
  apply Qmult_le_0_compat; [apply qpow_nonneg; exact Hp0|apply IH].
Qed.

Lemma weight_from_zeros s probs n : (weight_from s probs (repeat 0%nat n) == 1)%Q.
Proof.
  revert s n. induction probs as [|p ps IH]; intros s n; [reflexivity|].
  destruct n as [|n]; cbn [repeat weight_from]; [reflexivity|].
  rewrite Nat.mul_0_r. cbn [qpow]. rewrite IH. ring.
Qed.

Lemma qsum_nonneg_ge l x : Forall (fun y => 0 <= y)%Q l -> In x l -> (x <= qsum l)%Q.
Proof.
  intros Hl. induction Hl as [|y l Hy Hl IH]; intros Hin; [contradiction|]. cbn [qsum].
  assert (Hs : (0 <= qsum l)%Q).
  { clear IH Hin. induction Hl as [|z l Hz _ IHl]; cbn [qsum]; [discriminate|].
    setoid_replace 0%Q with (0 + 0)%Q by ring. apply Qplus_le_compat; assumption. }
  destruct Hin as [->|Hin].
  - setoid_replace x with (x + 0)%Q at 1 by ring. apply Qplus_le_compat; [apply Qle_refl|exact Hs].
  - setoid_replace x with (0 + x)%Q by ring. apply Qplus_le_compat; [exact Hy|apply IH; exact Hin].
Qed.

(* DESIGN: "W_k <> 0 (true when probs_0 > 0)" for a vector of probabilities *)
Lemma W_pos p0 ps k :
  (0 < p0)%Q -> Forall (fun p => 0 <= p)%Q ps -> (0 < W (p0 :: ps) k)%Q.
Proof.
  intros Hp0 Hps. unfold W.
  assert (HT : T (p0 :: ps) <> 0) by (unfold T; cbn; congruence).
  pose proof (valid_has_pure (T (p0 :: ps)) k HT) as Hin.
  apply (in_map (weight (p0 :: ps))) in Hin.
  eapply Qlt_le_trans; [|apply qsum_nonneg_ge; [|exact Hin]].
  - unfold weight, pure_key. cbn [weight_from]. rewrite weight_from_zeros.
    setoid_replace (qpow p0 (1 * k) * 1)%Q with (qpow p0 (1 * k)) by ring. apply qpow_pos. exact Hp0.
  - apply Forall_forall. intros y Hy. apply in_map_iff in Hy. destruct Hy as [jd [<- _]].
    apply weight_from_nonneg. constructor; [apply Qlt_le_weak; exact Hp0|exact Hps].
Qed.

Lemma HypSplit_of_probabilities p0 ps fp lo hi :
  (0 < p0)%Q -> Forall (fun p => 0 <= p)%Q ps -> ~ (F fp lo hi == 0)%Q -> HypSplit (p0 :: ps) fp lo hi.
Proof.
  intros Hp0 Hps HF. split; [unfold T; cbn; congruence|]. split; [|exact HF].
  intros k _ HW. pose proof (W_pos p0 ps k Hp0 Hps) as H. rewrite HW in H. discriminate.
Qed.
