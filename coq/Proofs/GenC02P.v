(* Growth of C02: COMPLETENESS of the verified checker c02_okb (soundness is c02_okb_sound in
   Proofs/GenP.v), hence the checker decides "every raw entry is a pair /\ Spec_C02". *)
From Coq Require Import List ZArith Bool Arith Lia Permutation.
From GV Require Import Lib.Tree Lib.GenList Model.Gen Proofs.GenP.
Import ListNotations.

Lemma is_pair_tree_complete : forall t, IsPairTree t -> is_pair_tree t = true.
Proof.
  intros t [a [b ->]]. cbn. apply andb_true_iff. split; apply Z.leb_le; apply Nat2Z.is_nonneg.
Qed.

Lemma is_pair_tree_iff : forall t, is_pair_tree t = true <-> IsPairTree t.
Proof. intros. split; [apply is_pair_tree_sound|apply is_pair_tree_complete]. Qed.

Lemma DistinctIds_tail : forall (b : list row) blks, DistinctIds (b :: blks) -> DistinctIds blks.
Proof. intros b blks D x y u w Hxy Hu Hw. apply (D (S x) (S y) u w); [lia|exact Hu|exact Hw]. Qed.

Lemma blocks_okb_complete : forall custom names results blks seen,
  Forall2 (block_ok custom names) results blks ->
  DistinctIds blks ->
  (forall b x, In x (nth b blks []) -> ~ In (r_id x) seen) ->
  blocks_okb custom names results (concat blks) seen = true.
Proof.
  intros custom names results blks seen F. revert seen.
  induction F as [|[j sh] blk results blks [B1 [B2 B3]] F IH]; intros seen D SN; [reflexivity|].
  cbn [fst snd] in B1, B2. cbn [blocks_okb concat]. cbv zeta.
  assert (Hlen : length blk = length (edges_of sh)) by (rewrite <- B1; now rewrite map_length).
  assert (Hf : firstn (length (edges_of sh)) (blk ++ concat blks) = blk).
  { rewrite <- Hlen. rewrite firstn_app, Nat.sub_diag, firstn_all. cbn. apply app_nil_r. }
  assert (Hs : skipn (length (edges_of sh)) (blk ++ concat blks) = concat blks).
  { rewrite <- Hlen. rewrite skipn_app, Nat.sub_diag, skipn_all. reflexivity. }
  rewrite Hf, Hs, B1, B2.
  rewrite (proj2 (pairs_eqb_eq _ _) eq_refl), (proj2 (list_eqb_eq _ _) eq_refl). cbn [andb].
  destruct blk as [|r blk'].
  - apply IH; [eapply DistinctIds_tail; eauto|]. intros b x Hx. apply (SN (S b) x Hx).
  - rewrite !andb_true_iff. split; [split|].
    + apply forallb_forall. intros x Hx. apply Nat.eqb_eq. apply B3; [exact Hx|now left].
    + apply negb_true_iff. destruct (memb (r_id r) seen) eqn:E; [|reflexivity].
      apply memb_In in E. exfalso. apply (SN 0 r); [now left|exact E].
    + apply IH; [eapply DistinctIds_tail; eauto|].
      intros b x Hx [E|Hin].
      * apply (D 0 (S b) r x); [lia|now left|exact Hx|exact E].
      * apply (SN (S b) x Hx Hin).
Qed.

Theorem c02_okb_complete : forall custom names results ce_raw cn ci,
  Forall IsPairTree ce_raw -> Spec_C02 custom names results (map t_pair ce_raw) cn ci ->
  c02_okb custom names results ce_raw cn ci = true.
Proof.
  intros custom names results ce_raw cn ci HP [L1 [L2 [blks [Z [F D]]]]].
  unfold c02_okb. rewrite map_length in L1. rewrite !andb_true_iff. repeat split.
  - now apply Nat.eqb_eq.
  - now apply Nat.eqb_eq.
  - apply forallb_forall. intros t Ht. apply is_pair_tree_complete.
    rewrite Forall_forall in HP. now apply HP.
  - rewrite Z. apply blocks_okb_complete; [exact F|exact D|]. intros b x _ [].
Qed.

Theorem c02_okb_correct : forall custom names results ce_raw cn ci,
  c02_okb custom names results ce_raw cn ci = true <->
  Forall IsPairTree ce_raw /\ Spec_C02 custom names results (map t_pair ce_raw) cn ci.
Proof.
  intros. split; [apply c02_okb_sound|]. intros [H1 H2]. now apply c02_okb_complete.
Qed.

(* a raw column made of pairs is what the wire encoder [of_pairs] produces; decoding gives the pairs back *)
Lemma t_pair_of_pair : forall e, t_pair (of_pair e) = e.
Proof.
  intros [a b]. unfold t_pair, t_nat, t_nth, of_pair, of_nat. cbn [t_list nth t_z fst snd].
  now rewrite !Nat2Z.id.
Qed.

Lemma raw_pairs_decode : forall ce, map t_pair (map of_pair ce) = ce.
Proof.
  intros ce. rewrite map_map. rewrite <- (map_id ce) at 2. apply map_ext. apply t_pair_of_pair.
Qed.

Lemma raw_pairs_are_pairs : forall ce, Forall IsPairTree (map of_pair ce).
Proof.
  intros ce. apply Forall_forall. intros t Ht. apply in_map_iff in Ht.
  destruct Ht as [[a b] [<- _]]. now exists a, b.
Qed.

(* the model's columns pass the verified checker: all inputs, all callbacks, all schedules *)
Theorem gen_fast_passes_c02 : forall build sizes names jds pis cs ce cn ci,
  gen_fast build sizes (map (hd 0) names) jds pis = Ok (cs, (ce, cn, ci)) ->
  exists results, Results build cs results /\
    c02_okb false names results (map of_pair ce) cn ci = true.
Proof.
  intros build sizes names jds pis cs ce cn ci H.
  destruct (gen_fast_C02 _ _ _ _ _ _ _ _ _ H) as [results [R [_ S]]].
  exists results. split; [exact R|]. apply c02_okb_complete; [apply raw_pairs_are_pairs|].
  now rewrite raw_pairs_decode.
Qed.

Theorem gen_custom_passes_c02 : forall build sizes names mis jds pis cs ce cn ci,
  gen_custom build sizes names mis jds pis = Ok (cs, (ce, cn, ci)) ->
  NamesOk build names cs ->
  exists results, Results build cs results /\
    c02_okb true names results (map of_pair ce) cn ci = true.
Proof.
  intros build sizes names mis jds pis cs ce cn ci H NO.
  destruct (gen_custom_C02 _ _ _ _ _ _ _ _ _ _ H NO) as [results [R [_ S]]].
  exists results. split; [exact R|]. apply c02_okb_complete; [apply raw_pairs_are_pairs|].
  now rewrite raw_pairs_decode.
Qed.
