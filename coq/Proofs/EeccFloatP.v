(* C09: the binary64 rounding model is positive on positive rationals, hence the model's zero test
   ([score_zero]: no shared edge, or at most 2 vertices) is exactly the code's `r[c] == 0` on the float. *)
From Coq Require Import List Arith Bool ZArith QArith Lia.
From GV Require Import Lib.Tree Lib.GraphE Model.Eecc.
Import ListNotations.

Local Open Scope Z_scope.

Lemma fl_core_pos : forall n d : positive,
  let e0 := Z.log2 (Zpos n) - Z.log2 (Zpos d) - 52 in
  let n1 := if e0 <? 0 then Z.shiftl (Zpos n) (- e0) else Zpos n in
  let d1 := if e0 <? 0 then Zpos d else Z.shiftl (Zpos d) e0 in
  0 < d1 <= n1.
Proof.
  intros n d e0 n1 d1.
  destruct (Z.log2_spec (Zpos n)) as [Hn1 Hn2]; [reflexivity |].
  destruct (Z.log2_spec (Zpos d)) as [Hd1 Hd2]; [reflexivity |].
  pose proof (Z.log2_nonneg (Zpos n)) as Hln. pose proof (Z.log2_nonneg (Zpos d)) as Hld.
  set (ln := Z.log2 (Zpos n)) in *. set (ld := Z.log2 (Zpos d)) in *.
  unfold n1, d1. destruct (e0 <? 0) eqn:E.
  - apply Z.ltb_lt in E. rewrite Z.shiftl_mul_pow2 by lia. split; [reflexivity |].
    assert (H1 : 2 ^ ln * 2 ^ (- e0) <= Zpos n * 2 ^ (- e0)).
    { apply Z.mul_le_mono_nonneg_r; [apply Z.pow_nonneg; lia | exact Hn1]. }
    rewrite <- Z.pow_add_r in H1 by lia.
    assert (H2 : 2 ^ Z.succ ld <= 2 ^ (ln + - e0)) by (apply Z.pow_le_mono_r; unfold e0 in *; lia).
    lia.
  - apply Z.ltb_ge in E. rewrite Z.shiftl_mul_pow2 by lia.
    assert (Hp : 0 < 2 ^ e0) by (apply Z.pow_pos_nonneg; lia).
    split; [lia |].
    assert (H1 : Zpos d * 2 ^ e0 <= 2 ^ Z.succ ld * 2 ^ e0).
    { apply Z.mul_le_mono_nonneg_r; lia. }
    rewrite <- Z.pow_add_r in H1 by lia.
    assert (H2 : 2 ^ (Z.succ ld + e0) <= 2 ^ ln) by (apply Z.pow_le_mono_r; unfold e0 in *; lia).
    lia.
Qed.

Local Open Scope Q_scope.

Lemma Qpos_make : forall (m : Z) (p : positive), (0 < m)%Z -> 0 < Qmake m p.
Proof. intros m p H. unfold Qlt. cbn. lia. Qed.

Lemma fl_round_pos : forall q, 0 < q -> 0 < fl_round q.
Proof.
  intros [qn qd] Hq. unfold Qlt in Hq. cbn in Hq. destruct qn as [| n | n]; try lia.
  unfold fl_round. cbn [Qnum Qden].
  pose proof (fl_core_pos n qd) as Hc. cbv zeta in Hc.
  set (e0 := (Z.log2 (Zpos n) - Z.log2 (Zpos qd) - 52)%Z) in *.
  set (n1 := (if (e0 <? 0)%Z then Z.shiftl (Zpos n) (- e0) else Zpos n)) in *.
  set (d1 := (if (e0 <? 0)%Z then Zpos qd else Z.shiftl (Zpos qd) e0)) in *.
  assert (H52 : (2 ^ 52 = 4503599627370496)%Z) by reflexivity.
  assert (H53 : (2 ^ 53 = 9007199254740992)%Z) by reflexivity.
  assert (Hfin : forall n2 d2 e, (0 < d2 <= n2)%Z ->
     0 < (let m := (n2 / d2)%Z in
          let rem := (n2 - m * d2)%Z in
          let m' := (if (d2 <? 2 * rem)%Z || ((d2 =? 2 * rem)%Z && Z.odd m) then m + 1 else m)%Z in
          if (e <? 0)%Z then Qred (Qmake m' (Z.to_pos (2 ^ (- e)))) else inject_Z (m' * 2 ^ e))).
  { intros n2 d2 e [Hd Hnd]. cbv zeta.
    assert (Hm : (1 <= n2 / d2)%Z) by (apply Z.div_le_lower_bound; lia).
    set (m := (n2 / d2)%Z) in *.
    set (m' := (if (d2 <? 2 * (n2 - m * d2))%Z || ((d2 =? 2 * (n2 - m * d2))%Z && Z.odd m) then m + 1 else m)%Z).
    assert (Hm' : (0 < m')%Z) by (unfold m'; destruct ((d2 <? 2 * (n2 - m * d2))%Z || ((d2 =? 2 * (n2 - m * d2))%Z && Z.odd m)); lia).
    destruct (e <? 0)%Z eqn:E.
    - rewrite Qred_correct. apply Qpos_make. exact Hm'.
    - apply Z.ltb_ge in E. unfold Qlt, inject_Z. cbn.
      assert (0 < 2 ^ e)%Z by (apply Z.pow_pos_nonneg; lia). nia. }
  destruct (n1 <? d1 * 2 ^ 52)%Z.
  - apply Hfin. lia.
  - destruct (d1 * 2 ^ 53 <=? n1)%Z eqn:E2.
    + apply Z.leb_le in E2. apply Hfin. rewrite H53 in E2. lia.
    + apply Hfin. lia.
Qed.

Lemma fl_inv_pos : forall n, 0 < fl_inv n.
Proof. intros n. unfold fl_inv. apply fl_round_pos. unfold Qlt. cbn. lia. Qed.

Lemma fsum_nonneg : forall k x, 0 < x -> 0 <= fsum k x.
Proof.
  induction k as [| k IH]; intros x Hx; cbn [fsum]; [apply Qle_refl |].
  apply Qlt_le_weak. unfold fl_add. apply fl_round_pos.
  apply Qlt_le_trans with (y := 0 + x); [rewrite Qplus_0_l; exact Hx |].
  apply Qplus_le_compat; [apply IH; exact Hx | apply Qle_refl].
Qed.

Lemma fsum_pos : forall k x, 0 < x -> 0 < fsum (S k) x.
Proof.
  intros k x Hx. cbn [fsum]. unfold fl_add. apply fl_round_pos.
  apply Qlt_le_trans with (y := 0 + x); [rewrite Qplus_0_l; exact Hx |].
  apply Qplus_le_compat; [apply fsum_nonneg; exact Hx | apply Qle_refl].
Qed.

(* the model's zero test is the code's float comparison r[c] == 0 *)
Theorem score_zero_is_float_zero : forall C c, score_zero C c = Qeq_bool (score C c) 0.
Proof.
  intros C c. unfold score_zero, score. destruct (Nat.leb (length c) 2); [reflexivity |].
  cbn [orb]. destruct (shared_count C c) as [| k]; [reflexivity |].
  cbn [Nat.eqb]. symmetry. destruct (Qeq_bool (fsum (S k) (fl_inv (binom2 (length c)))) 0) eqn:E; [| reflexivity].
  apply Qeq_bool_iff in E. pose proof (fsum_pos k _ (fl_inv_pos (binom2 (length c)))) as H.
  rewrite E in H. exfalso. exact (Qlt_irrefl 0 H).
Qed.
