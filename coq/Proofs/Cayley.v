(* C16 growth: CAYLEY'S FORMULA  brute n (n-1) = n^(n-2)  (number of labelled trees), by the rooted-forest
   recurrence (Takacs / Renyi):  for a duplicate-free vertex list V and root list R (subset of V) let N(V,R) be
   the number of edge sets F of the complete graph on V with |F| + |R| = |V| in which every vertex reaches a
   root.  Removing a root rho, its neighbours J become roots:  N(V, rho :: R0) = sum_{J subset of V - rho} N(V - rho, R0 ++ J),
   and N(V, R) = 0 when R has a repeated element.  Induction on |V| gives |V| N(V,R) = |R| |V|^(|V|-|R|); the
   arithmetic is the binomial theorem in subset form.  Trees are the case R = [0]. *)
From Coq Require Import List ZArith QArith Qpower Bool Arith Lia Qfield.
From GV Require Import Lib.Tree Lib.Graph16 Lib.PolyRefl16 Model.QCount Model.CliqueEq
                       Proofs.QCountP Proofs.CliqueEqP Proofs.CycleGen Proofs.QQGen Proofs.CliqueGen
                       Proofs.CrossGen Proofs.CayleyRed.
Import ListNotations.

(* [edge] is a definition for nat * nat; rewriting needs the two spellings to agree syntactically *)
Tactic Notation "erw" constr(H) :=
  let h := fresh in pose proof H as h; unfold edge in h; unfold edge; rewrite h; clear h.

(* ================================================================== 1. lists *)
Lemma pairs_In : forall l x y, In (x, y) (pairs l) -> In x l /\ In y l.
Proof.
  induction l as [|a t IH]; intros x y H; [destruct H|].
  cbn [pairs] in H. apply in_app_or in H. destruct H as [H|H].
  - apply in_map_iff in H. destruct H as [b [E Hb]]. inversion E; subst. split; [left; reflexivity | right; exact Hb].
  - destruct (IH x y H). split; right; assumption.
Qed.

Lemma pairs_distinct : forall l x y, NoDup l -> In (x, y) (pairs l) -> x <> y.
Proof.
  induction l as [|a t IH]; intros x y Hnd H; [destruct H|].
  inversion Hnd as [|? ? Ha Ht]; subst. cbn [pairs] in H. apply in_app_or in H. destruct H as [H|H].
  - apply in_map_iff in H. destruct H as [b [E Hb]]. inversion E; subst. intros ->. contradiction.
  - apply (IH x y Ht H).
Qed.

Lemma subseqs_map {A B} (f : A -> B) l : subseqs (map f l) = map (map f) (subseqs l).
Proof.
  induction l as [|x t IH]; [reflexivity|]. cbn [map subseqs]. rewrite IH, map_app, !map_map. reflexivity.
Qed.

Definition neqb (rho v : nat) : bool := negb (Nat.eqb v rho).
Definition has (rho : nat) (e : edge) : bool := Nat.eqb (fst e) rho || Nat.eqb (snd e) rho.
Definition other (rho : nat) (e : edge) : nat := if Nat.eqb (fst e) rho then snd e else fst e.

Lemma filter_neqb_notin rho l : ~ In rho l -> filter (neqb rho) l = l.
Proof.
  intros H. apply filter_all. intros x Hx. unfold neqb. destruct (Nat.eqb_spec x rho); [subst; contradiction | reflexivity].
Qed.

Lemma filter_eq_single rho : forall l, NoDup l -> In rho l -> filter (fun v => Nat.eqb v rho) l = [rho].
Proof.
  induction l as [|a t IH]; intros Hnd Hin; [destruct Hin|]. inversion Hnd as [|? ? Ha Ht]; subst. cbn [filter].
  destruct (Nat.eqb_spec a rho) as [->|Hne].
  - f_equal. apply filter_none. intros x Hx. destruct (Nat.eqb_spec x rho); [subst; contradiction | reflexivity].
  - destruct Hin as [E|Hin]; [contradiction|]. apply IH; assumption.
Qed.

Lemma filter_has_none rho l : ~ In rho l -> filter (has rho) (pairs l) = [].
Proof.
  intros H. apply filter_none. intros [x y] Hxy. apply pairs_In in Hxy. destruct Hxy as [Hx Hy]. unfold has. cbn [fst snd].
  destruct (Nat.eqb_spec x rho); [subst; contradiction|]. destruct (Nat.eqb_spec y rho); [subst; contradiction | reflexivity].
Qed.

(* the edges at rho, read by their other endpoint, are the other vertices, in order *)
Lemma other_endpoints rho : forall V, NoDup V -> In rho V ->
  map (other rho) (filter (has rho) (pairs V)) = filter (neqb rho) V.
Proof.
  induction V as [|a t IH]; intros Hnd Hin; [destruct Hin|]. inversion Hnd as [|? ? Ha Ht]; subst.
  cbn [pairs]. rewrite filter_app, map_app. cbn [filter]. unfold neqb at 1.
  destruct (Nat.eqb_spec a rho) as [->|Hne]; cbn [negb].
  - erw (filter_has_none rho t Ha). rewrite app_nil_r, (filter_neqb_notin rho t Ha).
    rewrite filter_all by (intros e He; apply in_map_iff in He; destruct He as [b [<- _]]; unfold has; cbn; rewrite Nat.eqb_refl; reflexivity).
    rewrite map_map. unfold other. cbn [fst snd]. rewrite Nat.eqb_refl. apply map_id.
  - destruct Hin as [E|Hin]; [contradiction|]. erw (IH Ht Hin).
    assert (E1 : filter (has rho) (map (pair a) t) = map (pair a) (filter (fun v => Nat.eqb v rho) t)).
    { clear -Hne. induction t as [|b t IHt]; [reflexivity|]. cbn [map filter]. unfold has at 1. cbn [fst snd].
      destruct (Nat.eqb_spec a rho); [contradiction|]. cbn [orb]. destruct (Nat.eqb b rho); cbn [map]; rewrite IHt; reflexivity. }
    erw E1. rewrite (filter_eq_single rho t Ht Hin). cbn [map app]. unfold other. cbn [fst snd].
    destruct (Nat.eqb_spec a rho); [contradiction | reflexivity].
Qed.

(* the edges not at rho are the complete graph on the other vertices *)
Lemma pairs_without rho V : filter (fun e => negb (has rho e)) (pairs V) = pairs (filter (neqb rho) V).
Proof.
  rewrite <- (pairs_filter (neqb rho)). apply filter_ext. intros [x y]. unfold has, neqb. cbn [fst snd].
  destruct (Nat.eqb x rho), (Nat.eqb y rho); reflexivity.
Qed.

Lemma filter_neqb_length rho : forall V, NoDup V -> In rho V -> S (length (filter (neqb rho) V)) = length V.
Proof.
  induction V as [|a t IH]; intros Hnd Hin; [destruct Hin|]. inversion Hnd as [|? ? Ha Ht]; subst. cbn [filter]. unfold neqb at 1.
  destruct (Nat.eqb_spec a rho) as [->|Hne]; cbn [negb length].
  - rewrite (filter_neqb_notin rho t Ha). reflexivity.
  - destruct Hin as [E|Hin]; [contradiction|]. rewrite (IH Ht Hin). reflexivity.
Qed.

(* ================================================================== 2. rooted forests *)
Definition RF (V R : list nat) (F : list edge) : Prop :=
  (length F + length R = length V)%nat /\ forall v, In v V -> exists r, In r R /\ conn F v r.

Definition rfb (V R : list nat) (F : list edge) : bool :=
  Nat.eqb (length F + length R) (length V) &&
  forallb (fun v => existsb (fun r => same_comp (labels V F) v r) R) V.

Lemma rfb_spec V R F : edges_in V F -> incl R V -> (rfb V R F = true <-> RF V R F).
Proof.
  intros HF HR. unfold rfb, RF. rewrite andb_true_iff, Nat.eqb_eq, forallb_forall.
  split; intros [H1 H2]; (split; [exact H1|]); intros v Hv.
  - specialize (H2 v Hv). apply existsb_exists in H2. destruct H2 as [r [Hr Hs]].
    exists r. split; [exact Hr|]. apply (same_comp_spec V F v r HF Hv (HR r Hr)). exact Hs.
  - destruct (H2 v Hv) as [r [Hr Hc]]. apply existsb_exists. exists r. split; [exact Hr|].
    apply (same_comp_spec V F v r HF Hv (HR r Hr)). exact Hc.
Qed.

Lemma pairs_edges_in V F : incl F (pairs V) -> edges_in V F.
Proof. intros H [x y] He. apply H, pairs_In in He. exact He. Qed.

(* ---- removing a root *)
Section RemoveRoot.
Variable rho : nat.
Variable V : list nat.
Hypothesis HV : NoDup V.
Hypothesis Hrho : In rho V.
Variable F : list edge.
Hypothesis HF : incl F (pairs V).

Let V' := filter (neqb rho) V.
Let F' := filter (fun e => negb (has rho e)) F.
Let J := map (other rho) (filter (has rho) F).

Lemma adj_rho_J j : adj F j rho <-> In j J.
Proof.
  unfold J. rewrite in_map_iff. split.
  - intros [H|H].
    + exists (j, rho). split.
      * unfold other. cbn [fst snd]. pose proof (pairs_distinct V j rho HV (HF _ H)) as Hd.
        destruct (Nat.eqb_spec j rho); [contradiction | reflexivity].
      * apply filter_In. split; [exact H|]. unfold has. cbn [fst snd]. rewrite Nat.eqb_refl. apply orb_true_r.
    + exists (rho, j). split.
      * unfold other. cbn [fst snd]. rewrite Nat.eqb_refl. reflexivity.
      * apply filter_In. split; [exact H|]. unfold has. cbn [fst snd]. rewrite Nat.eqb_refl. reflexivity.
  - intros [[x y] [E He]]. apply filter_In in He. destruct He as [He Hh]. unfold other in E. unfold has in Hh.
    cbn [fst snd] in *. destruct (Nat.eqb_spec x rho) as [->|Hx].
    + subst y. right. exact He.
    + subst x. cbn [orb] in Hh. apply Nat.eqb_eq in Hh. subst y. left. exact He.
Qed.

Lemma F'_incl : incl F' F.
Proof. intros e He. apply filter_In in He. tauto. Qed.

Lemma adj_F' x y : adj F x y -> x <> rho -> y <> rho -> adj F' x y.
Proof.
  intros [H|H] Hx Hy; [left|right]; apply filter_In; (split; [exact H|]); unfold has; cbn [fst snd];
    destruct (Nat.eqb_spec x rho); try contradiction; destruct (Nat.eqb_spec y rho); try contradiction; reflexivity.
Qed.

(* a walk from v <> rho either avoids rho or first arrives at a neighbour of rho *)
Lemma cut_at_rho v w : conn F v w -> v <> rho ->
  (w <> rho /\ conn F' v w) \/ (exists j, adj F j rho /\ conn F' v j).
Proof.
  induction 1 as [v|v y w Ha _ IH]; intros Hv.
  - left. split; [exact Hv | constructor].
  - destruct (Nat.eq_dec y rho) as [->|Hy].
    + right. exists v. split; [exact Ha | constructor].
    + pose proof (adj_F' v y Ha Hv Hy) as Ha'. destruct (IH Hy) as [[Hw Hc]|[j [Hj Hc]]].
      * left. split; [exact Hw | eapply conn_step; eauto].
      * right. exists j. split; [exact Hj | eapply conn_step; eauto].
Qed.

Lemma lengths_F : (length F = length J + length F')%nat.
Proof.
  unfold J, F'. rewrite map_length. rewrite <- (filter_partition_length (has rho) F). reflexivity.
Qed.

Lemma In_V' v : In v V' <-> In v V /\ v <> rho.
Proof.
  unfold V'. rewrite filter_In. unfold neqb. destruct (Nat.eqb_spec v rho); split; intros [H1 H2]; try tauto; try discriminate.
Qed.

Theorem RF_remove_root R0 : RF V (rho :: R0) F <-> RF V' (R0 ++ J) F'.
Proof.
  pose proof lengths_F as HL. pose proof (filter_neqb_length rho V HV Hrho) as HLV. fold V' in HLV.
  unfold RF. rewrite app_length. cbn [length]. split; intros [H1 H2].
  - split; [lia|]. intros v Hv. apply In_V' in Hv. destruct Hv as [Hv Hne].
    destruct (H2 v Hv) as [r [Hr Hc]]. destruct (cut_at_rho v r Hc Hne) as [[Hw Hc']|[j [Hj Hc']]].
    + exists r. split; [|exact Hc']. apply in_or_app. left. destruct Hr as [E|Hr]; [congruence | exact Hr].
    + exists j. split; [|exact Hc']. apply in_or_app. right. apply adj_rho_J, Hj.
  - split; [lia|]. intros v Hv. destruct (Nat.eq_dec v rho) as [->|Hne].
    + exists rho. split; [left; reflexivity | constructor].
    + destruct (H2 v (proj2 (In_V' v) (conj Hv Hne))) as [r [Hr Hc]].
      pose proof (conn_incl F' F v r F'_incl Hc) as HcF.
      apply in_app_or in Hr. destruct Hr as [Hr|Hr].
      * exists r. split; [right; exact Hr | exact HcF].
      * exists rho. split; [left; reflexivity|]. eapply conn_trans; [exact HcF|]. apply conn_edge, adj_rho_J, Hr.
Qed.

Lemma F'_in_pairs : incl F' (pairs V').
Proof.
  intros e He. unfold V'. rewrite <- pairs_without. apply filter_In in He. destruct He as [He Hh].
  apply filter_In. split; [apply HF, He | exact Hh].
Qed.

Lemma J_in_V' : incl J V'.
Proof.
  intros j Hj. apply adj_rho_J in Hj. apply In_V'.
  destruct Hj as [H|H]; pose proof (pairs_distinct V _ _ HV (HF _ H)) as Hd; apply HF, pairs_In in H; destruct H; split; auto.
Qed.

(* the boolean form used in the sums *)
Theorem rfb_remove_root R0 : NoDup (rho :: R0) -> incl R0 V ->
  rfb V (rho :: R0) F = rfb V' (R0 ++ J) F'.
Proof.
  intros HR HRV. inversion HR as [|? ? Hnr _]; subst.
  assert (S1 : rfb V (rho :: R0) F = true <-> RF V (rho :: R0) F).
  { apply rfb_spec; [apply pairs_edges_in, HF|]. intros r [<-|Hr]; [exact Hrho | apply HRV, Hr]. }
  assert (S2 : rfb V' (R0 ++ J) F' = true <-> RF V' (R0 ++ J) F').
  { apply rfb_spec; [apply pairs_edges_in, F'_in_pairs|]. intros r Hr. apply in_app_or in Hr. destruct Hr as [Hr|Hr].
    - apply In_V'. split; [apply HRV, Hr | intros ->; contradiction].
    - apply J_in_V', Hr. }
  pose proof (RF_remove_root R0) as E.
  destruct (rfb V (rho :: R0) F), (rfb V' (R0 ++ J) F'); try reflexivity.
  - assert (false = true) by (apply S2, E, S1; reflexivity). discriminate.
  - assert (false = true) by (apply S1, E, S2; reflexivity). discriminate.
Qed.

End RemoveRoot.

(* ================================================================== 3. the recurrence on counts *)
Local Open Scope Q_scope.

Definition NQ (V R : list nat) : Q := qsum (map (fun F => bq (rfb V R F)) (subseqs (pairs V))).

Theorem NQ_step rho V R0 : NoDup V -> In rho V -> NoDup (rho :: R0) -> incl R0 V ->
  NQ V (rho :: R0) ==
  qsum (map (fun J => NQ (filter (neqb rho) V) (R0 ++ J)) (subseqs (filter (neqb rho) V))).
Proof.
  intros HV Hrho HR HRV. unfold NQ at 1.
  set (V' := filter (neqb rho) V).
  set (G := fun S1 S2 : list edge => bq (rfb V' (R0 ++ map (other rho) S1) S2)).
  rewrite (qsum_map_ext _ (fun F => G (filter (has rho) F) (filter (fun e => negb (has rho e)) F))).
  2:{ intros F HF. apply subseqs_spec, subl_incl in HF. unfold G, V'.
      rewrite (rfb_remove_root rho V HV Hrho F HF R0 HR HRV). reflexivity. }
  rewrite (split2 (has rho) (pairs V) G).
  erw (pairs_without rho V). fold V'.
  assert (EV : subseqs V' = map (map (other rho)) (subseqs (filter (has rho) (pairs V)))).
  { unfold V'. rewrite <- (other_endpoints rho V HV Hrho). apply subseqs_map. }
  rewrite EV, map_map. unfold G, NQ. reflexivity.
Qed.

(* ================================================================== 4. no forest with a repeated / missing root *)
Lemma filter_neqb_lt j : forall l, In j l -> (length (filter (neqb j) l) < length l)%nat.
Proof.
  induction l as [|a t IH]; intros H; [destruct H|]. cbn [filter]. unfold neqb at 1.
  destruct (Nat.eqb_spec a j) as [->|Hne]; cbn [negb length].
  - pose proof (filter_partition_length (neqb j) t). lia.
  - destruct H as [E|H]; [contradiction|]. specialize (IH H). lia.
Qed.

Lemma pigeon (P : nat -> nat -> Prop) : forall Rep S, NoDup Rep ->
  (forall x, In x Rep -> exists s, In s S /\ P x s) ->
  (forall x x' s, In x Rep -> In x' Rep -> P x s -> P x' s -> x = x') ->
  (length Rep <= length S)%nat.
Proof.
  induction Rep as [|x t IH]; intros S Hnd Hex Hinj; [cbn; lia|].
  inversion Hnd as [|? ? Hx Ht]; subst.
  destruct (Hex x ltac:(left; reflexivity)) as [s [Hs Hp]].
  assert (Hle : (length t <= length (filter (neqb s) S))%nat).
  { apply IH; [exact Ht| |].
    - intros x' Hx'. destruct (Hex x' ltac:(right; exact Hx')) as [s' [Hs' Hp']].
      exists s'. split; [|exact Hp']. apply filter_In. split; [exact Hs'|]. unfold neqb.
      destruct (Nat.eqb_spec s' s) as [->|]; [|reflexivity]. exfalso.
      assert (x = x') by (apply (Hinj x x' s); [left; reflexivity | right; exact Hx' | exact Hp | exact Hp']).
      subst. contradiction.
    - intros a b s' Ha Hb. apply Hinj; right; assumption. }
  pose proof (filter_neqb_lt s S Hs). cbn [length]. lia.
Qed.

(* a root list with a repeated element admits no rooted forest *)
Lemma RF_repeated_root V R0 J F j : NoDup V -> edges_in V F -> incl (R0 ++ J) V ->
  In j R0 -> In j J -> RF V (R0 ++ J) F -> False.
Proof.
  intros HV HF HRV Hj0 HjJ [Hlen Hreach].
  destruct (component_reps V F HF) as [Rep [HRep [Hincl [Hrep [Hsep Hl]]]]].
  rewrite (dedup_n_NoDup_id V HV) in Hl. rewrite app_length in Hlen.
  set (S := R0 ++ filter (neqb j) J).
  assert (Hp : (length Rep <= length S)%nat).
  { apply (pigeon (fun x s => conn F x s)); [exact HRep| |].
    - intros x Hx. destruct (Hreach x (Hincl x Hx)) as [r [Hr Hc]]. apply in_app_or in Hr.
      destruct (Nat.eq_dec r j) as [->|Hne].
      + exists j. split; [apply in_or_app; left; exact Hj0 | exact Hc].
      + exists r. split; [|exact Hc]. apply in_or_app. destruct Hr as [Hr|Hr]; [left; exact Hr|].
        right. apply filter_In. split; [exact Hr|]. unfold neqb. destruct (Nat.eqb_spec r j); [contradiction | reflexivity].
    - intros x x' s Hx Hx' Hc Hc'. apply Hsep; [exact Hx | exact Hx'|].
      eapply conn_trans; [exact Hc | apply conn_sym, Hc']. }
  unfold S in Hp. rewrite app_length in Hp. pose proof (filter_neqb_lt j J HjJ). lia.
Qed.

Lemma NQ_repeated_root V R0 J j : NoDup V -> incl (R0 ++ J) V -> In j R0 -> In j J -> NQ V (R0 ++ J) == 0.
Proof.
  intros HV HRV Hj0 HjJ. unfold NQ. apply qsum_zero. intros F HF. apply subseqs_spec, subl_incl in HF.
  destruct (rfb V (R0 ++ J) F) eqn:E; [|reflexivity]. exfalso.
  apply (rfb_spec V (R0 ++ J) F (pairs_edges_in V F HF) HRV) in E.
  exact (RF_repeated_root V R0 J F j HV (pairs_edges_in V F HF) HRV Hj0 HjJ E).
Qed.

Lemma NQ_no_root V : V <> [] -> NQ V [] == 0.
Proof.
  intros HV. unfold NQ. apply qsum_zero. intros F _. unfold rfb.
  destruct V as [|v V]; [contradiction HV; reflexivity|]. cbn [forallb existsb]. rewrite andb_false_r. reflexivity.
Qed.

(* ================================================================== 5. the binomial theorem, in subset form *)
Lemma inject_nat_add a b : inject_Z (Z.of_nat (a + b)) == inject_Z (Z.of_nat a) + inject_Z (Z.of_nat b).
Proof. rewrite Nat2Z.inj_add, inject_Z_plus. reflexivity. Qed.

Lemma subset_binomial (X : Q) : forall (L : list nat) (a : nat),
  qsum (map (fun J => inject_Z (Z.of_nat (a + length J)) * qpn X (length L - length J)) (subseqs L)) ==
  inject_Z (Z.of_nat a) * qpn (1 + X) (length L) + inject_Z (Z.of_nat (length L)) * qpn (1 + X) (length L - 1).
Proof.
  induction L as [|x t IH]; intros a.
  - cbn. rewrite Nat.add_0_r. ring.
  - cbn [subseqs]. rewrite map_app, qsum_app, map_map. cbn [length].
    assert (E1 : qsum (map (fun J => inject_Z (Z.of_nat (a + S (length J))) * qpn X (S (length t) - S (length J))) (subseqs t)) ==
                 qsum (map (fun J => inject_Z (Z.of_nat (S a + length J)) * qpn X (length t - length J)) (subseqs t))).
    { apply qsum_map_ext. intros J _. replace (a + S (length J))%nat with (S a + length J)%nat by lia. reflexivity. }
    assert (E2 : qsum (map (fun J => inject_Z (Z.of_nat (a + length J)) * qpn X (S (length t) - length J)) (subseqs t)) ==
                 X * qsum (map (fun J => inject_Z (Z.of_nat (a + length J)) * qpn X (length t - length J)) (subseqs t))).
    { rewrite <- qsum_scale. apply qsum_map_ext. intros J HJ. apply subseqs_spec, subl_length in HJ.
      replace (S (length t) - length J)%nat with (S (length t - length J)) by lia. cbn [qpn]. ring. }
    rewrite E1, E2, (IH (S a)), (IH a). rewrite !inject_S. cbn [qpn Nat.sub]. rewrite Nat.sub_0_r.
    destruct (length t) as [|k]; cbn [qpn Nat.sub]; [change (inject_Z (Z.of_nat 0)) with 0; ring|].
    rewrite Nat.sub_0_r. rewrite !inject_S. ring.
Qed.

(* ================================================================== 6. |V| N(V,R) = |R| |V|^(|V|-|R|) *)
Lemma filter_mem_length (R0 V : list nat) : NoDup R0 -> NoDup V -> incl R0 V ->
  length (filter (fun v => nmem v R0) V) = length R0.
Proof.
  intros HR HV Hincl. apply Nat.le_antisymm.
  - apply NoDup_incl_length; [apply NoDup_filter, HV|]. intros v Hv. apply filter_In in Hv. apply nmem_In, Hv.
  - apply NoDup_incl_length; [exact HR|]. intros v Hv. apply filter_In. split; [apply Hincl, Hv | apply nmem_In, Hv].
Qed.

Theorem forest_count : forall n V R, length V = n -> NoDup V -> NoDup R -> incl R V ->
  inject_Z (Z.of_nat (length V)) * NQ V R ==
  inject_Z (Z.of_nat (length R)) * qpn (inject_Z (Z.of_nat (length V))) (length V - length R).
Proof.
  induction n as [|m IH]; intros V R Hlen HV HR Hincl.
  - destruct V; [|discriminate]. destruct R as [|r R]; [|destruct (Hincl r (or_introl eq_refl))]. cbn. ring.
  - destruct R as [|rho R0].
    + rewrite NQ_no_root by (intros ->; discriminate). cbn [length]. change (inject_Z (Z.of_nat 0)) with 0. ring.
    + assert (Hrho : In rho V) by (apply Hincl; left; reflexivity).
      inversion HR as [|? ? Hnr HR0]; subst.
      set (V' := filter (neqb rho) V).
      assert (HV'len : length V' = m) by (pose proof (filter_neqb_length rho V HV Hrho); fold V' in H; lia).
      assert (HV' : NoDup V') by (apply NoDup_filter, HV).
      assert (HR0V : incl R0 V) by (intros r Hr; apply Hincl; right; exact Hr).
      assert (HR0V' : incl R0 V').
      { intros r Hr. apply (In_V' rho V r). split; [apply HR0V, Hr | intros ->; contradiction]. }
      set (r0 := length R0). assert (Hr0 : (r0 <= m)%nat) by (rewrite <- HV'len; apply NoDup_incl_length; assumption).
      set (Mq := inject_Z (Z.of_nat m)). set (L := (m - r0)%nat).
      set (h := fun j => inject_Z (Z.of_nat (r0 + j)) * qpn Mq (L - j)).
      set (b := fun v => nmem v R0).
      (* the recurrence, each summand by the induction hypothesis *)
      assert (Hsum : Mq * NQ V (rho :: R0) ==
                     inject_Z (Z.of_nat r0) * qpn (1 + Mq) L + inject_Z (Z.of_nat L) * qpn (1 + Mq) (L - 1)).
      { rewrite (NQ_step rho V R0 HV Hrho HR HR0V). fold V'. rewrite <- qsum_scale.
        rewrite (qsum_map_ext _ (fun J => h (length J) * bq (nilb (filter b J)))).
        - rewrite (avoid_sum b V' h).
          assert (HL : length (filter (fun a => negb (b a)) V') = L).
          { pose proof (filter_partition_length b V') as P. unfold b in P at 1.
            rewrite (filter_mem_length R0 V' HR0 HV' HR0V') in P. fold r0 in P. unfold L. lia. }
          unfold h. rewrite <- HL. apply subset_binomial.
        - intros J HJ. apply subseqs_spec in HJ.
          assert (HJnd : NoDup J) by (apply (subl_NoDup _ _ HJ), HV').
          assert (HJV' : incl J V') by (apply subl_incl, HJ).
          assert (HRJ : incl (R0 ++ J) V') by (intros v Hv; apply in_app_or in Hv; destruct Hv; auto).
          destruct (filter b J) as [|j l] eqn:Eb.
          + (* disjoint: the induction hypothesis applies *)
            assert (Hdisj : forall x, In x R0 -> ~ In x J).
            { intros x Hx HxJ. assert (Hin : In x (filter b J)) by (apply filter_In; split; [exact HxJ | apply nmem_In, Hx]).
              rewrite Eb in Hin. destruct Hin. }
            pose proof (IH V' (R0 ++ J) HV'len HV' (NoDup_app_intro R0 J HR0 HJnd Hdisj) HRJ) as HI.
            rewrite HV'len, app_length in HI. fold Mq in HI. fold r0 in HI.
            rewrite HI. unfold h, bq, nilb, L. replace (m - (r0 + length J))%nat with (m - r0 - length J)%nat by lia. ring.
          + (* a repeated root: no forest *)
            assert (Hj : In j (filter b J)) by (rewrite Eb; left; reflexivity).
            apply filter_In in Hj. destruct Hj as [HjJ HjR]. apply nmem_In in HjR.
            rewrite (NQ_repeated_root V' R0 J j HV' HRJ HjR HjJ). unfold bq, nilb. ring. }
      (* arithmetic *)
      cbn [length]. rewrite Hlen. fold r0.
      replace (S m - S r0)%nat with L by (unfold L; lia).
      assert (HN : inject_Z (Z.of_nat (S m)) == 1 + Mq) by (unfold Mq; rewrite inject_S; ring).
      rewrite (qpn_comp _ _ L HN), HN, (inject_S r0).
      destruct m as [|m'].
      * (* one vertex *)
        assert (r0 = 0%nat) by lia. assert (L = 0%nat) by (unfold L; lia).
        assert (HR0nil : R0 = []) by (destruct R0; [reflexivity | discriminate]).
        rewrite (NQ_step rho V R0 HV Hrho HR HR0V). fold V'.
        assert (HV'nil : V' = []) by (destruct V'; [reflexivity | discriminate]).
        rewrite HV'nil, HR0nil, H, H0. unfold Mq. cbn. ring.
      * assert (HM : ~ Mq == 0).
        { unfold Mq. intros E. apply (inject_Z_injective (Z.of_nat (S m')) 0) in E. lia. }
        apply (Qmult_inj_l _ _ Mq HM).
        transitivity ((1 + Mq) * (Mq * NQ V (rho :: R0))); [ring|]. rewrite Hsum.
        assert (HmL : Mq == inject_Z (Z.of_nat r0) + inject_Z (Z.of_nat L)).
        { unfold Mq, L. rewrite <- inject_Z_plus, <- Nat2Z.inj_add. replace (r0 + (S m' - r0))%nat with (S m') by lia. reflexivity. }
        destruct L as [|l].
        -- cbn [qpn Nat.sub]. change (inject_Z (Z.of_nat 0)) with 0 in *. rewrite HmL. ring.
        -- cbn [qpn Nat.sub]. rewrite Nat.sub_0_r.
           assert (HL' : inject_Z (Z.of_nat (S l)) == Mq - inject_Z (Z.of_nat r0)) by (rewrite HmL; ring).
           rewrite HL'. ring.
Qed.

(* ================================================================== 7. trees *)
Lemma same_comp_sym l x y : same_comp l x y = same_comp l y x.
Proof. unfold same_comp. destruct (lookup l x), (lookup l y); try reflexivity. apply Nat.eqb_sym. Qed.

Lemma forallb_ext_all {A} (f g : A -> bool) l : (forall a, f a = g a) -> forallb f l = forallb g l.
Proof. intros H. induction l as [|a l IH]; [reflexivity|]. cbn. rewrite H, IH. reflexivity. Qed.

(* the rooted forests with the single root 0 are the connected graphs with n-1 edges *)
Lemma trees_are_forests n : (1 <= n)%nat -> NQ (seq 0 n) [0%nat] == inject_Z (brute n (n - 1)).
Proof.
  intros Hn. unfold NQ, brute. rewrite <- all_edges_pairs, <- qsum_count.
  rewrite <- (sized_sum (fun F => bq (connectedb (seq 0 n) F)) (all_edges n) (n - 1)).
  apply qsum_map_ext. intros F _. unfold rfb. cbn [length]. rewrite seq_length.
  replace (Nat.eqb (length F + 1) n) with (Nat.eqb (length F) (n - 1))
    by (destruct (Nat.eqb_spec (length F) (n - 1)), (Nat.eqb_spec (length F + 1) n); try reflexivity; lia).
  assert (E : forallb (fun v => existsb (fun r => same_comp (labels (seq 0 n) F) v r) [0%nat]) (seq 0 n) =
              connectedb (seq 0 n) F).
  { unfold connectedb. destruct n as [|n']; [lia|]. cbn [seq]. fold (seq 1 n').
    apply forallb_ext_all. intros v. cbn [existsb]. rewrite orb_false_r. apply same_comp_sym. }
  rewrite E. destruct (Nat.eqb (length F) (n - 1)), (connectedb (seq 0 n) F); unfold bq; cbn [andb]; ring.
Qed.

Lemma inject_Z_pow a k : inject_Z (a ^ Z.of_nat k) == qpn (inject_Z a) k.
Proof.
  induction k as [|k IH]; [reflexivity|].
  rewrite Nat2Z.inj_succ, Z.pow_succ_r by lia. rewrite inject_Z_mult, IH. reflexivity.
Qed.

(* CAYLEY'S FORMULA: the number of labelled trees on n >= 2 vertices is n^(n-2) *)
Theorem Cayley_formula : forall n, (2 <= n)%nat -> brute n (n - 1) = (Z.of_nat n ^ (Z.of_nat n - 2))%Z.
Proof.
  intros n Hn. apply inject_Z_injective.
  replace (Z.of_nat n - 2)%Z with (Z.of_nat (n - 2)) by lia. rewrite inject_Z_pow.
  rewrite <- (trees_are_forests n) by lia.
  pose proof (forest_count n (seq 0 n) [0%nat] (seq_length _ _) (seq_NoDup _ _)) as H.
  specialize (H ltac:(constructor; [intros [] | constructor])).
  specialize (H ltac:(intros v [<-|[]]; apply in_seq; lia)).
  rewrite seq_length in H. cbn [length] in H. change (inject_Z (Z.of_nat 1)) with 1 in H.
  replace (n - 1)%nat with (S (n - 2)) in H by lia. cbn [qpn] in H.
  assert (HN : ~ inject_Z (Z.of_nat n) == 0).
  { intros E. apply (inject_Z_injective (Z.of_nat n) 0) in E. lia. }
  apply (Qmult_inj_l _ _ (inject_Z (Z.of_nat n)) HN). rewrite H. ring.
Qed.

Theorem Cayley_holds : Cayley.
Proof. exact Cayley_formula. Qed.

(* ================================================================== consequences: the count and the clique identity, unbounded *)
Theorem Q_count_general : forall n k, (1 <= n)%nat -> (0 <= k <= tri (Z.of_nat n))%Z ->
  Qcode n k = brute n (Z.to_nat k).
Proof. intros n k Hn Hk. apply (Q_count_from_Cayley Cayley_holds n Hn k Hk). Qed.

Theorem Qv_count_general : forall n k, (1 <= n)%nat -> (0 <= k <= tri (Z.of_nat n))%Z ->
  Qv n k = brute n (Z.to_nat k).
Proof. exact (Qv_count_from_Cayley Cayley_holds). Qed.

Theorem clique_identity_general : forall tau, (2 <= tau)%nat ->
  forall (phi : Q) (Hs : list Q), length Hs = (tau - 1)%nat ->
    clique_val tau phi Hs == exact_val (seq 0 tau) (all_edges tau) 0 phi (fun v => nth (v - 1) Hs 0).
Proof. exact (clique_identity_reduces_to_Q_count Qv_count_general). Qed.

(* ---- small corollaries used by Props/C16.v *)
Theorem Qcode_count_upto_12 : forall n k, (1 <= n <= 12)%nat -> (0 <= k <= tri (Z.of_nat n))%Z ->
  Qcode n k = brute n (Z.to_nat k).
Proof. intros n k Hn Hk. rewrite <- Qv_is_code by lia. apply Q_count_upto_12; assumption. Qed.

(* the model's Q and QQ values pass the verified checker for every n, k and every bmax *)
Theorem Q_model_meets_check_general : forall bmax n k, (1 <= n)%nat -> (0 <= k <= tri (Z.of_nat n))%Z ->
  check_count bmax n k (Qv n k) = true /\ check_count bmax n k (QQv n k) = true.
Proof.
  intros bmax n k Hn Hk. unfold check_count, count_spec.
  destruct (Z.ltb_spec k 0); [lia|].
  rewrite (Qv_count_general n k Hn Hk), (QQ_eq_brute_general n k Hk).
  destruct (n <=? Nat.min bmax 7)%nat; [rewrite Z.eqb_refl; auto|].
  rewrite (cross_eq_brute n k Hn) by lia. rewrite Z.eqb_refl. auto.
Qed.
