(* C15: the enumeration checker's property [enum_ok] (networkx-style connectivity [conn_set] of every
   vertex subset, canonical vertex order) holds for the backtracking enumeration of EVERY well-formed
   graph, every root and every iteration-order schedule: [grown] vertex lists are exactly the connected
   vertex sets containing the root.  (The bounded reflection results enum_ok_upto_5 are independent.) *)
From Coq Require Import List ZArith Bool Arith Lia Permutation.
From GV Require Import Lib.Tree Lib.PolyRefl15 Lib.Graph15 Model.AutoEq Proofs.AutoEqP Proofs.AutoEqR
                       Proofs.AutoEqW Proofs.AutoEqC Proofs.AutoEqG.
Import ListNotations.
Local Open Scope nat_scope.

Lemma list_eqb_refl : forall a, list_eqb a a = true.
Proof. induction a as [|x a IH]; [reflexivity|]. cbn [list_eqb]. rewrite Nat.eqb_refl, IH. reflexivity. Qed.

Lemma NoDup_nodupb15 : forall l, NoDup l -> nodupb l = true.
Proof.
  induction 1 as [|x l Hx Hl IH]; [reflexivity|]. cbn [nodupb]. rewrite IH, andb_true_r.
  apply negb_true_iff. destruct (memb x l) eqn:E; [|reflexivity]. apply memb_In in E. contradiction.
Qed.

Lemma sublists_incl : forall {X} (l s : list X), In s (sublists l) -> incl s l.
Proof.
  intros X. induction l as [|x l IH]; intros s Hs; cbn [sublists] in Hs.
  - destruct Hs as [<-|[]]. intros y [].
  - apply in_app_or in Hs. destruct Hs as [Hs|Hs].
    + apply in_map_iff in Hs. destruct Hs as [s' [<- Hs']]. apply incl_cons; [left; reflexivity|].
      apply incl_tl, IH, Hs'.
    + apply incl_tl, IH, Hs.
Qed.

Lemma sublists_NoDup : forall {X} (l s : list X), NoDup l -> In s (sublists l) -> NoDup s.
Proof.
  intros X. induction l as [|x l IH]; intros s Hnd Hs; cbn [sublists] in Hs.
  - destruct Hs as [<-|[]]. constructor.
  - inversion Hnd as [|x' l' Hx Hnd']. subst. apply in_app_or in Hs. destruct Hs as [Hs|Hs].
    + apply in_map_iff in Hs. destruct Hs as [s' [<- Hs']]. constructor; [|apply IH; assumption].
      intros Hi. apply Hx. apply (sublists_incl l s' Hs'), Hi.
    + apply IH; assumption.
Qed.

(* a sublist of a duplicate-free list is its own canonical form *)
Lemma sublist_canon : forall nodes s, NoDup nodes -> In s (sublists nodes) -> canon nodes s = s.
Proof.
  unfold canon. induction nodes as [|x l IH]; intros s Hnd Hs; cbn [sublists] in Hs.
  - destruct Hs as [<-|[]]. reflexivity.
  - inversion Hnd as [|x' l' Hx Hnd']. subst. apply in_app_or in Hs. destruct Hs as [Hs|Hs].
    + apply in_map_iff in Hs. destruct Hs as [s' [<- Hs']]. cbn [filter memb existsb]. rewrite Nat.eqb_refl.
      cbn [orb]. f_equal. transitivity (filter (fun v => memb v s') l); [|apply IH; assumption].
      apply filter_ext_in. intros v Hv.
      destruct (Nat.eqb v x) eqn:E; [|reflexivity]. apply Nat.eqb_eq in E. subst. contradiction.
    + cbn [filter]. assert (E : memb x s = false).
      { destruct (memb x s) eqn:E; [|reflexivity]. apply memb_In in E. apply (sublists_incl l s Hs) in E. contradiction. }
      rewrite E. apply IH; assumption.
Qed.

Lemma canon_eq_same_set : forall nodes c s, NoDup nodes -> In s (sublists nodes) ->
    (forall v, memb v c = true -> In v nodes) ->
    list_eqb (canon nodes c) s = same_setb c s.
Proof.
  intros nodes c s Hnd Hs Hc. apply eq_iff_eq_true. split.
  - intros H. apply list_eqb_eq in H. apply same_setb_iff.
    assert (Hm : forall v, memb v s = memb v c).
    { intros v. rewrite <- H. unfold canon. rewrite memb_filter.
      destruct (memb v c) eqn:E; [|apply andb_false_r]. rewrite andb_true_r. apply memb_In, Hc, E. }
    split; intros v Hv; [rewrite Hm|rewrite <- Hm]; exact Hv.
  - intros H. assert (E : canon nodes c = s).
    { rewrite <- (sublist_canon nodes s Hnd Hs). unfold canon. apply filter_ext. apply same_setb_memb, H. }
    rewrite E. apply list_eqb_refl.
Qed.

(* a grown vertex list is connected by its own internal edges *)
Lemma internal_mono : forall es c c', sub c c' -> incl (internal_edges es c) (internal_edges es c').
Proof.
  intros es c c' Hs e He. unfold internal_edges in *. apply filter_In in He. destruct He as [He Hi].
  apply filter_In. split; [exact He|]. apply andb_true_iff in Hi. unfold in_c in *.
  rewrite (Hs _ (proj1 Hi)), (Hs _ (proj2 Hi)). reflexivity.
Qed.

Lemma grown_conn_int : forall es r c, grown es r c ->
    forall v, memb v c = true -> conn (internal_edges es c) r v.
Proof.
  intros es r c H. induction H as [|T0 j HT IH Hj HN]; intros v Hv.
  - cbn in Hv. rewrite orb_false_r in Hv. apply Nat.eqb_eq in Hv. subst. apply conn_refl.
  - pose proof (internal_mono es T0 (addv j T0) (sub_addv j T0)) as Hmono.
    rewrite memb_addv in Hv. apply orb_true_iff in Hv. destruct Hv as [Hv|Hv].
    + apply Nat.eqb_eq in Hv. subst v. destruct HN as [w [Hw Hjw]].
      apply (conn_step _ r w j); [apply (conn_mono _ _ r w Hmono), IH, Hw|].
      apply memb_nbrs_iff. apply memb_nbrs_iff in Hjw. unfold internal_edges.
      assert (Hw' : memb w (addv j T0) = true) by (apply sub_addv, Hw).
      assert (Hj' : memb j (addv j T0) = true) by (rewrite memb_addv, Nat.eqb_refl; reflexivity).
      destruct Hjw as [H|H]; [left|right]; apply filter_In; (split; [exact H|]);
        unfold in_c; cbn [fst snd]; rewrite Hw', Hj'; reflexivity.
    + apply (conn_mono _ _ r v Hmono), IH, Hv.
Qed.

Lemma internal_ext : forall es c c', (forall v, memb v c = memb v c') -> internal_edges es c = internal_edges es c'.
Proof. intros es c c' H. unfold internal_edges, in_c. apply filter_ext. intros e. rewrite !H. reflexivity. Qed.

Lemma internal_all_int : forall es s e, In e (internal_edges es s) -> intb s e = true.
Proof. intros es s e H. unfold internal_edges in H. apply filter_In in H. apply H. Qed.

(* networkx-style connectivity of a vertex set, from a base point *)
Lemma conn_set_iff : forall g s r, NoDup s -> In r s ->
    (conn_set g s = true <-> forall w, In w s -> conn (internal_edges (g_edges g) s) r w).
Proof.
  intros g s r Hnd Hr. unfold conn_set. apply connectedb_iff; [exact Hnd| |exact Hr].
  intros v w Hv Hvw. apply memb_In.
  apply (conn_internal _ s (internal_all_int (g_edges g) s) v w); [apply memb_In, Hv|apply conn_edge, Hvw].
Qed.

Lemma filter_none : forall {X} (p : X -> bool) l, (forall x, In x l -> p x = false) -> filter p l = [].
Proof.
  intros X p. induction l as [|x l IH]; intros H; [reflexivity|]. cbn [filter].
  rewrite (H x (or_introl eq_refl)). apply IH. intros y Hy. apply H. right. exact Hy.
Qed.

Theorem enum_ok_general : forall (ord : list nat -> list nat) (g : graph) (r : nat),
    (forall l, Permutation (ord l) l) -> wf_graph g = true -> In r (g_nodes g) ->
    enum_ok g r (enum_ord ord g r).
Proof.
  intros ord g r Hord Hwf Hr.
  destruct (wf_graph_parts g Hwf) as [Hnd [He [Hnde Hloop]]].
  destruct (enum_general_wf ord g r Hord Hwf) as [Hgrown Honce].
  set (nodes := g_nodes g) in *. set (es := g_edges g) in *.
  assert (Hin : forall c, In c (enum_ord ord g r) -> forall v, memb v c = true -> In v nodes).
  { intros c Hc. apply (grown_in_nodes nodes es r c He Hr (Hgrown c Hc)). }
  split.
  - intros c Hc. split.
    + apply NoDup_nodupb15, (grown_NoDup es r c (Hgrown c Hc)).
    + unfold subsetb. apply forallb_forall. intros v Hv. apply memb_In, (Hin c Hc), memb_In, Hv.
  - intros s Hs.
    assert (Hsnd : NoDup s) by (apply (sublists_NoDup nodes s Hnd Hs)).
    assert (Hsin : forall v, memb v s = true -> In v nodes).
    { intros v Hv. apply (sublists_incl nodes s Hs), memb_In, Hv. }
    rewrite (filter_ext_in (fun c => list_eqb (canon nodes c) s) (fun c => same_setb c s))
      by (intros c Hc; apply (canon_eq_same_set nodes c s Hnd Hs (Hin c Hc))).
    destruct (memb r s && conn_set g s) eqn:E.
    + apply andb_true_iff in E. destruct E as [Hrs Hcs].
      pose proof (proj1 (conn_set_iff g s r Hsnd (proj1 (memb_In r s) Hrs)) Hcs) as Hcs'.
      clear Hcs. rename Hcs' into Hcs. fold es in Hcs.
      set (ec := internal_edges es s) in *.
      assert (Hcl : forall v w, In v s -> memb w (nbrs ec v) = true -> In w s).
      { intros v w Hv Hvw. apply memb_In.
        apply (conn_internal ec s (internal_all_int es s) v w); [apply memb_In, Hv|apply conn_edge, Hvw]. }
      pose (T := reach (length s) ec [r]).
      assert (HTm : forall v, memb v T = memb v s).
      { intros v. apply eq_iff_eq_true. unfold T.
        rewrite (reach_spec s ec r Hsnd Hcl (proj1 (memb_In r s) Hrs)). split.
        - intros Hc. apply (conn_internal ec s (internal_all_int es s) r v Hrs Hc).
        - intros Hv. apply Hcs, memb_In, Hv. }
      assert (HTg : grown es r T).
      { apply (grown_mono ec es r T); [|apply reach_grown, g_root].
        intros e H. unfold ec, internal_edges in H. apply filter_In in H. apply H. }
      assert (HTn : forall v, memb v T = true -> In v nodes) by (intros v Hv; rewrite HTm in Hv; apply Hsin, Hv).
      pose proof (Honce T HTg HTn) as H1. unfold cnt in H1. rewrite <- H1. f_equal.
      apply filter_ext. intros c. apply eq_iff_eq_true. rewrite !same_setb_iff. unfold sub.
      split; intros [A B]; split; intros v Hv.
      * apply B. rewrite <- HTm. exact Hv.
      * rewrite HTm. apply A, Hv.
      * rewrite <- HTm. apply B, Hv.
      * apply A. rewrite HTm. exact Hv.
    + rewrite filter_none; [reflexivity|]. intros c Hc.
      destruct (same_setb c s) eqn:Ecs; [|reflexivity]. exfalso.
      pose proof (Hgrown c Hc) as Hg.
      pose proof (same_setb_memb c s Ecs) as Hm.
      assert (Hrs : memb r s = true) by (rewrite <- Hm; apply (grown_root es r c Hg)).
      assert (Hcs : conn_set g s = true).
      { apply (conn_set_iff g s r Hsnd (proj1 (memb_In r s) Hrs)). intros w Hw. fold es.
        rewrite <- (internal_ext es c s Hm). apply (grown_conn_int es r c Hg). rewrite Hm. apply memb_In, Hw. }
      rewrite Hrs, Hcs in E. discriminate E.
Qed.
