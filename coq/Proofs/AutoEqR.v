(* Reflection proofs for C15: vm_compute over all labelled graphs on <= 5 vertices, lifted to
   statements about all rational phi, u with the general lemmas of AutoEqP.v. *)
From Coq Require Import List ZArith QArith Bool Arith Ring_polynom Lia.
From GV Require Import Lib.Tree Lib.PolyRefl15 Lib.Graph15 Model.AutoEq Proofs.AutoEqP.
Import ListNotations.
Local Open Scope nat_scope.

Definition id_okb (g : graph) (r : nat) : bool := peq (auto_expr g r) (exact_expr g r).
Definition all_ok (n : nat) (f : graph -> nat -> bool) : bool :=
  forallb (fun g => forallb (f g) (g_nodes g)) (graphs_upto n).

Lemma all_ok_spec : forall n f, all_ok n f = true ->
    forall k es r, k <= n -> In es (sublists (all_pairs k)) -> r < k -> f (seq 0 k, es) r = true.
Proof.
  intros n f H k es r Hk He Hr. unfold all_ok in H. rewrite forallb_forall in H.
  specialize (H _ (graphs_upto_in n k es Hk He)). rewrite forallb_forall in H.
  apply H. cbn [g_nodes fst]. apply in_seq. lia.
Qed.

(* every labelled graph on <= 5 vertices (1 + 1 + 2 + 8 + 64 + 1024 = 1100 graphs), every root *)
Lemma id_refl_5 : all_ok 5 id_okb = true.
Proof. vm_cast_no_check (eq_refl true). Qed.

Theorem identity_upto_5 : forall k es r,
    k <= 5 -> In es (sublists (all_pairs k)) -> r < k ->
    forall (phi : Q) (u : nat -> Q),
      (auto_q (seq 0 k, es) r phi u == expectation (seq 0 k, es) r phi u)%Q.
Proof.
  intros k es r Hk He Hr. apply peq_identity_lift.
  exact (all_ok_spec 5 id_okb id_refl_5 k es r Hk He Hr).
Qed.

(* ------------------------------------------------------------------ *)
(* the enumeration: every connected vertex set containing the root exactly once *)
Definition enum_ok (g : graph) (root : nat) (res : list (list nat)) : Prop :=
  (forall c, In c res -> nodupb c = true /\ subsetb c (g_nodes g) = true) /\
  (forall s, In s (sublists (g_nodes g)) ->
             length (filter (fun c => list_eqb (canon (g_nodes g) c) s) res)
             = if memb root s && conn_set g s then 1 else 0).

Lemma enum_okb_spec : forall g root res, enum_okb g root res = true <-> enum_ok g root res.
Proof.
  intros g root res. unfold enum_okb, enum_ok. rewrite andb_true_iff, !forallb_forall.
  split; intros [H1 H2]; split.
  - intros c Hc. apply andb_true_iff. apply H1, Hc.
  - intros s Hs. apply Nat.eqb_eq. apply H2, Hs.
  - intros c Hc. apply andb_true_iff. apply H1, Hc.
  - intros s Hs. apply Nat.eqb_eq. apply H2, Hs.
Qed.

Lemma enum_refl_5 : all_ok 5 (fun g r => enum_okb g r (enum g r)) = true.
Proof. vm_cast_no_check (eq_refl true). Qed.

(* the same under the reversed iteration order of every candidate set (a second schedule) *)
Lemma enum_rev_refl_4 : all_ok 4 (fun g r => enum_okb g r (enum_ord (@rev nat) g r)) = true.
Proof. vm_cast_no_check (eq_refl true). Qed.

Theorem enum_ok_upto_5 : forall k es r,
    k <= 5 -> In es (sublists (all_pairs k)) -> r < k ->
    enum_ok (seq 0 k, es) r (enum (seq 0 k, es) r).
Proof.
  intros k es r Hk He Hr. apply enum_okb_spec.
  exact (all_ok_spec 5 _ enum_refl_5 k es r Hk He Hr).
Qed.

Theorem enum_rev_ok_upto_4 : forall k es r,
    k <= 4 -> In es (sublists (all_pairs k)) -> r < k ->
    enum_ok (seq 0 k, es) r (enum_ord (@rev nat) (seq 0 k, es) r).
Proof.
  intros k es r Hk He Hr. apply enum_okb_spec.
  exact (all_ok_spec 4 _ enum_rev_refl_4 k es r Hk He Hr).
Qed.
