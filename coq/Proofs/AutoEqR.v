(* Reflection proofs for C15: vm_compute over all labelled graphs on <= 5 vertices, lifted to
   statements about all rational phi, u with the general lemmas of AutoEqP.v.
   The boolean functions evaluated here share, per graph, the work that does not depend on the
   root (edge-combination table, connectivity of vertex subsets); the lemmas below connect them to
   the per-root statements. *)
From Coq Require Import List ZArith QArith Bool Arith Ring_polynom Lia.
From GV Require Import Lib.Tree Lib.PolyRefl15 Lib.Graph15 Model.AutoEq Proofs.AutoEqP.
Import ListNotations.
Local Open Scope nat_scope.

Lemma graphs_upto_forall : forall n (f : graph -> bool), forallb f (graphs_upto n) = true ->
    forall k es, k <= n -> In es (sublists (all_pairs k)) -> f (seq 0 k, es) = true.
Proof.
  intros n f H k es Hk He. rewrite forallb_forall in H. apply H. apply graphs_upto_in; assumption.
Qed.

(* ------------------------------------------------------------------ *)
(* the polynomial identity, all roots of a graph with one shared combination table *)
Definition id_okb_all (g : graph) : bool :=
  let tbl := combos_tbl g in
  forallb (fun r => peq (auto_tbl alg_pe tbl g r ephi0 eu0) (exact_expr g r)) (g_nodes g).

Lemma id_okb_all_spec : forall g, id_okb_all g = true ->
    forall r, In r (g_nodes g) -> peq (auto_expr g r) (exact_expr g r) = true.
Proof.
  intros g H r Hr. unfold id_okb_all in H. cbv zeta in H. rewrite forallb_forall in H.
  specialize (H r Hr). rewrite auto_tbl_ok in H. exact H.
Qed.

(* every labelled graph on <= 5 vertices (1 + 1 + 2 + 8 + 64 + 1024 = 1100 graphs), every root *)
Lemma id_refl_5 : forallb id_okb_all (graphs_upto 5) = true.
Proof. vm_compute. reflexivity. Qed.

Theorem identity_upto_5 : forall k es r,
    k <= 5 -> In es (sublists (all_pairs k)) -> r < k ->
    forall (phi : Q) (u : nat -> Q),
      (auto_q (seq 0 k, es) r phi u == expectation (seq 0 k, es) r phi u)%Q.
Proof.
  intros k es r Hk He Hr. apply peq_identity_lift.
  apply (id_okb_all_spec _ (graphs_upto_forall 5 id_okb_all id_refl_5 k es Hk He)).
  cbn [g_nodes fst]. apply in_seq. lia.
Qed.

(* ------------------------------------------------------------------ *)
(* the enumeration: every connected vertex set containing the root exactly once *)
Definition enum_ok (g : graph) (root : nat) (res : list (list nat)) : Prop :=
  (forall c, In c res -> nodupb c = true /\ subsetb c (g_nodes g) = true) /\
  (forall s, In s (sublists (g_nodes g)) ->
             length (filter (fun c => list_eqb (canon (g_nodes g) c) s) res)
             = if memb root s && conn_set g s then 1 else 0).

Lemma enum_okb_spec : forall g root res, enum_okb g root res = true <-> enum_ok g root res.
Proof.
  intros g root res. unfold enum_okb, enum_ok. rewrite andb_true_iff, !forallb_forall.
  split; intros [H1 H2]; split.
  - intros c Hc. apply andb_true_iff. apply H1, Hc.
  - intros s Hs. apply Nat.eqb_eq. apply H2, Hs.
  - intros c Hc. apply andb_true_iff. apply H1, Hc.
  - intros s Hs. apply Nat.eqb_eq. apply H2, Hs.
Qed.

(* all roots of a graph at once (connectivity of each vertex subset computed once), for the
   enumeration under the order schedule [ord] *)
Definition enum_okb_all (ord : list nat -> list nat) (g : graph) : bool :=
  let rs := combine (g_nodes g) (map (fun r => map (canon (g_nodes g)) (enum_ord ord g r)) (g_nodes g)) in
  forallb (fun r => forallb (fun c => nodupb c && subsetb c (g_nodes g)) (enum_ord ord g r)) (g_nodes g) &&
  forallb (fun s => let cs := conn_set g s in
             forallb (fun rr => Nat.eqb (length (filter (fun c => list_eqb c s) (snd rr)))
                                        (if memb (fst rr) s && cs then 1 else 0)) rs)
          (sublists (g_nodes g)).

Lemma enum_okb_all_spec : forall ord g, enum_okb_all ord g = true ->
    forall r, In r (g_nodes g) -> enum_ok g r (enum_ord ord g r).
Proof.
  intros ord g H r Hr. unfold enum_okb_all in H. cbv zeta in H.
  apply andb_true_iff in H. destruct H as [H1 H2]. rewrite forallb_forall in H1, H2. split.
  - intros c Hc. specialize (H1 r Hr). rewrite forallb_forall in H1. apply andb_true_iff, H1, Hc.
  - intros s Hs. specialize (H2 s Hs). rewrite forallb_forall in H2.
    specialize (H2 _ (in_combine_map (fun r0 => map (canon (g_nodes g)) (enum_ord ord g r0)) (g_nodes g) r Hr)).
    cbn [fst snd] in H2. apply Nat.eqb_eq in H2. rewrite filter_map_length in H2. exact H2.
Qed.

Lemma enum_refl_5 : forallb (enum_okb_all (fun l => l)) (graphs_upto 5) = true.
Proof. vm_compute. reflexivity. Qed.

(* the same under the reversed iteration order of every candidate set (a second schedule) *)
Lemma enum_rev_refl_5 : forallb (enum_okb_all (@rev nat)) (graphs_upto 5) = true.
Proof. vm_compute. reflexivity. Qed.

Theorem enum_ok_upto_5 : forall k es r,
    k <= 5 -> In es (sublists (all_pairs k)) -> r < k ->
    enum_ok (seq 0 k, es) r (enum (seq 0 k, es) r).
Proof.
  intros k es r Hk He Hr.
  apply (enum_okb_all_spec _ _ (graphs_upto_forall 5 _ enum_refl_5 k es Hk He)).
  cbn [g_nodes fst]. apply in_seq. lia.
Qed.

Theorem enum_rev_ok_upto_5 : forall k es r,
    k <= 5 -> In es (sublists (all_pairs k)) -> r < k ->
    enum_ok (seq 0 k, es) r (enum_ord (@rev nat) (seq 0 k, es) r).
Proof.
  intros k es r Hk He Hr.
  apply (enum_okb_all_spec _ _ (graphs_upto_forall 5 _ enum_rev_refl_5 k es Hk He)).
  cbn [g_nodes fst]. apply in_seq. lia.
Qed.
