(* C09: an independent bounded check of the polynomial isolated-clique test (reflection, vm_compute; it does not use
   the general equivalence of Proofs/EeccFastP.v): on all 1024 edge subsets of K5, every bound 1..6 and three covers
   per graph - every edge as a 2-clique (splits every isolated clique with >= 3 vertices), the list of all maximal
   cliques (always passes), and that list without its first member (fails when that member is isolated and within
   the bound) - isolated_ok_fast_b and the brute-force isolated_ok_b return the same boolean. *)
From Coq Require Import List Arith Bool Lia NArith.
From GV Require Import Lib.Tree Lib.GraphE Model.Eecc Proofs.EeccP.
Import ListNotations.

Definition probe_covers (g : graph) : list (list clique) :=
  let mc := max_cliques g in [map (fun e => [fst e; snd e]) g; mc; tl mc].

Definition fast_agree_b (g : graph) (m0 : nat) (c : list clique) : bool :=
  Bool.eqb (isolated_ok_fast_b g m0 c) (isolated_ok_b g m0 c).

Definition fast_agree_all (gs : list graph) (m0s : list nat) : bool :=
  forallb (fun g => forallb (fun m0 => forallb (fast_agree_b g m0) (probe_covers g)) m0s) gs.

(* how many of the probes are accepted / rejected (non-vacuity of the comparison) *)
Definition count_verdicts (gs : list graph) (m0s : list nat) : N * N :=
  fold_left (fun acc g =>
    fold_left (fun acc m0 =>
      fold_left (fun acc c => if isolated_ok_b g m0 c then (N.succ (fst acc), snd acc) else (fst acc, N.succ (snd acc)))
                (probe_covers g) acc) m0s acc) gs (0%N, 0%N).

Lemma fast_agree_all_spec : forall gs m0s, fast_agree_all gs m0s = true ->
  forall g m0 c, In g gs -> In m0 m0s -> In c (probe_covers g) ->
  isolated_ok_fast_b g m0 c = isolated_ok_b g m0 c.
Proof.
  intros gs m0s H g m0 c Hg Hm Hc. unfold fast_agree_all in H. rewrite forallb_forall in H.
  specialize (H g Hg). rewrite forallb_forall in H. specialize (H m0 Hm).
  rewrite forallb_forall in H. specialize (H c Hc). unfold fast_agree_b in H. apply Bool.eqb_prop in H. exact H.
Qed.

Lemma graphs5_fast_agree : fast_agree_all (all_graphs 5) [1; 2; 3; 4; 5; 6] = true.
Proof. vm_compute. reflexivity. Qed.

Theorem fast_agrees_upto_5 : forall g m0 c,
  subseq g (all_pairs 5) -> 1 <= m0 <= 6 -> In c (probe_covers g) ->
  isolated_ok_fast_b g m0 c = isolated_ok_b g m0 c.
Proof.
  intros g m0 c Hg Hm Hc.
  assert (Hin : In g (all_graphs 5)) by (apply sublists_spec; exact Hg).
  assert (Hm0 : In m0 [1; 2; 3; 4; 5; 6]) by (cbn [In]; lia).
  exact (fast_agree_all_spec _ _ graphs5_fast_agree g m0 c Hin Hm0 Hc).
Qed.

(* the comparison sees both verdicts often: accepted / rejected probes over the whole domain *)
Lemma graphs5_verdict_counts : count_verdicts (all_graphs 5) [1; 2; 3; 4; 5; 6] = (13557%N, 4875%N).
Proof. vm_compute. reflexivity. Qed.
