(* C16 growth: the clique identity for EVERY tau, reduced to the single ingredient
   "Q(n,k) counts the connected labelled graphs on n vertices with k edges".
   Plan (the classical regrouping, made formal):
   A. prod_{v in comp(S)} H_v = sum over vertex subsets C of [C = comp(S)] prod_{v in C} H_v; swap the sums;
   B. for a fixed C (C' = 0 :: C, kappa = |C|): comp(S) = C  <->  no edge of S leaves C' and S restricted to C'
      connects C'; the edges outside C' are free;
   C. the sum over edge subsets factorises along the partition of E(K_tau) into inside / not inside C';
      "no boundary edge kept" has weight (1-phi)^(number of boundary edges); free edges have total weight 1;
   D. E(K_tau) restricted to C' is the image of E(K_{kappa+1}) under the increasing relabelling, and
      connectivity is invariant under an injective relabelling: the number of connected S_in with e edges is
      brute (kappa+1) e;
   E. the number of boundary edges is (kappa+1)(tau-kappa-1) = omega tau kappa; regroup by |C| = kappa and
      recognise sum_{C, |C| = kappa} prod H = the code's [factor]. *)
From Coq Require Import List ZArith QArith Qpower Bool Arith Lia Qfield.
From GV Require Import Lib.Tree Lib.Graph16 Lib.PolyRefl16 Model.QCount Model.CliqueEq
                       Proofs.QCountP Proofs.CliqueEqP Proofs.CycleGen Proofs.QQGen.
Import ListNotations.
Local Open Scope Q_scope.

(* ================================================================== generic sums *)
Definition bq (b : bool) : Q := if b then 1 else 0.

Lemma qsum_scale {A} c (f : A -> Q) l : qsum (map (fun a => c * f a) l) == c * qsum (map f l).
Proof. induction l as [|a l IH]; cbn; [ring|]. unfold qsum in IH. rewrite IH. ring. Qed.

Lemma qsum_scale_r {A} c (f : A -> Q) l : qsum (map (fun a => f a * c) l) == qsum (map f l) * c.
Proof. induction l as [|a l IH]; cbn; [ring|]. unfold qsum in IH. rewrite IH. ring. Qed.

Lemma qsum_plus {A} (f g : A -> Q) l : qsum (map (fun a => f a + g a) l) == qsum (map f l) + qsum (map g l).
Proof. induction l as [|a l IH]; cbn; [ring|]. unfold qsum in IH. rewrite IH. ring. Qed.

Lemma qsum_zero {A} (f : A -> Q) l : (forall a, In a l -> f a == 0) -> qsum (map f l) == 0.
Proof.
  induction l as [|a l IH]; intros H; cbn; [reflexivity|].
  rewrite (H a) by (left; reflexivity). unfold qsum in IH. rewrite IH; [ring|].
  intros b Hb. apply H. right. exact Hb.
Qed.

Lemma qsum_swap {A B} (f : A -> B -> Q) la lb :
  qsum (map (fun a => qsum (map (fun b => f a b) lb)) la) ==
  qsum (map (fun b => qsum (map (fun a => f a b) la)) lb).
Proof.
  induction la as [|a la IH]; cbn [map].
  - cbn. symmetry. apply qsum_zero. intros; reflexivity.
  - change (qsum (?x :: ?t)) with (x + qsum t). rewrite IH.
    rewrite <- qsum_plus. apply qsum_map_ext. intros b _. reflexivity.
Qed.

(* sum of c over the elements satisfying p = c * their number *)
Lemma qsum_count {A} (p : A -> bool) l : qsum (map (fun a => bq (p a)) l) == inject_Z (Z.of_nat (length (filter p l))).
Proof.
  induction l as [|a l IH]; [reflexivity|]. cbn [map filter].
  change (qsum (?x :: ?t)) with (x + qsum t). rewrite IH. destruct (p a); unfold bq.
  - cbn [length]. rewrite inject_S. ring.
  - ring.
Qed.

(* ---- all sublists, grouped by size *)
Lemma combs_S_nil {A} k : combs (S k) (@nil A) = [].
Proof. reflexivity. Qed.

Lemma subseqs_by_size {A} (F : list A -> Q) : forall l,
  qsum (map F (subseqs l)) == qsum (map (fun k => qsum (map F (combs k l))) (seq 0 (S (length l)))).
Proof.
  intros l. revert F. induction l as [|x t IH]; intros F.
  - cbn. ring.
  - cbn [subseqs length]. rewrite map_app, qsum_app, map_map.
    rewrite (IH (fun s => F (x :: s))), (IH F).
    (* right-hand side: k = 0 and k = S k' *)
    change (seq 0 (S (S (length t)))) with (0%nat :: seq 1 (S (length t))).
    rewrite <- seq_shift. cbn [map]. rewrite map_map.
    change (qsum (?a :: ?r)) with (a + qsum r).
    assert (E : qsum (map (fun k => qsum (map F (combs (S k) (x :: t)))) (seq 0 (S (length t)))) ==
                qsum (map (fun k => qsum (map (fun s => F (x :: s)) (combs k t))) (seq 0 (S (length t)))) +
                qsum (map (fun k => qsum (map F (combs (S k) t))) (seq 0 (S (length t))))).
    { rewrite <- qsum_plus. apply qsum_map_ext. intros k _. cbn [combs].
      rewrite map_app, qsum_app, map_map. reflexivity. }
    rewrite E. clear E.
    (* sum_{k<=|t|} F-sum(combs k t) = F [] ... shift *)
    assert (E2 : qsum (map (fun k => qsum (map F (combs k t))) (seq 0 (S (length t)))) ==
                 qsum (map F (combs 0 (x :: t))) +
                 qsum (map (fun k => qsum (map F (combs (S k) t))) (seq 0 (S (length t))))).
    { change (seq 0 (S (length t))) with (0%nat :: seq 1 (length t)) at 1.
      cbn [map]. change (qsum (?a :: ?r)) with (a + qsum r). rewrite !combs_0.
      apply Qplus_comp; [reflexivity|].
      rewrite <- seq_shift, map_map.
      rewrite (seq_S (length t) 0), map_app, qsum_app. cbn [Nat.add map].
      rewrite (combs_too_many t (S (length t))) by lia. cbn [map].
      change (qsum [qsum []]) with (0 + 0). ring. }
    rewrite E2. ring.
Qed.

(* ---- boolean equality of vertex lists *)
Fixpoint leqb (a b : list nat) : bool :=
  match a, b with
  | [], [] => true
  | x :: a', y :: b' => Nat.eqb x y && leqb a' b'
  | _, _ => false
  end.

Lemma leqb_eq a b : leqb a b = true <-> a = b.
Proof.
  revert b. induction a as [|x a IH]; intros [|y b]; cbn; try (split; [discriminate | discriminate]); [tauto|].
  rewrite andb_true_iff, Nat.eqb_eq, IH. split; [intros [-> ->]; reflexivity | intros [= -> ->]; auto].
Qed.

(* ---- A. picking the component among all vertex subsets *)
Lemma pick_filter (p : nat -> bool) : forall l (g : list nat -> Q), NoDup l ->
  qsum (map (fun C => bq (leqb C (filter p l)) * g C) (subseqs l)) == g (filter p l).
Proof.
  induction l as [|x t IH]; intros g Hnd.
  - cbn. ring.
  - inversion Hnd as [|? ? Hx Ht]; subst. cbn [subseqs filter]. rewrite map_app, qsum_app, map_map.
    destruct (p x) eqn:Epx.
    + rewrite (qsum_map_ext (fun C => bq (leqb (x :: C) (x :: filter p t)) * g (x :: C))
                            (fun C => bq (leqb C (filter p t)) * g (x :: C))).
      2:{ intros C _. cbn [leqb]. rewrite Nat.eqb_refl. reflexivity. }
      rewrite (IH (fun C => g (x :: C)) Ht).
      rewrite qsum_zero; [ring|]. intros C HC. apply subseqs_spec in HC.
      destruct (leqb C (x :: filter p t)) eqn:E; [|unfold bq; ring].
      apply leqb_eq in E. subst C. exfalso. apply Hx. apply (subl_incl _ _ HC). left. reflexivity.
    + rewrite (IH g Ht). rewrite qsum_zero; [ring|]. intros C HC.
      destruct (leqb (x :: C) (filter p t)) eqn:E; [|unfold bq; ring].
      apply leqb_eq in E. exfalso. apply Hx.
      assert (Hin : In x (filter p t)) by (rewrite <- E; left; reflexivity).
      apply filter_In in Hin. tauto.
Qed.

(* ---- C. a sum over the sublists of l factorises along a partition of l *)
Lemma split2 {A} (p : A -> bool) : forall l (F : list A -> list A -> Q),
  qsum (map (fun S => F (filter p S) (filter (fun a => negb (p a)) S)) (subseqs l)) ==
  qsum (map (fun S1 => qsum (map (fun S2 => F S1 S2) (subseqs (filter (fun a => negb (p a)) l))))
            (subseqs (filter p l))).
Proof.
  induction l as [|x t IH]; intros F.
  - cbn. ring.
  - cbn [subseqs filter]. rewrite map_app, qsum_app, map_map. cbn [filter].
    destruct (p x) eqn:Epx; cbn [negb].
    + rewrite (IH (fun S1 S2 => F (x :: S1) S2)), (IH F).
      cbn [subseqs]. rewrite map_app, qsum_app, map_map. reflexivity.
    + rewrite (IH (fun S1 S2 => F S1 (x :: S2))), (IH F).
      rewrite <- qsum_plus. apply qsum_map_ext. intros S1 _.
      cbn [subseqs]. rewrite map_app, qsum_app, map_map. reflexivity.
Qed.

(* ---- weights *)
Section Weights.
Variable phi : Q.
Let q := 1 - phi.

(* phi^s (1-phi)^(n-s): weight of keeping s of n edges *)
Definition W (n s : nat) : Q := qpn phi s * qpn q (n - s).

Lemma W_split n1 n2 s1 s2 : (s1 <= n1)%nat -> (s2 <= n2)%nat ->
  W (n1 + n2) (s1 + s2) == W n1 s1 * W n2 s2.
Proof.
  intros H1 H2. unfold W. replace (n1 + n2 - (s1 + s2))%nat with ((n1 - s1) + (n2 - s2))%nat by lia.
  rewrite !qpn_add. ring.
Qed.

Lemma W_SS n s : W (S n) (S s) == phi * W n s.
Proof. unfold W. cbn [Nat.sub qpn]. ring. Qed.

Lemma W_S n s : (s <= n)%nat -> W (S n) s == q * W n s.
Proof. intros H. unfold W. replace (S n - s)%nat with (S (n - s)) by lia. cbn [qpn]. ring. Qed.

Definition nilb {A} (l : list A) : bool := match l with [] => true | _ => false end.

(* probability that none of the edges satisfying p is kept *)
Lemma none_kept {A} (p : A -> bool) : forall l,
  qsum (map (fun T => W (length l) (length T) * bq (nilb (filter p T))) (subseqs l)) ==
  qpn q (length (filter p l)).
Proof.
  induction l as [|x t IH].
  - cbn. unfold W. cbn. ring.
  - cbn [subseqs]. rewrite map_app, qsum_app, map_map. cbn [length filter].
    assert (E2 : qsum (map (fun T => W (S (length t)) (length T) * bq (nilb (filter p T))) (subseqs t)) ==
                 q * qpn q (length (filter p t))).
    { rewrite <- IH, <- qsum_scale. apply qsum_map_ext. intros T HS. apply subseqs_spec in HS.
      rewrite W_S by (apply subl_length, HS). ring. }
    rewrite E2. destruct (p x).
    + rewrite qsum_zero by (intros; unfold bq, nilb; ring). cbn [length qpn]. ring.
    + assert (E1 : qsum (map (fun T => W (S (length t)) (S (length T)) * bq (nilb (filter p T))) (subseqs t)) ==
                   phi * qpn q (length (filter p t))).
      { rewrite <- IH, <- qsum_scale. apply qsum_map_ext. intros T _. rewrite W_SS. ring. }
      rewrite E1. unfold q. ring.
Qed.

Lemma filter_false {A} (l : list A) : filter (fun _ => false) l = [].
Proof. induction l; [reflexivity | assumption]. Qed.

(* all weights sum to 1 (not used below, kept as a sanity lemma: free edges do not matter) *)
Lemma all_weights {A} (l : list A) : qsum (map (fun T => W (length l) (length T)) (subseqs l)) == 1.
Proof.
  pose proof (none_kept (fun _ : A => false) l) as H.
  rewrite (qsum_map_ext _ (fun T => W (length l) (length T))) in H.
  - rewrite H, filter_false. reflexivity.
  - intros T _. rewrite filter_false. unfold bq, nilb. ring.
Qed.

End Weights.

(* ================================================================== D. pairs, relabelling *)
(* all pairs (l_i, l_j), i < j, in lexicographic order of positions *)
Fixpoint pairs (l : list nat) : list edge :=
  match l with [] => [] | a :: t => map (pair a) t ++ pairs t end.

Lemma all_edges_pairs_gen : forall m s,
  flat_map (fun a => map (fun b => (a, b)) (seq (S a) (s + m - S a))) (seq s m) = pairs (seq s m).
Proof.
  induction m as [|m IH]; intros s; [reflexivity|].
  cbn [seq flat_map pairs]. f_equal.
  - replace (s + S m - S s)%nat with m by lia. reflexivity.
  - rewrite <- (IH (S s)). apply flat_map_ext. intros a.
    replace (s + S m - S a)%nat with (S s + m - S a)%nat by lia. reflexivity.
Qed.

Lemma all_edges_pairs n : all_edges n = pairs (seq 0 n).
Proof. unfold all_edges. rewrite <- all_edges_pairs_gen. reflexivity. Qed.

Lemma pairs_filter (p : nat -> bool) l :
  filter (fun e => p (fst e) && p (snd e)) (pairs l) = pairs (filter p l).
Proof.
  induction l as [|a t IH]; [reflexivity|].
  cbn [pairs filter]. rewrite filter_app, IH.
  assert (E : filter (fun e => p (fst e) && p (snd e)) (map (pair a) t) =
              if p a then map (pair a) (filter p t) else []).
  { clear IH. induction t as [|b t IHt]; cbn [map filter fst snd]; [destruct (p a); reflexivity|].
    rewrite IHt. destruct (p a), (p b); reflexivity. }
  rewrite E. destruct (p a); reflexivity.
Qed.

Definition emap (f : nat -> nat) (e : edge) : edge := (f (fst e), f (snd e)).

Lemma pairs_map f l : pairs (map f l) = map (emap f) (pairs l).
Proof.
  induction l as [|a t IH]; [reflexivity|].
  cbn [map pairs]. rewrite map_app, IH, !map_map. reflexivity.
Qed.

Lemma pairs_length l : (2 * length (pairs l) + length l = length l * length l)%nat.
Proof.
  induction l as [|a t IH]; [reflexivity|]. cbn [pairs length]. rewrite app_length, map_length.
  unfold edge in *. nia.
Qed.

(* a sublist of a duplicate-free list is recovered by filtering on membership *)
Lemma nmem_cons v x s : nmem v (x :: s) = Nat.eqb v x || nmem v s.
Proof. reflexivity. Qed.

Lemma subl_filter_mem : forall l C, NoDup l -> subl C l -> filter (fun v => nmem v C) l = C.
Proof.
  intros l C Hnd H. induction H as [|x s l Hs IH|x s l Hs IH].
  - reflexivity.
  - inversion Hnd; subst. cbn [filter]. rewrite nmem_cons, Nat.eqb_refl. cbn [orb]. f_equal.
    transitivity (filter (fun v => nmem v s) l); [|apply IH; assumption]. apply filter_ext_in. intros v Hv. rewrite nmem_cons.
    destruct (Nat.eqb_spec v x); [subst; contradiction | reflexivity].
  - inversion Hnd; subst. cbn [filter].
    destruct (nmem x s) eqn:E; [|apply IH; assumption].
    apply nmem_In in E. apply (subl_incl _ _ Hs) in E. contradiction.
Qed.

Lemma map_nth_seq (l : list nat) d : map (fun i => nth i l d) (seq 0 (length l)) = l.
Proof.
  induction l as [|a t IH]; [reflexivity|].
  cbn [length seq map nth]. f_equal. rewrite <- seq_shift, map_map. exact IH.
Qed.

(* ---- connectivity is invariant under an injective relabelling *)
Section Relabel.
Variable f : nat -> nat.
Variable K : nat.
Hypothesis f_inj : forall i j, (i < K)%nat -> (j < K)%nat -> f i = f j -> i = j.

Lemma conn_emap es x y : conn es x y -> conn (map (emap f) es) (f x) (f y).
Proof.
  induction 1 as [x|x y z Ha _ IH]; [constructor|].
  eapply conn_step; [|exact IH].
  destruct Ha as [Ha|Ha]; [left|right]; apply in_map_iff; eexists; (split; [|exact Ha]); reflexivity.
Qed.

Lemma conn_emap_inv es : edges_in (seq 0 K) es ->
  forall a b, conn (map (emap f) es) a b ->
  forall x, (x < K)%nat -> a = f x -> exists y, (y < K)%nat /\ b = f y /\ conn es x y.
Proof.
  intros Hin a b H. induction H as [a|a a' b Ha _ IH]; intros x Hx E.
  - exists x. repeat split; [exact Hx | exact E | constructor].
  - assert (Hq : exists x', (x' < K)%nat /\ a' = f x' /\ adj es x x').
    { destruct Ha as [Ha|Ha]; apply in_map_iff in Ha; destruct Ha as [[p r] [Ee He]];
        unfold emap in Ee; cbn [fst snd] in Ee; inversion Ee; subst;
        destruct (Hin _ He) as [Hp Hr]; cbn [fst snd] in Hp, Hr; apply in_seq in Hp; apply in_seq in Hr.
      - assert (p = x) by (apply f_inj; [lia | lia | assumption]). subst p.
        exists r. repeat split; [lia | left; exact He].
      - assert (r = x) by (apply f_inj; [lia | lia | assumption]). subst r.
        exists p. repeat split; [lia | right; exact He]. }
    destruct Hq as [x' [Hx' [E' Hadj]]].
    destruct (IH x' Hx' E') as [y [Hy [Eb Hc]]].
    exists y. repeat split; [exact Hy | exact Eb | eapply conn_step; eauto].
Qed.

Lemma Connected_emap es : edges_in (seq 0 K) es ->
  (Connected (map f (seq 0 K)) (map (emap f) es) <-> Connected (seq 0 K) es).
Proof.
  intros Hin. unfold Connected. split.
  - intros [Hne H]. split; [destruct K; [contradiction Hne; reflexivity | discriminate]|].
    intros x y Hx Hy. apply in_seq in Hx. apply in_seq in Hy.
    assert (Hc : conn (map (emap f) es) (f x) (f y)).
    { apply H; apply in_map; apply in_seq; lia. }
    destruct (conn_emap_inv es Hin _ _ Hc x ltac:(lia) eq_refl) as [y' [Hy' [E Hc']]].
    assert (y = y') by (apply f_inj; [lia | lia | exact E]). subst y'. exact Hc'.
  - intros [Hne H]. split; [destruct K; [contradiction Hne; reflexivity | discriminate]|].
    intros a b Ha Hb. apply in_map_iff in Ha. apply in_map_iff in Hb.
    destruct Ha as [x [<- Hx]]. destruct Hb as [y [<- Hy]]. apply conn_emap. apply H; assumption.
Qed.

Lemma edges_in_emap es : edges_in (seq 0 K) es -> edges_in (map f (seq 0 K)) (map (emap f) es).
Proof.
  intros Hin e He. apply in_map_iff in He. destruct He as [[p r] [<- He]].
  destruct (Hin _ He) as [Hp Hr]. cbn [fst snd emap] in *. split; apply in_map; assumption.
Qed.

Lemma connectedb_emap es : edges_in (seq 0 K) es ->
  connectedb (map f (seq 0 K)) (map (emap f) es) = connectedb (seq 0 K) es.
Proof.
  intros Hin.
  pose proof (connectedb_spec _ _ (edges_in_emap es Hin)) as H1.
  pose proof (connectedb_spec _ _ Hin) as H2.
  pose proof (Connected_emap es Hin) as H3.
  destruct (connectedb (map f (seq 0 K)) (map (emap f) es)), (connectedb (seq 0 K) es); try reflexivity.
  - assert (false = true) by (apply H2, H3, H1; reflexivity). discriminate.
  - assert (false = true) by (apply H1, H3, H2; reflexivity). discriminate.
Qed.

(* the number of connected e-edge subgraphs of the relabelled complete graph is brute K e *)
Lemma brute_relabel e :
  Z.of_nat (length (filter (fun T => connectedb (map f (seq 0 K)) T)
                           (combs e (map (emap f) (all_edges K))))) = brute K e.
Proof.
  unfold brute. f_equal. rewrite combs_map.
  assert (Hfm : forall {A B} (p : B -> bool) (g : A -> B) L,
            length (filter p (map g L)) = length (filter (fun a => p (g a)) L)).
  { intros A B p g L. induction L as [|a L IHL]; cbn; [reflexivity|]. destruct (p (g a)); cbn; rewrite IHL; reflexivity. }
  rewrite Hfm. f_equal. apply filter_ext_in. intros T HT. apply combs_spec in HT.
  apply connectedb_emap. eapply edges_in_incl; [apply subl_incl, (proj1 HT) | apply all_edges_in].
Qed.

End Relabel.

(* ================================================================== B. when is C the root's component? *)
Lemma filter_eq_subl (p : nat -> bool) l C : NoDup l -> subl C l ->
  (filter p l = C <-> forall v, In v l -> (p v = true <-> In v C)).
Proof.
  intros Hnd Hs. split.
  - intros <- v Hv. rewrite filter_In. tauto.
  - intros H. transitivity (filter (fun v => nmem v C) l); [|apply subl_filter_mem; assumption].
    apply filter_ext_in. intros v Hv.
    specialize (H v Hv). destruct (p v), (nmem v C) eqn:E; try reflexivity.
    + assert (In v C) by (apply H; reflexivity). apply nmem_In in H0. congruence.
    + apply nmem_In in E. apply H in E. discriminate.
Qed.

Section Comp.
Variable tau : nat.
Hypothesis Htau : (1 <= tau)%nat.
Variable C : list nat.
Hypothesis HC : subl C (seq 1 (tau - 1)).

Definition Cr : list nat := 0%nat :: C.
Definition inC (v : nat) : bool := nmem v Cr.
Definition ein (e : edge) : bool := inC (fst e) && inC (snd e).
Definition ebd (e : edge) : bool := xorb (inC (fst e)) (inC (snd e)).

Lemma Cr_lt v : In v Cr -> (v < tau)%nat.
Proof.
  intros [<-|H]; [lia|]. apply (subl_incl _ _ HC) in H. apply in_seq in H. lia.
Qed.

Lemma inC_In v : inC v = true <-> In v Cr.
Proof. apply nmem_In. Qed.

Definition comp (T : list edge) : list nat :=
  filter (fun v => same_comp (labels (seq 0 tau) T) 0 v) (seq 1 (tau - 1)).

Section OneSubset.
Variable T : list edge.
Hypothesis HT : edges_in (seq 0 tau) T.

Let Tin := filter ein T.

Lemma Tin_edges : edges_in Cr Tin.
Proof.
  intros e He. apply filter_In in He. destruct He as [_ He]. apply andb_true_iff in He.
  destruct He as [H1 H2]. split; apply inC_In; assumption.
Qed.

(* C' is exactly the set of vertices reachable from the root *)
Definition IsComp : Prop := forall v, (v < tau)%nat -> (conn T 0 v <-> In v Cr).

Lemma adj_lt x y : adj T x y -> (x < tau)%nat /\ (y < tau)%nat.
Proof.
  intros [H|H]; apply HT in H; cbn [fst snd] in H; destruct H as [H1 H2];
    apply in_seq in H1; apply in_seq in H2; lia.
Qed.

Lemma closed_of_IsComp : IsComp -> forall p r, In p Cr -> adj T p r -> In r Cr.
Proof.
  intros H p r Hp Ha. destruct (adj_lt p r Ha) as [Hpl Hrl].
  apply (H r Hrl). eapply conn_trans; [apply (H p Hpl), Hp | apply conn_edge, Ha].
Qed.

Lemma closed_of_nobd : filter ebd T = [] -> forall p r, In p Cr -> adj T p r -> In r Cr.
Proof.
  intros Hb p r Hp Ha. apply inC_In. apply inC_In in Hp.
  destruct (inC r) eqn:Er; [reflexivity|]. exfalso.
  assert (Hin : forall e, In e T -> ebd e = false).
  { intros e He. destruct (ebd e) eqn:E; [|reflexivity].
    assert (In e (filter ebd T)) by (apply filter_In; auto). rewrite Hb in H. destruct H. }
  destruct Ha as [Ha|Ha]; apply Hin in Ha; unfold ebd in Ha; cbn [fst snd] in Ha; rewrite Hp, Er in Ha; discriminate.
Qed.

Lemma conn_stays : (forall p r, In p Cr -> adj T p r -> In r Cr) ->
  forall a b, conn T a b -> In a Cr -> In b Cr /\ conn Tin a b.
Proof.
  intros Hcl a b H. induction H as [a|a a' b Ha _ IH]; intros Hin.
  - split; [exact Hin | constructor].
  - assert (Ha' : In a' Cr) by (eapply Hcl; eauto).
    destruct (IH Ha') as [Hb Hc]. split; [exact Hb|].
    eapply conn_step; [|exact Hc].
    apply inC_In in Hin. apply inC_In in Ha'.
    destruct Ha as [Ha|Ha]; [left|right]; apply filter_In; (split; [exact Ha|]);
      unfold ein; cbn [fst snd]; rewrite Hin, Ha'; reflexivity.
Qed.

Lemma Tin_incl : incl Tin T.
Proof. intros e He. apply filter_In in He. tauto. Qed.

Lemma IsComp_iff : IsComp <-> (filter ebd T = [] /\ Connected Cr Tin).
Proof.
  assert (H0 : In 0%nat Cr) by (left; reflexivity).
  split.
  - intros H. pose proof (closed_of_IsComp H) as Hcl. split.
    + destruct (filter ebd T) as [|e l] eqn:E; [reflexivity|]. exfalso.
      assert (He : In e (filter ebd T)) by (rewrite E; left; reflexivity).
      apply filter_In in He. destruct He as [He Hb]. destruct e as [p r]. unfold ebd in Hb. cbn [fst snd] in Hb.
      destruct (inC p) eqn:Ep, (inC r) eqn:Er; try discriminate.
      * apply inC_In in Ep. assert (In r Cr) by (apply (Hcl p r Ep); left; exact He).
        apply inC_In in H1. congruence.
      * apply inC_In in Er. assert (In p Cr) by (apply (Hcl r p Er); right; exact He).
        apply inC_In in H1. congruence.
    + split; [discriminate|]. intros x y Hx Hy.
      assert (Hx0 : conn Tin 0 x).
      { apply (conn_stays Hcl 0%nat x); [apply (H x (Cr_lt x Hx)), Hx | exact H0]. }
      assert (Hy0 : conn Tin 0 y).
      { apply (conn_stays Hcl 0%nat y); [apply (H y (Cr_lt y Hy)), Hy | exact H0]. }
      eapply conn_trans; [apply conn_sym, Hx0 | exact Hy0].
  - intros [Hb [_ Hc]] v Hv. pose proof (closed_of_nobd Hb) as Hcl. split.
    + intros H. apply (conn_stays Hcl 0%nat v H H0).
    + intros H. eapply conn_incl; [apply Tin_incl | apply Hc; assumption].
Qed.

(* the boolean the regrouping needs *)
Lemma comp_indicator : leqb C (comp T) = nilb (filter ebd T) && connectedb Cr Tin.
Proof.
  assert (Hnd : NoDup (seq 1 (tau - 1))) by apply seq_NoDup.
  assert (E1 : comp T = C <-> IsComp).
  { unfold comp. rewrite (filter_eq_subl _ _ C Hnd HC). unfold IsComp. split.
    - intros H v Hv. destruct v as [|v].
      + split; [intros _; left; reflexivity | intros _; constructor].
      + assert (Hin : In (S v) (seq 1 (tau - 1))) by (apply in_seq; lia).
        rewrite <- (same_comp_spec (seq 0 tau) T 0 (S v) HT) by (apply in_seq; lia).
        rewrite (H (S v) Hin). split; [intros Hc; right; exact Hc | intros [Hc|Hc]; [discriminate | exact Hc]].
    - intros H v Hv. apply in_seq in Hv.
      rewrite (same_comp_spec (seq 0 tau) T 0 v HT) by (apply in_seq; lia).
      rewrite (H v ltac:(lia)). split; [intros [Hc|Hc]; [lia | exact Hc] | intros Hc; right; exact Hc]. }
  pose proof IsComp_iff as E2.
  pose proof (connectedb_spec Cr Tin Tin_edges) as E3.
  destruct (leqb C (comp T)) eqn:EL.
  - apply leqb_eq in EL. symmetry in EL. apply E1, E2 in EL. destruct EL as [Hb Hc].
    rewrite Hb. apply E3 in Hc. rewrite Hc. reflexivity.
  - destruct (nilb (filter ebd T)) eqn:En; [|reflexivity]. cbn [andb].
    destruct (connectedb Cr Tin) eqn:Ec; [|reflexivity]. exfalso.
    assert (Hcomp : comp T = C).
    { apply E1, E2. split; [destruct (filter ebd T); [reflexivity | discriminate] | apply E3; reflexivity]. }
    assert (leqb C (comp T) = true) by (apply leqb_eq; symmetry; exact Hcomp). congruence.
Qed.

End OneSubset.
End Comp.

(* ================================================================== C/D. the weight of "the component is C" *)
Lemma filter_partition_length {A} (p : A -> bool) l :
  (length (filter p l) + length (filter (fun a => negb (p a)) l) = length l)%nat.
Proof. induction l as [|a l IH]; [reflexivity|]. cbn [filter]. destruct (p a); cbn; lia. Qed.

Lemma subl_NoDup {A} (s l : list A) : subl s l -> NoDup l -> NoDup s.
Proof.
  induction 1 as [|x s l Hs IH|x s l Hs IH]; intros Hnd; [constructor| |]; inversion Hnd; subst.
  - constructor; [|apply IH; assumption]. intros Hin. apply (subl_incl _ _ Hs) in Hin. contradiction.
  - apply IH; assumption.
Qed.

Section CompSum.
Variable phi : Q.
Let q := 1 - phi.
Variable tau : nat.
Hypothesis Htau : (1 <= tau)%nat.
Variable C : list nat.
Hypothesis HC : subl C (seq 1 (tau - 1)).

Let E := all_edges tau.
Let K := length (Cr C).
Let Ein := filter (ein C) E.
Let Er := filter (fun e => negb (ein C e)) E.

Lemma ebd_rest (T : list edge) : filter (ebd C) (filter (fun e => negb (ein C e)) T) = filter (ebd C) T.
Proof.
  induction T as [|e T IH]; [reflexivity|]. cbn [filter].
  destruct (ein C e) eqn:Ee; cbn [negb filter].
  - rewrite IH. unfold ein in Ee. apply andb_true_iff in Ee. destruct Ee as [E1 E2].
    unfold ebd. rewrite E1, E2. reflexivity.
  - rewrite IH. reflexivity.
Qed.

Lemma Cr_subl : subl (Cr C) (seq 0 tau).
Proof.
  replace tau with (S (tau - 1)) by lia. cbn [seq]. apply subl_cons. exact HC.
Qed.

Lemma Cr_NoDup : NoDup (Cr C).
Proof. apply (subl_NoDup _ _ Cr_subl), seq_NoDup. Qed.

Definition rho (i : nat) : nat := nth i (Cr C) 0%nat.

Lemma Cr_rho : map rho (seq 0 K) = Cr C.
Proof. apply map_nth_seq. Qed.

Lemma rho_inj i j : (i < K)%nat -> (j < K)%nat -> rho i = rho j -> i = j.
Proof. intros Hi Hj. apply (proj1 (NoDup_nth (Cr C) 0%nat) Cr_NoDup); assumption. Qed.

Lemma Ein_relabel : Ein = map (emap rho) (all_edges K).
Proof.
  unfold Ein, E, ein. rewrite all_edges_pairs, (pairs_filter (inC C)).
  unfold inC. rewrite (subl_filter_mem (seq 0 tau) (Cr C) (seq_NoDup _ _) Cr_subl).
  rewrite <- Cr_rho at 1. rewrite pairs_map, <- all_edges_pairs. reflexivity.
Qed.

Lemma count_in e :
  Z.of_nat (length (filter (fun T => connectedb (Cr C) T) (combs e Ein))) = brute K e.
Proof.
  pose proof (brute_relabel rho K rho_inj e) as H. rewrite Cr_rho, <- Ein_relabel in H. exact H.
Qed.

Lemma Ein_length : length Ein = length (all_edges K).
Proof. rewrite Ein_relabel, map_length. reflexivity. Qed.

(* the sum over the edge subsets inside C' that connect C' *)
Lemma inside_sum :
  qsum (map (fun S1 => W phi (length Ein) (length S1) * bq (connectedb (Cr C) S1)) (subseqs Ein)) ==
  qsum (map (fun e => inject_Z (brute K e) * W phi (length (all_edges K)) e) (seq 0 (S (length (all_edges K))))).
Proof.
  rewrite subseqs_by_size, Ein_length. apply qsum_map_ext. intros e _.
  rewrite <- count_in, <- qsum_count, <- qsum_scale_r. apply qsum_map_ext. intros S1 HS1.
  apply combs_spec in HS1. rewrite (proj2 HS1). ring.
Qed.

(* THE WEIGHT OF "comp = C": connected inside, no boundary edge kept, the rest free *)
Lemma comp_weight :
  qsum (map (fun T => W phi (length E) (length T) * bq (leqb C (comp tau T))) (subseqs E)) ==
  qsum (map (fun e => inject_Z (brute K e) * W phi (length (all_edges K)) e) (seq 0 (S (length (all_edges K)))))
  * qpn q (length (filter (ebd C) E)).
Proof.
  set (F := fun S1 S2 : list edge =>
              W phi (length Ein) (length S1) * bq (connectedb (Cr C) S1)
              * (W phi (length Er) (length S2) * bq (nilb (filter (ebd C) S2)))).
  rewrite (qsum_map_ext _ (fun T => F (filter (ein C) T) (filter (fun e => negb (ein C e)) T))).
  - rewrite split2. fold Ein. fold Er. unfold F.
    rewrite (qsum_map_ext _ (fun S1 => W phi (length Ein) (length S1) * bq (connectedb (Cr C) S1)
                                        * qpn q (length (filter (ebd C) E)))).
    + rewrite qsum_scale_r, inside_sum. reflexivity.
    + intros S1 _. rewrite qsum_scale, (none_kept phi (ebd C) Er). unfold Er. rewrite ebd_rest. reflexivity.
  - intros T HT. apply subseqs_spec in HT.
    assert (HTin : edges_in (seq 0 tau) T).
    { eapply edges_in_incl; [apply subl_incl, HT | apply all_edges_in]. }
    rewrite (comp_indicator tau Htau C HC T HTin). unfold F. rewrite ebd_rest.
    assert (HlE : length E = (length Ein + length Er)%nat).
    { unfold Ein, Er. rewrite filter_partition_length. reflexivity. }
    assert (HlT : length T = (length (filter (ein C) T) + length (filter (fun e => negb (ein C e)) T))%nat).
    { rewrite filter_partition_length. reflexivity. }
    rewrite HlE, HlT at 1. rewrite W_split.
    + destruct (nilb (filter (ebd C) T)), (connectedb (Cr C) (filter (ein C) T)); unfold bq; cbn [andb]; ring.
    + apply subl_length. unfold Ein. clear -HT. induction HT; cbn [filter]; [constructor| |].
      * destruct (ein C x); [apply subl_cons|]; assumption.
      * destruct (ein C x); [apply subl_skip|]; assumption.
    + apply subl_length. unfold Er. clear -HT. induction HT; cbn [filter]; [constructor| |].
      * destruct (ein C x); cbn [negb]; [|apply subl_cons]; assumption.
      * destruct (ein C x); cbn [negb]; [|apply subl_skip]; assumption.
Qed.

End CompSum.

(* ================================================================== E. counting the boundary edges; omega *)
Lemma all_edges_len2 n : (2 * length (all_edges n) + n = n * n)%nat.
Proof. rewrite all_edges_pairs. pose proof (pairs_length (seq 0 n)) as H. rewrite seq_length in H. exact H. Qed.

Section Boundary.
Variable tau : nat.
Hypothesis Htau : (1 <= tau)%nat.
Variable C : list nat.
Hypothesis HC : subl C (seq 1 (tau - 1)).

Definition eout (e : edge) : bool := negb (inC C (fst e)) && negb (inC C (snd e)).

Lemma three_way (l : list edge) :
  (length (filter (ein C) l) + length (filter (ebd C) l) + length (filter eout l) = length l)%nat.
Proof.
  induction l as [|e l IH]; [reflexivity|]. cbn [filter]. unfold ein, ebd, eout in *.
  destruct (inC C (fst e)), (inC C (snd e)); cbn [andb xorb negb length]; lia.
Qed.

Lemma filter_inC_length : length (filter (inC C) (seq 0 tau)) = S (length C).
Proof.
  unfold inC. rewrite (subl_filter_mem (seq 0 tau) (Cr C) (seq_NoDup _ _) (Cr_subl tau Htau C HC)). reflexivity.
Qed.

Lemma boundary_count :
  length (filter (ebd C) (all_edges tau)) = (S (length C) * (tau - S (length C)))%nat.
Proof.
  pose proof (three_way (all_edges tau)) as H3.
  assert (Hin : length (filter (ein C) (all_edges tau)) = length (pairs (filter (inC C) (seq 0 tau)))).
  { unfold ein. rewrite all_edges_pairs, (pairs_filter (inC C)). reflexivity. }
  assert (Hout : length (filter eout (all_edges tau)) =
                 length (pairs (filter (fun v => negb (inC C v)) (seq 0 tau)))).
  { unfold eout. rewrite all_edges_pairs, (pairs_filter (fun v => negb (inC C v))). reflexivity. }
  pose proof (pairs_length (filter (inC C) (seq 0 tau))) as P1.
  pose proof (pairs_length (filter (fun v => negb (inC C v)) (seq 0 tau))) as P2.
  pose proof (all_edges_len2 tau) as P3.
  pose proof (filter_partition_length (inC C) (seq 0 tau)) as P4. rewrite seq_length in P4.
  rewrite filter_inC_length in *.
  rewrite Hin, Hout in H3.
  set (a := length (pairs (filter (inC C) (seq 0 tau)))) in *.
  set (b := length (pairs (filter (fun v => negb (inC C v)) (seq 0 tau)))) in *.
  set (d := length (filter (fun v => negb (inC C v)) (seq 0 tau))) in *.
  set (x := length (filter (ebd C) (all_edges tau))) in *.
  set (k := S (length C)) in *. set (t := length (all_edges tau)) in *.
  assert (Hd : (tau - k = d)%nat) by lia. rewrite Hd.
  assert (Ht : tau = (k + d)%nat) by lia.
  clearbody a b d x k t. clear Hin Hout Hd. revert H3 P1 P2 P3 P4 Ht. generalize tau. intros; subst. nia.
Qed.

End Boundary.

Lemma tri_double n : (2 * tri (Z.of_nat n) = Z.of_nat n * (Z.of_nat n - 1))%Z.
Proof. rewrite <- all_edges_length. pose proof (all_edges_len2 n). nia. Qed.

Lemma zsum_desc (t : Z) r :
  (2 * zsum (map (fun v => t - v) (zrange 1 (Z.of_nat r + 1))) = 2 * Z.of_nat r * t - Z.of_nat r * (Z.of_nat r + 1))%Z.
Proof.
  replace (Z.of_nat r + 1)%Z with (1 + Z.of_nat r)%Z by lia. rewrite zrange_seq, map_map.
  induction r as [|r IH]; [reflexivity|].
  rewrite seq_S, map_app. unfold zsum in *. rewrite fold_right_app. cbn [map fold_right Nat.add].
  assert (Hf : forall l c, fold_right Z.add c l = (fold_right Z.add 0 l + c)%Z).
  { induction l as [|a l IHl]; intros c; cbn [fold_right]; [lia|]. rewrite IHl. lia. }
  rewrite Hf. lia.
Qed.

(* GENERAL: omega(tau, kappa) is the number of edges between a (kappa+1)-subset of a tau-clique and the rest *)
Lemma omega_closed tau kappa : (kappa < tau)%nat ->
  omega tau kappa = Z.of_nat (S kappa * (tau - S kappa)).
Proof.
  intros H. unfold omega. cbv zeta.
  set (r := (tau - kappa - 1)%nat).
  pose proof (zsum_desc (Z.of_nat tau) r) as Hs.
  pose proof (tri_double r) as Ht. unfold tri in Ht.
  set (s := zsum (map (fun v => (Z.of_nat tau - v)%Z) (zrange 1 (Z.of_nat r + 1)))) in *.
  set (d := (Z.of_nat r * (Z.of_nat r - 1) / 2)%Z) in *.
  replace (tau - S kappa)%nat with r by lia.
  assert (Z.of_nat tau = Z.of_nat r + Z.of_nat (S kappa))%Z by lia.
  rewrite Nat2Z.inj_mul. clearbody s d. nia.
Qed.

(* ================================================================== assembly *)
Lemma map_nth_seq_gen {A} (l : list A) d : map (fun i => nth i l d) (seq 0 (length l)) = l.
Proof.
  induction l as [|a t IH]; [reflexivity|].
  cbn [length seq map nth]. f_equal. rewrite <- seq_shift, map_map. exact IH.
Qed.

Lemma qsum_rev_seq (f : nat -> Q) n :
  qsum (map f (seq 0 (S n))) == qsum (map (fun m => f (n - m)%nat) (seq 0 (S n))).
Proof.
  induction n as [|n IH]; [reflexivity|].
  rewrite (seq_S (S n) 0) at 1. rewrite map_app, qsum_app, IH. cbn [Nat.add map].
  change (seq 0 (S (S n))) with (0%nat :: seq 1 (S n)). rewrite <- seq_shift. cbn [map]. rewrite map_map.
  change (qsum (?a :: ?r)) with (a + qsum r). change (qsum [f (S n)]) with (f (S n) + 0).
  rewrite Nat.sub_0_r. cbn [Nat.sub]. change (qsum []) with 0. ring.
Qed.

Lemma filter_root (g : nat -> bool) tau : (1 <= tau)%nat ->
  filter (fun v => negb (Nat.eqb v 0) && g v) (seq 0 tau) = filter g (seq 1 (tau - 1)).
Proof.
  intros H. destruct tau as [|t]; [lia|]. cbn [Nat.sub seq filter Nat.eqb negb andb]. rewrite Nat.sub_0_r.
  apply filter_ext_in. intros v Hv. apply in_seq in Hv. destruct v; [lia | reflexivity].
Qed.

(* the part of the specification's sum that belongs to components of size kappa + 1 *)
Definition Rk (phi : Q) (tau kappa : nat) : Q :=
  qsum (map (fun e => inject_Z (brute (S kappa) e) * W phi (length (all_edges (S kappa))) e)
            (seq 0 (S (length (all_edges (S kappa))))))
  * qpn (1 - phi) (S kappa * (tau - S kappa)).

(* REGROUPING (no hypothesis on Q): the exact expectation on K_tau is the sum over kappa of
   (number of connected graphs) x weights x (elementary symmetric sum of the H values) *)
Theorem exact_clique_regrouped tau phi Hs : (1 <= tau)%nat -> length Hs = (tau - 1)%nat ->
  exact_val (seq 0 tau) (all_edges tau) 0 phi (fun v => nth (v - 1) Hs 0) ==
  qsum (map (fun kappa => Rk phi tau kappa * qsum (map qprod (combs kappa Hs))) (seq 0 tau)).
Proof.
  intros Htau HH.
  set (u := fun v => nth (v - 1) Hs 0).
  set (V1 := seq 1 (tau - 1)).
  set (E := all_edges tau).
  set (G := fun C : list nat => qprod (map u C)).
  (* 1. each term: weight x G(comp) *)
  assert (S1 : exact_val (seq 0 tau) E 0 phi u ==
               qsum (map (fun T => W phi (length E) (length T) * G (comp tau T)) (subseqs E))).
  { unfold exact_val. apply qsum_map_ext. intros T HT. cbv zeta. rewrite !qpow_nat. unfold W, G.
    apply Qmult_comp; [reflexivity|].
    match goal with |- qprod (map u ?X) == _ => assert (Ef : X = comp tau T) end.
    { unfold comp. apply (filter_root (fun v => same_comp (labels (seq 0 tau) T) 0 v) tau Htau). }
    rewrite Ef. reflexivity. }
  rewrite S1. clear S1.
  (* 2. pick the component among all vertex subsets, swap the sums *)
  rewrite (qsum_map_ext _ (fun T => qsum (map (fun C => W phi (length E) (length T) * bq (leqb C (comp tau T)) * G C)
                                              (subseqs V1)))).
  2:{ intros T _. unfold comp. fold V1.
      rewrite <- (pick_filter _ V1 G (seq_NoDup _ _)), <- qsum_scale.
      apply qsum_map_ext. intros C _. ring. }
  rewrite qsum_swap. cbv beta.
  (* 3. the weight of each C *)
  rewrite (qsum_map_ext _ (fun C => G C * Rk phi tau (length C))).
  2:{ intros C HCin. apply subseqs_spec in HCin.
      rewrite (qsum_scale_r (G C) (fun T => W phi (length E) (length T) * bq (leqb C (comp tau T))) (subseqs E)).
      unfold E. rewrite (comp_weight phi tau Htau C HCin), (boundary_count tau Htau C HCin).
      unfold Rk. cbn [Cr length]. ring. }
  (* 4. group the vertex subsets by size *)
  rewrite subseqs_by_size. unfold V1 at 2. rewrite seq_length. replace (S (tau - 1)) with tau by lia.
  apply qsum_map_ext. intros kappa _.
  rewrite (qsum_map_ext _ (fun C => Rk phi tau kappa * G C)).
  2:{ intros C HCin. apply combs_spec in HCin. rewrite (proj2 HCin). ring. }
  rewrite qsum_scale. apply Qmult_comp; [reflexivity|].
  assert (HV : map u V1 = Hs).
  { unfold V1, u. rewrite <- seq_shift, map_map. cbn [Nat.sub]. rewrite <- HH.
    rewrite (map_ext _ (fun i => nth i Hs 0)) by (intros; rewrite Nat.sub_0_r; reflexivity).
    apply map_nth_seq_gen. }
  rewrite <- HV, combs_map, map_map. reflexivity.
Qed.

(* ---- the code's inner sum for one kappa = Rk x factor, GIVEN that Q(kappa+1, .) counts connected graphs *)
Lemma all_edges_S_length kappa : length (all_edges (S kappa)) = (length (all_edges kappa) + kappa)%nat.
Proof. pose proof (all_edges_len2 (S kappa)). pose proof (all_edges_len2 kappa). nia. Qed.

Lemma clique_inner_sum phi tau kappa (factor : Q) :
  (kappa < tau)%nat ->
  (forall k, (0 <= k <= tri (Z.of_nat (S kappa)))%Z -> Qv (S kappa) k = brute (S kappa) (Z.to_nat k)) ->
  qsum (map (fun m =>
          let kz := Z.of_nat kappa in
          let e := (kz * (kz + 1) / 2 - m)%Z in
          inject_Z (Qv (S kappa) e) * qpow phi e * qpow (1 - phi) (omega tau kappa + m) * factor)
        (zrange 0 (Z.of_nat kappa * (Z.of_nat kappa - 1) / 2 + 1))) ==
  Rk phi tau kappa * factor.
Proof.
  intros Hk HQ. cbv zeta.
  set (Tn := length (all_edges (S kappa))). set (M := length (all_edges kappa)).
  assert (HTn : Tn = (M + kappa)%nat) by apply all_edges_S_length.
  assert (HMz : (Z.of_nat kappa * (Z.of_nat kappa - 1) / 2 = Z.of_nat M)%Z).
  { unfold M. rewrite all_edges_length. reflexivity. }
  assert (HTz : (Z.of_nat kappa * (Z.of_nat kappa + 1) / 2 = Z.of_nat Tn)%Z).
  { unfold Tn. rewrite all_edges_length. unfold tri. f_equal. rewrite Nat2Z.inj_succ. unfold Z.succ. ring. }
  assert (HTtri : tri (Z.of_nat (S kappa)) = Z.of_nat Tn) by (unfold Tn; rewrite all_edges_length; reflexivity).
  rewrite HMz, HTz.
  replace (Z.of_nat M + 1)%Z with (0 + Z.of_nat (S M))%Z by lia. rewrite zrange_seq, map_map.
  unfold Rk. fold Tn. rewrite (qsum_rev_seq (fun e => inject_Z (brute (S kappa) e) * W phi Tn e) Tn).
  replace (S Tn) with (S M + kappa)%nat by lia. rewrite seq_app, map_app, qsum_app.
  rewrite (qsum_zero _ (seq (0 + S M) kappa)).
  2:{ intros m Hm. apply in_seq in Hm.
      assert (Hz : brute (S kappa) (Tn - m) = 0%Z).
      { rewrite <- (Nat2Z.id (Tn - m)), <- HQ by lia. apply Qv_out_of_range; lia. }
      cbv beta. rewrite Hz. change (inject_Z 0) with 0. ring. }
  rewrite Qplus_0_r, <- qsum_scale_r, <- qsum_scale_r. apply qsum_map_ext. intros m Hm. apply in_seq in Hm.
  replace (Z.of_nat Tn - (0 + Z.of_nat m))%Z with (Z.of_nat (Tn - m)) by lia.
  rewrite (omega_closed tau kappa Hk).
  replace (Z.of_nat (S kappa * (tau - S kappa)) + (0 + Z.of_nat m))%Z
    with (Z.of_nat (S kappa * (tau - S kappa) + m)) by lia.
  rewrite !qpow_nat, qpn_add, HQ by lia. rewrite Nat2Z.id.
  unfold W. replace (Tn - (Tn - m))%nat with m by lia. ring.
Qed.

(* REDUCTION: if Q(n,k) is the number of connected labelled graphs with n vertices and k edges for every n <= N,
   then the clique equation is the exact expectation on K_tau for every 2 <= tau <= N, every rational phi and
   every heterogeneous list of tau - 1 neighbour values *)
Theorem clique_identity_from_Q_count N :
  (forall n k, (1 <= n <= N)%nat -> (0 <= k <= tri (Z.of_nat n))%Z -> Qv n k = brute n (Z.to_nat k)) ->
  forall tau, (2 <= tau <= N)%nat ->
  forall (phi : Q) (Hs : list Q), length Hs = (tau - 1)%nat ->
    clique_val tau phi Hs == exact_val (seq 0 tau) (all_edges tau) 0 phi (fun v => nth (v - 1) Hs 0).
Proof.
  intros HQ tau Ht phi Hs HH.
  rewrite (exact_clique_regrouped tau phi Hs) by (assumption || lia).
  unfold clique_val. apply qsum_map_ext. intros kappa Hk. apply in_seq in Hk. cbv zeta.
  apply (clique_inner_sum phi tau kappa (qsum (map qprod (combs kappa Hs)))); [lia|].
  intros k Hkr. apply HQ; [lia | exact Hkr].
Qed.

(* the unbounded form: the ONLY missing ingredient of the clique identity for all tau is the count *)
Theorem clique_identity_reduces_to_Q_count :
  (forall n k, (1 <= n)%nat -> (0 <= k <= tri (Z.of_nat n))%Z -> Qv n k = brute n (Z.to_nat k)) ->
  forall tau, (2 <= tau)%nat ->
  forall (phi : Q) (Hs : list Q), length Hs = (tau - 1)%nat ->
    clique_val tau phi Hs == exact_val (seq 0 tau) (all_edges tau) 0 phi (fun v => nth (v - 1) Hs 0).
Proof.
  intros HQ tau Ht. apply (clique_identity_from_Q_count tau); [|lia].
  intros n k Hn Hk. apply HQ; [lia | exact Hk].
Qed.

(* independent re-derivation of the reflection result: tau <= 6 from Q = brute for n <= 6 *)
Theorem clique_identity_upto_6_via_count : forall tau, (2 <= tau <= 6)%nat ->
  forall (phi : Q) (Hs : list Q), length Hs = (tau - 1)%nat ->
    clique_val tau phi Hs == exact_val (seq 0 tau) (all_edges tau) 0 phi (fun v => nth (v - 1) Hs 0).
Proof.
  apply (clique_identity_from_Q_count 6). intros n k Hn Hk.
  destruct (Q_count_upto_6 n k Hn Hk) as [H1 H2]. congruence.
Qed.
