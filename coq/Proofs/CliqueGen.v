(* C16 growth: the clique identity for EVERY tau, reduced to the single ingredient
   "Q(n,k) counts the connected labelled graphs on n vertices with k edges".
   Plan (the classical regrouping, made formal):
   A. prod_{v in comp(S)} H_v = sum over vertex subsets C of [C = comp(S)] prod_{v in C} H_v; swap the sums;
   B. for a fixed C (C' = 0 :: C, kappa = |C|): comp(S) = C  <->  no edge of S leaves C' and S restricted to C'
      connects C'; the edges outside C' are free;
   C. the sum over edge subsets factorises along the partition of E(K_tau) into inside / not inside C';
      "no boundary edge kept" has weight (1-phi)^(number of boundary edges); free edges have total weight 1;
   D. E(K_tau) restricted to C' is the image of E(K_{kappa+1}) under the increasing relabelling, and
      connectivity is invariant under an injective relabelling: the number of connected S_in with e edges is
      brute (kappa+1) e;
   E. the number of boundary edges is (kappa+1)(tau-kappa-1) = omega tau kappa; regroup by |C| = kappa and
      recognise sum_{C, |C| = kappa} prod H = the code's [factor]. *)
From Coq Require Import List ZArith QArith Qpower Bool Arith Lia Qfield.
From GV Require Import Lib.Tree Lib.Graph16 Lib.PolyRefl16 Model.QCount Model.CliqueEq
                       Proofs.QCountP Proofs.CliqueEqP Proofs.CycleGen Proofs.QQGen.
Import ListNotations.
Local Open Scope Q_scope.

(* ================================================================== generic sums *)
Definition bq (b : bool) : Q := if b then 1 else 0.

Lemma qsum_scale {A} c (f : A -> Q) l : qsum (map (fun a => c * f a) l) == c * qsum (map f l).
Proof. induction l as [|a l IH]; cbn; [ring|]. unfold qsum in IH. rewrite IH. ring. Qed.

Lemma qsum_scale_r {A} c (f : A -> Q) l : qsum (map (fun a => f a * c) l) == qsum (map f l) * c.
Proof. induction l as [|a l IH]; cbn; [ring|]. unfold qsum in IH. rewrite IH. ring. Qed.

Lemma qsum_plus {A} (f g : A -> Q) l : qsum (map (fun a => f a + g a) l) == qsum (map f l) + qsum (map g l).
Proof. induction l as [|a l IH]; cbn; [ring|]. unfold qsum in IH. rewrite IH. ring. Qed.

Lemma qsum_zero {A} (f : A -> Q) l : (forall a, In a l -> f a == 0) -> qsum (map f l) == 0.
Proof.
  induction l as [|a l IH]; intros H; cbn; [reflexivity|].
  rewrite (H a) by (left; reflexivity). unfold qsum in IH. rewrite IH; [ring|].
  intros b Hb. apply H. right. exact Hb.
Qed.

Lemma qsum_swap {A B} (f : A -> B -> Q) la lb :
  qsum (map (fun a => qsum (map (fun b => f a b) lb)) la) ==
  qsum (map (fun b => qsum (map (fun a => f a b) la)) lb).
Proof.
  induction la as [|a la IH]; cbn [map].
  - cbn. symmetry. apply qsum_zero. intros; reflexivity.
  - change (qsum (?x :: ?t)) with (x + qsum t). rewrite IH.
    rewrite <- qsum_plus. apply qsum_map_ext. intros b _. reflexivity.
Qed.

(* sum of c over the elements satisfying p = c * their number *)
Lemma qsum_count {A} (p : A -> bool) l : qsum (map (fun a => bq (p a)) l) == inject_Z (Z.of_nat (length (filter p l))).
Proof.
  induction l as [|a l IH]; [reflexivity|]. cbn [map filter].
  change (qsum (?x :: ?t)) with (x + qsum t). rewrite IH. destruct (p a); unfold bq.
  - cbn [length]. rewrite inject_S. ring.
  - ring.
Qed.

(* ---- all sublists, grouped by size *)
Lemma combs_S_nil {A} k : combs (S k) (@nil A) = [].
Proof. reflexivity. Qed.

Lemma subseqs_by_size {A} (F : list A -> Q) : forall l,
  qsum (map F (subseqs l)) == qsum (map (fun k => qsum (map F (combs k l))) (seq 0 (S (length l)))).
Proof.
  intros l. revert F. induction l as [|x t IH]; intros F.
  - cbn. ring.
  - cbn [subseqs length]. rewrite map_app, qsum_app, map_map.
    rewrite (IH (fun s => F (x :: s))), (IH F).
    (* right-hand side: k = 0 and k = S k' *)
    change (seq 0 (S (S (length t)))) with (0%nat :: seq 1 (S (length t))).
    rewrite <- seq_shift. cbn [map]. rewrite map_map.
    change (qsum (?a :: ?r)) with (a + qsum r).
    assert (E : qsum (map (fun k => qsum (map F (combs (S k) (x :: t)))) (seq 0 (S (length t)))) ==
                qsum (map (fun k => qsum (map (fun s => F (x :: s)) (combs k t))) (seq 0 (S (length t)))) +
                qsum (map (fun k => qsum (map F (combs (S k) t))) (seq 0 (S (length t))))).
    { rewrite <- qsum_plus. apply qsum_map_ext. intros k _. cbn [combs].
      rewrite map_app, qsum_app, map_map. reflexivity. }
    rewrite E. clear E.
    (* sum_{k<=|t|} F-sum(combs k t) = F [] ... shift *)
    assert (E2 : qsum (map (fun k => qsum (map F (combs k t))) (seq 0 (S (length t)))) ==
                 qsum (map F (combs 0 (x :: t))) +
                 qsum (map (fun k => qsum (map F (combs (S k) t))) (seq 0 (S (length t))))).
    { change (seq 0 (S (length t))) with (0%nat :: seq 1 (length t)) at 1.
      cbn [map]. change (qsum (?a :: ?r)) with (a + qsum r). rewrite !combs_0.
      apply Qplus_comp; [reflexivity|].
      rewrite <- seq_shift, map_map.
      rewrite (seq_S (length t) 0), map_app, qsum_app. cbn [Nat.add map].
      rewrite (combs_too_many t (S (length t))) by lia. cbn [map].
      change (qsum [qsum []]) with (0 + 0). ring. }
    rewrite E2. ring.
Qed.

(* ---- boolean equality of vertex lists *)
Fixpoint leqb (a b : list nat) : bool :=
  match a, b with
  | [], [] => true
  | x :: a', y :: b' => Nat.eqb x y && leqb a' b'
  | _, _ => false
  end.

Lemma leqb_eq a b : leqb a b = true <-> a = b.
Proof.
  revert b. induction a as [|x a IH]; intros [|y b]; cbn; try (split; [discriminate | discriminate]); [tauto|].
  rewrite andb_true_iff, Nat.eqb_eq, IH. split; [intros [-> ->]; reflexivity | intros [= -> ->]; auto].
Qed.

(* ---- A. picking the component among all vertex subsets *)
Lemma pick_filter (p : nat -> bool) : forall l (g : list nat -> Q), NoDup l ->
  qsum (map (fun C => bq (leqb C (filter p l)) * g C) (subseqs l)) == g (filter p l).
Proof.
  induction l as [|x t IH]; intros g Hnd.
  - cbn. ring.
  - inversion Hnd as [|? ? Hx Ht]; subst. cbn [subseqs filter]. rewrite map_app, qsum_app, map_map.
    destruct (p x) eqn:Epx.
    + rewrite (qsum_map_ext (fun C => bq (leqb (x :: C) (x :: filter p t)) * g (x :: C))
                            (fun C => bq (leqb C (filter p t)) * g (x :: C))).
      2:{ intros C _. cbn [leqb]. rewrite Nat.eqb_refl. reflexivity. }
      rewrite (IH (fun C => g (x :: C)) Ht).
      rewrite qsum_zero; [ring|]. intros C HC. apply subseqs_spec in HC.
      destruct (leqb C (x :: filter p t)) eqn:E; [|unfold bq; ring].
      apply leqb_eq in E. subst C. exfalso. apply Hx. apply (subl_incl _ _ HC). left. reflexivity.
    + rewrite (IH g Ht). rewrite qsum_zero; [ring|]. intros C HC.
      destruct (leqb (x :: C) (filter p t)) eqn:E; [|unfold bq; ring].
      apply leqb_eq in E. exfalso. apply Hx.
      assert (Hin : In x (filter p t)) by (rewrite <- E; left; reflexivity).
      apply filter_In in Hin. tauto.
Qed.

(* ---- C. a sum over the sublists of l factorises along a partition of l *)
Lemma split2 {A} (p : A -> bool) : forall l (F : list A -> list A -> Q),
  qsum (map (fun S => F (filter p S) (filter (fun a => negb (p a)) S)) (subseqs l)) ==
  qsum (map (fun S1 => qsum (map (fun S2 => F S1 S2) (subseqs (filter (fun a => negb (p a)) l))))
            (subseqs (filter p l))).
Proof.
  induction l as [|x t IH]; intros F.
  - cbn. ring.
  - cbn [subseqs filter]. rewrite map_app, qsum_app, map_map. cbn [filter].
    destruct (p x) eqn:Epx; cbn [negb].
    + rewrite (IH (fun S1 S2 => F (x :: S1) S2)), (IH F).
      cbn [subseqs]. rewrite map_app, qsum_app, map_map. reflexivity.
    + rewrite (IH (fun S1 S2 => F S1 (x :: S2))), (IH F).
      rewrite <- qsum_plus. apply qsum_map_ext. intros S1 _.
      cbn [subseqs]. rewrite map_app, qsum_app, map_map. reflexivity.
Qed.

(* ---- weights *)
Section Weights.
Variable phi : Q.
Let q := 1 - phi.

(* phi^s (1-phi)^(n-s): weight of keeping s of n edges *)
Definition W (n s : nat) : Q := qpn phi s * qpn q (n - s).

Lemma W_split n1 n2 s1 s2 : (s1 <= n1)%nat -> (s2 <= n2)%nat ->
  W (n1 + n2) (s1 + s2) == W n1 s1 * W n2 s2.
Proof.
  intros H1 H2. unfold W. replace (n1 + n2 - (s1 + s2))%nat with ((n1 - s1) + (n2 - s2))%nat by lia.
  rewrite !qpn_add. ring.
Qed.

Lemma W_SS n s : W (S n) (S s) == phi * W n s.
Proof. unfold W. cbn [Nat.sub qpn]. ring. Qed.

Lemma W_S n s : (s <= n)%nat -> W (S n) s == q * W n s.
Proof. intros H. unfold W. replace (S n - s)%nat with (S (n - s)) by lia. cbn [qpn]. ring. Qed.

Definition nilb {A} (l : list A) : bool := match l with [] => true | _ => false end.

(* probability that none of the edges satisfying p is kept *)
Lemma none_kept {A} (p : A -> bool) : forall l,
  qsum (map (fun T => W (length l) (length T) * bq (nilb (filter p T))) (subseqs l)) ==
  qpn q (length (filter p l)).
Proof.
  induction l as [|x t IH].
  - cbn. unfold W. cbn. ring.
  - cbn [subseqs]. rewrite map_app, qsum_app, map_map. cbn [length filter].
    assert (E2 : qsum (map (fun T => W (S (length t)) (length T) * bq (nilb (filter p T))) (subseqs t)) ==
                 q * qpn q (length (filter p t))).
    { rewrite <- IH, <- qsum_scale. apply qsum_map_ext. intros T HS. apply subseqs_spec in HS.
      rewrite W_S by (apply subl_length, HS). ring. }
    rewrite E2. destruct (p x).
    + rewrite qsum_zero by (intros; unfold bq, nilb; ring). cbn [length qpn]. ring.
    + assert (E1 : qsum (map (fun T => W (S (length t)) (S (length T)) * bq (nilb (filter p T))) (subseqs t)) ==
                   phi * qpn q (length (filter p t))).
      { rewrite <- IH, <- qsum_scale. apply qsum_map_ext. intros T _. rewrite W_SS. ring. }
      rewrite E1. unfold q. ring.
Qed.

Lemma filter_false {A} (l : list A) : filter (fun _ => false) l = [].
Proof. induction l; [reflexivity | assumption]. Qed.

(* all weights sum to 1 (not used below, kept as a sanity lemma: free edges do not matter) *)
Lemma all_weights {A} (l : list A) : qsum (map (fun T => W (length l) (length T)) (subseqs l)) == 1.
Proof.
  pose proof (none_kept (fun _ : A => false) l) as H.
  rewrite (qsum_map_ext _ (fun T => W (length l) (length T))) in H.
  - rewrite H, filter_false. reflexivity.
  - intros T _. rewrite filter_false. unfold bq, nilb. ring.
Qed.

End Weights.
