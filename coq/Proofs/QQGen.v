(* C16 growth: QQ(n,k) = brute(n,k) for ALL n and k in range (no reflection).
   QQ counts the REMOVED-edge subsets T of size s-k (s = n(n-1)/2) such that K_n minus T is connected;
   brute counts the KEPT-edge subsets S of size k that are connected.  The complement map
   T |-> all_edges \ T is an involution on sublists of a duplicate-free list, exchanging sizes j and s-j. *)
From Coq Require Import List ZArith Bool Arith Lia.
From GV Require Import Lib.Tree Lib.Graph16 Model.QCount Proofs.QCountP.
Import ListNotations.

(* ================================================================== complement of a sublist *)
Lemma subl_filter {A} (p : A -> bool) l : subl (filter p l) l.
Proof. induction l as [|x l IH]; cbn; [constructor|]. destruct (p x); constructor; exact IH. Qed.

Lemma ediff_subl es T : subl (ediff es T) es.
Proof. apply subl_filter. Qed.

Lemma emem_cons e x s : emem e (x :: s) = edge_eqb e x || emem e s.
Proof. reflexivity. Qed.

Lemma edge_eqb_refl e : edge_eqb e e = true.
Proof. apply edge_eqb_eq. reflexivity. Qed.

Lemma emem_false e l : ~ In e l -> emem e l = false.
Proof. intros H. destruct (emem e l) eqn:E; [apply emem_In in E; contradiction | reflexivity]. Qed.

(* removing x :: s from x :: l, x not in l *)
Lemma ediff_cons_cons x l s : ~ In x l -> ediff (x :: l) (x :: s) = ediff l s.
Proof.
  intros Hx. unfold ediff. cbn [filter].
  change (emem x (x :: s)) with (edge_eqb x x || emem x s). rewrite edge_eqb_refl. cbn [orb negb].
  apply filter_ext_in. intros e He.
  change (emem e (x :: s)) with (edge_eqb e x || emem e s).
  destruct (edge_eqb e x) eqn:E; [|reflexivity]. apply edge_eqb_eq in E. subst. contradiction.
Qed.

Lemma ediff_cons_skip x l s : ~ In x s -> ediff (x :: l) s = x :: ediff l s.
Proof. intros Hx. unfold ediff. cbn [filter]. rewrite (emem_false x s Hx). reflexivity. Qed.

Lemma ediff_length es T : NoDup es -> subl T es -> (length (ediff es T) + length T = length es)%nat.
Proof.
  intros Hnd H. induction H as [|x s l Hs IH|x s l Hs IH].
  - reflexivity.
  - inversion Hnd; subst. rewrite ediff_cons_cons by assumption. cbn. rewrite <- IH by assumption. lia.
  - inversion Hnd; subst. rewrite ediff_cons_skip.
    + cbn. rewrite <- IH by assumption. lia.
    + intros Hin. apply (subl_incl _ _ Hs) in Hin. contradiction.
Qed.

Lemma ediff_invol es T : NoDup es -> subl T es -> ediff es (ediff es T) = T.
Proof.
  intros Hnd H. induction H as [|x s l Hs IH|x s l Hs IH].
  - reflexivity.
  - inversion Hnd; subst. rewrite ediff_cons_cons by assumption.
    rewrite ediff_cons_skip; [f_equal; apply IH; assumption|].
    intros Hin. apply (subl_incl _ _ (ediff_subl l s)) in Hin. contradiction.
  - inversion Hnd; subst. rewrite (ediff_cons_skip x l s).
    + rewrite ediff_cons_cons by assumption. apply IH. assumption.
    + intros Hin. apply (subl_incl _ _ Hs) in Hin. contradiction.
Qed.

(* ================================================================== counting through the involution *)
Lemma NoDup_map_on {A B} (f : A -> B) l :
  (forall x y, In x l -> In y l -> f x = f y -> x = y) -> NoDup l -> NoDup (map f l).
Proof.
  intros Hinj Hnd. induction Hnd as [|a l Ha Hnd IH]; cbn; constructor.
  - rewrite in_map_iff. intros [b [E Hb]]. apply Hinj in E; [subst; contradiction | right; exact Hb | left; reflexivity].
  - apply IH. intros x y Hx Hy. apply Hinj; right; assumption.
Qed.

Lemma compl_count_le es (p : list edge -> bool) j j' : NoDup es -> (j + j' = length es)%nat ->
  (length (filter (fun T => p (ediff es T)) (combs j es)) <= length (filter p (combs j' es)))%nat.
Proof.
  intros Hnd Hj.
  set (L1 := filter (fun T => p (ediff es T)) (combs j es)).
  rewrite <- (map_length (ediff es) L1). apply NoDup_incl_length.
  - apply NoDup_map_on; [|apply NoDup_filter, combs_NoDup, Hnd].
    intros a b Ha Hb E. apply filter_In in Ha. apply filter_In in Hb.
    destruct Ha as [Ha _]. destruct Hb as [Hb _]. apply combs_spec in Ha. apply combs_spec in Hb.
    rewrite <- (ediff_invol es a Hnd (proj1 Ha)), <- (ediff_invol es b Hnd (proj1 Hb)), E. reflexivity.
  - intros S HS. apply in_map_iff in HS. destruct HS as [T [<- HT]]. apply filter_In in HT.
    destruct HT as [HT Hp]. apply combs_spec in HT. destruct HT as [HT Hlen].
    apply filter_In. split; [|exact Hp]. apply combs_spec. split; [apply ediff_subl|].
    pose proof (ediff_length es T Hnd HT). lia.
Qed.

(* GENERAL: deleting j edges and testing the rest = keeping |es| - j edges and testing them *)
Lemma compl_count es (p : list edge -> bool) j j' : NoDup es -> (j + j' = length es)%nat ->
  length (filter (fun T => p (ediff es T)) (combs j es)) = length (filter p (combs j' es)).
Proof.
  intros Hnd Hj. apply Nat.le_antisymm; [apply compl_count_le; assumption|].
  rewrite (filter_ext_in p (fun S => (fun T => p (ediff es T)) (ediff es S)) (combs j' es)).
  - apply (compl_count_le es (fun T => p (ediff es T)) j' j); [exact Hnd | lia].
  - intros S HS. apply combs_spec in HS. cbv beta. rewrite (ediff_invol es S Hnd (proj1 HS)). reflexivity.
Qed.

(* ================================================================== K_n has n(n-1)/2 edges *)
Lemma all_edges_length_fold n : forall l,
  length (flat_map (fun a => map (fun b => (a, b)) (seq (S a) (n - S a))) l) =
  fold_right (fun a s => (n - S a + s)%nat) 0%nat l.
Proof.
  induction l as [|a l IH]; cbn [flat_map fold_right]; [reflexivity|].
  rewrite app_length, map_length, seq_length, IH. reflexivity.
Qed.

Lemma all_edges_length_aux n : forall m, (m <= n)%nat ->
  (2 * fold_right (fun a s => (n - S a + s)%nat) 0%nat (seq 0 m) + m * m + m = 2 * n * m)%nat.
Proof.
  induction m as [|m IH]; intros Hm; [cbn; lia|].
  rewrite seq_S, fold_right_app. cbn [fold_right Nat.add].
  assert (Hfold : forall l c, fold_right (fun a s => (n - S a + s)%nat) c l =
                              (fold_right (fun a s => (n - S a + s)%nat) 0 l + c)%nat).
  { induction l as [|a l IHl]; intros c; cbn [fold_right]; [reflexivity|]. rewrite IHl. lia. }
  rewrite Hfold. specialize (IH ltac:(lia)). nia.
Qed.

Lemma all_edges_length n : Z.of_nat (length (all_edges n)) = tri (Z.of_nat n).
Proof.
  unfold all_edges. rewrite all_edges_length_fold.
  pose proof (all_edges_length_aux n n (Nat.le_refl n)) as H.
  set (c := fold_right (fun a s => (n - S a + s)%nat) 0%nat (seq 0 n)) in *.
  unfold tri. apply Z.div_unique_exact; [lia|]. nia.
Qed.

Local Open Scope Z_scope.

(* GENERAL: the brute-force IMPLEMENTATION QQ (deleting edges from K_n) counts the connected labelled graphs
   with n vertices and k edges, for every n and every k in 0 .. n(n-1)/2 *)
Theorem QQ_eq_brute_general : forall n k, 0 <= k <= tri (Z.of_nat n) -> QQv n k = brute n (Z.to_nat k).
Proof.
  intros n k Hk. unfold QQv, ncg_count, brute. f_equal.
  apply (compl_count (all_edges n) (fun S => connectedb (seq 0 n) S)); [apply all_edges_NoDup|].
  pose proof (all_edges_length n). lia.
Qed.

(* with C16_brute_spec: QQ(n,k) IS the number of connected labelled graphs *)
Theorem QQ_counts_connected_graphs : forall n k, 0 <= k <= tri (Z.of_nat n) ->
  Card (fun S => subl S (all_edges n) /\ length S = Z.to_nat k /\ Connected (seq 0 n) S) (QQv n k).
Proof. intros n k Hk. rewrite QQ_eq_brute_general by exact Hk. apply brute_spec. Qed.
