(* Proofs about the wire-level checker entries of the EECC model (C09):
   - norm_graph yields exactly the simple graph of the edge list handed over;
   - c09_check_cover (the exact-cover clauses alone, used for graphs beyond the reach of the brute-force
     maximal-clique enumeration) answers 1 exactly when the Prop-level ExactCover holds, and its answers are
     the first two answers of c09_check. *)
From Coq Require Import List Arith Bool Lia ZArith.
From GV Require Import Lib.Tree Lib.GraphE Model.Eecc Proofs.EeccP.
Import ListNotations.

Lemma edge_eqb_spec : forall a b, edge_eqb a b = true <-> a = b.
Proof.
  intros [a1 a2] [b1 b2]. unfold edge_eqb. cbn [fst snd]. rewrite andb_true_iff, !Nat.eqb_eq. split.
  - intros [H1 H2]. subst. reflexivity.
  - intros H. inversion H. split; reflexivity.
Qed.

Lemma insert_edge_In : forall e l x, In x (insert_edge e l) <-> x = e \/ In x l.
Proof.
  intros e l x. induction l as [| d r IH]; cbn [insert_edge].
  - cbn. split; [intros [H | []]; left; symmetry; exact H | intros [H | []]; left; symmetry; exact H].
  - destruct (edge_eqb e d) eqn:E.
    + apply edge_eqb_spec in E. subst d. split; [intros H; right; exact H |].
      intros [H | H]; [subst x; left; reflexivity | exact H].
    + destruct (edge_ltb e d).
      * cbn [In]. split; [intros [H | H]; [left; symmetry; exact H | right; exact H] |].
        intros [H | H]; [left; symmetry; exact H | right; exact H].
      * cbn [In]. rewrite IH. tauto.
Qed.

Lemma fold_insert_edge_In : forall l x, In x (fold_right insert_edge [] l) <-> In x l.
Proof.
  intros l x. induction l as [| e r IH]; cbn [fold_right].
  - tauto.
  - rewrite insert_edge_In, IH. cbn [In]. split; intros [H | H]; auto.
Qed.

(* the graph every checker entry judges: u < v, and the pair was handed over in one orientation or the other *)
Theorem norm_graph_spec : forall g u v, In (u, v) (norm_graph g) <-> u < v /\ adj g u v.
Proof.
  intros g u v. unfold norm_graph. rewrite fold_insert_edge_In, filter_In, in_map_iff. cbn [fst snd]. split.
  - intros [[[a b] [Ho Hin]] Hne]. apply negb_true_iff, Nat.eqb_neq in Hne.
    unfold orient in Ho. cbn [fst snd] in Ho. destruct (Nat.ltb b a) eqn:E.
    + inversion Ho. subst. apply Nat.ltb_lt in E. split; [exact E | right; exact Hin].
    + inversion Ho. subst. apply Nat.ltb_ge in E. split; [lia | left; exact Hin].
  - intros [Hlt [Hin | Hin]].
    + split; [| apply negb_true_iff, Nat.eqb_neq; lia]. exists (u, v). split; [| exact Hin].
      unfold orient. cbn [fst snd]. destruct (Nat.ltb v u) eqn:E; [apply Nat.ltb_lt in E; lia | reflexivity].
    + split; [| apply negb_true_iff, Nat.eqb_neq; lia]. exists (v, u). split; [| exact Hin].
      unfold orient. cbn [fst snd]. destruct (Nat.ltb u v) eqn:E; [reflexivity | apply Nat.ltb_ge in E; lia].
Qed.

Lemma of_bool_true : forall b, of_bool b = of_bool true <-> b = true.
Proof. intros [|]; unfold of_bool; split; intros H; try reflexivity; discriminate H. Qed.

(* the first answer of c09_check_cover is 1 exactly when the cover handed over is an exact cover (Prop level) of
   the simple graph of the edge list handed over, within the bound handed over *)
Theorem check_cover_entry_sound : forall t,
  t_nth 0 (c09_check_cover t) = of_bool true <->
  ExactCover (norm_graph (t_pairs (t_nth 0 t))) (t_nat (t_nth 1 t)) (t_natss (t_nth 2 t)).
Proof.
  intros t. unfold c09_check_cover. unfold t_nth at 1. cbn [t_list nth].
  rewrite of_bool_true. apply check_cover_sound.
Qed.

(* the second answer is 1 exactly when the caller reported no edge left in the working graph *)
Theorem check_cover_entry_empty : forall t,
  t_nth 1 (c09_check_cover t) = of_bool true <-> t_bool (t_nth 3 t) = false.
Proof.
  intros t. unfold c09_check_cover. unfold t_nth at 1. cbn [t_list nth].
  rewrite of_bool_true. apply negb_true_iff.
Qed.

(* c09_check_cover is c09_check without its third (maximal-clique) clause *)
Theorem check_cover_entry_agrees : forall t, t_list (c09_check_cover t) = firstn 2 (t_list (c09_check t)).
Proof. intros t. reflexivity. Qed.
