(* Proofs about the bond-percolation model (C18). *)
From Coq Require Import List ZArith QArith Bool Arith Lia Permutation.
From GV Require Import Lib.Tree Model.Perc.
Import ListNotations.
Local Open Scope nat_scope.

(* ---------- basic list facts ---------- *)
Lemma mem_In x l : mem x l = true <-> In x l.
Proof.
  unfold mem. rewrite existsb_exists. split.
  - intros [y [Hy E]]. apply Nat.eqb_eq in E. subst. exact Hy.
  - intros H. exists x. split; [exact H|apply Nat.eqb_refl].
Qed.

Lemma nodup_In l x : In x (nodup l) <-> In x l.
Proof.
  induction l as [|y t IH]; cbn; [tauto|].
  destruct (mem y t) eqn:E.
  - rewrite IH. split; [tauto|]. intros [->|H]; [|exact H]. apply mem_In. exact E.
  - cbn. rewrite IH. tauto.
Qed.

Lemma nodup_NoDup l : NoDup (nodup l).
Proof.
  induction l as [|y t IH]; cbn; [constructor|].
  destruct (mem y t) eqn:E; [exact IH|].
  constructor; [|exact IH]. rewrite nodup_In. intros H. apply mem_In in H. congruence.
Qed.

(* ---------- connectivity ---------- *)
Definition adj (es : list edge) (u w : nat) : Prop := In (u, w) es \/ In (w, u) es.

Inductive conn (es : list edge) : nat -> nat -> Prop :=
| conn_refl v : conn es v v
| conn_step u w x : conn es u w -> adj es w x -> conn es u x.

Definition wf (nodes : list nat) (es : list edge) : Prop :=
  forall e, In e es -> In (fst e) nodes /\ In (snd e) nodes.

Lemma nbrs_adj es u w : In w (nbrs es u) <-> adj es u w.
Proof.
  unfold nbrs, adj. rewrite in_flat_map. split.
  - intros [[a b] [He Hw]]. cbn in Hw. apply in_app_or in Hw. destruct Hw as [Hw|Hw].
    + destruct (Nat.eqb_spec a u) as [->|]; [|contradiction]. destruct Hw as [<-|[]]. left. exact He.
    + destruct (Nat.eqb_spec b u) as [->|]; [|contradiction]. destruct Hw as [<-|[]]. right. exact He.
  - intros [H|H].
    + exists (u, w). split; [exact H|]. cbn. rewrite Nat.eqb_refl. apply in_or_app. left. left. reflexivity.
    + exists (w, u). split; [exact H|]. cbn. rewrite Nat.eqb_refl. apply in_or_app. right. left. reflexivity.
Qed.

Lemma expand_In es S x : In x (expand es S) <-> In x S \/ exists u, In u S /\ adj es u x.
Proof.
  unfold expand. rewrite nodup_In, in_app_iff, in_flat_map. split.
  - intros [H|[u [Hu Hx]]]; [left; exact H|right]. exists u. split; [exact Hu|apply nbrs_adj; exact Hx].
  - intros [H|[u [Hu Hx]]]; [left; exact H|right]. exists u. split; [exact Hu|apply nbrs_adj; exact Hx].
Qed.

Lemma expand_NoDup es S : NoDup (expand es S).
Proof. apply nodup_NoDup. Qed.

Lemma expand_incl es S : incl S (expand es S).
Proof. intros x Hx. apply expand_In. left. exact Hx. Qed.

Lemma iter_incl es n : forall S, incl S (iter_expand es n S).
Proof.
  induction n as [|n IH]; intros S; cbn; [apply incl_refl|].
  eapply incl_tran; [apply expand_incl|apply IH].
Qed.

Lemma iter_NoDup es n : forall S, NoDup S -> NoDup (iter_expand es n S).
Proof.
  induction n as [|n IH]; intros S H; cbn; [exact H|]. apply IH. apply expand_NoDup.
Qed.

Lemma conn_trans_adj es s u x : conn es s u -> adj es u x -> conn es s x.
Proof. intros. eapply conn_step; eauto. Qed.

Lemma iter_sound es n : forall S x, In x (iter_expand es n S) -> exists s, In s S /\ conn es s x.
Proof.
  induction n as [|n IH]; intros S x Hx; cbn in Hx.
  - exists x. split; [exact Hx|constructor].
  - destruct (IH _ _ Hx) as [s [Hs Hc]]. apply expand_In in Hs. destruct Hs as [Hs|[u [Hu Ha]]].
    + exists s. split; assumption.
    + exists u. split; [exact Hu|].
      (* conn u s (one step) then s ~> x *)
      clear -Ha Hc. induction Hc as [v|v w y Hvw IHc Hwy].
      * eapply conn_step; [constructor|exact Ha].
      * eapply conn_step; [apply IHc; exact Ha|exact Hwy].
Qed.

Definition closed (es : list edge) (S : list nat) : Prop :=
  forall u w, In u S -> adj es u w -> In w S.

Lemma closed_conn es S v w : closed es S -> In v S -> conn es v w -> In w S.
Proof. intros Hc Hv H. induction H as [v|v u x _ IH Ha]; [exact Hv|]. eapply Hc; [apply IH; exact Hv|exact Ha]. Qed.

Lemma closed_expand_same es S : closed es S -> forall x, In x (expand es S) <-> In x S.
Proof.
  intros Hc x. rewrite expand_In. split; [|tauto].
  intros [H|[u [Hu Ha]]]; [exact H|eapply Hc; eauto].
Qed.

Lemma closed_ext es S S' : (forall x, In x S' <-> In x S) -> closed es S -> closed es S'.
Proof. intros E Hc u w Hu Ha. apply E. eapply Hc; [apply E; exact Hu|exact Ha]. Qed.

Lemma iter_closed es n : forall S, closed es S -> closed es (iter_expand es n S).
Proof.
  induction n as [|n IH]; intros S Hc; cbn; [exact Hc|].
  apply IH. eapply closed_ext; [apply closed_expand_same; exact Hc|exact Hc].
Qed.

Lemma same_length_closed es S : NoDup S -> length (expand es S) <= length S -> closed es S.
Proof.
  intros Hnd Hlen u w Hu Ha.
  assert (Hincl : incl (expand es S) S).
  { apply NoDup_length_incl; [exact Hnd|exact Hlen|apply expand_incl]. }
  apply Hincl. apply expand_In. right. exists u. split; assumption.
Qed.

Lemma expand_in_nodes nodes es S : wf nodes es -> incl S nodes -> incl (expand es S) nodes.
Proof.
  intros Hwf Hs x Hx. apply expand_In in Hx. destruct Hx as [Hx|[u [Hu [Ha|Ha]]]].
  - apply Hs. exact Hx.
  - apply (Hwf _ Ha).
  - apply (Hwf _ Ha).
Qed.

Lemma iter_reaches_closed nodes es : wf nodes es ->
  forall n S, NoDup S -> incl S nodes -> length nodes - length S <= n ->
  closed es (iter_expand es n S).
Proof.
  intros Hwf. induction n as [|n IH]; intros S Hnd Hin Hdef; cbn.
  - assert (Hall : incl nodes S).
    { apply NoDup_length_incl; [exact Hnd|lia|exact Hin]. }
    intros u w Hu [Ha|Ha]; apply Hall; apply (Hwf _ Ha).
  - destruct (Nat.le_gt_cases (length (expand es S)) (length S)) as [Hle|Hgt].
    + apply iter_closed. eapply closed_ext; [apply closed_expand_same|]; apply same_length_closed; assumption.
    + apply IH; [apply expand_NoDup|apply expand_in_nodes; assumption|lia].
Qed.

Theorem comp_spec nodes es v w :
  wf nodes es -> In v nodes -> (In w (comp nodes es v) <-> conn es v w).
Proof.
  intros Hwf Hv. unfold comp. split.
  - intros H. destruct (iter_sound _ _ _ _ H) as [s [[<-|[]] Hc]]. exact Hc.
  - intros Hc. eapply closed_conn; [|apply iter_incl; left; reflexivity|exact Hc].
    apply (iter_reaches_closed nodes es Hwf).
    + constructor; [intros []|constructor].
    + intros x [<-|[]]. exact Hv.
    + cbn. lia.
Qed.

Lemma comp_NoDup nodes es v : NoDup (comp nodes es v).
Proof. unfold comp. apply iter_NoDup. constructor; [intros []|constructor]. Qed.

Lemma comp_self nodes es v : In v (comp nodes es v).
Proof. unfold comp. apply iter_incl. left. reflexivity. Qed.

Lemma conn_in_nodes nodes es v w : wf nodes es -> In v nodes -> conn es v w -> In w nodes.
Proof.
  intros Hwf Hv H. induction H as [v|v u x _ IH [Ha|Ha]]; [exact Hv|apply (Hwf _ Ha)|apply (Hwf _ Ha)].
Qed.

Lemma comp_incl_nodes nodes es v : wf nodes es -> In v nodes -> incl (comp nodes es v) nodes.
Proof.
  intros Hwf Hv w Hw. apply (comp_spec nodes es v w Hwf Hv) in Hw. eapply conn_in_nodes; eauto.
Qed.

(* ---------- the returned value is k/N with 1 <= k <= N ---------- *)
Lemma largest_ge nodes es l v : In v l -> length (comp nodes es v) <=
  fold_right (fun v m => Nat.max (length (comp nodes es v)) m) 0 l.
Proof.
  induction l as [|x l IH]; cbn; [intros []|]. intros [->|H]; [lia|]. specialize (IH H). lia.
Qed.

Lemma largest_le nodes es l b : (forall v, In v l -> length (comp nodes es v) <= b) ->
  fold_right (fun v m => Nat.max (length (comp nodes es v)) m) 0 l <= b.
Proof.
  induction l as [|x l IH]; cbn; intros H; [lia|].
  assert (H1 := H x (or_introl eq_refl)). assert (H2 : forall v, In v l -> length (comp nodes es v) <= b) by (intros; apply H; right; assumption).
  specialize (IH H2). lia.
Qed.

Theorem largest_range nodes es :
  wf nodes es -> nodes <> [] -> 1 <= largest nodes es <= length nodes.
Proof.
  intros Hwf Hne. unfold largest. split.
  - destruct nodes as [|v t]; [contradiction|].
    eapply Nat.le_trans; [|apply (largest_ge (v :: t) es (v :: t) v); left; reflexivity].
    pose proof (comp_self (v :: t) es v) as Hs. destruct (comp (v :: t) es v); [destruct Hs|cbn; lia].
  - apply largest_le. intros v Hv. apply NoDup_incl_length; [apply comp_NoDup|apply comp_incl_nodes; assumption].
Qed.

(* the largest component size is attained by a real component and bounds all of them *)
Theorem largest_spec nodes es : wf nodes es -> nodes <> [] ->
  (exists v, In v nodes /\ largest nodes es = length (comp nodes es v)) /\
  (forall v, In v nodes -> length (comp nodes es v) <= largest nodes es).
Proof.
  intros Hwf Hne. split; [|intros v Hv; apply largest_ge; exact Hv].
  unfold largest. clear Hwf.
  assert (H : forall l, l <> [] -> exists v, In v l /\
     fold_right (fun v m => Nat.max (length (comp nodes es v)) m) 0 l = length (comp nodes es v)).
  { induction l as [|x l IH]; intros Hl; [contradiction|]. cbn.
    destruct l as [|y l'].
    - exists x. split; [left; reflexivity|cbn; lia].
    - destruct IH as [v [Hv E]]; [discriminate|].
      destruct (Nat.le_gt_cases (length (comp nodes es x)) (fold_right (fun v m => Nat.max (length (comp nodes es v)) m) 0 (y :: l'))) as [Hle|Hgt].
      + exists v. split; [right; exact Hv|]. rewrite <- E. lia.
      + exists x. split; [left; reflexivity|lia]. }
  apply H. exact Hne.
Qed.

(* ---------- which edges are kept ---------- *)
Lemma keep_incl es phi rs : incl (keep es phi rs) es.
Proof.
  revert rs. induction es as [|e es IH]; intros [|r rs]; cbn; try (intros x []).
  destruct (Qle_bool r phi); intros x Hx.
  - destruct Hx as [<-|Hx]; [left; reflexivity|right; eapply IH; exact Hx].
  - right. eapply IH; exact Hx.
Qed.

Lemma keep_wf nodes es phi rs : wf nodes es -> wf nodes (keep es phi rs).
Proof. intros Hwf e He. apply Hwf. eapply keep_incl; exact He. Qed.

(* phi = 1: every draw of random() lies in [0,1), so nothing is removed *)
Lemma keep_all es rs : length es <= length rs -> Forall (fun r => (r <= 1)%Q) rs -> keep es 1%Q rs = es.
Proof.
  revert rs. induction es as [|e es IH]; intros [|r rs] Hlen Hall; cbn in *; try reflexivity; [lia|].
  inversion Hall as [|? ? Hr Hrs]; subst.
  rewrite (proj2 (Qle_bool_iff r 1%Q) Hr). f_equal. apply IH; [lia|exact Hrs].
Qed.

(* phi = 0: every draw that is > 0 removes its edge *)
Lemma keep_none es rs : Forall (fun r => (0 < r)%Q) rs -> keep es 0%Q rs = [].
Proof.
  revert rs. induction es as [|e es IH]; intros [|r rs] Hall; cbn; try reflexivity.
  inversion Hall as [|? ? Hr Hrs]; subst.
  destruct (Qle_bool r 0%Q) eqn:E.
  - apply Qle_bool_iff in E. exfalso. apply (Qlt_not_le _ _ Hr). exact E.
  - apply IH. exact Hrs.
Qed.

Lemma comp_no_edges nodes v : comp nodes [] v = [v].
Proof.
  unfold comp. generalize (length nodes) as n. induction n as [|n IH]; cbn; [reflexivity|].
  unfold expand. cbn. exact IH.
Qed.

Theorem percolate_phi1 nodes es rs :
  length es <= length rs -> Forall (fun r => (r <= 1)%Q) rs ->
  percolate nodes es 1%Q rs = (largest nodes es, length nodes).
Proof. intros H1 H2. unfold percolate. rewrite keep_all by assumption. reflexivity. Qed.

Theorem percolate_phi0 nodes es rs :
  nodes <> [] -> Forall (fun r => (0 < r)%Q) rs -> percolate nodes es 0%Q rs = (1, length nodes).
Proof.
  intros Hne Hall. unfold percolate. rewrite keep_none by exact Hall. f_equal.
  unfold largest. destruct nodes as [|v t]; [contradiction|]. clear Hne.
  assert (H : forall l, l <> [] ->
    fold_right (fun v0 m => Nat.max (length (comp (v :: t) [] v0)) m) 0 l = 1).
  { induction l as [|x l IH]; intros Hl; [contradiction|]. cbn [fold_right]. rewrite comp_no_edges.
    destruct l as [|y l']; [reflexivity|]. rewrite IH by discriminate. reflexivity. }
  apply H. discriminate.
Qed.

Theorem percolate_range nodes es phi rs :
  wf nodes es -> nodes <> [] ->
  1 <= fst (percolate nodes es phi rs) <= snd (percolate nodes es phi rs).
Proof. intros Hwf Hne. unfold percolate. cbn [fst snd]. apply largest_range; [apply keep_wf; exact Hwf|exact Hne]. Qed.

(* ---------- the star: N*S - 1 = number of draws <= phi ---------- *)
Definition star (c : nat) (leaves : list nat) : list edge := map (pair c) leaves.

Fixpoint keepL (ls : list nat) (phi : Q) (rs : list Q) : list nat :=
  match ls, rs with
  | l :: ls', r :: rs' => if Qle_bool r phi then l :: keepL ls' phi rs' else keepL ls' phi rs'
  | _, _ => []
  end.

Lemma keep_star c ls phi rs : keep (star c ls) phi rs = star c (keepL ls phi rs).
Proof.
  revert rs. induction ls as [|l ls IH]; intros [|r rs]; cbn; try reflexivity.
  destruct (Qle_bool r phi); cbn; rewrite IH; reflexivity.
Qed.

Lemma keepL_incl ls phi rs : incl (keepL ls phi rs) ls.
Proof.
  revert rs. induction ls as [|l ls IH]; intros [|r rs]; cbn; try (intros x []).
  destruct (Qle_bool r phi); intros x Hx.
  - destruct Hx as [<-|Hx]; [left; reflexivity|right; eapply IH; exact Hx].
  - right. eapply IH; exact Hx.
Qed.

Lemma keepL_NoDup ls phi rs : NoDup ls -> NoDup (keepL ls phi rs).
Proof.
  revert rs. induction ls as [|l ls IH]; intros [|r rs] H; cbn; try constructor.
  inversion H as [|? ? Hx Hnd]; subst.
  destruct (Qle_bool r phi); [|apply IH; exact Hnd].
  constructor; [|apply IH; exact Hnd]. intros Hin. apply Hx. eapply keepL_incl; exact Hin.
Qed.

Lemma keepL_length ls phi rs : length rs = length ls ->
  length (keepL ls phi rs) = length (filter (fun r => Qle_bool r phi) rs).
Proof.
  revert rs. induction ls as [|l ls IH]; intros [|r rs] H; cbn in *; try reflexivity; try discriminate.
  destruct (Qle_bool r phi); cbn; rewrite IH by lia; reflexivity.
Qed.

Lemma adj_star c L u w : adj (star c L) u w <-> (u = c /\ In w L) \/ (w = c /\ In u L).
Proof.
  unfold adj, star. rewrite !in_map_iff. split.
  - intros [[l [[= <- <-] Hl]]|[l [[= <- <-] Hl]]]; [left|right]; split; auto.
  - intros [[-> Hw]|[-> Hu]]; [left; exists w|right; exists u]; split; auto.
Qed.

Lemma conn_star_hub c L v w : In v (c :: L) -> conn (star c L) v w -> In w (c :: L).
Proof.
  intros Hv H. induction H as [v|v u x _ IH Ha]; [exact Hv|].
  apply adj_star in Ha. destruct Ha as [[_ Hx]|[-> _]]; [right; exact Hx|left; reflexivity].
Qed.

Lemma conn_star_isolated c L v w : v <> c -> ~ In v L -> conn (star c L) v w -> w = v.
Proof.
  intros Hc HL H. induction H as [v|v u x _ IH Ha]; [reflexivity|].
  specialize (IH Hc HL). subst u. apply adj_star in Ha. destruct Ha as [[-> _]|[_ Hu]]; contradiction.
Qed.

Lemma conn_star_from_hub c L w : In w (c :: L) -> conn (star c L) c w.
Proof.
  intros [<-|Hw]; [constructor|]. eapply conn_step; [constructor|]. apply adj_star. left. split; [reflexivity|exact Hw].
Qed.

Theorem star_largest c leaves phi rs :
  NoDup (c :: leaves) ->
  largest (c :: leaves) (keep (star c leaves) phi rs) = 1 + length (keepL leaves phi rs).
Proof.
  intros Hnd. rewrite keep_star. set (L := keepL leaves phi rs). set (nodes := c :: leaves).
  assert (HLincl : incl L leaves) by apply keepL_incl.
  assert (Hwf : wf nodes (star c L)).
  { intros e He. apply in_map_iff in He. destruct He as [l [<- Hl]]. cbn. split; [left; reflexivity|right; apply HLincl; exact Hl]. }
  assert (HndL : NoDup (c :: L)).
  { inversion Hnd as [|? ? Hx Hl]; subst. constructor; [intros H; apply Hx; apply HLincl; exact H|apply keepL_NoDup; exact Hl]. }
  apply Nat.le_antisymm.
  - apply largest_le. intros v Hv.
    destruct (in_dec Nat.eq_dec v (c :: L)) as [Hin|Hnin].
    + change (1 + length L) with (length (c :: L)).
      apply NoDup_incl_length; [apply comp_NoDup|]. intros w Hw.
      apply (comp_spec nodes (star c L) v w Hwf Hv) in Hw. eapply conn_star_hub; eauto.
    + assert (Hsub : incl (comp nodes (star c L) v) [v]).
      { intros w Hw. apply (comp_spec nodes (star c L) v w Hwf Hv) in Hw.
        left. symmetry. eapply conn_star_isolated; [| |exact Hw]; intros H; apply Hnin; [left; symmetry; exact H|right; exact H]. }
      pose proof (NoDup_incl_length (comp_NoDup nodes (star c L) v) Hsub) as Hl. change (length [v]) with 1 in Hl. lia.
  - eapply Nat.le_trans; [|apply (largest_ge nodes (star c L) nodes c); left; reflexivity].
    change (1 + length L) with (length (c :: L)).
    apply NoDup_incl_length; [exact HndL|]. intros w Hw.
    apply (comp_spec nodes (star c L) c w Hwf); [left; reflexivity|apply conn_star_from_hub; exact Hw].
Qed.

Theorem star_binomial_count c leaves phi rs :
  NoDup (c :: leaves) -> length rs = length leaves ->
  fst (percolate (c :: leaves) (star c leaves) phi rs) =
  1 + length (filter (fun r => Qle_bool r phi) rs).
Proof.
  intros Hnd Hlen. unfold percolate. cbn [fst]. rewrite star_largest by exact Hnd.
  rewrite keepL_length by exact Hlen. reflexivity.
Qed.

(* each edge is kept exactly when its own draw is <= phi, whatever the other draws are *)
Theorem kept_iff_draw es phi rs i e r :
  nth_error es i = Some e -> nth_error rs i = Some r -> NoDup es ->
  (In e (keep es phi rs) <-> (r <= phi)%Q).
Proof.
  revert rs i. induction es as [|e0 es IH]; intros [|r0 rs] [|i] He Hr Hnd; cbn in *; try discriminate.
  - injection He as ->. injection Hr as ->. inversion Hnd as [|? ? Hx _]; subst.
    destruct (Qle_bool r phi) eqn:E.
    + split; [intros _; apply Qle_bool_iff; exact E|intros _; left; reflexivity].
    + split.
      * intros Hin. exfalso. apply Hx. eapply keep_incl; exact Hin.
      * intros Hle. apply Qle_bool_iff in Hle. congruence.
  - inversion Hnd as [|? ? Hx Hnd']; subst.
    assert (Hne : e0 <> e). { intros ->. apply Hx. eapply nth_error_In; exact He. }
    rewrite <- (IH rs i He Hr Hnd').
    destruct (Qle_bool r0 phi); cbn; [|tauto]. split; [intros [H|H]; [contradiction|exact H]|tauto].
Qed.
